import Gallia.Proofs.Lemmas.Lines
import Gallia.Proofs.Lemmas.LinesExec
import Gallia.Gen.C19Lines
/-
  C19 — Line-based transports deliver every message intact, in order, one per read.
  Property theorems only; helper lemmas are in `Proofs/Lemmas/Lines.lean`.
-/
namespace Gallia.C19
open Gallia Gallia.Framing Gallia.Lines

/-- the wire text of a message decodes to that message (content intact, any bytes, any length) -/
theorem unhex_hex (m : Bytes) : unhexB (hexB m) = some m := unhexB_hexB_append m

/-- hex text never contains the line terminator, so message boundaries are unambiguous -/
theorem hex_no_newline (m : Bytes) : NL ∉ hexB m := nl_not_mem_hexB m

/-- one message per read: whatever follows an encoded message in the buffer (further coalesced messages,
    a partial line) is left for later reads, untouched -/
theorem one_message_per_read (m rest : Bytes) (eof : Bool) :
    readLine (enc m ++ rest) eof = (.msg m, rest) := by
  unfold readLine enc
  rw [List.append_assoc, List.singleton_append, cutLine_line _ _ (nl_not_mem_hexB m)]
  simp [decodeLine, strip_hexB, unhexB_hexB_append]

/-- any sequence of messages followed by an unterminated tail is cut into exactly those lines, in order -/
theorem frames_exact (ms : List Bytes) (tail : Bytes) (ht : NL ∉ tail) :
    parseAll lineCutter ((ms.map enc).flatten ++ tail) = (ms.map hexB, tail) := by
  have key := parseAll_encodeAll lineCutter (fun l => l ++ [NL]) (fun l => NL ∉ l)
    (by intro l rest hl; simpa [lineCutter, List.append_assoc] using cutLine_line l rest hl)
    (ms.map hexB) tail
    (by intro f hf; simp only [List.mem_map] at hf; obtain ⟨m, _, rfl⟩ := hf; exact nl_not_mem_hexB m)
    (by simpa [lineCutter] using cutLine_none_iff.mpr ht)
  have e : (ms.map hexB).map (fun l => l ++ [NL]) = ms.map enc := by simp [enc, List.map_map, Function.comp_def]
  rw [e] at key; exact key

/-- ... and every such line decodes to the message that was sent -/
theorem delivered_exactly (ms : List Bytes) (tail : Bytes) (ht : NL ∉ tail) :
    (parseAll lineCutter ((ms.map enc).flatten ++ tail)).1.map decodeLine = ms.map ReadRes.msg := by
  rw [frames_exact ms tail ht]
  simp [List.map_map, Function.comp_def, decodeLine, strip_hexB, unhexB_hexB_append]

/-- every segmentation of the byte stream (every split, every coalescing) yields the same lines and
    the same buffered tail as the unsegmented stream -/
theorem lines_any_segmentation (chunks : List Bytes) :
    chunks.foldl (feed lineCutter) ([], []) =
      ((parseAll lineCutter chunks.flatten).1, (parseAll lineCutter chunks.flatten).2) := by
  have := feed_chunks lineCutter chunks [] [] (by simp [lineCutter, cutLine])
  simpa using this

/-- hence: however the encoded messages are segmented, the reader ends up with exactly these messages -/
theorem messages_any_segmentation (ms : List Bytes) (chunks : List Bytes)
    (h : chunks.flatten = (ms.map enc).flatten) :
    (chunks.foldl (feed lineCutter) ([], [])).1.map decodeLine = ms.map ReadRes.msg ∧
    (chunks.foldl (feed lineCutter) ([], [])).2 = [] := by
  rw [lines_any_segmentation, h]
  have := frames_exact ms [] (by simp)
  simp only [List.append_nil] at this
  rw [this]
  simp [List.map_map, Function.comp_def, decodeLine, strip_hexB, unhexB_hexB_append]

/-- a read that finds no complete line blocks and consumes nothing -/
theorem timeout_consumes_nothing (buf : Bytes) (h : NL ∉ buf) : readLine buf false = (.pending, buf) := by
  simp [readLine, cutLine_none_iff.mpr h]

/-- a timeout at *any* point of a partially delivered line: the part delivered so far stays buffered and the
    next read after the remainder arrived returns the complete message -/
theorem read_after_timeout (m a b rest : Bytes) (hsplit : enc m = a ++ b) (hb : b ≠ []) :
    readLine a false = (.pending, a) ∧ readLine (a ++ (b ++ rest)) false = (.msg m, rest) := by
  constructor
  · apply timeout_consumes_nothing
    intro hmem
    -- `a` is a proper prefix of `hexB m ++ [NL]`, so it is a prefix of `hexB m`
    have hlen : a.length ≤ (hexB m).length := by
      have := congrArg List.length hsplit
      simp [enc] at this
      have : b.length ≠ 0 := by simpa using hb
      omega
    have : a = (hexB m).take a.length := by
      have h1 : (enc m).take a.length = a := by rw [hsplit]; simp
      rw [← h1, enc, List.take_append_of_le_length hlen]
      simp
    rw [this] at hmem
    exact nl_not_mem_hexB m (List.mem_of_mem_take hmem)
  · rw [← List.append_assoc, ← hsplit]; exact one_message_per_read m rest false

/-- end of stream is reported as such -- also when an unterminated tail is left in the buffer -- and it is
    distinguishable from every (non-empty) message at the API -/
theorem eos_distinct :
    readLine [] true = (.eos, []) ∧
    (∀ tail, NL ∉ tail → (readLine tail true).1 = .eos) ∧
    (∀ m : Bytes, m ≠ [] → (ReadRes.msg m).toApi ≠ ReadRes.eos.toApi) := by
  refine ⟨by simp [readLine, cutLine], ?_, ?_⟩
  · intro tail h; simp [readLine, cutLine_none_iff.mpr h]
  · intro m hm h; simp [ReadRes.toApi] at h; exact hm h

/-- the encoded form of a message is never empty (so an empty read can only mean end-of-stream) -/
theorem enc_ne_nil (m : Bytes) : enc m ≠ [] := by simp [enc]

/-! ### server loop -/

/-- the replies a handler gives to a sequence of requests, threading its state -/
def answers {σ} (h : σ → Bytes → σ × Option Bytes) : σ → List Bytes → σ × List (Option Bytes)
  | s, [] => (s, [])
  | s, m :: ms =>
    let (s', r) := h s m
    let (s'', rs) := answers h s' ms
    (s'', r :: rs)

/-- the server loop answers the coalesced requests one by one, in order, one reply line per answered
    request, nothing for suppressed replies, and leaves an incomplete request line buffered -/
theorem serve_replies {σ} (h : σ → Bytes → σ × Option Bytes) (s : σ) (ms : List Bytes) (tail : Bytes)
    (ht : NL ∉ tail) (fuel : Nat) (hf : ms.length < fuel) :
    serve h fuel s ((ms.map enc).flatten ++ tail) =
      ((answers h s ms).1, (((answers h s ms).2.filterMap id).map enc).flatten, false, tail) := by
  induction ms generalizing s fuel with
  | nil =>
    cases fuel with
    | zero => simp at hf
    | succ n => simp [serve, answers, cutLine_none_iff.mpr ht]
  | cons m ms ih =>
    cases fuel with
    | zero => simp at hf
    | succ n =>
      have hn : ms.length < n := by simp at hf; omega
      simp only [List.map_cons, List.flatten_cons, List.append_assoc, serve, enc]
      rw [List.singleton_append, cutLine_line _ _ (nl_not_mem_hexB m)]
      simp only [decodeLine, strip_hexB, unhexB_hexB_append, answers]
      have := ih (h s m).1 n hn
      rw [this]
      cases hr : (h s m).2 <;> simp [enc]

/-- non-vacuity: a concrete burst with a partial tail -/
example : readLine (enc [0x3e, 0x00] ++ enc [0x10, 0x01] ++ [0x33]) false = (.msg [0x3e, 0x00], enc [0x10, 0x01] ++ [0x33]) := by
  decide

/-! ### the client as a whole execution (`Model/LinesExec.lean`: `cstep`, `crun`) -/

/-- **client_trace_spec.**  For EVERY operation sequence (feeds cut anywhere, end-of-stream anywhere, reads, writes,
    requests, close in any order): the result of the read (or request) at any position is determined by the message
    sequence specification alone - it is the decoding of line number `k` of the stream delivered so far, where `k` is
    the number of lines the earlier reads handed out (so: in order, each once); when the delivered stream holds no
    further complete line it is `eos` if the stream has ended and `pending` (the read blocks / times out) otherwise. -/
theorem client_trace_spec (pre post : List Op) (op : Op) (hop : op = .read ∨ ∃ m, op = .request m) :
    (crun {} (pre ++ op :: post)).2[pre.length]? =
      some (.res (specRead (fedBytes false pre) (lineResults (crun {} pre).2).length (eofSeen false pre))) := by
  obtain ⟨extra, hR, hl, he⟩ := rel_run pre rel_init
  have h1 := (rel_read hR).1
  have hlen := crun_length ({} : Client) pre
  simp only [List.nil_append] at h1 hl
  rw [crun_append]
  simp only [crun]
  rw [List.getElem?_append_right (by omega), hlen, Nat.sub_self, List.getElem?_cons_zero, hl, List.length_map, ← he, ← h1]
  rcases hop with rfl | ⟨m, rfl⟩ <;> simp [cstep]

/-- `pending` exactly when no complete line is left and the stream is still open -/
theorem read_pending_iff (S : Bytes) (k : Nat) (ended : Bool) :
    specRead S k ended = .pending ↔ (linesOf S).length ≤ k ∧ ended = false := by
  unfold specRead
  cases h : (linesOf S)[k]? with
  | some l =>
    have := (List.getElem?_eq_some_iff.mp h).1
    simp [(decodeLine_ne_pending l).1]; omega
  | none => cases ended <;> simp [List.getElem?_eq_none_iff.mp h]

/-- `eos` exactly when the stream has ended with no complete line left -/
theorem read_eos_iff (S : Bytes) (k : Nat) (ended : Bool) :
    specRead S k ended = .eos ↔ (linesOf S).length ≤ k ∧ ended = true := by
  unfold specRead
  cases h : (linesOf S)[k]? with
  | some l =>
    have := (List.getElem?_eq_some_iff.mp h).1
    simp [(decodeLine_ne_pending l).2]; omega
  | none => cases ended <;> simp [List.getElem?_eq_none_iff.mp h]

/-- in order, each once: over any operation sequence (from any client whose reader buffer is empty) the lines handed
    out by the reads are exactly the first `n` lines of the stream delivered so far, `n` being their number -/
theorem client_reads_in_order_from (c : Client) (hb : c.buf = []) (ops : List Op) :
    lineResults (crun c ops).2 =
      ((linesOf (fedBytes c.eof ops)).take (lineResults (crun c ops).2).length).map decodeLine := by
  obtain ⟨extra, hR, hl, _⟩ := rel_run ops (rel_fresh c hb)
  have := rel_lines hR
  simp only [List.nil_append] at this hl
  rw [hl, this]
  simp

theorem client_reads_in_order (ops : List Op) :
    lineResults (crun {} ops).2 =
      ((linesOf (fedBytes false ops)).take (lineResults (crun {} ops).2).length).map decodeLine :=
  client_reads_in_order_from {} rfl ops

/-- ... and nothing is lost: once a read finds nothing (it blocks, or reports end-of-stream), every complete line of
    the delivered stream has been handed out -/
theorem client_drained (ops : List Op)
    (h : (cstep (crun {} ops).1 .read).2 = .res .pending ∨ (cstep (crun {} ops).1 .read).2 = .res .eos) :
    lineResults (crun {} ops).2 = (linesOf (fedBytes false ops)).map decodeLine := by
  obtain ⟨extra, hR, hl, _⟩ := rel_run ops rel_init
  have hlines := rel_lines hR
  have hr := (rel_read hR).1
  simp only [List.nil_append] at hlines hl hr
  have hlen : (linesOf (fedBytes false ops)).length ≤ extra.length := by
    simp only [cstep] at h
    rcases h with h | h
    · injection h with h; rw [hr] at h; exact ((read_pending_iff _ _ _).mp h).1
    · injection h with h; rw [hr] at h; exact ((read_eos_iff _ _ _).mp h).1
  have : linesOf (crun {} ops).1.buf = [] := by
    rw [hlines] at hlen
    simp at hlen
    exact List.eq_nil_of_length_eq_zero (by omega)
  rw [hl, hlines, this]; simp

/-- messages in, messages out: when the delivered bytes are the encodings of `ms` (cut and interleaved with reads,
    writes and timeouts in any way) plus an incomplete tail, the reads hand out a prefix of `ms`, intact and in order -/
theorem client_delivers_messages_from (c : Client) (hb : c.buf = []) (ops : List Op) (ms : List Bytes) (tail : Bytes)
    (ht : NL ∉ tail) (hfed : fedBytes c.eof ops = (ms.map enc).flatten ++ tail) :
    lineResults (crun c ops).2 = (ms.take (lineResults (crun c ops).2).length).map ReadRes.msg := by
  have h := client_reads_in_order_from c hb ops
  rw [hfed, linesOf, frames_exact ms tail ht] at h
  refine h.trans ?_
  simp only [← List.map_take, List.map_map]
  apply List.map_congr_left
  intro m _
  simp [decodeLine, strip_hexB, unhexB_hexB_append]

theorem client_delivers_messages (ops : List Op) (ms : List Bytes) (tail : Bytes) (ht : NL ∉ tail)
    (hfed : fedBytes false ops = (ms.map enc).flatten ++ tail) :
    lineResults (crun {} ops).2 = (ms.take (lineResults (crun {} ops).2).length).map ReadRes.msg :=
  client_delivers_messages_from {} rfl ops ms tail ht hfed

/-- a timed-out read consumes nothing - over sequences: a read that blocks, placed anywhere in any execution, leaves
    the final state and every other observation exactly as if it had not been issued -/
theorem timed_out_read_consumes_nothing (c : Client) (pre post : List Op)
    (h : (cstep (crun c pre).1 .read).2 = .res .pending) :
    crun c (pre ++ .read :: post) =
      ((crun c (pre ++ post)).1, (crun c pre).2 ++ .res .pending :: (crun (crun c pre).1 post).2) := by
  rw [crun_append, crun_append]
  simp only [crun, h, cstep_read_pending h]

/-! ### write side -/

/-- `write(msg)` hands exactly `hex(msg) ++ "\n"` to the stream, for every message (no length limit), appends it to
    what was written before, touches nothing else and returns `len(msg)`; a burst of writes puts the encodings on the
    wire in order -/
theorem write_emits_exactly (c : Client) (ms : List Bytes) :
    (crun c (ms.map .write)).1 = { c with out := c.out ++ (ms.map (fun m => hexB m ++ [NL])).flatten } ∧
    (crun c (ms.map .write)).2 = ms.map (fun m => .wrote m.length) := by
  have e : (ms.map enc) = ms.map (fun m => hexB m ++ [NL]) := rfl
  constructor <;> simp [crun_writes, e]

/-- the wire form of a message of `n` bytes is `2 n + 1` bytes long, whatever `n` is -/
theorem enc_length (m : Bytes) : (enc m).length = 2 * m.length + 1 := by
  have : ∀ m : Bytes, (hexB m).length = 2 * m.length := by
    intro m; induction m with
    | nil => rfl
    | cons b t ih => simp [hexB, ih]; omega
  simp [enc, this]

/-- `request()` is `write` followed by `read` (`request_unsafe`; the mutex of `request()` makes the pair atomic
    among the users of one transport - C05): in any execution a request can be replaced by the two operations -/
theorem request_is_write_then_read (c : Client) (pre post : List Op) (m : Bytes) :
    (crun c (pre ++ .request m :: post)).1 = (crun c (pre ++ .write m :: .read :: post)).1 ∧
    (crun c (pre ++ .request m :: post)).2 =
      (crun c pre).2 ++ (crun c (pre ++ .write m :: .read :: post)).2.drop (pre.length + 1) := by
  rw [crun_append, crun_append]
  simp only [crun, cstep]
  refine ⟨trivial, ?_⟩
  rw [List.drop_append]
  simp [crun_length]

/-- non-vacuity of the whole-execution theorems: a script with a split hex digit pair, a timeout inside the line,
    two lines in one chunk and the end of the stream inside a line -/
example : (crun {} [.feed [0x33], .read, .feed [0x65, 0x0A, 0x31, 0x30, 0x0A, 0x32], .read, .read, .read, .eof, .read]).2 =
    [.ok, .res .pending, .ok, .res (.msg [0x3e]), .res (.msg [0x10]), .res .pending, .ok, .res .eos] := by decide

/-! ### write side under flow control (`fstep`, `frun`) -/

/-- **failed_write_half_consumes_nothing.**  For EVERY execution with flow control (the writer stalls and resumes anywhere;
    writes and requests issued while it is stalled fail in their write half with a timeout / the caller's cancellation):
    the client ends in exactly the state, and all its reads and successful requests return exactly the results, of the
    execution without flow control in which each failed request is a plain `write` - the failed exchange has queued its
    line and consumed nothing from the reader.  With `client_trace_spec` / `client_reads_in_order` (about `crun`) this
    gives: the reads still return the peer's lines in order, each once. -/
theorem failed_write_half_consumes_nothing (f : FClient) (ops : List FOp) :
    (frun f ops).1.c = (crun f.c (eraseFlow f.stalled ops)).1 ∧
    freadResults (frun f ops).2 = readResults (crun f.c (eraseFlow f.stalled ops)).2 := by
  induction ops generalizing f with
  | nil => simp [frun, crun, eraseFlow, freadResults, readResults]
  | cons op ops ih =>
    cases op with
    | stall => simpa [frun, fstep, eraseFlow, freadResults] using ih { f with stalled := true }
    | resume => simpa [frun, fstep, eraseFlow, freadResults] using ih { f with stalled := false }
    | base o =>
      cases hs : f.stalled <;> cases o <;>
        simp [frun, fstep, eraseFlow, eraseOp, crun, cstep, freadResults, readResults, hs, ih] <;>
        (split <;> simp [freadResults, readResults, ih])

/-- a request whose write half fails leaves the reader alone: the next read returns what a read in its place would
    have returned (and the request line is queued exactly once) -/
theorem failed_request_then_read (f : FClient) (hs : f.stalled = true) (m : Bytes) :
    (fstep (fstep f (.base (.request m))).1 (.base .read)).2 = (fstep f (.base .read)).2 ∧
    (fstep f (.base (.request m))).1.c.out = f.c.out ++ enc m ∧
    (fstep f (.base (.request m))).2 = .wtimeout := by
  simp [fstep, hs, cstep]

/-- non-vacuity: a message is buffered, the writer stalls, a request fails in its write half, a second message arrives,
    the writer resumes: the reads return both messages in order, the request after that gets the third -/
example : (frun {} [.base (.feed (enc [0x3e, 0x00])), .stall, .base (.request [0x10, 0x01]), .base (.feed (enc [0xf1])), .resume,
      .base .read, .base .read, .base .read, .base (.feed (enc [0x50])), .base (.request [0x11])]).2 =
    [.base .ok, .ok, .wtimeout, .base .ok, .ok, .base (.res (.msg [0x3e, 0x00])), .base (.res (.msg [0xf1])),
      .base (.res .pending), .base .ok, .base (.res (.msg [0x50]))] := by decide

/-! ### obligations against the tables regenerated from the code (`gen/c19_lines.py` -> `Gen/C19Lines.lean`) -/

/-- the code facts the model rests on, as read off the AST on this run: `write` hands `hexlify(data) + b"\n"` to the
    stream, returns `len(data)` and has no size guard; `read` is `readline` under `wait_for`, the newline test, `decode()`,
    `strip()`, `unhexlify`; `request_unsafe` is `write` then `read` and `request` runs it under the transport mutex;
    neither the clients' connect calls nor the servers' `run()` pass a `limit` (or any keyword) to asyncio; the server
    loop body is readline / newline test -> break / decode("ascii") / strip() / unhexlify / handle_request / reply only
    `if ... is not None` / hexlify + newline / drain, any `Exception` -> break; the unix server only overrides `run` -/
theorem code_facts_agree :
    Gen.C19Lines.writeGuards = [] ∧
    Gen.C19Lines.writeArg = "binascii.hexlify(data) + b'\\n'" ∧
    Gen.C19Lines.writeReturns = ["len(data)"] ∧
    Gen.C19Lines.readCalls = ["readline()", "wait_for(self.get_reader().readline(), timeout)", "endswith(b'\\n')",
      "decode()", "strip()", "unhexlify(d)"] ∧
    Gen.C19Lines.requestUnsafeCalls = ["write", "read"] ∧ Gen.C19Lines.requestLocked = true ∧
    Gen.C19Lines.connectTcpKw = ([], 2) ∧ Gen.C19Lines.connectUnixKw = ([], 1) ∧
    Gen.C19Lines.runTcpKw = ([], 3) ∧ Gen.C19Lines.runUnixKw = ([], 2) ∧
    Gen.C19Lines.loopCalls = ["readline", "endswith", "decode", "strip", "unhexlify", "handle_request", "append",
      "hexlify", "write", "drain"] ∧
    Gen.C19Lines.loopDecodeArgs = ["'ascii'"] ∧ Gen.C19Lines.loopStripArgs = [] ∧
    Gen.C19Lines.loopExcepts = [("Exception", "Break")] ∧
    Gen.C19Lines.loopIfs = [("not line.endswith(b'\\n')", "Break"), ("uds_response_raw is not None", "Expr")] ∧
    Gen.C19Lines.loopWriteArgs = ["hexlify(uds_response_raw) + b'\\n'"] ∧
    Gen.C19Lines.unixServerMethods = ["run"] ∧ Gen.C19Lines.unixServerBases = ["TCPUDSServerTransport"] := by
  decide

/-- the only length limit on either side is the StreamReader's (asyncio default, no `limit` passed - see above): every
    line of a message of the property's range (1..4095 bytes), and of any message up to 32767 bytes, fits -/
theorem limits_cover_property_range (m : Bytes) (h : m.length ≤ 32767) :
    (enc m).length ≤ Gen.C19Lines.defaultLimit := by
  rw [enc_length]
  have : Gen.C19Lines.defaultLimit = 65536 := by decide
  omega

/-- tolerant decoding, as `strip()` + `unhexlify` do it: hex digits in either case (any mix), surrounded by any ASCII
    whitespace (blanks, tabs, the `\r` of a CRLF line ending) decode to the same message as the canonical spelling -/
theorem decode_tolerant (m : Bytes) (pre ds post : Bytes) (hds : ds.map lowerB = hexB m)
    (hpre : ∀ x ∈ pre, isWs x = true) (hpost : ∀ x ∈ post, isWs x = true) :
    decodeLine (pre ++ ds ++ post) = .msg m := by
  obtain ⟨h1, h2⟩ := unhexB_anycase m ds hds
  unfold decodeLine
  rw [strip_padded pre ds post hpre hpost h2, h1]

example : decodeLine ([0x20, 0x09] ++ [0x33, 0x45, 0x66, 0x46] ++ [0x20, 0x0D]) = .msg [0x3e, 0xff] :=
  decode_tolerant [0x3e, 0xff] _ _ _ (by decide) (by decide) (by decide)

/-! ### the server loop as a whole execution (`srvLoop`, `srvFeed`, `srvEof`) -/

/-- request lines `ls` (any spelling that decodes: lower / upper case, CRLF, surrounding blanks) carrying the requests
    `ms`, none of which makes the handler raise, followed by an incomplete tail: the loop hands the requests over in
    order, writes ONE reply line per answered request, NOTHING for an unanswered one, in request order; it then waits
    with the tail buffered - or, at end-of-stream, ends and drops the tail without handling it -/
theorem server_replies_in_order {σ : Type} (h : σ → Bytes → σ × HRes) (st : σ) (ls ms : List Bytes) (tail : Bytes) (eof : Bool)
    (hl : ∀ l ∈ ls, NL ∉ l) (hd : ls.map decodeLine = ms.map ReadRes.msg)
    (hr : ∀ r ∈ (answersX h st ms).2, r ≠ .raised) (ht : NL ∉ tail) :
    srvLoop h st (joinLines ls ++ tail) eof =
      ((answersX h st ms).1, ((repliesOf (answersX h st ms).2).map enc).flatten,
       if eof then (if tail = [] then .eofClean else .eofTail) else .waiting, if eof then [] else tail) := by
  rw [srvLoop_lines h st ls ms tail eof hl hd hr, srvLoop_none h _ eof (cutLine_none_iff.mpr ht), flatten_replyBytes]
  cases eof <;> simp

/-- the same for requests in canonical spelling (what the client's `write` produces) -/
theorem server_replies_to_client_writes {σ : Type} (h : σ → Bytes → σ × HRes) (st : σ) (ms : List Bytes) (tail : Bytes)
    (hr : ∀ r ∈ (answersX h st ms).2, r ≠ .raised) (ht : NL ∉ tail) :
    srvLoop h st ((ms.map enc).flatten ++ tail) false =
      ((answersX h st ms).1, ((repliesOf (answersX h st ms).2).map enc).flatten, .waiting, tail) := by
  have := server_replies_in_order h st (ms.map hexB) ms tail false
    (by intro l hl; simp only [List.mem_map] at hl; obtain ⟨m, _, rfl⟩ := hl; exact nl_not_mem_hexB m)
    (by simp [List.map_map, Function.comp_def, decodeLine, strip_hexB, unhexB_hexB_append]) hr ht
  rw [joinLines_map_hexB] at this
  simpa using this

/-- what ends the loop besides end-of-stream: a complete line that is not hex text, or a request on which the handler
    raises.  The replies to the earlier requests have been written; nothing is written for the offending line; whatever
    follows it (`rest`) stays unread - the connection is left open but is no longer served -/
theorem server_loop_ends {σ : Type} (h : σ → Bytes → σ × HRes) (st : σ) (ls ms : List Bytes) (l rest : Bytes) (eof : Bool)
    (hl : ∀ l ∈ ls, NL ∉ l) (hd : ls.map decodeLine = ms.map ReadRes.msg)
    (hr : ∀ r ∈ (answersX h st ms).2, r ≠ .raised) (hnl : NL ∉ l) :
    (decodeLine l = .bad →
      srvLoop h st (joinLines ls ++ (l ++ NL :: rest)) eof =
        ((answersX h st ms).1, ((repliesOf (answersX h st ms).2).map enc).flatten, .undecodable, rest)) ∧
    (∀ m, decodeLine l = .msg m → (h (answersX h st ms).1 m).2 = .raised →
      srvLoop h st (joinLines ls ++ (l ++ NL :: rest)) eof =
        ((h (answersX h st ms).1 m).1, ((repliesOf (answersX h st ms).2).map enc).flatten, .handlerRaised, rest)) := by
  constructor
  · intro hb
    rw [srvLoop_lines h st ls ms _ eof hl hd hr, srvLoop_bad h _ l rest eof hnl hb, flatten_replyBytes]
    simp
  · intro m hm hraise
    rw [srvLoop_lines h st ls ms _ eof hl hd hr, srvLoop_raise h _ l rest eof m hnl hm hraise, flatten_replyBytes]
    simp

/-- the empty line (also `\r\n`, or blanks only) decodes to the empty request; `handle_request(b"")` raises, so it ends
    the loop like any other raising request.  Empty messages are outside the property (lengths 1..4095). -/
theorem server_empty_line_ends {σ : Type} (h : σ → Bytes → σ × HRes) (st : σ) (l rest : Bytes) (eof : Bool)
    (hnl : NL ∉ l) (hs : strip l = []) (hraise : (h st []).2 = .raised) :
    srvLoop h st (l ++ NL :: rest) eof = ((h st []).1, [], .handlerRaised, rest) := by
  have := (server_loop_ends h st [] [] l rest eof (by simp) (by simp) (by simp [answersX]) hnl).2 []
    (by simp [decodeLine, hs, unhexB]) (by simpa [answersX] using hraise)
  simpa [joinLines, answersX, repliesOf] using this

/-- once the loop has ended nothing is ever written again, whatever arrives: the bytes only pile up unread -/
theorem server_dead_after_end {σ : Type} (h : σ → Bytes → σ × HRes) (s : Srv σ) (hs : s.fin ≠ .waiting) (chunks : List Bytes) :
    (chunks.foldl (srvFeed h) s).out = s.out ∧ (chunks.foldl (srvFeed h) s).fin = s.fin ∧
    (chunks.foldl (srvFeed h) s).st = s.st ∧ (chunks.foldl (srvFeed h) s).buf = s.buf ++ chunks.flatten := by
  rw [srvFeed_dead h s hs chunks]; simp

/-- the server side is independent of the segmentation of the request stream: feeding the chunks one by one leaves
    the connection in exactly the state of the loop run on their concatenation -/
theorem server_any_segmentation {σ : Type} (h : σ → Bytes → σ × HRes) (st : σ) (chunks : List Bytes) :
    chunks.foldl (srvFeed h) { st := st } = ({ st := st } : Srv σ).after (srvLoop h st chunks.flatten false) := by
  have := srvFeed_chunks h { st := st } rfl (by simp) chunks
  simpa using this

/-! ### both directions composed -/

/-- **client_server_exchange.**  A client writes the requests `ms`; the request bytes reach the server loop in ANY
    segmentation, the reply bytes reach the client in ANY segmentation; then `n` reads return exactly the server's
    replies to those requests - one per read, in request order, nothing for unanswered requests - followed by
    timeouts only -/
theorem client_server_exchange {σ : Type} (h : σ → Bytes → σ × HRes) (st : σ) (ms : List Bytes)
    (seg1 seg2 : Bytes → List Bytes) (n : Nat)
    (h1 : ∀ b, (seg1 b).flatten = b) (h2 : ∀ b, (seg2 b).flatten = b)
    (hr : ∀ r ∈ (answersX h st ms).2, r ≠ .raised) :
    exchange h st ms seg1 seg2 n =
      ((repliesOf (answersX h st ms).2).take n).map (fun r => Obs.res (.msg r)) ++
        List.replicate (n - (repliesOf (answersX h st ms).2).length) (.res .pending) := by
  unfold exchange
  simp only [crun_writes, List.nil_append]
  rw [server_any_segmentation, h1]
  have hs := server_replies_to_client_writes h st ms [] hr (by simp)
  simp only [List.append_nil] at hs
  simp only [Srv.after, hs, List.nil_append]
  rw [crun_append, crun_feeds _ rfl]
  simp only [h2, List.nil_append, List.length_replicate, List.drop_left']
  exact crun_reads _ rfl _ rfl n

/-- ... and with the client scheduled in any way (reads before, between and after the pieces of the reply stream,
    timeouts anywhere, further writes): what its reads hand out is a prefix of the server's replies, intact, in order -/
theorem client_server_exchange_any_schedule {σ : Type} (h : σ → Bytes → σ × HRes) (st : σ) (ms : List Bytes)
    (chunks : List Bytes) (hch : chunks.flatten = (crun {} (ms.map .write)).1.out)
    (hr : ∀ r ∈ (answersX h st ms).2, r ≠ .raised)
    (ops : List Op) (hfed : fedBytes false ops = (chunks.foldl (srvFeed h) { st := st }).out) :
    lineResults (crun (crun {} (ms.map .write)).1 ops).2 =
      ((repliesOf (answersX h st ms).2).take (lineResults (crun (crun {} (ms.map .write)).1 ops).2).length).map ReadRes.msg := by
  rw [server_any_segmentation, hch] at hfed
  simp only [crun_writes, List.nil_append] at hfed ⊢
  have hs := server_replies_to_client_writes h st ms [] hr (by simp)
  simp only [List.append_nil] at hs
  simp only [Srv.after, hs, List.nil_append] at hfed
  exact client_delivers_messages_from _ rfl ops _ [] (by simp) (by simpa using hfed)

/-- non-vacuity: a handler that answers, stays silent and raises -/
def exampleHandler (n : Nat) (m : Bytes) : Nat × HRes :=
  (n + 1, if m = [] then .raised else if m = [0x10] then .silent else .reply (m ++ [UInt8.ofNat n]))

example : exchange exampleHandler 0 [[0x3e], [0x10], [0x27]] (cutBy [1, 2]) (cutBy [3]) 3 =
    [.res (.msg [0x3e, 0x00]), .res (.msg [0x27, 0x02]), .res .pending] := by
  rw [client_server_exchange exampleHandler 0 _ _ _ 3 (cutBy_flatten _) (cutBy_flatten _) (by decide)]
  decide

/-- an upper-case CRLF request is answered, the empty line that follows ends the loop, the request after it is never
    served -/
example : srvLoop exampleHandler 0 (joinLines [[0x33, 0x45, 0x0D]] ++ ([] ++ NL :: [0x33, 0x65, 0x0A])) false =
    (2, [0x33, 0x65, 0x30, 0x30, 0x0A], .handlerRaised, [0x33, 0x65, 0x0A]) :=
  (server_loop_ends exampleHandler 0 [[0x33, 0x45, 0x0D]] [[0x3e]] [] [0x33, 0x65, 0x0A] false
    (by decide) (by decide) (by decide) (by decide)).2 [] (by decide) (by decide)

end Gallia.C19
