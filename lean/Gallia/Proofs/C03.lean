import Gallia.Model.UdsMatch
import Gallia.Spec.Reply
import Gallia.Gen.C03Tables
namespace Gallia.C03
open Gallia Gallia.UdsReq Gallia.UdsResp Gallia.UdsMatch

/-- (T) every response code of the regenerated `UDSErrorCodes` has an entry in the regenerated exception map -/
theorem exception_total : ∀ c ∈ Gen.C03Tables.errorCodes, c ∈ Gen.C03Tables.exceptionTable.map (·.1) := by decide

end Gallia.C03
