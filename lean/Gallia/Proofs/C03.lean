import Gallia.Proofs.Lemmas.UdsMatch
import Gallia.Proofs.Lemmas.ClientMatch
import Gallia.Model.UdsHelpers
import Gallia.Gen.C03Tables
/-
  C03 — genuine replies are always accepted, foreign or stale replies always refused.

  `parsePdu` (Model/UdsMatch.lean) is `helpers.parse_pdu` over the C01 request oracle and the C02 response oracle;
  `Genuine` / `Foreign` / `UndecodableSameService` (Spec/Reply.lean) are the property's own classes, written on the bytes
  of the reply and the fields of the outstanding request.  All theorems hold for every well-formed request of every
  kind (incl. raw requests) and every byte string; nothing is bounded.  Helper lemmas: Proofs/Lemmas/UdsMatch.lean.
-/
namespace Gallia.C03
open Gallia Gallia.UdsReq Gallia.UdsResp Gallia.UdsMatch Gallia.Reply

/-! ### (T) regenerated tables -/

/-- every response code of the regenerated `UDSErrorCodes` has a class in the regenerated NRC → exception map, so
    `UnexpectedNegativeResponse.parse_dynamic` (hence `raise_for_error` / `as_exception`) cannot fail with KeyError -/
theorem exception_total : ∀ c ∈ Gen.C03Tables.errorCodes, c ∈ Gen.C03Tables.exceptionTable.map (·.1) := by decide

/-- every class of the map carries the response code it is registered under -/
theorem exception_keys_consistent : ∀ e ∈ Gen.C03Tables.exceptionTable, e.1 = e.2.2 := by decide

/-- the response codes a typed negative response can carry (C02 oracle) are the regenerated `UDSErrorCodes` -/
theorem errorCodes_agree : Gen.C03Tables.errorCodes = nrcTable := by decide

/-- the echo-length table of the model is the regenerated `UDSIsoServicesEchoLength` -/
theorem echoLength_agrees : Gen.C03Tables.echoLength = echoLengthTable := by decide

/-! ### the outcome in the vocabulary of the property -/

/-- **genuine replies are always accepted**: a negative response naming the request's service with a listed code, or
    the decodable positive response of that service echoing the request's primary identifier, is returned by
    `parse_pdu` — as the decoded reply itself -/
theorem genuine_accepted (r : Req) (hwf : r.WF) (b : Bytes) (h : Genuine r b) :
    ∃ x, decodeResp b = .ok x ∧ parsePdu b r = .accepted x := by
  obtain ⟨s, hs⟩ := reqSid_some (Or.inl h)
  unfold Genuine genuineB at h
  rw [hs] at h
  simp only [Bool.and_eq_true] at h
  obtain ⟨hd, hacc⟩ := h
  obtain ⟨x, hx⟩ := (decodable_iff b).mp hd
  refine ⟨x, hx, ?_⟩
  rw [parsePdu_char r hwf s hs b (decodable_ne_nil hd), hx]
  simp only [specAccept, hacc, if_true]

/-- **foreign or stale replies are always refused**: a reply of another service, a negative response naming another
    service, or a positive reply whose echoed primary identifier differs ends in RequestResponseMismatch -/
theorem foreign_refused (r : Req) (hwf : r.WF) (b : Bytes) (h : Foreign r b) : parsePdu b r = .mismatch := by
  obtain ⟨s, hs⟩ := reqSid_some (Or.inr (Or.inl h))
  unfold Foreign foreignB at h
  rw [hs] at h
  have hb : b ≠ [] := by rintro rfl; simp [isNegative, positiveOf] at h
  rw [parsePdu_char r hwf s hs b hb]
  cases hd : decodeResp b with
  | error e =>
    have hD : Decodable b = false := by simp [Decodable, hd]
    simp only [hD, Bool.and_false, Bool.false_and, Bool.or_false] at h
    have hf : foreignHead s b = true := by unfold foreignHead; exact h
    simp [hf]
  | ok x =>
    simp only
    have hacc : specAccept (view r) s b = false := by
      cases b with
      | nil => exact absurd rfl hb
      | cons b0 bt =>
        unfold specAccept
        cases hN : isNegative (b0 :: bt) <;> cases hP : positiveOf s (b0 :: bt) <;>
          cases hE : echoOK (view r) (b0 :: bt) <;> simp_all [isNegative, positiveOf] <;>
          (cases bt <;> simp_all)
    simp [hacc]

/-- **undecodable replies of the right service are malformed**, never a result and never a mismatch -/
theorem undecodable_malformed (r : Req) (hwf : r.WF) (b : Bytes) (h : UndecodableSameService r b) :
    parsePdu b r = .malformed := by
  obtain ⟨s, hs⟩ := reqSid_some (Or.inr (Or.inr h))
  unfold UndecodableSameService undecodableB at h
  rw [hs] at h
  simp only [Bool.and_eq_true, Bool.not_eq_true'] at h
  obtain ⟨hD, hrest⟩ := h
  have hb : b ≠ [] := by rintro rfl; simp [isNegative, positiveOf] at hrest
  rw [parsePdu_char r hwf s hs b hb]
  cases hd : decodeResp b with
  | ok x => simp [Decodable, hd] at hD
  | error e =>
    simp only
    have : foreignHead s b = false := by
      cases b with
      | nil => exact absurd rfl hb
      | cons b0 bt =>
        unfold foreignHead
        cases hN : isNegative (b0 :: bt) <;> cases hP : positiveOf s (b0 :: bt) <;> simp_all [isNegative, positiveOf] <;>
          (cases bt <;> simp_all)
    simp [this]

/-! ### the three classes partition all exchanges, the three outcomes are exhaustive -/

/-- the three classes are exclusive and exhaustive (as Boolean tests) for every non-empty reply -/
theorem classes_partition (r : Req) (s : UInt8) (hs : Reply.reqSid r = some s) (b : Bytes) (hb : b ≠ []) :
    (genuineB r b = true ∧ foreignB r b = false ∧ undecodableB r b = false) ∨
    (genuineB r b = false ∧ foreignB r b = true ∧ undecodableB r b = false) ∨
    (genuineB r b = false ∧ foreignB r b = false ∧ undecodableB r b = true) := by
  have hdec : Decodable b = true → isNegative b = true → ∃ sid nrc, b = [0x7F, sid, nrc] := by
    intro hD hN
    obtain ⟨x, hx⟩ := (decodable_iff b).mp hD
    obtain ⟨h1, h2⟩ := dec_head b x hx
    cases hn : isNeg x
    · rw [h2 hn] at hN; cases hN
    · exact h1 hn
  unfold genuineB foreignB undecodableB
  rw [hs]
  cases b with
  | nil => exact absurd rfl hb
  | cons b0 bt =>
    by_cases h7 : b0 = 0x7F
    · subst h7
      have hP : positiveOf s (0x7F :: bt) = false := by simp [positiveOf]
      have hN : isNegative (0x7F :: bt) = true := by simp [isNegative]
      cases bt with
      | nil =>
        have hD : Decodable [0x7F] = false := by
          cases h : Decodable [0x7F]
          · rfl
          · obtain ⟨_, _, h'⟩ := hdec h hN; cases h'
        simp [hD, hN, hP]
      | cons n t =>
        by_cases hn : n = s
        · subst hn
          cases hD : Decodable (0x7F :: n :: t) <;> simp [hN, hP]
        · cases hD : Decodable (0x7F :: n :: t) <;> simp [hN, hP, hn]
    · have hN : isNegative (b0 :: bt) = false := by simp [isNegative, h7]
      cases hD : Decodable (b0 :: bt) <;> cases hP : positiveOf s (b0 :: bt) <;>
        cases hE : echoOK (view r) (b0 :: bt) <;> simp [hN]

/-- **trichotomy**: for a well-formed request and a non-empty reply exactly one of the three classes holds, and it
    determines the outcome — accepted, RequestResponseMismatch, MalformedResponse -/
theorem trichotomy (r : Req) (hwf : r.WF) (hr : encode r ≠ []) (b : Bytes) (hb : b ≠ []) :
    (Genuine r b ∧ ¬ Foreign r b ∧ ¬ UndecodableSameService r b ∧ ∃ x, parsePdu b r = .accepted x) ∨
    (¬ Genuine r b ∧ Foreign r b ∧ ¬ UndecodableSameService r b ∧ parsePdu b r = .mismatch) ∨
    (¬ Genuine r b ∧ ¬ Foreign r b ∧ UndecodableSameService r b ∧ parsePdu b r = .malformed) := by
  obtain ⟨s, hs⟩ : ∃ s, Reply.reqSid r = some s := by
    unfold Reply.reqSid; cases h : encode r with
    | nil => exact absurd h hr
    | cons a t => exact ⟨a, rfl⟩
  unfold Genuine Foreign UndecodableSameService
  rcases classes_partition r s hs b hb with ⟨h1, h2, h3⟩ | ⟨h1, h2, h3⟩ | ⟨h1, h2, h3⟩
  · obtain ⟨x, _, hx⟩ := genuine_accepted r hwf b h1
    exact Or.inl ⟨h1, by simp [h2], by simp [h3], x, hx⟩
  · exact Or.inr (Or.inl ⟨by simp [h1], h2, by simp [h3], foreign_refused r hwf b h2⟩)
  · exact Or.inr (Or.inr ⟨by simp [h1], by simp [h2], h3, undecodable_malformed r hwf b h3⟩)

/-- the converse reading: only genuine replies become results, a mismatch error is raised only for foreign replies,
    a malformed-response error only for undecodable replies of the right service -/
theorem outcome_sound (r : Req) (hwf : r.WF) (hr : encode r ≠ []) (b : Bytes) (hb : b ≠ []) :
    (∀ x, parsePdu b r = .accepted x → Genuine r b) ∧ (parsePdu b r = .mismatch → Foreign r b) ∧
    (parsePdu b r = .malformed → UndecodableSameService r b) := by
  rcases trichotomy r hwf hr b hb with ⟨h1, _, _, x, hx⟩ | ⟨_, h2, _, hx⟩ | ⟨_, _, h3, hx⟩
  · exact ⟨fun _ _ => h1, fun h => (by rw [hx] at h; cases h), fun h => (by rw [hx] at h; cases h)⟩
  · exact ⟨fun _ h => (by rw [hx] at h; cases h), fun _ => h2, fun h => (by rw [hx] at h; cases h)⟩
  · exact ⟨fun _ h => (by rw [hx] at h; cases h), fun h => (by rw [hx] at h; cases h), fun _ => h3⟩

/-! ### what the outcome does not depend on -/

/-- the outcome depends on the request only through its bytes (the request is re-parsed from its PDU) -/
theorem parsePdu_bytes (r r' : Req) (h : encode r = encode r') (b : Bytes) : parsePdu b r = parsePdu b r' := by
  unfold parsePdu; rw [h]

/-- **the suppressPosRspMsgIndicationBit of the request does not change the outcome** -/
theorem suppress_irrelevant (r : Req) (hwf : r.WF) (v : Bool) (b : Bytes) :
    parsePdu b (withSuppress v r) = parsePdu b r := by
  by_cases hraw : r.isRaw = true
  · cases r <;> simp [Req.isRaw] at hraw
    rfl
  · have hraw : r.isRaw = false := by simpa using hraw
    cases b with
    | nil => simp [parsePdu]
    | cons b0 bt =>
      have hwf' : (withSuppress v r).WF := by cases r <;> exact hwf
      obtain ⟨s, hs⟩ : ∃ s, Reply.reqSid r = some s := by
        unfold Reply.reqSid; rw [head_encode]
        cases r <;> simp [sidLit, Req.isRaw] at hraw ⊢
      have hs' : Reply.reqSid (withSuppress v r) = some s := by
        rw [← hs]; unfold Reply.reqSid; rw [head_encode, head_encode]; cases r <;> rfl
      rw [parsePdu_char _ hwf' s hs' _ (by simp), parsePdu_char _ hwf s hs _ (by simp)]
      have : specAccept (view (withSuppress v r)) s (b0 :: bt) = specAccept (view r) s (b0 :: bt) := by
        unfold specAccept; cases r <;> rfl
      rw [this]

/-! ### opaque positive replies (the echo-length heuristic of `RawPositiveResponse.matches`) -/

/-- a positive reply without a typed class (unknown service, or unknown sub-function of ReadDTCInformation /
    DynamicallyDefineDataIdentifier / RoutineControl) is never the answer to a typed request: either it belongs to
    another service, or the echo-length comparison fails on the sub-function byte -/
theorem opaque_reply_refused_for_typed_request (r : Req) (hwf : r.WF) (hraw : r.isRaw = false) (b : Bytes)
    (hg : UdsResp.gate b = .ok .raw) : parsePdu b r = .mismatch := by
  have hd : decodeResp b = .ok (.rawPos b) := by unfold decodeResp; rw [hg]
  have hb : b ≠ [] := by rintro rfl; exact gate_nil_ne_raw hg
  obtain ⟨s, hs⟩ : ∃ s, sidLit r = some s := by cases r <;> simp [sidLit, Req.isRaw] at hraw ⊢
  have hs' : Reply.reqSid r = some s := by unfold Reply.reqSid; rw [head_encode]; exact hs
  rw [parsePdu_char r hwf s hs' b hb, hd]
  have hv : view r = r := by cases r <;> first | rfl | simp [Req.isRaw] at hraw
  simp only [hv, (rawPos_typed b hg r s hs hraw hwf).2]
  rfl

/-! ### accepted negative responses and the exception map -/

/-- what `parse_pdu` returns is the decoded reply -/
theorem accepted_is_decoded (r : Req) (b : Bytes) (x : Resp) (h : parsePdu b r = .accepted x) : decodeResp b = .ok x :=
  accepted_decoded h

/-- an accepted negative response is `7F sid nrc` with a response code for which the regenerated exception map has a
    class carrying that very code: `raise_for_error` raises the exception of the received code -/
theorem accepted_negative_has_exception (r : Req) (b : Bytes) (sid nrc : UInt8) (h : parsePdu b r = .accepted (.neg sid nrc)) :
    b = [0x7F, sid, nrc] ∧ ∃ e ∈ Gen.C03Tables.exceptionTable, e.1 = nrc.toNat ∧ e.2.2 = nrc.toNat := by
  have hd := accepted_decoded h
  have hwf : nrc.toNat ∈ nrcTable := pNeg_wf (decodeResp_parse hd rfl)
  refine ⟨(enc_of_dec hd).symm, ?_⟩
  rw [← errorCodes_agree] at hwf
  have := exception_total _ hwf
  simp only [List.mem_map] at this
  obtain ⟨e, he, hk⟩ := this
  exact ⟨e, he, hk, by rw [← exception_keys_consistent e he]; exact hk⟩

/-! ### the InputOutputControlByIdentifier convenience responses -/

/-- a convenience response matches the request of its own class for the same identifier … -/
theorem conv_genuine (k d : Nat) : convMatches k d (some k) d = true := by simp [convMatches]

/-- … and no request for another identifier -/
theorem conv_foreign (k d d' : Nat) (qk : Option Nat) (h : d ≠ d') : convMatches k d qk d' = false := by
  simp [convMatches, h]

/-! ### the classes are inhabited and mean what the property says -/

/-- a negative response naming the request's service is genuine exactly when its response code is a listed one -/
theorem genuine_negative_iff (r : Req) (s nrc : UInt8) (hs : Reply.reqSid r = some s) :
    Genuine r [0x7F, s, nrc] ↔ nrc.toNat ∈ nrcTable := by
  have hdec : decodeResp [0x7F, s, nrc] = if nrc.toNat ∈ nrcTable then .ok (.neg s nrc) else .error .nrc := by
    have he : entriesFor 127 = [⟨"NegativeResponse", .neg, 0x7F, false, none, false, 3, some 3⟩] := rfl
    simp [decodeResp, UdsResp.gate, dispatch, he, checkEntry, lenGate, subGate, parseKind, pNeg]
  unfold Genuine genuineB
  rw [hs]
  simp only [Decodable, hdec, isNegative, positiveOf]
  by_cases h : nrc.toNat ∈ nrcTable <;> simp [h]

-- every class is inhabited by a concrete exchange, and the outcomes are the expected ones
example : Genuine (.rdbi [0xF190]) [0x62, 0xF1, 0x90, 0x01] := by decide
example : Genuine (.rdbi [0xF190]) [0x7F, 0x22, 0x31] := by decide
example : Genuine (.dsc 1 true) [0x50, 0x01, 0x00, 0x32] := by decide
example : Foreign (.rdbi [0xF190]) [0x62, 0xF1, 0x91, 0x01] := by decide
example : Foreign (.rdbi [0xF190]) [0x7F, 0x10, 0xAA] := by decide
example : Foreign (.routine 1 0x1234 [] false) [0x71, 0x01, 0x12, 0x35] := by decide
example : UndecodableSameService (.rdbi [0xF190]) [0x7F, 0x22, 0xAA] := by decide
example : UndecodableSameService (.rdbi [0xF190]) [0x62, 0xF1] := by decide
example : (Req.rdbi [0xF190]).WF := by decide
example : parsePdu [0x7F, 0x22, 0xAA] (.rdbi [0xF190]) = .malformed := by decide
example : parsePdu [0x50, 0x01] (.raw [0x10, 0x81]) = .accepted (.dsc 0x01 []) := by decide
example : parsePdu [0x50, 0x02] (.dsc 1 true) = .mismatch := by decide


/-! ## where the client applies the matcher: C03 composed with the C04 request loop

  `ClientMatch.request c r w` (Model/ClientMatch.lean) is `UDSClient.request(r, config)` in a byte-level world `w`: every
  frame read — the first reply of every attempt and every frame of the ResponsePending loop — is classified by `parsePdu`
  (`classifyRead`), the C04 loop (`ClientIO.runX`) runs on the classified script.  All theorems hold for every
  configuration (any max_retry, timeouts, latency, limits), every well-formed request and every world (infinite streams of
  write results, read results — bytes, timeouts, connection errors — and reconnect results). -/

section Client
open Gallia.Client Gallia.ClientIO Gallia.ClientMatch

/-- (T) the client hands every frame it reads to `parse_pdu(raw_resp, request)`: `resp` is only ever bound by that call,
    once after the first read of an attempt and once inside the ResponsePending loop, whose body has the modelled shape;
    `parse_pdu` binds `trigger_request` immediately before returning (regenerated from the AST on every run) -/
theorem client_applies_matcher_to_every_frame :
    Gen.C03Tables.respAssignments = [("parse_pdu(raw_resp, request)", false), ("parse_pdu(raw_resp, request)", true)] ∧
    Gen.C03Tables.rawAssignments = [("await self.transport.request_unsafe(request.pdu, timeout, config.tags)", false),
                                    ("await self._read(timeout=waiting_time, tags=config.tags)", true)] ∧
    Gen.C03Tables.pendingLoopBody = ["Expr", "Try", "Assign:resp", "Assign:n_timeout", "AugAssign:n_pending", "If"] ∧
    Gen.C03Tables.pendingLoopTest = "isinstance(resp, service.NegativeResponse) and resp.response_code == UDSErrorCodes.requestCorrectlyReceivedResponsePending" ∧
    Gen.C03Tables.parsePduTail = ["response.trigger_request = request", "return response"] := by
  refine ⟨?_, ?_, ?_, ?_, ?_⟩ <;> decide

/-- the event of the C04 alphabet a frame is, in the vocabulary of the property: foreign = mismatch, undecodable =
    malformed, genuine = one of busy / pending / final negative / final positive -/
theorem classifyRead_spec (r : Req) (hwf : r.WF) (hr : encode r ≠ []) (b : Bytes) (hb : b ≠ []) :
    (Foreign r b ↔ classifyRead r b = .mismatch) ∧ (UndecodableSameService r b ↔ classifyRead r b = .malformed) ∧
    (Genuine r b ↔ (classifyRead r b = .busy ∨ classifyRead r b = .pending ∨ classifyRead r b = .negFinal ∨
                    classifyRead r b = .posFinal)) := by
  rw [classifyRead_cons r b hb]
  rcases trichotomy r hwf hr b hb with ⟨h1, h2, h3, x, hx⟩ | ⟨h1, h2, h3, hx⟩ | ⟨h1, h2, h3, hx⟩
  · rw [hx]; simp only []
    rcases classifyResp_cases x with ⟨h, _⟩ | ⟨h, _⟩ | ⟨h, _⟩ | ⟨h, _⟩ <;> simp [h, h1, h2, h3]
  · rw [hx]; simp [h1, h2, h3]
  · rw [hx]; simp [h1, h2, h3]

/-- a negative response is `7F sid nrc` -/
theorem dec_neg3 {s n : UInt8} {x : Resp} (h : decodeResp [0x7F, s, n] = .ok x) : x = .neg s n := by
  have hb := enc_of_dec h
  have hn : isNeg x = true := by
    cases hx : isNeg x with
    | true => rfl
    | false => have := (dec_head _ x h).2 hx; simp [isNegative] at this
  cases x <;> simp [isNeg] at hn
  simp [encodeResp] at hb
  obtain ⟨h1, h2⟩ := hb
  subst h1; subst h2; rfl

/-- **only the request's own ResponsePending prolongs waiting**: a frame is counted as a keep-alive exactly when it is
    `7F <the request's service id> 78` -/
theorem only_own_pending_prolongs (r : Req) (hwf : r.WF) (s : UInt8) (hs : Reply.reqSid r = some s) (b : Bytes) :
    classifyRead r b = .pending ↔ b = [0x7F, s, 0x78] := by
  have hr : encode r ≠ [] := by
    intro h; simp [Reply.reqSid, h] at hs
  constructor
  · intro h
    have hb : b ≠ [] := by rintro rfl; simp [classifyRead] at h
    have hG : Genuine r b := ((classifyRead_spec r hwf hr b hb).2.2).mpr (.inr (.inl h))
    rw [classifyRead_cons r b hb] at h
    cases hp : parsePdu b r with
    | mismatch => rw [hp] at h; cases h
    | malformed => rw [hp] at h; cases h
    | accepted x =>
      rw [hp] at h; simp only [] at h
      rcases classifyResp_cases x with ⟨h', _⟩ | ⟨_, sid, hx⟩ | ⟨h', _⟩ | ⟨h', _⟩
      · rw [h'] at h; cases h
      · subst hx
        have hb3 := (accepted_negative_has_exception r b sid 0x78 hp).1
        subst hb3
        unfold Genuine genuineB at hG
        rw [hs] at hG
        simp [isNegative, positiveOf] at hG
        rw [hG.2]
      · rw [h'] at h; cases h
      · rw [h'] at h; cases h
  · rintro rfl
    have hG : Genuine r [0x7F, s, 0x78] := (genuine_negative_iff r s 0x78 hs).mpr (by decide)
    obtain ⟨x, hd, hp⟩ := genuine_accepted r hwf _ hG
    have := dec_neg3 hd
    subst this
    rw [classifyRead_cons r _ (by simp), hp]
    rfl

/-- a negative response naming another service is a mismatch whatever its response code — also `78` and `21` -/
theorem foreign_negative_is_mismatch (r : Req) (hwf : r.WF) (s : UInt8) (hs : Reply.reqSid r = some s) (n : UInt8)
    (hn : n ≠ s) (rest : Bytes) : Foreign r (0x7F :: n :: rest) ∧ classifyRead r (0x7F :: n :: rest) = .mismatch := by
  have hF : Foreign r (0x7F :: n :: rest) := by
    unfold Foreign foreignB; rw [hs]; simp [isNegative, hn]
  refine ⟨hF, ?_⟩
  rw [classifyRead_cons r _ (by simp), foreign_refused r hwf _ hF]

/-- what the loop ends with names a read whose frame fits: never `internal` -/
theorem request_never_internal (c : CfgX) (r : Req) (w : World) : request c r w ≠ .internal := by
  unfold request
  have hev := runX_event c (w.script r)
  have ho : (requestX c (w.script r)).out = (runX c (w.script r)).out := rfl
  rw [ho]
  cases hout : (runX c (w.script r)).out with
  | reconnectFailed m e => simp [resultOf]
  | base o =>
    cases o with
    | missing _ => simp [resultOf]
    | stuck => simp [resultOf]
    | connEscaped _ => simp [resultOf]
    | reply k =>
      have h := hev.1 k hout
      simp only [World.script, resultOf] at h ⊢
      cases hrd : w.rd k with
      | timeout => rw [hrd] at h; simp [classifyRd, Ev.final] at h
      | connErr => rw [hrd] at h; simp [classifyRd, Ev.final] at h
      | data b =>
        rw [hrd] at h; simp only [classifyRd] at h
        cases b with
        | nil => simp [classifyRead, Ev.final] at h
        | cons a t =>
          rw [classifyRead_cons r _ (by simp)] at h
          unfold parsePduBound
          cases hp : parsePdu (a :: t) r with
          | accepted x => simp [hp]
          | mismatch => rw [hp] at h; simp [Ev.final] at h
          | malformed => rw [hp] at h; simp [Ev.final] at h
    | illegal k =>
      have h := hev.2 k hout
      simp only [World.script, resultOf] at h ⊢
      cases hrd : w.rd k with
      | timeout => rw [hrd] at h; simp [classifyRd, Ev.illegal] at h
      | connErr => rw [hrd] at h; simp [classifyRd, Ev.illegal] at h
      | data b =>
        rw [hrd] at h; simp only [classifyRd] at h
        cases b with
        | nil => simp [classifyRead, Ev.illegal] at h
        | cons a t =>
          rw [classifyRead_cons r _ (by simp)] at h
          unfold parsePduBound
          cases hp : parsePdu (a :: t) r with
          | accepted x => rw [hp] at h; simp [(classifyResp_not_illegal x).1] at h
          | mismatch => simp [hp]
          | malformed => simp [hp]

/-- **stale or foreign replies never become results**: whatever `request()` returns is the decoded form of the frame
    of its last read, that frame is `Genuine` for the request — not `Foreign`, not undecodable — and the returned
    response carries the request it answered as `trigger_request` -/
theorem stale_never_returned (c : CfgX) (r : Req) (hwf : r.WF) (hr : encode r ≠ []) (w : World) (k : Nat) (x : Resp)
    (q : Req) (h : request c r w = .returned k x q) :
    ∃ b, w.rd k = .data b ∧ Genuine r b ∧ ¬ Foreign r b ∧ ¬ UndecodableSameService r b ∧ decodeResp b = .ok x ∧
      q = r ∧ reads c r w = k + 1 := by
  unfold request at h
  have ho : (requestX c (w.script r)).out = (runX c (w.script r)).out := rfl
  rw [ho] at h
  cases hout : (runX c (w.script r)).out with
  | reconnectFailed m e => rw [hout] at h; simp [resultOf] at h
  | base o =>
    rw [hout] at h
    cases o with
    | missing _ => simp [resultOf] at h
    | stuck => simp [resultOf] at h
    | connEscaped _ => simp [resultOf] at h
    | illegal k' =>
      simp only [resultOf] at h
      cases hrd : w.rd k' with
      | timeout => rw [hrd] at h; cases h
      | connErr => rw [hrd] at h; cases h
      | data b =>
        rw [hrd] at h; simp only [parsePduBound] at h
        cases hp : parsePdu b r <;> rw [hp] at h <;> cases h
    | reply k' =>
      simp only [resultOf] at h
      cases hrd : w.rd k' with
      | timeout => rw [hrd] at h; cases h
      | connErr => rw [hrd] at h; cases h
      | data b =>
        rw [hrd] at h; simp only [parsePduBound] at h
        cases hp : parsePdu b r with
        | mismatch => rw [hp] at h; cases h
        | malformed => rw [hp] at h; cases h
        | accepted y =>
          rw [hp] at h
          simp only [Result.returned.injEq] at h
          obtain ⟨hk, hy, hq⟩ := h
          subst hk; subst hy
          have hb : b ≠ [] := by rintro rfl; simp [parsePdu] at hp
          have hG := (outcome_sound r hwf hr b hb).1 y hp
          rcases trichotomy r hwf hr b hb with ⟨_, h2, h3, _⟩ | ⟨h1, _⟩ | ⟨h1, _⟩
          · exact ⟨b, hrd, hG, h2, h3, accepted_decoded hp, hq.symm, runX_reply_last c _ k' (.inl hout)⟩
          · exact absurd hG h1
          · exact absurd hG h1

/-- **every foreign frame ends the request where it is read**: a `Foreign` frame delivered by any read of the request —
    the first reply of any attempt or a frame of the ResponsePending loop — ends `request()` with
    RequestResponseMismatch for that very read; nothing is read after it -/
theorem foreign_frame_ends_request (c : CfgX) (r : Req) (hwf : r.WF) (w : World) (j : Nat) (b : Bytes)
    (hj : j < reads c r w) (hb : w.rd j = .data b) (hf : Foreign r b) :
    request c r w = .refused j .mismatch ∧ reads c r w = j + 1 := by
  have hp := foreign_refused r hwf b hf
  have hne : b ≠ [] := by rintro rfl; simp [parsePdu] at hp
  have hev : (w.script r).rd j = .mismatch := by
    simp only [World.script, hb, classifyRd]; rw [classifyRead_cons r b hne, hp]
  have hout := (runX_first c (w.script r) j hj).2 (by rw [hev]; rfl)
  refine ⟨?_, runX_reply_last c _ j (.inr hout)⟩
  unfold request
  have ho : (requestX c (w.script r)).out = (runX c (w.script r)).out := rfl
  rw [ho, hout]
  simp [resultOf, hb, parsePduBound, hp]

/-- an undecodable frame of the right service ends the request with MalformedResponse for that read -/
theorem undecodable_frame_ends_request (c : CfgX) (r : Req) (hwf : r.WF) (w : World) (j : Nat) (b : Bytes)
    (hj : j < reads c r w) (hb : w.rd j = .data b) (hu : UndecodableSameService r b) :
    request c r w = .refused j .malformed ∧ reads c r w = j + 1 := by
  have hp := undecodable_malformed r hwf b hu
  have hne : b ≠ [] := by
    rintro rfl
    obtain ⟨s, hs⟩ := reqSid_some (Or.inr (Or.inr hu))
    unfold UndecodableSameService undecodableB at hu; rw [hs] at hu; simp [isNegative, positiveOf] at hu
  have hev : (w.script r).rd j = .malformed := by
    simp only [World.script, hb, classifyRd]; rw [classifyRead_cons r b hne, hp]
  have hout := (runX_first c (w.script r) j hj).2 (by rw [hev]; rfl)
  refine ⟨?_, runX_reply_last c _ j (.inr hout)⟩
  unfold request
  have ho : (requestX c (w.script r)).out = (runX c (w.script r)).out := rfl
  rw [ho, hout]
  simp [resultOf, hb, parsePduBound, hp]

/-- **a foreign ResponsePending is not a keep-alive**: `7F xx 78` (or `7F xx 21`, or any other code) naming another
    service, read anywhere in the request — in particular inside the ResponsePending loop — is not counted as pending /
    busy but ends the request with RequestResponseMismatch at that read -/
theorem pending_loop_refuses_foreign (c : CfgX) (r : Req) (hwf : r.WF) (s : UInt8) (hs : Reply.reqSid r = some s)
    (w : World) (j : Nat) (n nrc : UInt8) (hn : n ≠ s) (hj : j < reads c r w) (hb : w.rd j = .data [0x7F, n, nrc]) :
    classifyRead r [0x7F, n, nrc] ≠ .pending ∧ classifyRead r [0x7F, n, nrc] ≠ .busy ∧
    request c r w = .refused j .mismatch ∧ reads c r w = j + 1 := by
  obtain ⟨hF, hc⟩ := foreign_negative_is_mismatch r hwf s hs n hn [nrc]
  refine ⟨by rw [hc]; simp, by rw [hc]; simp, foreign_frame_ends_request c r hwf w j _ hj hb hF⟩

/-- **a genuine final reply is never dropped**: a `Genuine` frame that is not the request's own busyRepeatRequest /
    ResponsePending, delivered by any read of the request, is what `request()` returns — decoded, bound to the request -/
theorem genuine_final_returned (c : CfgX) (r : Req) (hwf : r.WF) (w : World) (j : Nat) (b : Bytes)
    (hj : j < reads c r w) (hb : w.rd j = .data b) (hg : Genuine r b)
    (hfin : ∀ s, b ≠ [0x7F, s, 0x21] ∧ b ≠ [0x7F, s, 0x78]) :
    ∃ x, decodeResp b = .ok x ∧ request c r w = .returned j x r := by
  obtain ⟨x, hd, hp⟩ := genuine_accepted r hwf b hg
  have hne : b ≠ [] := by rintro rfl; simp [parsePdu] at hp
  have hbx := enc_of_dec hd
  have hev : ((w.script r).rd j).final = true := by
    simp only [World.script, hb, classifyRd]; rw [classifyRead_cons r b hne, hp]
    simp only []
    rcases classifyResp_cases x with ⟨_, sid, hx⟩ | ⟨_, sid, hx⟩ | ⟨h', _⟩ | ⟨h', _⟩
    · subst hx; exact absurd hbx.symm (hfin sid).1
    · subst hx; exact absurd hbx.symm (hfin sid).2
    · rw [h']; rfl
    · rw [h']; rfl
  have hout := (runX_first c (w.script r) j hj).1 hev
  refine ⟨x, hd, ?_⟩
  unfold request
  have ho : (requestX c (w.script r)).out = (runX c (w.script r)).out := rfl
  rw [ho, hout]
  simp [resultOf, hb, parsePduBound, hp]

/-! ### the hypotheses are satisfiable: concrete worlds -/


macro "client_eval" : tactic => `(tactic| simp [request, reads, requestX, resultOf, runX, attemptsX, attemptStepX, faultX, pendingLoop,
  exCfg, maxNT, preX, consOp, waitX, tmoDur, liftPend, readTmo, CfgX.base, ResX.reads, World.script, World.ofFrames, nReadsX,
  OpX.isRd, parsePduBound, ex_own_pending, ex_foreign_pending, ex_genuine])

-- `foreign_frame_ends_request` / `pending_loop_refuses_foreign`: read 1 of 2 is a foreign ResponsePending inside the pending loop
example : (1 : Nat) < reads (exCfg 0) exReq (World.ofFrames [[0x7F, 0x10, 0x78], [0x7F, 0x22, 0x78]]) ∧
    Foreign exReq [0x7F, 0x22, 0x78] ∧ exReq.WF ∧ Reply.reqSid exReq = some 0x10 := by
  refine ⟨?_, by decide, by decide, by decide⟩
  client_eval
  decide
example : request (exCfg 0) exReq (World.ofFrames [[0x7F, 0x10, 0x78], [0x7F, 0x22, 0x78]]) = .refused 1 .mismatch := by
  client_eval
  decide
-- `stale_never_returned` / `genuine_final_returned`: the genuine reply after the request's own ResponsePending is returned, bound
example : request (exCfg 0) exReq (World.ofFrames [[0x7F, 0x10, 0x78], [0x50, 0x03, 0x00, 0x32]]) =
    .returned 1 (.dsc 3 [0x00, 0x32]) exReq := by
  client_eval
  decide
example : Genuine exReq [0x50, 0x03, 0x00, 0x32] ∧ ∀ s, [0x50, 0x03, 0x00, 0x32] ≠ [0x7F, s, 0x21] ∧ [0x50, 0x03, 0x00, 0x32] ≠ [0x7F, s, (0x78 : UInt8)] :=
  ⟨by decide, fun s => ⟨by simp, by simp⟩⟩
example : UndecodableSameService exReq [0x7F, 0x10, 0xAA] := by decide

end Client

/-! ## the classification helpers of `services/uds/helpers.py` -/

section Helpers
open Gallia.UdsHelpers

/-- (T) the code lists of the three `suggests_*` helpers are the ones regenerated from the AST of helpers.py, and the
    bodies of `_suggests_not_supported`, `raise_for_error`, `raise_for_mismatch` are the modelled ones -/
theorem suggests_lists_agree :
    Gen.C03Tables.suggestsService = serviceCodes ∧ Gen.C03Tables.suggestsSubFunction = subFunctionCodes ∧
    Gen.C03Tables.suggestsIdentifier = identifierCodes := by decide

theorem helper_bodies_agree :
    Gen.C03Tables.suggestsNotSupportedBody =
      ["if isinstance(response, service.UDSResponse):\n    if not isinstance(response, service.NegativeResponse):\n        return False\n    response_code = response.response_code\nelse:\n    response_code = response",
       "return response_code in not_supported_codes"] ∧
    Gen.C03Tables.raiseForErrorBody =
      ["if isinstance(response, service.NegativeResponse):\n    if response.trigger_request is None:\n        raise ValueError('The response has not been assigned a trigger request')\n    raise UnexpectedNegativeResponse.parse_dynamic(response.trigger_request, response, message)"] ∧
    Gen.C03Tables.raiseForMismatchBody =
      ["if not response.matches(request):\n    raise RequestResponseMismatch(request, response, message)"] :=
  ⟨rfl, rfl, rfl⟩

/-- every code a `suggests_*` helper looks for is a member of the regenerated `UDSErrorCodes` -/
theorem suggests_subset_nrc :
    (∀ c ∈ serviceCodes, c ∈ Gen.C03Tables.errorCodes) ∧ (∀ c ∈ subFunctionCodes, c ∈ Gen.C03Tables.errorCodes) ∧
    (∀ c ∈ identifierCodes, c ∈ Gen.C03Tables.errorCodes) := by decide

/-- the three sets are nested, and differ by exactly the documented codes: sub-function adds subFunctionNotSupported
    (0x12) and subFunctionNotSupportedInActiveSession (0x7E), identifier adds requestOutOfRange (0x31) -/
theorem suggests_partition :
    (∀ c, c ∈ serviceCodes → c ∈ subFunctionCodes) ∧ (∀ c, c ∈ subFunctionCodes → c ∈ identifierCodes) ∧
    subFunctionCodes.filter (fun c => !serviceCodes.contains c) = [0x12, 0x7E] ∧
    identifierCodes.filter (fun c => !subFunctionCodes.contains c) = [0x31] ∧
    serviceCodes = [0x11, 0x7F] ∧ serviceCodes.Nodup ∧ subFunctionCodes.Nodup ∧ identifierCodes.Nodup := by
  refine ⟨?_, ?_, ?_, ?_, ?_, ?_, ?_, ?_⟩ <;> simp [serviceCodes, subFunctionCodes, identifierCodes] <;> omega

/-- a helper answers yes exactly for a negative response (or bare code) whose code is in its list — never for a positive
    response -/
theorem suggests_exact (codes : List Nat) (a : Arg) :
    suggests codes a = true ↔
      (∃ sid nrc, a = .resp (.neg sid nrc) ∧ nrc.toNat ∈ codes) ∨ (∃ c, a = .code c ∧ c ∈ codes) := by
  cases a with
  | code c => simp [suggests]
  | resp x =>
    cases x <;> simp [suggests]
    constructor
    · intro h; exact ⟨_, _, ⟨rfl, rfl⟩, h⟩
    · rintro ⟨_, _, ⟨rfl, rfl⟩, h⟩; exact h

/-- service-not-supported implies sub-function-not-supported implies identifier-not-supported, for every argument -/
theorem suggests_monotone (a : Arg) :
    (suggestsService a = true → suggestsSubFunction a = true) ∧ (suggestsSubFunction a = true → suggestsIdentifier a = true) := by
  have h := suggests_partition
  unfold suggestsService suggestsSubFunction suggestsIdentifier
  constructor <;> intro hs
  · rcases (suggests_exact _ a).mp hs with ⟨sid, nrc, rfl, hm⟩ | ⟨c, rfl, hm⟩
    · exact (suggests_exact _ _).mpr (.inl ⟨sid, nrc, rfl, h.1 _ hm⟩)
    · exact (suggests_exact _ _).mpr (.inr ⟨c, rfl, h.1 _ hm⟩)
  · rcases (suggests_exact _ a).mp hs with ⟨sid, nrc, rfl, hm⟩ | ⟨c, rfl, hm⟩
    · exact (suggests_exact _ _).mpr (.inl ⟨sid, nrc, rfl, h.2.1 _ hm⟩)
    · exact (suggests_exact _ _).mpr (.inr ⟨c, rfl, h.2.1 _ hm⟩)

/-- on the reply a probe accepted: `suggests_service_not_supported` holds exactly for `7F sid 11` and `7F sid 7F` -/
theorem suggests_service_on_accepted (r : Req) (b : Bytes) (x : Resp) (h : parsePdu b r = .accepted x) :
    suggestsService (.resp x) = true ↔ ∃ sid, b = [0x7F, sid, 0x11] ∨ b = [0x7F, sid, 0x7F] := by
  have hb := enc_of_dec (accepted_decoded h)
  constructor
  · intro hs
    rcases (suggests_exact _ _).mp hs with ⟨sid, nrc, hx, hm⟩ | ⟨c, hx, _⟩
    · injection hx with hx; subst hx
      refine ⟨sid, ?_⟩
      simp [serviceCodes] at hm
      rcases hm with hm | hm
      · left; rw [← hb]; simp [encodeResp]; exact UInt8.toNat_inj.mp (by simpa using hm)
      · right; rw [← hb]; simp [encodeResp]; exact UInt8.toNat_inj.mp (by simpa using hm)
    · cases hx
  · rintro ⟨sid, hh | hh⟩ <;> subst hh
    · have := dec_neg3 (accepted_decoded h); subst this; simp [suggestsService, suggests, serviceCodes]
    · have := dec_neg3 (accepted_decoded h); subst this; simp [suggestsService, suggests, serviceCodes]

/-- keys of the regenerated exception map are distinct -/
theorem exception_keys_nodup : (Gen.C03Tables.exceptionTable.map (·.1)).Nodup := by decide

/-- **`raise_for_error` raises exactly for negative replies, with the exception class registered for the received code**:
    for a response with a trigger request it returns iff the response is positive; for a negative response `7F sid nrc`
    with a listed code it raises the class the regenerated map registers under `nrc`, whose RESPONSE_CODE is `nrc`
    (never KeyError); without a trigger request it raises ValueError -/
theorem raise_for_error_exact (q : Req) (x : Resp) :
    (raiseForError Gen.C03Tables.exceptionTable (some q) x = .returns ↔ isNeg x = false) ∧
    (∀ sid nrc, x = .neg sid nrc → raiseForError Gen.C03Tables.exceptionTable none x = .valueError) ∧
    (∀ sid nrc, x = .neg sid nrc → nrc.toNat ∈ nrcTable →
      ∃ cls, raiseForError Gen.C03Tables.exceptionTable (some q) x = .raises cls nrc.toNat ∧
             (nrc.toNat, cls, nrc.toNat) ∈ Gen.C03Tables.exceptionTable) ∧
    (∀ cls code, raiseForError Gen.C03Tables.exceptionTable (some q) x = .raises cls code →
      ∃ sid nrc, x = .neg sid nrc ∧ code = nrc.toNat ∧ (nrc.toNat, cls, code) ∈ Gen.C03Tables.exceptionTable) := by
  have hfind : ∀ n : Nat, ∀ e, Gen.C03Tables.exceptionTable.find? (fun e => e.1 == n) = some e →
      e ∈ Gen.C03Tables.exceptionTable ∧ e.1 = n := by
    intro n e he
    exact ⟨List.mem_of_find?_eq_some he, by simpa using List.find?_some he⟩
  refine ⟨?_, ?_, ?_, ?_⟩
  · cases x <;> simp [raiseForError, isNeg]
    split <;> simp
  · rintro sid nrc rfl; rfl
  · rintro sid nrc rfl hm
    rw [← errorCodes_agree] at hm
    have hk := exception_total _ hm
    simp only [raiseForError]
    cases hf : Gen.C03Tables.exceptionTable.find? (fun e => e.1 == nrc.toNat) with
    | none =>
      rw [List.find?_eq_none] at hf
      simp only [List.mem_map] at hk
      obtain ⟨e, he, hke⟩ := hk
      exact absurd (by simpa using hke) (hf e he)
    | some e =>
      obtain ⟨hmem, hkey⟩ := hfind _ e hf
      have hc := exception_keys_consistent e hmem
      refine ⟨e.2.1, ?_, ?_⟩
      · simp only []; rw [← hc, hkey]
      · have : e = (nrc.toNat, e.2.1, nrc.toNat) := by
          rcases e with ⟨a, n, c⟩; simp at hkey hc ⊢; omega
        rw [← this]; exact hmem
  · intro cls code h
    cases x <;> simp [raiseForError] at h
    rename_i sid nrc
    cases hf : Gen.C03Tables.exceptionTable.find? (fun e => e.1 == nrc.toNat) with
    | none => rw [hf] at h; cases h
    | some e =>
      rw [hf] at h
      simp only [Raise.raises.injEq] at h
      obtain ⟨hmem, hkey⟩ := hfind _ e hf
      have hc := exception_keys_consistent e hmem
      refine ⟨sid, nrc, rfl, ?_, ?_⟩
      · rw [← h.2, ← hc, hkey]
      · have : e = (nrc.toNat, cls, code) := by
          rcases e with ⟨a, n, c⟩; simp at hkey h ⊢; exact ⟨hkey, h.1, h.2⟩
        rw [← this]; exact hmem

/-- on the reply a probe accepted `raise_for_error` never fails with KeyError or ValueError: it returns for a positive
    reply and raises the class of the received code for `7F sid nrc` -/
theorem raise_for_error_on_accepted (r : Req) (b : Bytes) (x : Resp) (h : parsePdu b r = .accepted x) :
    (isNeg x = false ∧ raiseForError Gen.C03Tables.exceptionTable (some r) x = .returns) ∨
    (∃ sid nrc cls, b = [0x7F, sid, nrc] ∧ raiseForError Gen.C03Tables.exceptionTable (some r) x = .raises cls nrc.toNat ∧
       (nrc.toNat, cls, nrc.toNat) ∈ Gen.C03Tables.exceptionTable) := by
  cases hn : isNeg x with
  | false => exact .inl ⟨rfl, (raise_for_error_exact r x).1.mpr hn⟩
  | true =>
    right
    cases x <;> simp [isNeg] at hn
    rename_i sid nrc
    have hd := accepted_decoded h
    have hwf : nrc.toNat ∈ nrcTable := pNeg_wf (decodeResp_parse hd rfl)
    obtain ⟨cls, h1, h2⟩ := (raise_for_error_exact r (.neg sid nrc)).2.2.1 sid nrc rfl hwf
    exact ⟨sid, nrc, cls, (enc_of_dec hd).symm, h1, h2⟩

/-- `raise_for_mismatch` raises exactly when `matches` refuses; on what `parse_pdu` accepted for a typed request it does not -/
theorem raise_for_mismatch_on_accepted (r : Req) (b : Bytes) (x : Resp) (hraw : (decode (encode r)).isRaw = false)
    (h : parsePdu b r = .accepted x) : raisesForMismatch (decode (encode r)) x = false := by
  unfold parsePdu at h
  cases b with
  | nil => simp at h
  | cons b0 bt =>
    cases he : encode r with
    | nil => rw [he] at h; simp at h
    | cons s st =>
      rw [he] at h
      simp only [] at h
      cases hd : decodeResp (b0 :: bt) with
      | error e =>
        rw [hd] at h; simp only [] at h
        repeat' split at h
        all_goals cases h
      | ok y =>
        rw [hd] at h
        rw [← he] at h
        simp only [hraw, Bool.false_and] at h
        by_cases hm : «matches» y (decode (encode r)) = true
        · simp [hm] at h; subst h; rw [← he]; simp [raisesForMismatch, hm]
        · simp [hm] at h

-- the helper theorems are about inhabited cases
example : suggestsService (.resp (.neg 0x22 0x11)) = true ∧ suggestsService (.resp (.neg 0x22 0x12)) = false ∧
    suggestsSubFunction (.resp (.neg 0x22 0x12)) = true ∧ suggestsIdentifier (.code 0x31) = true ∧
    suggestsSubFunction (.code 0x31) = false ∧ suggestsIdentifier (.resp .testerPresent) = false := by decide
example : raiseForError Gen.C03Tables.exceptionTable (some (.rdbi [0xF190])) (.neg 0x22 0x31) = .raises "RequestOutOfRange" 0x31 := by decide
example : raiseForError Gen.C03Tables.exceptionTable (some (.rdbi [0xF190])) (.rdbi 0xF190 [1]) = .returns := by decide

end Helpers

end Gallia.C03
