import Gallia.Proofs.Lemmas.UdsMatch
import Gallia.Gen.C03Tables
/-
  C03 — genuine replies are always accepted, foreign or stale replies always refused.

  `parsePdu` (Model/UdsMatch.lean) is `helpers.parse_pdu` over the C01 request oracle and the C02 response oracle;
  `Genuine` / `Foreign` / `UndecodableSameService` (Spec/Reply.lean) are the property's own classes, written on the bytes
  of the reply and the fields of the outstanding request.  All theorems hold for every well-formed request of every
  kind (incl. raw requests) and every byte string; nothing is bounded.  Helper lemmas: Proofs/Lemmas/UdsMatch.lean.
-/
namespace Gallia.C03
open Gallia Gallia.UdsReq Gallia.UdsResp Gallia.UdsMatch Gallia.Reply

/-! ### (T) regenerated tables -/

/-- every response code of the regenerated `UDSErrorCodes` has a class in the regenerated NRC → exception map, so
    `UnexpectedNegativeResponse.parse_dynamic` (hence `raise_for_error` / `as_exception`) cannot fail with KeyError -/
theorem exception_total : ∀ c ∈ Gen.C03Tables.errorCodes, c ∈ Gen.C03Tables.exceptionTable.map (·.1) := by decide

/-- every class of the map carries the response code it is registered under -/
theorem exception_keys_consistent : ∀ e ∈ Gen.C03Tables.exceptionTable, e.1 = e.2.2 := by decide

/-- the response codes a typed negative response can carry (C02 oracle) are the regenerated `UDSErrorCodes` -/
theorem errorCodes_agree : Gen.C03Tables.errorCodes = nrcTable := by decide

/-- the echo-length table of the model is the regenerated `UDSIsoServicesEchoLength` -/
theorem echoLength_agrees : Gen.C03Tables.echoLength = echoLengthTable := by decide

/-! ### the outcome in the vocabulary of the property -/

/-- **genuine replies are always accepted**: a negative response naming the request's service with a listed code, or
    the decodable positive response of that service echoing the request's primary identifier, is returned by
    `parse_pdu` — as the decoded reply itself -/
theorem genuine_accepted (r : Req) (hwf : r.WF) (b : Bytes) (h : Genuine r b) :
    ∃ x, decodeResp b = .ok x ∧ parsePdu b r = .accepted x := by
  obtain ⟨s, hs⟩ := reqSid_some (Or.inl h)
  unfold Genuine genuineB at h
  rw [hs] at h
  simp only [Bool.and_eq_true] at h
  obtain ⟨hd, hacc⟩ := h
  obtain ⟨x, hx⟩ := (decodable_iff b).mp hd
  refine ⟨x, hx, ?_⟩
  rw [parsePdu_char r hwf s hs b (decodable_ne_nil hd), hx]
  simp only [specAccept, hacc, if_true]

/-- **foreign or stale replies are always refused**: a reply of another service, a negative response naming another
    service, or a positive reply whose echoed primary identifier differs ends in RequestResponseMismatch -/
theorem foreign_refused (r : Req) (hwf : r.WF) (b : Bytes) (h : Foreign r b) : parsePdu b r = .mismatch := by
  obtain ⟨s, hs⟩ := reqSid_some (Or.inr (Or.inl h))
  unfold Foreign foreignB at h
  rw [hs] at h
  have hb : b ≠ [] := by rintro rfl; simp [isNegative, positiveOf] at h
  rw [parsePdu_char r hwf s hs b hb]
  cases hd : decodeResp b with
  | error e =>
    have hD : Decodable b = false := by simp [Decodable, hd]
    simp only [hD, Bool.and_false, Bool.false_and, Bool.or_false] at h
    have hf : foreignHead s b = true := by unfold foreignHead; exact h
    simp [hf]
  | ok x =>
    simp only
    have hacc : specAccept (view r) s b = false := by
      cases b with
      | nil => exact absurd rfl hb
      | cons b0 bt =>
        unfold specAccept
        cases hN : isNegative (b0 :: bt) <;> cases hP : positiveOf s (b0 :: bt) <;>
          cases hE : echoOK (view r) (b0 :: bt) <;> simp_all [isNegative, positiveOf] <;>
          (cases bt <;> simp_all)
    simp [hacc]

/-- **undecodable replies of the right service are malformed**, never a result and never a mismatch -/
theorem undecodable_malformed (r : Req) (hwf : r.WF) (b : Bytes) (h : UndecodableSameService r b) :
    parsePdu b r = .malformed := by
  obtain ⟨s, hs⟩ := reqSid_some (Or.inr (Or.inr h))
  unfold UndecodableSameService undecodableB at h
  rw [hs] at h
  simp only [Bool.and_eq_true, Bool.not_eq_true'] at h
  obtain ⟨hD, hrest⟩ := h
  have hb : b ≠ [] := by rintro rfl; simp [isNegative, positiveOf] at hrest
  rw [parsePdu_char r hwf s hs b hb]
  cases hd : decodeResp b with
  | ok x => simp [Decodable, hd] at hD
  | error e =>
    simp only
    have : foreignHead s b = false := by
      cases b with
      | nil => exact absurd rfl hb
      | cons b0 bt =>
        unfold foreignHead
        cases hN : isNegative (b0 :: bt) <;> cases hP : positiveOf s (b0 :: bt) <;> simp_all [isNegative, positiveOf] <;>
          (cases bt <;> simp_all)
    simp [this]

/-! ### the three classes partition all exchanges, the three outcomes are exhaustive -/

/-- the three classes are exclusive and exhaustive (as Boolean tests) for every non-empty reply -/
theorem classes_partition (r : Req) (s : UInt8) (hs : Reply.reqSid r = some s) (b : Bytes) (hb : b ≠ []) :
    (genuineB r b = true ∧ foreignB r b = false ∧ undecodableB r b = false) ∨
    (genuineB r b = false ∧ foreignB r b = true ∧ undecodableB r b = false) ∨
    (genuineB r b = false ∧ foreignB r b = false ∧ undecodableB r b = true) := by
  have hdec : Decodable b = true → isNegative b = true → ∃ sid nrc, b = [0x7F, sid, nrc] := by
    intro hD hN
    obtain ⟨x, hx⟩ := (decodable_iff b).mp hD
    obtain ⟨h1, h2⟩ := dec_head b x hx
    cases hn : isNeg x
    · rw [h2 hn] at hN; cases hN
    · exact h1 hn
  unfold genuineB foreignB undecodableB
  rw [hs]
  cases b with
  | nil => exact absurd rfl hb
  | cons b0 bt =>
    by_cases h7 : b0 = 0x7F
    · subst h7
      have hP : positiveOf s (0x7F :: bt) = false := by simp [positiveOf]
      have hN : isNegative (0x7F :: bt) = true := by simp [isNegative]
      cases bt with
      | nil =>
        have hD : Decodable [0x7F] = false := by
          cases h : Decodable [0x7F]
          · rfl
          · obtain ⟨_, _, h'⟩ := hdec h hN; cases h'
        simp [hD, hN, hP]
      | cons n t =>
        by_cases hn : n = s
        · subst hn
          cases hD : Decodable (0x7F :: n :: t) <;> simp [hN, hP]
        · cases hD : Decodable (0x7F :: n :: t) <;> simp [hN, hP, hn]
    · have hN : isNegative (b0 :: bt) = false := by simp [isNegative, h7]
      cases hD : Decodable (b0 :: bt) <;> cases hP : positiveOf s (b0 :: bt) <;>
        cases hE : echoOK (view r) (b0 :: bt) <;> simp [hN]

/-- **trichotomy**: for a well-formed request and a non-empty reply exactly one of the three classes holds, and it
    determines the outcome — accepted, RequestResponseMismatch, MalformedResponse -/
theorem trichotomy (r : Req) (hwf : r.WF) (hr : encode r ≠ []) (b : Bytes) (hb : b ≠ []) :
    (Genuine r b ∧ ¬ Foreign r b ∧ ¬ UndecodableSameService r b ∧ ∃ x, parsePdu b r = .accepted x) ∨
    (¬ Genuine r b ∧ Foreign r b ∧ ¬ UndecodableSameService r b ∧ parsePdu b r = .mismatch) ∨
    (¬ Genuine r b ∧ ¬ Foreign r b ∧ UndecodableSameService r b ∧ parsePdu b r = .malformed) := by
  obtain ⟨s, hs⟩ : ∃ s, Reply.reqSid r = some s := by
    unfold Reply.reqSid; cases h : encode r with
    | nil => exact absurd h hr
    | cons a t => exact ⟨a, rfl⟩
  unfold Genuine Foreign UndecodableSameService
  rcases classes_partition r s hs b hb with ⟨h1, h2, h3⟩ | ⟨h1, h2, h3⟩ | ⟨h1, h2, h3⟩
  · obtain ⟨x, _, hx⟩ := genuine_accepted r hwf b h1
    exact Or.inl ⟨h1, by simp [h2], by simp [h3], x, hx⟩
  · exact Or.inr (Or.inl ⟨by simp [h1], h2, by simp [h3], foreign_refused r hwf b h2⟩)
  · exact Or.inr (Or.inr ⟨by simp [h1], by simp [h2], h3, undecodable_malformed r hwf b h3⟩)

/-- the converse reading: only genuine replies become results, a mismatch error is raised only for foreign replies,
    a malformed-response error only for undecodable replies of the right service -/
theorem outcome_sound (r : Req) (hwf : r.WF) (hr : encode r ≠ []) (b : Bytes) (hb : b ≠ []) :
    (∀ x, parsePdu b r = .accepted x → Genuine r b) ∧ (parsePdu b r = .mismatch → Foreign r b) ∧
    (parsePdu b r = .malformed → UndecodableSameService r b) := by
  rcases trichotomy r hwf hr b hb with ⟨h1, _, _, x, hx⟩ | ⟨_, h2, _, hx⟩ | ⟨_, _, h3, hx⟩
  · exact ⟨fun _ _ => h1, fun h => (by rw [hx] at h; cases h), fun h => (by rw [hx] at h; cases h)⟩
  · exact ⟨fun _ h => (by rw [hx] at h; cases h), fun _ => h2, fun h => (by rw [hx] at h; cases h)⟩
  · exact ⟨fun _ h => (by rw [hx] at h; cases h), fun h => (by rw [hx] at h; cases h), fun _ => h3⟩

/-! ### what the outcome does not depend on -/

/-- the outcome depends on the request only through its bytes (the request is re-parsed from its PDU) -/
theorem parsePdu_bytes (r r' : Req) (h : encode r = encode r') (b : Bytes) : parsePdu b r = parsePdu b r' := by
  unfold parsePdu; rw [h]

/-- **the suppressPosRspMsgIndicationBit of the request does not change the outcome** -/
theorem suppress_irrelevant (r : Req) (hwf : r.WF) (v : Bool) (b : Bytes) :
    parsePdu b (withSuppress v r) = parsePdu b r := by
  by_cases hraw : r.isRaw = true
  · cases r <;> simp [Req.isRaw] at hraw
    rfl
  · have hraw : r.isRaw = false := by simpa using hraw
    cases b with
    | nil => simp [parsePdu]
    | cons b0 bt =>
      have hwf' : (withSuppress v r).WF := by cases r <;> exact hwf
      obtain ⟨s, hs⟩ : ∃ s, Reply.reqSid r = some s := by
        unfold Reply.reqSid; rw [head_encode]
        cases r <;> simp [sidLit, Req.isRaw] at hraw ⊢
      have hs' : Reply.reqSid (withSuppress v r) = some s := by
        rw [← hs]; unfold Reply.reqSid; rw [head_encode, head_encode]; cases r <;> rfl
      rw [parsePdu_char _ hwf' s hs' _ (by simp), parsePdu_char _ hwf s hs _ (by simp)]
      have : specAccept (view (withSuppress v r)) s (b0 :: bt) = specAccept (view r) s (b0 :: bt) := by
        unfold specAccept; cases r <;> rfl
      rw [this]

/-! ### opaque positive replies (the echo-length heuristic of `RawPositiveResponse.matches`) -/

/-- a positive reply without a typed class (unknown service, or unknown sub-function of ReadDTCInformation /
    DynamicallyDefineDataIdentifier / RoutineControl) is never the answer to a typed request: either it belongs to
    another service, or the echo-length comparison fails on the sub-function byte -/
theorem opaque_reply_refused_for_typed_request (r : Req) (hwf : r.WF) (hraw : r.isRaw = false) (b : Bytes)
    (hg : UdsResp.gate b = .ok .raw) : parsePdu b r = .mismatch := by
  have hd : decodeResp b = .ok (.rawPos b) := by unfold decodeResp; rw [hg]
  have hb : b ≠ [] := by rintro rfl; exact gate_nil_ne_raw hg
  obtain ⟨s, hs⟩ : ∃ s, sidLit r = some s := by cases r <;> simp [sidLit, Req.isRaw] at hraw ⊢
  have hs' : Reply.reqSid r = some s := by unfold Reply.reqSid; rw [head_encode]; exact hs
  rw [parsePdu_char r hwf s hs' b hb, hd]
  have hv : view r = r := by cases r <;> first | rfl | simp [Req.isRaw] at hraw
  simp only [hv, (rawPos_typed b hg r s hs hraw hwf).2]
  rfl

/-! ### accepted negative responses and the exception map -/

/-- what `parse_pdu` returns is the decoded reply -/
theorem accepted_is_decoded (r : Req) (b : Bytes) (x : Resp) (h : parsePdu b r = .accepted x) : decodeResp b = .ok x :=
  accepted_decoded h

/-- an accepted negative response is `7F sid nrc` with a response code for which the regenerated exception map has a
    class carrying that very code: `raise_for_error` raises the exception of the received code -/
theorem accepted_negative_has_exception (r : Req) (b : Bytes) (sid nrc : UInt8) (h : parsePdu b r = .accepted (.neg sid nrc)) :
    b = [0x7F, sid, nrc] ∧ ∃ e ∈ Gen.C03Tables.exceptionTable, e.1 = nrc.toNat ∧ e.2.2 = nrc.toNat := by
  have hd := accepted_decoded h
  have hwf : nrc.toNat ∈ nrcTable := pNeg_wf (decodeResp_parse hd rfl)
  refine ⟨(enc_of_dec hd).symm, ?_⟩
  rw [← errorCodes_agree] at hwf
  have := exception_total _ hwf
  simp only [List.mem_map] at this
  obtain ⟨e, he, hk⟩ := this
  exact ⟨e, he, hk, by rw [← exception_keys_consistent e he]; exact hk⟩

/-! ### the InputOutputControlByIdentifier convenience responses -/

/-- a convenience response matches the request of its own class for the same identifier … -/
theorem conv_genuine (k d : Nat) : convMatches k d (some k) d = true := by simp [convMatches]

/-- … and no request for another identifier -/
theorem conv_foreign (k d d' : Nat) (qk : Option Nat) (h : d ≠ d') : convMatches k d qk d' = false := by
  simp [convMatches, h]

/-! ### the classes are inhabited and mean what the property says -/

/-- a negative response naming the request's service is genuine exactly when its response code is a listed one -/
theorem genuine_negative_iff (r : Req) (s nrc : UInt8) (hs : Reply.reqSid r = some s) :
    Genuine r [0x7F, s, nrc] ↔ nrc.toNat ∈ nrcTable := by
  have hdec : decodeResp [0x7F, s, nrc] = if nrc.toNat ∈ nrcTable then .ok (.neg s nrc) else .error .nrc := by
    have he : entriesFor 127 = [⟨"NegativeResponse", .neg, 0x7F, false, none, false, 3, some 3⟩] := rfl
    simp [decodeResp, UdsResp.gate, dispatch, he, checkEntry, lenGate, subGate, parseKind, pNeg]
  unfold Genuine genuineB
  rw [hs]
  simp only [Decodable, hdec, isNegative, positiveOf]
  by_cases h : nrc.toNat ∈ nrcTable <;> simp [h]

-- every class is inhabited by a concrete exchange, and the outcomes are the expected ones
example : Genuine (.rdbi [0xF190]) [0x62, 0xF1, 0x90, 0x01] := by decide
example : Genuine (.rdbi [0xF190]) [0x7F, 0x22, 0x31] := by decide
example : Genuine (.dsc 1 true) [0x50, 0x01, 0x00, 0x32] := by decide
example : Foreign (.rdbi [0xF190]) [0x62, 0xF1, 0x91, 0x01] := by decide
example : Foreign (.rdbi [0xF190]) [0x7F, 0x10, 0xAA] := by decide
example : Foreign (.routine 1 0x1234 [] false) [0x71, 0x01, 0x12, 0x35] := by decide
example : UndecodableSameService (.rdbi [0xF190]) [0x7F, 0x22, 0xAA] := by decide
example : UndecodableSameService (.rdbi [0xF190]) [0x62, 0xF1] := by decide
example : (Req.rdbi [0xF190]).WF := by decide
example : parsePdu [0x7F, 0x22, 0xAA] (.rdbi [0xF190]) = .malformed := by decide
example : parsePdu [0x50, 0x01] (.raw [0x10, 0x81]) = .accepted (.dsc 0x01 []) := by decide
example : parsePdu [0x50, 0x02] (.dsc 1 true) = .mismatch := by decide

end Gallia.C03
