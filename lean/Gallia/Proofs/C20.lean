import Gallia.Proofs.Lemmas.ParseTransport
import Gallia.Proofs.Lemmas.ParseUnicode
import Gallia.Proofs.Lemmas.SockOpts
import Gallia.Gen.C20Tables
/-!
  C20 — target URIs and range expressions denote exactly what the user wrote.

  The model (`Gallia/Model/Parse.lean`) is the oracle; the theorems say that the oracle is the right one:
  every notation of every integer is read back as that integer, a rendered range expression denotes exactly the
  sorted, duplicate-free union of what is listed, host:port and URI construction round-trip.
-/
namespace Gallia.C20
open Gallia.Parse

/-! ## integers -/

/-- every spelling (base 10 / 16 / 8 / 2, prefix in either case, `+`, leading zeros, digit-group underscores, an
    underscore after the prefix, surrounding whitespace) of every integer is read back as that integer -/
theorem autoInt_spell (sp : Spelling) (h : sp.WF) (z : Int) : autoIntL (spell sp z) = some z :=
  autoIntL_spell sp h z

/-- the same through the `String` entry point used by the driver -/
theorem autoInt_spell_string (sp : Spelling) (h : sp.WF) (z : Int) : autoInt (String.ofList (spell sp z)) = some z := by
  unfold autoInt; rw [String.toList_ofList]; exact autoIntL_spell sp h z

/-- the plain notation of each base, e.g. `-0x1f`, `0o17`, `0b101`, `42` -/
theorem autoInt_spell_base (b : Base) (z : Int) : autoIntL (spell { base := b } z) = some z :=
  autoIntL_spell _ ⟨by simp, by simp⟩ z

example : spell { base := .hex, upper := true, usP := true, zeros := 2, us := [true, false, true], wsL := [' '], wsR := ['\t'] } (-255)
    = [' ', '-', '0', 'X', '_', '0', '_', '0', 'F', '_', 'F', '\t'] := by decide +kernel

/-- the base-0 rule: a decimal literal with a leading zero is not accepted unless it is zero -/
theorem autoInt_leading_zero_rejected :
    autoIntL ['0', '1', '0'] = none ∧ autoIntL ['0', '0'] = some 0 ∧ autoIntL ['0', '_', '0'] = some 0 ∧
    autoIntL ['1', '_', '_', '0'] = none ∧ autoIntL ['_', '1'] = none ∧ autoIntL ['1', '_'] = none ∧
    autoIntL ['0', 'x'] = none ∧ autoIntL ['-', ' ', '1'] = none ∧ autoIntL ([] : Str) = none := by decide

/-! ### the Unicode edge of `int()` -/

/-- `int()` reads a text through `normChar` only: any decimal digit may be replaced by the same digit of another script and
    any skipped space by another one without changing what is read (accepted or not) -/
theorem autoInt_unicode (u s : Str) (h : u.map normChar = s.map normChar) : autoIntL u = autoIntL s := autoIntL_congr u s h

/-- every spelling of every integer written with the decimal digits of any script (Arabic-Indic, Devanagari, fullwidth,
    mathematical ... : `z0` is the script's zero), with any white space `int()` skips (NBSP, U+2028, U+3000 ...) around it -/
theorem autoInt_spell_script (z0 : Nat) (hz : z0 ∈ decZeros) (sp : Spelling) (h : sp.WF) (z : Int) :
    autoIntL (toScript z0 (spell sp z)) = some z := by
  rw [autoIntL_toScript z0 hz]; exact autoIntL_spell sp h z

/-- each decimal digit of each script is read as its value -/
theorem autoInt_digit_any_script (z0 : Nat) (hz : z0 ∈ decZeros) (d : Nat) (hd : d < 10) :
    autoIntL [Char.ofNat (z0 + d)] = some (d : Int) := by
  unfold autoIntL
  simp only [List.map_cons, List.map_nil, normChar_digit z0 hz d hd]
  have : ∀ k, k < 10 → autoIntA [Char.ofNat (48 + k)] = some (k : Int) := by decide
  exact this d hd

example : toScript 0x0660 (spell { base := .hex, wsL := [Char.ofNat 0xA0] } (-31)) =
    [Char.ofNat 0xA0, '-', Char.ofNat 0x0660, 'x', Char.ofNat 0x0661, 'f'] := by decide +kernel

/-- the exact boundary: whatever `auto_int` accepts consists of ASCII characters, non-ASCII Unicode spaces and Unicode
    decimal digits only; U+001C..U+001F (spaces for `str.isspace`) are not skipped -/
theorem autoInt_alphabet (u : Str) (z : Int) (h : autoIntL u = some z) :
    ∀ c ∈ u, c.toNat < 128 ∨ isUniSpace c = true ∨ (uniDigit c).isSome = true := autoIntL_alphabet h

theorem autoInt_unicode_witnesses :
    autoIntL [Char.ofNat 0x663] = some 3 ∧ autoIntL [Char.ofNat 0xFF10, 'x', '1'] = some 1 ∧
    autoIntL ['0', Char.ofNat 0xFF58, '1'] = none ∧ autoIntL [Char.ofNat 0xA0, '7', Char.ofNat 0x2028] = some 7 ∧
    autoIntL [Char.ofNat 0x1C, '7'] = none ∧ autoIntL [Char.ofNat 0x2212, '1'] = none ∧
    autoIntL ['0', Char.ofNat 0x661] = none := by decide +kernel

/-- (T) the tables are the live ones: what `str.isspace` accepts, what `int()` skips, the Unicode decimal digits, what
    pydantic's lax int trims and accepts as digits -/
theorem unicode_tables_agree :
    Gen.C20Tables.strSpaces = [9, 10, 11, 12, 13, 28, 29, 30, 31, 32] ++ uniSpaces ∧
    Gen.C20Tables.intSpaces = [9, 10, 11, 12, 13, 32] ++ uniSpaces ∧
    Gen.C20Tables.decZeros = decZeros ∧
    Gen.C20Tables.laxSpaces = [9, 10, 11, 12, 13, 32] ++ uniSpaces ∧
    Gen.C20Tables.laxDigits = [48, 49, 50, 51, 52, 53, 54, 55, 56, 57] := by decide +kernel

/-- the predicates are these tables -/
theorem space_predicates (c : Char) :
    (isWsInt c = true ↔ c.toNat ∈ [9, 10, 11, 12, 13, 32] ++ uniSpaces) ∧
    (isSpaceStr c = true ↔ c.toNat ∈ [9, 10, 11, 12, 13, 28, 29, 30, 31, 32] ++ uniSpaces) := by
  have hws : isWs c = true ↔ c.toNat ∈ [9, 10, 11, 12, 13, 32] := by
    constructor
    · intro h
      have := isWs_mem h
      simp only [List.mem_cons, List.not_mem_nil, or_false] at this
      rcases this with rfl | rfl | rfl | rfl | rfl | rfl <;> decide
    · intro h
      have hc : c = Char.ofNat c.toNat := (Char.ofNat_toNat c).symm
      simp only [List.mem_cons, List.not_mem_nil, or_false] at h
      rw [hc]
      rcases h with e | e | e | e | e | e <;> rw [e] <;> decide
  have hu : isUniSpace c = true ↔ c.toNat ∈ uniSpaces := by simp [isUniSpace]
  constructor
  · simp only [isWsInt, Bool.or_eq_true, hws, hu, List.mem_append]
  · simp only [isSpaceStr, Bool.or_eq_true, Bool.and_eq_true, decide_eq_true_eq, hws, hu, List.mem_append]
    constructor
    · rintro ((h | h) | h)
      · left; simp only [List.mem_cons, List.not_mem_nil, or_false] at h ⊢; omega
      · left; simp only [List.mem_cons, List.not_mem_nil, or_false]; omega
      · right; exact h
    · rintro (h | h)
      · simp only [List.mem_cons, List.not_mem_nil, or_false] at h
        by_cases h28 : 28 ≤ c.toNat ∧ c.toNat ≤ 31
        · left; right; exact h28
        · left; left; simp only [List.mem_cons, List.not_mem_nil, or_false]; omega
      · right; exact h

/-! ## one-dimensional ranges -/

/-- the denotation is strictly increasing -/
theorem denote_sorted (es : List Elem) : List.Pairwise (· < ·) (denote es) := sorted_denote es

theorem denote_nodup (es : List Elem) : (denote es).Nodup := sorted_nodup (sorted_denote es)

/-- exactly the listed numbers: `n` is in the result iff some element lists it (`one m`: `n = m`; `range a b`:
    `a ≤ n ≤ b`, so a reversed range lists nothing) -/
theorem mem_denote (es : List Elem) (n : Nat) : n ∈ denote es ↔ ∃ e ∈ es, e.Covers n := mem_denote' es n

/-- `denote` is the only function with these two properties -/
theorem denote_unique (es : List Elem) (l : List Nat) (hs : List.Pairwise (· < ·) l)
    (hm : ∀ n, n ∈ l ↔ ∃ e ∈ es, e.Covers n) : l = denote es :=
  sorted_ext hs (sorted_denote es) (fun n => by rw [hm, mem_denote'])

/-- order and repetition of the elements do not matter -/
theorem denote_perm (es es' : List Elem) (h : ∀ e, e ∈ es ↔ e ∈ es') : denote es = denote es' :=
  sorted_ext (sorted_denote _) (sorted_denote _) (fun n => by
    rw [mem_denote', mem_denote']
    constructor
    · rintro ⟨e, he, hc⟩; exact ⟨e, (h e).mp he, hc⟩
    · rintro ⟨e, he, hc⟩; exact ⟨e, (h e).mpr he, hc⟩)

/-- a range expression written with any notation of each number, any whitespace around the numbers, denotes the
    sorted union of its elements -/
theorem unravel_render (es : SpElems) (h : es.WF) : unravel (render es) = some (denote (elemsOf es)) := by
  unfold unravel; rw [parseElems_render es h]; rfl

/-- the same with the decimal digits of any script -/
theorem unravel_render_script (z0 : Nat) (hz : z0 ∈ decZeros) (es : SpElems) (h : es.WF) :
    unravel (toScript z0 (render es)) = some (denote (elemsOf es)) := by
  rw [unravel_congr _ _ (map_normChar_toScript z0 hz _)]; exact unravel_render es h

/-- `str.isspace()` decides the empty expression: U+001C alone is an empty list, but `1` preceded by U+001C is refused
    because `int()` does not skip it; NBSP is skipped -/
example : unravel [Char.ofNat 0x1C] = some [] ∧ unravel [Char.ofNat 0x1C, '1'] = none ∧
    unravel [Char.ofNat 0xA0, '1', ',', Char.ofNat 0x662, '-', Char.ofNat 0x664] = some [1, 2, 3, 4] := by decide +kernel

example : render [(.range 0x10 0x2f, .range { base := .hex } { base := .hex }), (.one 0x3e, .one { base := .hex, wsL := [' '] })]
    = ['0', 'x', '1', '0', '-', '0', 'x', '2', 'f', ',', ' ', '0', 'x', '3', 'e'] := by decide +kernel

example : denote [.range 3 5, .one 4, .range 9 7, .one 1, .range 5 6] = [1, 3, 4, 5, 6] := by decide +kernel

/-! ## two-dimensional ranges -/

/-- the keys are exactly the listed outer numbers, in increasing order -/
theorem denote2d_keys (items : List Item) : (denote2d items).map (·.1) = denote (items.flatMap (·.outer)) :=
  keys_denote2d items

theorem denote2d_keys_sorted (items : List Item) : List.Pairwise (· < ·) ((denote2d items).map (·.1)) := by
  rw [keys_denote2d]; exact sorted_denote _

/-- a key maps to "all" iff some bare item lists it (whatever else is written for the key, before or after) -/
theorem denote2d_all (items : List Item) (k : Nat) :
    (k, none) ∈ denote2d items ↔ ∃ it ∈ items, (∃ e ∈ it.outer, e.Covers k) ∧ it.inner = none := by
  rw [mem_denote2d']
  constructor
  · rintro ⟨_, hv⟩
    obtain ⟨it, hit, hk, hn⟩ := (valueOf_none items k).mp hv.symm
    exact ⟨it, hit, (hasKey_iff it k).mp hk, hn⟩
  · rintro ⟨it, hit, hk, hn⟩
    have hk' := (hasKey_iff it k).mpr hk
    exact ⟨⟨it, hit, hk'⟩, ((valueOf_none items k).mpr ⟨it, hit, hk', hn⟩).symm⟩

/-- otherwise it maps to the sorted union of the inner lists of every item that lists the key -/
theorem denote2d_some (items : List Item) (k : Nat) (l : List Nat) (h : (k, some l) ∈ denote2d items) :
    List.Pairwise (· < ·) l ∧
    ∀ n, n ∈ l ↔ ∃ it ∈ items, (∃ e ∈ it.outer, e.Covers k) ∧ ∃ i, it.inner = some i ∧ ∃ e ∈ i, e.Covers n := by
  obtain ⟨_, hv⟩ := (mem_denote2d' items k (some l)).mp h
  obtain ⟨hs, hm⟩ := valueOf_some items k l hv.symm
  refine ⟨hs, fun n => ?_⟩
  rw [hm]
  constructor
  · rintro ⟨it, hit, hk, rest⟩; exact ⟨it, hit, (hasKey_iff it k).mp hk, rest⟩
  · rintro ⟨it, hit, hk, rest⟩; exact ⟨it, hit, (hasKey_iff it k).mpr hk, rest⟩

/-- every listed key is present -/
theorem denote2d_complete (items : List Item) (k : Nat) (it : Item) (hit : it ∈ items) (e : Elem) (he : e ∈ it.outer)
    (hc : e.Covers k) : ∃ v, (k, v) ∈ denote2d items :=
  ⟨valueOf items k, (mem_denote2d' items k _).mpr ⟨⟨it, hit, (hasKey_iff it k).mpr ⟨e, he, hc⟩⟩, rfl⟩⟩

/-- a two-dimensional expression written in any notation (no space inside an item) denotes `denote2d` of its items -/
theorem unravel2d_render (rs : List ItemR) (h : ∀ r ∈ rs, r.WF) :
    unravel2d (render2d rs) = some (denote2d (rs.map ItemR.item)) := by
  cases rs with
  | nil => decide
  | cons r rs' =>
    unfold unravel2d
    rw [parseItems_render2d (r :: rs') (by simp) h]; rfl

example : unravel2d ['1', ':', '1', ',', '2', ' ', ' ', '1', '-', '3', ':', '0', ',', '2', '-', '4', ' ', ' ', '3'] = some [(1, some [0, 1, 2, 3, 4]), (2, some [0, 2, 3, 4]), (3, none)] := by
  decide +kernel


/-! ## host:port -/

/-- joining and splitting is lossless for every host over the host alphabet (lower-case names, IPv4, IPv6 with or
    without zone) and every port 0..65535, whatever default port is supplied -/
theorem split_join (h : Str) (hok : HostOK h) (p : Nat) (hp : p ≤ 65535) (dflt : Option Nat) :
    splitHostPort (joinHostPort h p) dflt = some (h, some p) := splitHostPort_join h hok p hp dflt

/-- dotted-quad IPv4 and colon-separated IPv6 literals are hosts in the sense of `split_join` -/
theorem hostOK_of_chars (h : Str) (hne : h ≠ [])
    (hc : ∀ c ∈ h, isLowerCh c = true ∨ isDigit c = true ∨ c = '.' ∨ c = ':' ∨ c = '-' ∨ c = '_' ∨ c = '%') : HostOK h := by
  refine ⟨hne, fun c hm => ?_⟩
  rcases hc c hm with h | h | rfl | rfl | rfl | rfl | rfl
  · simp [hostChar, h]
  · simp [hostChar, h]
  all_goals decide

example : HostOK ['f', 'e', '8', '0', ':', ':', '1'] := hostOK_of_chars _ (by simp) (by decide)
example : joinHostPort ['f', 'e', '8', '0', ':', ':', '1'] 0 = ['[', 'f', 'e', '8', '0', ':', ':', '1', ']', ':', '0'] := by
  decide +kernel
example : HostOK ['1', '0', '.', '0', '.', '0', '.', '7'] := hostOK_of_chars _ (by simp) (by decide)

/-- an explicit port always wins over the default, port 0 included; without a port the default is used -/
theorem split_default (h : Str) (hok : HostOK h) (dflt : Option Nat) :
    (hostInfo (netlocOf h none)).map (fun (x : Str × Option Nat) => (x.1, match x.2 with | some p => some p | none => dflt))
      = some (h, dflt) := by
  rw [hostInfo_netloc h hok none (fun q hq => by cases hq)]; rfl

/-! ## percent-encoding -/

/-- `unquote_to_bytes(quote_from_bytes(bs, safe='')) == bs` for every byte string -/
theorem unquote_quote (bs : List UInt8) : unquoteB (quoteB bs) = bs := unquoteB_quoteB bs

/-- the same for `quote_plus` (space written as `+`), as `urlencode` / `parse_qs` pair them -/
theorem unquote_quote_plus (bs : List UInt8) : unquoteB (plusToSpace (quotePlusB bs)) = bs := unquoteB_quotePlusB bs

/-- UTF-8: decoding (with replacement) the encoding of a text gives the text -/
theorem utf8_roundtrip (s : Str) : utf8Dec (utf8Str s) = s := utf8Dec_utf8Str s

/-- `unquote_plus(quote_plus(s)) == s` for every text: `&`, `=`, `#`, `?`, `%`, `+`, space, control and non-ASCII characters -/
theorem unquote_quote_text (s : Str) : unquotePlus (quotePlus s) = s := unquotePlus_quotePlus s

/-- what is written never contains a character that means something in a URI -/
theorem quote_plus_alphabet (s : Str) : ∀ c ∈ quotePlus s, qpChar c = true := quotePlus_chars s

example : quotePlus ['a', ' ', '&', '=', '%', '+', Char.ofNat 0xE9, Char.ofNat 0x1F600, '~'] =
    "a+%26%3D%25%2B%C3%A9%F0%9F%98%80~".toList := by decide +kernel

/-- ill-formed UTF-8 behind `%` escapes is read as U+FFFD per maximal ill-formed subpart; a `%` without two hex digits stays -/
example : unquotePlus "%ff%C3%A9%c3+%E2%82%zz%4".toList =
    [Char.ofNat 0xFFFD, Char.ofNat 0xE9, Char.ofNat 0xFFFD, ' ', Char.ofNat 0xFFFD, '%', 'z', 'z', '%', '4'] := by decide +kernel

/-- (T) the always-safe set is the live one -/
theorem quote_safe_agrees : Gen.C20Tables.quoteSafe = (List.range 256).filter (fun n => isSafeByte (UInt8.ofNat n)) := by
  decide +kernel

/-! ## target URIs -/

/-- a URI built from scheme, host, optional port and parameters parses back to exactly these parts - for *any* parameter
    names and values (`ArgsOK`: the names are distinct, as in a `dict`, and no value is blank) -/
theorem uri_roundtrip (sch h : Str) (p : Option Nat) (args : Args) (hs : SchemeOK sch) (hok : HostOK h)
    (hp : ∀ q, p = some q → q ≤ 65535) (ha : ArgsOK args) :
    parseUri (fromParts sch h p args) = some ⟨sch, some h, some p, [], args⟩ :=
  parseUri_fromParts sch h p args hs hok hp ha

example : ArgsOK [("a b&=#?%+".toList, "v /~".toList), ([], ['x']), ([Char.ofNat 0xE9], [Char.ofNat 0x1F600])] :=
  ⟨by decide, by decide⟩

/-- `qs_flat` of a written query is the written parameter list (distinct names, non-blank values) -/
theorem qsFlat_roundtrip (args : Args) (ha : ArgsOK args) : qsFlat (queryOf args) = args := qsFlat_queryOf args ha

/-- exactly what `qs_flat` does with *every* parameter list, repeated names and blank values included: an entry whose
    value is blank is dropped (`parse_qs` is called with `keep_blank_values=False`), of several entries with one name the
    first is kept, the order of first appearance is preserved -/
theorem qsFlat_any (args : Args) : qsFlat (queryOf args) = firstWins (args.filter (fun kv => kv.2 ≠ [])) :=
  qsFlat_queryOf_any args

/-- `firstWins` keeps, for each name, the first value written for it -/
theorem firstWins_lookup (args : Args) (k : Str) : lookupS k (firstWins args) = lookupS k args := by
  induction args with
  | nil => rfl
  | cons kv rest ih =>
    unfold lookupS at ih ⊢
    simp only [firstWins, List.find?_cons]
    by_cases hk : kv.1 = k
    · simp [hk]
    · simp only [hk, decide_false]
      rw [find_filter_ne k kv.1 hk]
      exact ih

/-- the loss, as a witness: a parameter written with a blank value does not come back, a repeated name keeps its first value.
    Neither is a defect of the property: `from_parts` takes a `dict` (names are distinct) and no transport setting has a blank
    value (`config_accepts`: every setting is a number or a truth value), so the parameter maps the property quantifies over
    round-trip (`uri_roundtrip`) -/
theorem qsFlat_loss_witness :
    qsFlat (queryOf [(['a'], []), (['b'], ['1']), (['b'], ['2'])]) = [(['b'], ['1'])] ∧
    parseUri (fromParts ['t', 'c', 'p'] ['h'] none [(['a'], [])]) = some ⟨['t', 'c', 'p'], some ['h'], some none, [], []⟩ := by
  decide +kernel

/-- first occurrence of a repeated key wins, blank values and pieces without `=` are dropped -/
example : qsFlat ['a', '=', '1', '&', 'a', '=', '2', '&', 'b', '=', '&', 'c'] = [(['a'], ['1'])] := by decide +kernel

/-! ## unix socket URIs, paths -/

/-- a path as `unix://` URIs carry it: anything but `?`, `#` and the characters `urlsplit` deletes -/
def PathOK (p : Str) : Prop :=
  (p = [] ∨ p.head? = some '/') ∧ ∀ c ∈ p, c ≠ '?' ∧ c ≠ '#' ∧ c ≠ '\t' ∧ c ≠ '\r' ∧ c ≠ '\n'

/-- `scheme:///abs/path` (empty host part): no host, no port, exactly the written path, which is not unquoted -/
theorem unix_path (sch p : Str) (hs : SchemeOK sch) (hp : PathOK p) :
    parseUri (sch ++ [':', '/', '/'] ++ p) = some ⟨sch, none, some none, p, []⟩ := by
  have hcolon : ':' ∉ sch := fun hm => schemeCh_ne_colon (hs.chars _ hm) rfl
  obtain ⟨c, t, hct, hlow⟩ := hs.head
  have hne : sch ≠ [] := by simp [hct]
  have hall : sch.all isSchemeChar = true := List.all_eq_true.mpr (fun x hx => schemeCh_isSchemeChar (hs.chars x hx))
  have hhead : sch.head?.any isAlphaCh = true := by simp [hct, isAlphaCh, hlow]
  have hform : sch ++ [':', '/', '/'] ++ p = sch ++ ':' :: ('/' :: '/' :: p) := by simp
  have hkeep : ∀ x ∈ (':' :: '/' :: '/' :: p), x ≠ '\t' ∧ x ≠ '\r' ∧ x ≠ '\n' := by
    intro x hx
    simp only [List.mem_cons] at hx
    rcases hx with rfl | rfl | rfl | hx
    · decide
    · decide
    · decide
    · exact ⟨(hp.2 x hx).2.2.1, (hp.2 x hx).2.2.2.1, (hp.2 x hx).2.2.2.2⟩
  have hpath : pathPart p = p := by
    unfold pathPart
    apply takeWhile_all
    intro x hx
    simp only [ne_eq, decide_eq_true_eq]
    exact ⟨(hp.2 x hx).1, (hp.2 x hx).2.1⟩
  have hq : queryPart p = [] := by
    unfold queryPart
    rw [dropWhile_all _ p (by
      intro x hx
      simp only [ne_eq, decide_eq_true_eq]
      exact ⟨(hp.2 x hx).1, (hp.2 x hx).2.1⟩)]
  unfold parseUri
  rw [hform, cleanUrl_keep sch _ hs hkeep]
  simp only
  rw [splitFirst_stop ':' sch _ hcolon]
  simp only [hne, hall, hhead, Bool.not_true, Bool.false_eq_true, or_self, if_false]
  have hnl : splitNetloc ('/' :: '/' :: p) = ([], p) := by
    unfold splitNetloc
    rcases hp.1 with rfl | hh
    · rfl
    · cases p with
      | nil => rfl
      | cons a r =>
        simp only [List.head?_cons, Option.some.injEq] at hh
        subst hh
        simp [List.takeWhile, isDelim]
  rw [hnl]
  have e1 : hostPortOf [] = (none, some none) := by decide
  have e2 : qsFlat [] = [] := by decide
  simp only [hpath, hq, lower_scheme hs, e1, e2]

example : PathOK "/tmp/gallia sock;v=1%20".toList := ⟨Or.inr rfl, by decide⟩

/-- what is *not* expressible: in `unix://tmp/sock` the first segment is the host part and is silently dropped by the unix
    transports (they connect to `/sock`); a relative path needs the `unix:tmp/sock` form -/
theorem unix_relative_witness :
    parseUri "unix://tmp/sock".toList = some ⟨"unix".toList, some "tmp".toList, some none, "/sock".toList, []⟩ ∧
    parseUri "unix:tmp/sock".toList = some ⟨"unix".toList, none, some none, "tmp/sock".toList, []⟩ ∧
    parseUri "unix:///a%20b?x=1#f".toList = some ⟨"unix".toList, none, some none, "/a%20b".toList, [(['x'], ['1'])]⟩ := by
  decide +kernel

/-! ## the transports accept what was written, with the same numbers -/

/-- DoIP: whatever URL-safe notation the four settings are written in, the transport reads the same numbers from
    the URI built by `from_parts` -/
theorem config_accepts_doip (h : Str) (hok : HostOK h) (p : Option Nat) (hp : ∀ q, p = some q → q ≤ 65535)
    (s1 : Spelling) (src : Int) (s2 : Spelling) (tgt : Int) (act ver : Option (Spelling × Int))
    (h1 : s1.WF) (h2 : s2.WF) (ha : optOK act) (hv : optOK ver) :
    (parseUri (fromParts ['d', 'o', 'i', 'p'] h p (doipArgs s1 src s2 tgt act ver))).bind (fun u => doipConfig u.args)
      = some ⟨src, tgt, act.map (·.2), ver.map (·.2)⟩ := by
  rw [parseUri_fromParts _ h p _ ⟨⟨'d', _, rfl, by decide⟩, by decide⟩ hok hp (argsOK_doip s1 src s2 tgt act ver)]
  exact doipConfig_args s1 src s2 tgt act ver h1 h2 ha hv

/-- HSFZ, as the discoverer writes it (`ack_timeout` in decimal) -/
theorem config_accepts_hsfz (h : Str) (hok : HostOK h) (p : Option Nat) (hp : ∀ q, p = some q → q ≤ 65535)
    (s1 : Spelling) (src : Int) (s2 : Spelling) (dst : Int) (ack : Option Nat) (h1 : s1.WF) (h2 : s2.WF) :
    (parseUri (fromParts ['h', 's', 'f', 'z'] h p (hsfzArgs s1 src s2 dst ack))).bind (fun u => hsfzConfig u.args)
      = some ⟨src, dst, ack.map (fun n => (n : Int))⟩ := by
  rw [parseUri_fromParts _ h p _ ⟨⟨'h', _, rfl, by decide⟩, by decide⟩ hok hp (argsOK_hsfz s1 src s2 dst ack)]
  exact hsfzConfig_args s1 src s2 dst ack h1 h2

/-- ISO-TP, as the discoverer writes it (booleans as `true` / `false`, optional extended addresses and padding) -/
theorem config_accepts_isotp (h : Str) (hok : HostOK h) (fd ext : Bool)
    (s1 : Spelling) (src : Int) (s2 : Spelling) (dst : Int) (ea ra tp rp : Option (Spelling × Int))
    (h1 : s1.WF) (h2 : s2.WF) (hea : optOK ea) (hra : optOK ra) (htp : optOK tp) (hrp : optOK rp) :
    (parseUri (fromParts ['i', 's', 'o', 't', 'p'] h none (isotpArgs fd ext s1 src s2 dst ea ra tp rp))).bind
        (fun u => isotpConfig u.args)
      = some ⟨src, dst, some ext, some fd, none, ea.map (·.2), ra.map (·.2), tp.map (·.2), rp.map (·.2), none⟩ := by
  rw [parseUri_fromParts _ h none _ ⟨⟨'i', _, rfl, by decide⟩, by decide⟩ hok (fun q hq => by cases hq)
    (argsOK_isotp fd ext s1 src s2 dst ea ra tp rp)]
  exact isotpConfig_args fd ext s1 src s2 dst ea ra tp rp h1 h2 hea hra htp hrp

/-! ## every transport of the registry -/

/-- (T) the transports, their `connect()` facts and their config fields are the live ones: `load_transports()`, the AST of each
    `connect` (calls `check_scheme`, refuses a missing host, default port, uses `.hostname` / `.path` / `.port`), the pydantic
    model built from `qs_flat` (kind of reader per field, which fields are required) -/
theorem all_schemes_modelled : Gen.C20Tables.transports.map genRow = transportTable.map modelRow := by decide +kernel

theorem schemes_agree : Gen.C20Tables.schemes = schemeList.map String.ofList := by decide +kernel

/-- every scheme of `TransportScheme` has a transport in the table and vice versa -/
theorem schemes_have_transports : ∀ s, s ∈ schemeList ↔ ∃ t ∈ transportTable, t.scheme = s := by
  intro s
  constructor
  · intro h
    have : ∀ s ∈ schemeList, (transportOf s).isSome = true := by decide +kernel
    have hs := this s h
    cases ht : transportOf s with
    | none => simp [ht] at hs
    | some t =>
      unfold transportOf at ht
      exact ⟨t, List.mem_of_find?_eq_some ht, by simpa using List.find?_some ht⟩
  · rintro ⟨t, ht, rfl⟩
    exact (schemeOK_table t ht).2

/-- **the settings of every transport**: a URI built by `from_parts` with the transport's scheme, any host and port, and a
    parameter map that writes each field the way its reader allows - `auto_int` fields in any base / spelling (sign, prefix case,
    leading zeros, underscores, white space), plain `int` fields in decimal with optional `+` and white space, `bool` fields as
    any accepted word in any capitalisation - in any order and among any parameters that are not fields (they are ignored), is
    read back as exactly these numbers / truth values; fields that are left out keep their default -/
theorem config_accepts (t : Transport) (ht : t ∈ transportTable) (h : Str) (hok : HostOK h) (p : Option Nat)
    (hp : ∀ q, p = some q → q ≤ 65535) (args : Args) (asg : Str → Option Written) (hw : Writes args t.fields asg) :
    (parseUri (fromParts t.scheme h p args)).bind (fun u => cfgOf t.fields u.args) =
      some (t.fields.map fun f => (f.name, (asg f.name).map Written.val)) :=
  cfg_of_fromParts t ht h hok p hp args asg hw

/-- **and `connect()` goes on with them**: the scheme check passes, the host is the written host, the port is the written port
    or else the transport's default (13400 for DoIP, 6801 for HSFZ, none for the others) -/
theorem connect_accepts (t : Transport) (ht : t ∈ transportTable) (h : Str) (hok : HostOK h) (p : Option Nat)
    (hp : ∀ q, p = some q → q ≤ 65535) (args : Args) (asg : Str → Option Written) (hw : Writes args t.fields asg) :
    (parseUri (fromParts t.scheme h p args)).map (connectPlan t) =
      some (.ok ⟨if t.usesHost then some h else none,
                 if t.usesPort then (match p with | some q => some q | none => t.defaultPort) else none,
                 if t.usesPath then some [] else none,
                 t.fields.map fun f => (f.name, (asg f.name).map Written.val)⟩) :=
  connectPlan_fromParts t ht h hok p hp args asg hw

/-- a plain `int` setting (`ack_timeout`, `frame_txtime`, `tx_dl`) in decimal with optional sign, leading zeros, a `.0…0` suffix and
    any white space pydantic trims is read as the number written -/
theorem plain_int_spell (ls : LaxSp) (h : ls.WF) (z : Int) : plainInt (laxText ls z) = some z := plainInt_laxText ls h z

example : laxText { wsL := [Char.ofNat 0xA0], plus := true, zeros := 2, frac := 3, wsR := ['\n'] } 1000 =
    [Char.ofNat 0xA0, '+', '0', '0', '1', '0', '0', '0', '.', '0', '0', '0', '\n'] := by decide +kernel

/-- what a plain `int` setting does not accept: other bases, exponents, a fraction, inner spaces, U+001C -/
example : plainInt "0x10".toList = none ∧ plainInt "1e3".toList = none ∧ plainInt "1.5".toList = none ∧
    plainInt "1 0".toList = none ∧ plainInt [Char.ofNat 0x1C, '1'] = none ∧ plainInt "1_0".toList = some 10 := by decide +kernel

/-- a `bool` setting (`is_fd`, `is_extended`): each accepted word in each capitalisation -/
theorem bool_spell (wb : Str × Bool) (h : wb ∈ boolWords) (mask : List Bool) : boolVal (caseVar mask wb.1) = some wb.2 :=
  boolVal_caseVar wb h mask

example : caseVar [true, false, true] ['y', 'e', 's'] = ['Y', 'e', 'S'] ∧ boolVal ['t', 'r', 'u', 'e', ' '] = none ∧
    boolVal ['2'] = none := by decide +kernel

/-- non-vacuous: a raw-CAN target with `is_fd=TRUE`, `dst_id=  0X_7_ff`, and two parameters that are no fields -/
def canRawDemo : Args :=
  [("x y".toList, "1".toList), (kDstId, spell { base := .hex, upper := true, usP := true, us := [true], wsL := [' ', ' '] } 0x7ff),
   (kIsFd, caseVar [true, true, true, true] ['t', 'r', 'u', 'e']), ([], ['z'])]

def canRawAsg (k : Str) : Option Written :=
  if k = kDstId then some (.autoInt { base := .hex, upper := true, usP := true, us := [true], wsL := [' ', ' '] } 0x7ff)
  else if k = kIsFd then some (.bool (['t', 'r', 'u', 'e'], true) [true, true, true, true])
  else none

example : Writes canRawDemo canRawT.fields canRawAsg := by
  refine ⟨⟨by decide +kernel, by decide +kernel⟩, by decide, ?_, by decide +kernel⟩
  intro f hf w hw
  simp only [canRawT, List.mem_cons, List.not_mem_nil, or_false] at hf
  rcases hf with rfl | rfl | rfl
  · simp [canRawAsg, kIsExtended, kDstId, kIsFd] at hw
  · have : canRawAsg kIsFd = some (.bool (['t', 'r', 'u', 'e'], true) [true, true, true, true]) := by decide +kernel
    rw [this] at hw; cases hw; exact ⟨rfl, (by decide : ((['t', 'r', 'u', 'e'], true) : Str × Bool) ∈ boolWords)⟩
  · have : canRawAsg kDstId = some (.autoInt { base := .hex, upper := true, usP := true, us := [true], wsL := [' ', ' '] } 0x7ff) := by
      decide +kernel
    rw [this] at hw; cases hw
    exact ⟨rfl, (by decide : ∀ c ∈ [' ', ' '], isWsInt c = true), (by decide : ∀ c ∈ ([] : Str), isWsInt c = true)⟩

example : fromParts canRawT.scheme "vcan0".toList none canRawDemo = "can-raw://vcan0?x+y=1&dst_id=++0X_7_FF&is_fd=TRUE&=z".toList := by
  decide +kernel

/-- the same per scheme: one `config_accepts_<scheme>` / `connect_accepts_<scheme>` for each transport of the registry -/
theorem config_accepts_canraw (h : Str) (hok : HostOK h) (p : Option Nat) (hp : ∀ q, p = some q → q ≤ 65535) (args : Args)
    (asg : Str → Option Written) (hw : Writes args canRawT.fields asg) :
    (parseUri (fromParts canRawT.scheme h p args)).bind (fun u => cfgOf canRawT.fields u.args) =
      some (canRawT.fields.map fun f => (f.name, (asg f.name).map Written.val)) :=
  config_accepts canRawT (by decide) h hok p hp args asg hw

theorem config_accepts_doip_any (h : Str) (hok : HostOK h) (p : Option Nat) (hp : ∀ q, p = some q → q ≤ 65535) (args : Args)
    (asg : Str → Option Written) (hw : Writes args doipT.fields asg) :
    (parseUri (fromParts doipT.scheme h p args)).bind (fun u => cfgOf doipT.fields u.args) =
      some (doipT.fields.map fun f => (f.name, (asg f.name).map Written.val)) :=
  config_accepts doipT (by decide) h hok p hp args asg hw

theorem config_accepts_hsfz_any (h : Str) (hok : HostOK h) (p : Option Nat) (hp : ∀ q, p = some q → q ≤ 65535) (args : Args)
    (asg : Str → Option Written) (hw : Writes args hsfzT.fields asg) :
    (parseUri (fromParts hsfzT.scheme h p args)).bind (fun u => cfgOf hsfzT.fields u.args) =
      some (hsfzT.fields.map fun f => (f.name, (asg f.name).map Written.val)) :=
  config_accepts hsfzT (by decide) h hok p hp args asg hw

theorem config_accepts_isotp_any (h : Str) (hok : HostOK h) (p : Option Nat) (hp : ∀ q, p = some q → q ≤ 65535) (args : Args)
    (asg : Str → Option Written) (hw : Writes args isotpT.fields asg) :
    (parseUri (fromParts isotpT.scheme h p args)).bind (fun u => cfgOf isotpT.fields u.args) =
      some (isotpT.fields.map fun f => (f.name, (asg f.name).map Written.val)) :=
  config_accepts isotpT (by decide) h hok p hp args asg hw

theorem connect_accepts_tcp (h : Str) (hok : HostOK h) (p : Option Nat) (hp : ∀ q, p = some q → q ≤ 65535) (args : Args)
    (asg : Str → Option Written) (hw : Writes args tcpT.fields asg) :
    (parseUri (fromParts tcpT.scheme h p args)).map (connectPlan tcpT) =
      some (.ok ⟨if tcpT.usesHost then some h else none,
                 if tcpT.usesPort then (match p with | some q => some q | none => tcpT.defaultPort) else none,
                 if tcpT.usesPath then some [] else none,
                 tcpT.fields.map fun f => (f.name, (asg f.name).map Written.val)⟩) :=
  connect_accepts tcpT (by decide) h hok p hp args asg hw

theorem connect_accepts_tcp_lines (h : Str) (hok : HostOK h) (p : Option Nat) (hp : ∀ q, p = some q → q ≤ 65535) (args : Args)
    (asg : Str → Option Written) (hw : Writes args tcpLinesT.fields asg) :
    (parseUri (fromParts tcpLinesT.scheme h p args)).map (connectPlan tcpLinesT) =
      some (.ok ⟨if tcpLinesT.usesHost then some h else none,
                 if tcpLinesT.usesPort then (match p with | some q => some q | none => tcpLinesT.defaultPort) else none,
                 if tcpLinesT.usesPath then some [] else none,
                 tcpLinesT.fields.map fun f => (f.name, (asg f.name).map Written.val)⟩) :=
  connect_accepts tcpLinesT (by decide) h hok p hp args asg hw

theorem connect_accepts_unix (h : Str) (hok : HostOK h) (p : Option Nat) (hp : ∀ q, p = some q → q ≤ 65535) (args : Args)
    (asg : Str → Option Written) (hw : Writes args unixT.fields asg) :
    (parseUri (fromParts unixT.scheme h p args)).map (connectPlan unixT) =
      some (.ok ⟨if unixT.usesHost then some h else none,
                 if unixT.usesPort then (match p with | some q => some q | none => unixT.defaultPort) else none,
                 if unixT.usesPath then some [] else none,
                 unixT.fields.map fun f => (f.name, (asg f.name).map Written.val)⟩) :=
  connect_accepts unixT (by decide) h hok p hp args asg hw

theorem connect_accepts_unix_lines (h : Str) (hok : HostOK h) (p : Option Nat) (hp : ∀ q, p = some q → q ≤ 65535) (args : Args)
    (asg : Str → Option Written) (hw : Writes args unixLinesT.fields asg) :
    (parseUri (fromParts unixLinesT.scheme h p args)).map (connectPlan unixLinesT) =
      some (.ok ⟨if unixLinesT.usesHost then some h else none,
                 if unixLinesT.usesPort then (match p with | some q => some q | none => unixLinesT.defaultPort) else none,
                 if unixLinesT.usesPath then some [] else none,
                 unixLinesT.fields.map fun f => (f.name, (asg f.name).map Written.val)⟩) :=
  connect_accepts unixLinesT (by decide) h hok p hp args asg hw

theorem connect_accepts_canraw (h : Str) (hok : HostOK h) (p : Option Nat) (hp : ∀ q, p = some q → q ≤ 65535) (args : Args)
    (asg : Str → Option Written) (hw : Writes args canRawT.fields asg) :
    (parseUri (fromParts canRawT.scheme h p args)).map (connectPlan canRawT) =
      some (.ok ⟨if canRawT.usesHost then some h else none,
                 if canRawT.usesPort then (match p with | some q => some q | none => canRawT.defaultPort) else none,
                 if canRawT.usesPath then some [] else none,
                 canRawT.fields.map fun f => (f.name, (asg f.name).map Written.val)⟩) :=
  connect_accepts canRawT (by decide) h hok p hp args asg hw

theorem connect_accepts_doip (h : Str) (hok : HostOK h) (p : Option Nat) (hp : ∀ q, p = some q → q ≤ 65535) (args : Args)
    (asg : Str → Option Written) (hw : Writes args doipT.fields asg) :
    (parseUri (fromParts doipT.scheme h p args)).map (connectPlan doipT) =
      some (.ok ⟨if doipT.usesHost then some h else none,
                 if doipT.usesPort then (match p with | some q => some q | none => doipT.defaultPort) else none,
                 if doipT.usesPath then some [] else none,
                 doipT.fields.map fun f => (f.name, (asg f.name).map Written.val)⟩) :=
  connect_accepts doipT (by decide) h hok p hp args asg hw

theorem connect_accepts_hsfz (h : Str) (hok : HostOK h) (p : Option Nat) (hp : ∀ q, p = some q → q ≤ 65535) (args : Args)
    (asg : Str → Option Written) (hw : Writes args hsfzT.fields asg) :
    (parseUri (fromParts hsfzT.scheme h p args)).map (connectPlan hsfzT) =
      some (.ok ⟨if hsfzT.usesHost then some h else none,
                 if hsfzT.usesPort then (match p with | some q => some q | none => hsfzT.defaultPort) else none,
                 if hsfzT.usesPath then some [] else none,
                 hsfzT.fields.map fun f => (f.name, (asg f.name).map Written.val)⟩) :=
  connect_accepts hsfzT (by decide) h hok p hp args asg hw

theorem connect_accepts_isotp (h : Str) (hok : HostOK h) (p : Option Nat) (hp : ∀ q, p = some q → q ≤ 65535) (args : Args)
    (asg : Str → Option Written) (hw : Writes args isotpT.fields asg) :
    (parseUri (fromParts isotpT.scheme h p args)).map (connectPlan isotpT) =
      some (.ok ⟨if isotpT.usesHost then some h else none,
                 if isotpT.usesPort then (match p with | some q => some q | none => isotpT.defaultPort) else none,
                 if isotpT.usesPath then some [] else none,
                 isotpT.fields.map fun f => (f.name, (asg f.name).map Written.val)⟩) :=
  connect_accepts isotpT (by decide) h hok p hp args asg hw

/-- a unix transport goes on with exactly the written path -/
theorem connect_unix_path (t : Transport) (ht : t = unixT ∨ t = unixLinesT) (p : Str) (hp : PathOK p) :
    (parseUri (t.scheme ++ [':', '/', '/'] ++ p)).map (connectPlan t) = some (.ok ⟨none, none, some p, []⟩) := by
  have hmem : t ∈ transportTable := by rcases ht with rfl | rfl <;> decide
  rw [unix_path t.scheme p (schemeOK_of_table hmem) hp]
  simp only [Option.map_some, connectPlan_path t ht p]

/-- `check_scheme`: a transport that checks refuses every URI of another scheme (an unknown scheme because
    `TransportScheme(...)` raises, a known one because it differs) -/
theorem connect_refuses_other_scheme (t : Transport) (hc : t.checksScheme = true) (u : Uri) (h : u.scheme ≠ t.scheme) :
    connectPlan t u = .error .unknownScheme ∨ connectPlan t u = .error .wrongScheme := by
  unfold connectPlan checkScheme
  by_cases hk : u.scheme ∈ schemeList
  · right; simp [hc, hk, h, bind, Except.bind]
  · left; simp [hc, hk, bind, Except.bind]

/-- which transports check: all but HSFZ (`HSFZTransport.connect` has no `check_scheme` call), which therefore goes on with a
    `doip://` URI - the property only speaks about "the transport of that scheme", so this is recorded, not a violation -/
theorem scheme_check_coverage :
    (transportTable.filter (fun t => !t.checksScheme)).map (·.scheme) = [hsfzT.scheme] ∧
    connectPlan hsfzT ⟨"doip".toList, some ['h'], some none, [], [(kSrcAddr, ['1']), (kDstAddr, ['2'])]⟩ =
      .ok ⟨some ['h'], some 6801, none, [(kSrcAddr, some (.int 1)), (kDstAddr, some (.int 2)), (kAckTimeout, none)]⟩ := by
  decide +kernel

/-- a missing host, an unreadable port, a missing required field, an unreadable value and a blank required value are refused -/
theorem connect_refusals :
    connectPlan doipT ⟨doipT.scheme, none, some none, [], []⟩ = .error .noHost ∧
    connectPlan doipT ⟨doipT.scheme, some ['h'], none, [], []⟩ = .error .badPort ∧
    connectPlan doipT ⟨doipT.scheme, some ['h'], some none, [], [(kSrcAddr, ['1'])]⟩ = .error .badConfig ∧
    connectPlan isotpT ⟨isotpT.scheme, some ['c'], some none, [], [(kSrcAddr, ['1']), (kDstAddr, ['0', '1', '0'])]⟩ = .error .badConfig ∧
    connectPlan canRawT ⟨canRawT.scheme, some ['c'], some none, [], [(kIsFd, ['t', 'r', 'u', 'e', ' '])]⟩ = .error .badConfig := by
  decide +kernel

/-- a missing required address or an unreadable number is refused -/
example : doipConfig [(kSrcAddr, ['1'])] = none ∧ doipConfig [(kSrcAddr, ['1']), (kTargetAddr, ['h', 'a', 'n', 's'])] = none := by
  decide

/-! ## the socket level: the kernel reads the numbers the URI states

  `isotpOptsBlock` lays the settings out as `struct can_isotp_options` of linux/can/isotp.h (the layout constants are trusted base in
  `Model/ParseTransport.lean`); the check compares the bytes the real `connect()` hands to `setsockopt` with this block. -/

/-- the option block decodes (as the kernel reads it) back to the fields it was built from -/
theorem isotp_opts_roundtrip (o : IsotpOpts) (h : o.WF) : decodeIsotpOpts (isotpOptsBlock o) = some o := decode_block o h

def byteRange (v : Option Int) : Prop := ∀ z, v = some z → 0 ≤ z ∧ z < 256

/-- for every ISO-TP config whose numbers fit their fields the block is accepted and the kernel reads, field by field, the setting of
    that name (absent = 0) with exactly the flags of the settings present -/
theorem isotp_opts_of_config (c : ISOTPCfg) (hft : ∀ z, c.frameTxtime = some z → 0 ≤ z ∧ z < 4294967296)
    (hea : byteRange c.extAddress) (hra : byteRange c.rxExtAddress) (htp : byteRange c.txPadding) (hrp : byteRange c.rxPadding) :
    (isotpOptsOf c).bind (fun o => decodeIsotpOpts (isotpOptsBlock o)) =
      some ⟨flagIf c.extAddress fExtendAddr + flagIf c.txPadding fTxPadding + flagIf c.rxPadding fRxPadding +
              flagIf c.rxExtAddress fRxExtAddr,
            (c.frameTxtime.getD 10).toNat, (c.extAddress.getD 0).toNat, (c.txPadding.getD 0).toNat, (c.rxPadding.getD 0).toNat,
            (c.rxExtAddress.getD 0).toNat⟩ := by
  have ⟨e1, b1⟩ := optByte_ok _ hea
  have ⟨e2, b2⟩ := optByte_ok _ htp
  have ⟨e3, b3⟩ := optByte_ok _ hrp
  have ⟨e4, b4⟩ := optByte_ok _ hra
  have hf : 0 ≤ c.frameTxtime.getD 10 ∧ c.frameTxtime.getD 10 < 4294967296 := by
    cases hc : c.frameTxtime with
    | none => simp
    | some z => simpa using hft z hc
  have hfl : flagIf c.extAddress fExtendAddr + flagIf c.txPadding fTxPadding + flagIf c.rxPadding fRxPadding +
      flagIf c.rxExtAddress fRxExtAddr < 4294967296 := by
    simp only [flagIf, fExtendAddr, fTxPadding, fRxPadding, fRxExtAddr]
    repeat' split
    all_goals omega
  simp only [isotpOptsOf, e1, e2, e3, e4, hf, and_self, not_true_eq_false, if_false, Option.bind_some]
  exact decode_block _ ⟨hfl, (by show (c.frameTxtime.getD 10).toNat < 4294967296; omega), b1, b2, b3, b4⟩

def optVal (v : Option (Spelling × Int)) : Option Int := v.map (·.2)

/-- from the URI to the kernel: an ISO-TP target as the discoverer writes it, every number in any notation, programs the transport with
    `ext_address`, `txpad_content`, `rxpad_content`, `rx_ext_address` = the numbers written under `ext_address`, `tx_padding`, `rx_padding`,
    `rx_ext_address` (0 and flag off when absent) -/
theorem isotp_uri_programs_written_numbers (h : Str) (hok : HostOK h) (fd ext : Bool)
    (s1 : Spelling) (src : Int) (s2 : Spelling) (dst : Int) (ea ra tp rp : Option (Spelling × Int))
    (h1 : s1.WF) (h2 : s2.WF) (hea : optOK ea) (hra : optOK ra) (htp : optOK tp) (hrp : optOK rp)
    (rea : byteRange (optVal ea)) (rra : byteRange (optVal ra)) (rtp : byteRange (optVal tp)) (rrp : byteRange (optVal rp)) :
    (((parseUri (fromParts ['i', 's', 'o', 't', 'p'] h none (isotpArgs fd ext s1 src s2 dst ea ra tp rp))).bind
        (fun u => isotpConfig u.args)).bind isotpOptsOf).bind (fun o => decodeIsotpOpts (isotpOptsBlock o))
      = some ⟨flagIf (optVal ea) fExtendAddr + flagIf (optVal tp) fTxPadding + flagIf (optVal rp) fRxPadding +
                flagIf (optVal ra) fRxExtAddr,
              10, ((optVal ea).getD 0).toNat, ((optVal tp).getD 0).toNat, ((optVal rp).getD 0).toNat, ((optVal ra).getD 0).toNat⟩ := by
  rw [config_accepts_isotp h hok fd ext s1 src s2 dst ea ra tp rp h1 h2 hea hra htp hrp]
  simp only [Option.bind_some]
  exact isotp_opts_of_config ⟨src, dst, some ext, some fd, none, optVal ea, optVal ra, optVal tp, optVal rp, none⟩
    (fun z hz => by cases hz) rea rra rtp rrp

/-- non-vacuity and the layout on a concrete target: `rx_padding=0x55` is the third byte after the two words, not the fourth -/
example : isotpOptsOf ⟨0x6f1, 0x6a0, some false, some false, none, none, none, some 0xAA, some 0x55, none⟩ =
      some ⟨0x00c, 10, 0, 0xAA, 0x55, 0⟩ ∧
    isotpOptsBlock ⟨0x00c, 10, 0, 0xAA, 0x55, 0⟩ = [0x0c, 0, 0, 0, 10, 0, 0, 0, 0, 0xAA, 0x55, 0] ∧
    (⟨0x20c, 10, 0, 0xAA, 0x55, 0x7⟩ : IsotpOpts).WF := by
  refine ⟨by decide, by decide, ?_⟩
  unfold IsotpOpts.WF
  decide

/-- the ids as bound: 11 bits, or 29 bits with the EFF flag -/
theorem calcFlags_small (id : Nat) (ext : Bool) (h : id < 2048) :
    calcFlags (id : Int) ext = if ext then id + 0x80000000 else id := by
  unfold calcFlags canEffFlag
  split <;> omega

theorem calcFlags_ext (id : Nat) (h : id < 536870912) : calcFlags (id : Int) true = id + 0x80000000 := by
  unfold calcFlags canEffFlag
  simp only [if_true]
  omega

/-- the three-byte blocks (`can_isotp_ll_options`: mtu, tx_dl, tx_flags; `can_isotp_fc_options`: bs, stmin, wftmax) decode back -/
theorem isotp_triple_roundtrip (a b c : Nat) (ha : a < 256) (hb : b < 256) (hc : c < 256) :
    decodeTriple (tripleBlock a b c) = some (a, b, c) := by
  simp only [tripleBlock, decodeTriple, u8_toNat _ ha, u8_toNat _ hb, u8_toNat _ hc]

/-- a CAN-FD target with the default or a written `tx_dl` programs `mtu = 72` (CANFD_MTU), that `tx_dl`, and binds rx = dst, tx = src -/
theorem isotp_sock_fd (c : ISOTPCfg) (o : IsotpOpts) (ho : isotpOptsOf c = some o) (hfd : c.isFd = some true)
    (hdl : 0 ≤ c.txDl.getD 64 ∧ c.txDl.getD 64 < 256) :
    isotpSock c = ⟨[(solCanIsotp, canIsotpOpts, .block (isotpOptsBlock o)),
                    (solCanIsotp, canIsotpLlOpts, .block (tripleBlock 72 (c.txDl.getD 64).toNat 0))],
                   some (some (calcFlags c.dst (c.isExtended.getD false), calcFlags c.src (c.isExtended.getD false)))⟩ := by
  simp only [isotpSock, ho, hfd, Option.getD_some, if_true, optByte, hdl, and_self, List.cons_append, List.nil_append]

end Gallia.C20
