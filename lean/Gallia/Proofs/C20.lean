import Gallia.Proofs.Lemmas.ParseConfig
/-!
  C20 — target URIs and range expressions denote exactly what the user wrote.

  The model (`Gallia/Model/Parse.lean`) is the oracle; the theorems say that the oracle is the right one:
  every notation of every integer is read back as that integer, a rendered range expression denotes exactly the
  sorted, duplicate-free union of what is listed, host:port and URI construction round-trip.
-/
namespace Gallia.C20
open Gallia.Parse

/-! ## integers -/

/-- every spelling (base 10 / 16 / 8 / 2, prefix in either case, `+`, leading zeros, digit-group underscores, an
    underscore after the prefix, surrounding whitespace) of every integer is read back as that integer -/
theorem autoInt_spell (sp : Spelling) (h : sp.WF) (z : Int) : autoIntL (spell sp z) = some z :=
  autoIntL_spell sp h z

/-- the same through the `String` entry point used by the driver -/
theorem autoInt_spell_string (sp : Spelling) (h : sp.WF) (z : Int) : autoInt (String.ofList (spell sp z)) = some z := by
  unfold autoInt; rw [String.toList_ofList]; exact autoIntL_spell sp h z

/-- the plain notation of each base, e.g. `-0x1f`, `0o17`, `0b101`, `42` -/
theorem autoInt_spell_base (b : Base) (z : Int) : autoIntL (spell { base := b } z) = some z :=
  autoIntL_spell _ ⟨by simp, by simp⟩ z

example : spell { base := .hex, upper := true, usP := true, zeros := 2, us := [true, false, true], wsL := [' '], wsR := ['\t'] } (-255)
    = [' ', '-', '0', 'X', '_', '0', '_', '0', 'F', '_', 'F', '\t'] := by decide +kernel

/-- the base-0 rule: a decimal literal with a leading zero is not accepted unless it is zero -/
theorem autoInt_leading_zero_rejected :
    autoIntL ['0', '1', '0'] = none ∧ autoIntL ['0', '0'] = some 0 ∧ autoIntL ['0', '_', '0'] = some 0 ∧
    autoIntL ['1', '_', '_', '0'] = none ∧ autoIntL ['_', '1'] = none ∧ autoIntL ['1', '_'] = none ∧
    autoIntL ['0', 'x'] = none ∧ autoIntL ['-', ' ', '1'] = none ∧ autoIntL ([] : Str) = none := by decide

/-! ## one-dimensional ranges -/

/-- the denotation is strictly increasing -/
theorem denote_sorted (es : List Elem) : List.Pairwise (· < ·) (denote es) := sorted_denote es

theorem denote_nodup (es : List Elem) : (denote es).Nodup := sorted_nodup (sorted_denote es)

/-- exactly the listed numbers: `n` is in the result iff some element lists it (`one m`: `n = m`; `range a b`:
    `a ≤ n ≤ b`, so a reversed range lists nothing) -/
theorem mem_denote (es : List Elem) (n : Nat) : n ∈ denote es ↔ ∃ e ∈ es, e.Covers n := mem_denote' es n

/-- `denote` is the only function with these two properties -/
theorem denote_unique (es : List Elem) (l : List Nat) (hs : List.Pairwise (· < ·) l)
    (hm : ∀ n, n ∈ l ↔ ∃ e ∈ es, e.Covers n) : l = denote es :=
  sorted_ext hs (sorted_denote es) (fun n => by rw [hm, mem_denote'])

/-- order and repetition of the elements do not matter -/
theorem denote_perm (es es' : List Elem) (h : ∀ e, e ∈ es ↔ e ∈ es') : denote es = denote es' :=
  sorted_ext (sorted_denote _) (sorted_denote _) (fun n => by
    rw [mem_denote', mem_denote']
    constructor
    · rintro ⟨e, he, hc⟩; exact ⟨e, (h e).mp he, hc⟩
    · rintro ⟨e, he, hc⟩; exact ⟨e, (h e).mpr he, hc⟩)

/-- a range expression written with any notation of each number, any whitespace around the numbers, denotes the
    sorted union of its elements -/
theorem unravel_render (es : SpElems) (h : es.WF) : unravel (render es) = some (denote (elemsOf es)) := by
  unfold unravel; rw [parseElems_render es h]; rfl

example : render [(.range 0x10 0x2f, .range { base := .hex } { base := .hex }), (.one 0x3e, .one { base := .hex, wsL := [' '] })]
    = ['0', 'x', '1', '0', '-', '0', 'x', '2', 'f', ',', ' ', '0', 'x', '3', 'e'] := by decide +kernel

example : denote [.range 3 5, .one 4, .range 9 7, .one 1, .range 5 6] = [1, 3, 4, 5, 6] := by decide +kernel

/-! ## two-dimensional ranges -/

/-- the keys are exactly the listed outer numbers, in increasing order -/
theorem denote2d_keys (items : List Item) : (denote2d items).map (·.1) = denote (items.flatMap (·.outer)) :=
  keys_denote2d items

theorem denote2d_keys_sorted (items : List Item) : List.Pairwise (· < ·) ((denote2d items).map (·.1)) := by
  rw [keys_denote2d]; exact sorted_denote _

/-- a key maps to "all" iff some bare item lists it (whatever else is written for the key, before or after) -/
theorem denote2d_all (items : List Item) (k : Nat) :
    (k, none) ∈ denote2d items ↔ ∃ it ∈ items, (∃ e ∈ it.outer, e.Covers k) ∧ it.inner = none := by
  rw [mem_denote2d']
  constructor
  · rintro ⟨_, hv⟩
    obtain ⟨it, hit, hk, hn⟩ := (valueOf_none items k).mp hv.symm
    exact ⟨it, hit, (hasKey_iff it k).mp hk, hn⟩
  · rintro ⟨it, hit, hk, hn⟩
    have hk' := (hasKey_iff it k).mpr hk
    exact ⟨⟨it, hit, hk'⟩, ((valueOf_none items k).mpr ⟨it, hit, hk', hn⟩).symm⟩

/-- otherwise it maps to the sorted union of the inner lists of every item that lists the key -/
theorem denote2d_some (items : List Item) (k : Nat) (l : List Nat) (h : (k, some l) ∈ denote2d items) :
    List.Pairwise (· < ·) l ∧
    ∀ n, n ∈ l ↔ ∃ it ∈ items, (∃ e ∈ it.outer, e.Covers k) ∧ ∃ i, it.inner = some i ∧ ∃ e ∈ i, e.Covers n := by
  obtain ⟨_, hv⟩ := (mem_denote2d' items k (some l)).mp h
  obtain ⟨hs, hm⟩ := valueOf_some items k l hv.symm
  refine ⟨hs, fun n => ?_⟩
  rw [hm]
  constructor
  · rintro ⟨it, hit, hk, rest⟩; exact ⟨it, hit, (hasKey_iff it k).mp hk, rest⟩
  · rintro ⟨it, hit, hk, rest⟩; exact ⟨it, hit, (hasKey_iff it k).mpr hk, rest⟩

/-- every listed key is present -/
theorem denote2d_complete (items : List Item) (k : Nat) (it : Item) (hit : it ∈ items) (e : Elem) (he : e ∈ it.outer)
    (hc : e.Covers k) : ∃ v, (k, v) ∈ denote2d items :=
  ⟨valueOf items k, (mem_denote2d' items k _).mpr ⟨⟨it, hit, (hasKey_iff it k).mpr ⟨e, he, hc⟩⟩, rfl⟩⟩

/-- a two-dimensional expression written in any notation (no space inside an item) denotes `denote2d` of its items -/
theorem unravel2d_render (rs : List ItemR) (h : ∀ r ∈ rs, r.WF) :
    unravel2d (render2d rs) = some (denote2d (rs.map ItemR.item)) := by
  cases rs with
  | nil => decide
  | cons r rs' =>
    unfold unravel2d
    rw [parseItems_render2d (r :: rs') (by simp) h]; rfl

example : unravel2d ['1', ':', '1', ',', '2', ' ', ' ', '1', '-', '3', ':', '0', ',', '2', '-', '4', ' ', ' ', '3'] = some [(1, some [0, 1, 2, 3, 4]), (2, some [0, 2, 3, 4]), (3, none)] := by
  decide +kernel


/-! ## host:port -/

/-- joining and splitting is lossless for every host over the host alphabet (lower-case names, IPv4, IPv6 with or
    without zone) and every port 0..65535, whatever default port is supplied -/
theorem split_join (h : Str) (hok : HostOK h) (p : Nat) (hp : p ≤ 65535) (dflt : Option Nat) :
    splitHostPort (joinHostPort h p) dflt = some (h, some p) := splitHostPort_join h hok p hp dflt

/-- dotted-quad IPv4 and colon-separated IPv6 literals are hosts in the sense of `split_join` -/
theorem hostOK_of_chars (h : Str) (hne : h ≠ [])
    (hc : ∀ c ∈ h, isLowerCh c = true ∨ isDigit c = true ∨ c = '.' ∨ c = ':' ∨ c = '-' ∨ c = '_' ∨ c = '%') : HostOK h := by
  refine ⟨hne, fun c hm => ?_⟩
  rcases hc c hm with h | h | rfl | rfl | rfl | rfl | rfl
  · simp [hostChar, h]
  · simp [hostChar, h]
  all_goals decide

example : HostOK ['f', 'e', '8', '0', ':', ':', '1'] := hostOK_of_chars _ (by simp) (by decide)
example : joinHostPort ['f', 'e', '8', '0', ':', ':', '1'] 0 = ['[', 'f', 'e', '8', '0', ':', ':', '1', ']', ':', '0'] := by
  decide +kernel
example : HostOK ['1', '0', '.', '0', '.', '0', '.', '7'] := hostOK_of_chars _ (by simp) (by decide)

/-- an explicit port always wins over the default, port 0 included; without a port the default is used -/
theorem split_default (h : Str) (hok : HostOK h) (dflt : Option Nat) :
    (hostInfo (netlocOf h none)).map (fun (x : Str × Option Nat) => (x.1, match x.2 with | some p => some p | none => dflt))
      = some (h, dflt) := by
  rw [hostInfo_netloc h hok none (fun q hq => by cases hq)]; rfl

/-! ## target URIs -/

/-- a URI built from scheme, host, optional port and parameters parses back to exactly these parts -/
theorem uri_roundtrip (sch h : Str) (p : Option Nat) (args : Args) (hs : SchemeOK sch) (hok : HostOK h)
    (hp : ∀ q, p = some q → q ≤ 65535) (ha : ArgsOK args) :
    parseUri (fromParts sch h p args) = some ⟨sch, some h, some p, [], args⟩ :=
  parseUri_fromParts sch h p args hs hok hp ha

/-- `qs_flat` of a written query is the written parameter list (distinct keys, non-blank values) -/
theorem qsFlat_roundtrip (args : Args) (ha : ArgsOK args) : qsFlat (queryOf args) = args := qsFlat_queryOf args ha

/-- first occurrence of a repeated key wins, blank values are dropped -/
example : qsFlat ['a', '=', '1', '&', 'a', '=', '2', '&', 'b', '=', '&', 'c'] = [(['a'], ['1'])] := by decide +kernel

/-! ## the transports accept what was written, with the same numbers -/

/-- DoIP: whatever URL-safe notation the four settings are written in, the transport reads the same numbers from
    the URI built by `from_parts` -/
theorem config_accepts_doip (h : Str) (hok : HostOK h) (p : Option Nat) (hp : ∀ q, p = some q → q ≤ 65535)
    (s1 : Spelling) (src : Int) (s2 : Spelling) (tgt : Int) (act ver : Option (Spelling × Int))
    (h1 : s1.WF) (h2 : s2.WF) (ha : optOK act) (hv : optOK ver) :
    (parseUri (fromParts ['d', 'o', 'i', 'p'] h p (doipArgs s1 src s2 tgt act ver))).bind (fun u => doipConfig u.args)
      = some ⟨src, tgt, act.map (·.2), ver.map (·.2)⟩ := by
  rw [parseUri_fromParts _ h p _ ⟨⟨'d', _, rfl, by decide⟩, by decide⟩ hok hp (argsOK_doip s1 src s2 tgt act ver)]
  exact doipConfig_args s1 src s2 tgt act ver h1 h2 ha hv

/-- HSFZ, as the discoverer writes it (`ack_timeout` in decimal) -/
theorem config_accepts_hsfz (h : Str) (hok : HostOK h) (p : Option Nat) (hp : ∀ q, p = some q → q ≤ 65535)
    (s1 : Spelling) (src : Int) (s2 : Spelling) (dst : Int) (ack : Option Nat) (h1 : s1.WF) (h2 : s2.WF) :
    (parseUri (fromParts ['h', 's', 'f', 'z'] h p (hsfzArgs s1 src s2 dst ack))).bind (fun u => hsfzConfig u.args)
      = some ⟨src, dst, ack.map (fun n => (n : Int))⟩ := by
  rw [parseUri_fromParts _ h p _ ⟨⟨'h', _, rfl, by decide⟩, by decide⟩ hok hp (argsOK_hsfz s1 src s2 dst ack)]
  exact hsfzConfig_args s1 src s2 dst ack h1 h2

/-- ISO-TP, as the discoverer writes it (booleans as `true` / `false`, optional extended addresses and padding) -/
theorem config_accepts_isotp (h : Str) (hok : HostOK h) (fd ext : Bool)
    (s1 : Spelling) (src : Int) (s2 : Spelling) (dst : Int) (ea ra tp rp : Option (Spelling × Int))
    (h1 : s1.WF) (h2 : s2.WF) (hea : optOK ea) (hra : optOK ra) (htp : optOK tp) (hrp : optOK rp) :
    (parseUri (fromParts ['i', 's', 'o', 't', 'p'] h none (isotpArgs fd ext s1 src s2 dst ea ra tp rp))).bind
        (fun u => isotpConfig u.args)
      = some ⟨src, dst, some ext, some fd, none, ea.map (·.2), ra.map (·.2), tp.map (·.2), rp.map (·.2), none⟩ := by
  rw [parseUri_fromParts _ h none _ ⟨⟨'i', _, rfl, by decide⟩, by decide⟩ hok (fun q hq => by cases hq)
    (argsOK_isotp fd ext s1 src s2 dst ea ra tp rp)]
  exact isotpConfig_args fd ext s1 src s2 dst ea ra tp rp h1 h2 hea hra htp hrp

/-- a missing required address or an unreadable number is refused -/
example : doipConfig [(kSrcAddr, ['1'])] = none ∧ doipConfig [(kSrcAddr, ['1']), (kTargetAddr, ['h', 'a', 'n', 's'])] = none := by
  decide

end Gallia.C20
