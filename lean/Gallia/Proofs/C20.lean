import Gallia.Proofs.Lemmas.ParseRange
/-!
  C20 — target URIs and range expressions denote exactly what the user wrote.

  The model (`Gallia/Model/Parse.lean`) is the oracle; the theorems say that the oracle is the right one:
  every notation of every integer is read back as that integer, a rendered range expression denotes exactly the
  sorted, duplicate-free union of what is listed, host:port and URI construction round-trip.
-/
namespace Gallia.C20
open Gallia.Parse

/-! ## integers -/

/-- every spelling (base 10 / 16 / 8 / 2, prefix in either case, `+`, leading zeros, digit-group underscores, an
    underscore after the prefix, surrounding whitespace) of every integer is read back as that integer -/
theorem autoInt_spell (sp : Spelling) (h : sp.WF) (z : Int) : autoIntL (spell sp z) = some z :=
  autoIntL_spell sp h z

/-- the same through the `String` entry point used by the driver -/
theorem autoInt_spell_string (sp : Spelling) (h : sp.WF) (z : Int) : autoInt (String.ofList (spell sp z)) = some z := by
  unfold autoInt; rw [String.toList_ofList]; exact autoIntL_spell sp h z

/-- the plain notation of each base, e.g. `-0x1f`, `0o17`, `0b101`, `42` -/
theorem autoInt_spell_base (b : Base) (z : Int) : autoIntL (spell { base := b } z) = some z :=
  autoIntL_spell _ ⟨by simp, by simp⟩ z

example : spell { base := .hex, upper := true, usP := true, zeros := 2, us := [true, false, true], wsL := [' '], wsR := ['\t'] } (-255)
    = [' ', '-', '0', 'X', '_', '0', '_', '0', 'F', '_', 'F', '\t'] := by decide +kernel

/-- the base-0 rule: a decimal literal with a leading zero is not accepted unless it is zero -/
theorem autoInt_leading_zero_rejected :
    autoIntL ['0', '1', '0'] = none ∧ autoIntL ['0', '0'] = some 0 ∧ autoIntL ['0', '_', '0'] = some 0 ∧
    autoIntL ['1', '_', '_', '0'] = none ∧ autoIntL ['_', '1'] = none ∧ autoIntL ['1', '_'] = none ∧
    autoIntL ['0', 'x'] = none ∧ autoIntL ['-', ' ', '1'] = none ∧ autoIntL ([] : Str) = none := by decide

/-! ## one-dimensional ranges -/

/-- the denotation is strictly increasing -/
theorem denote_sorted (es : List Elem) : List.Pairwise (· < ·) (denote es) := sorted_denote es

theorem denote_nodup (es : List Elem) : (denote es).Nodup := sorted_nodup (sorted_denote es)

/-- exactly the listed numbers: `n` is in the result iff some element lists it (`one m`: `n = m`; `range a b`:
    `a ≤ n ≤ b`, so a reversed range lists nothing) -/
theorem mem_denote (es : List Elem) (n : Nat) : n ∈ denote es ↔ ∃ e ∈ es, e.Covers n := mem_denote' es n

/-- `denote` is the only function with these two properties -/
theorem denote_unique (es : List Elem) (l : List Nat) (hs : List.Pairwise (· < ·) l)
    (hm : ∀ n, n ∈ l ↔ ∃ e ∈ es, e.Covers n) : l = denote es :=
  sorted_ext hs (sorted_denote es) (fun n => by rw [hm, mem_denote'])

/-- order and repetition of the elements do not matter -/
theorem denote_perm (es es' : List Elem) (h : ∀ e, e ∈ es ↔ e ∈ es') : denote es = denote es' :=
  sorted_ext (sorted_denote _) (sorted_denote _) (fun n => by
    rw [mem_denote', mem_denote']
    constructor
    · rintro ⟨e, he, hc⟩; exact ⟨e, (h e).mp he, hc⟩
    · rintro ⟨e, he, hc⟩; exact ⟨e, (h e).mpr he, hc⟩)

/-- a range expression written with any notation of each number, any whitespace around the numbers, denotes the
    sorted union of its elements -/
theorem unravel_render (es : SpElems) (h : es.WF) : unravel (render es) = some (denote (elemsOf es)) := by
  unfold unravel; rw [parseElems_render es h]; rfl

example : render [(.range 0x10 0x2f, .range { base := .hex } { base := .hex }), (.one 0x3e, .one { base := .hex, wsL := [' '] })]
    = ['0', 'x', '1', '0', '-', '0', 'x', '2', 'f', ',', ' ', '0', 'x', '3', 'e'] := by decide +kernel

example : denote [.range 3 5, .one 4, .range 9 7, .one 1, .range 5 6] = [1, 3, 4, 5, 6] := by decide +kernel

/-! ## two-dimensional ranges -/

/-- the keys are exactly the listed outer numbers, in increasing order -/
theorem denote2d_keys (items : List Item) : (denote2d items).map (·.1) = denote (items.flatMap (·.outer)) :=
  keys_denote2d items

theorem denote2d_keys_sorted (items : List Item) : List.Pairwise (· < ·) ((denote2d items).map (·.1)) := by
  rw [keys_denote2d]; exact sorted_denote _

/-- a key maps to "all" iff some bare item lists it (whatever else is written for the key, before or after) -/
theorem denote2d_all (items : List Item) (k : Nat) :
    (k, none) ∈ denote2d items ↔ ∃ it ∈ items, (∃ e ∈ it.outer, e.Covers k) ∧ it.inner = none := by
  rw [mem_denote2d']
  constructor
  · rintro ⟨_, hv⟩
    obtain ⟨it, hit, hk, hn⟩ := (valueOf_none items k).mp hv.symm
    exact ⟨it, hit, (hasKey_iff it k).mp hk, hn⟩
  · rintro ⟨it, hit, hk, hn⟩
    have hk' := (hasKey_iff it k).mpr hk
    exact ⟨⟨it, hit, hk'⟩, ((valueOf_none items k).mpr ⟨it, hit, hk', hn⟩).symm⟩

/-- otherwise it maps to the sorted union of the inner lists of every item that lists the key -/
theorem denote2d_some (items : List Item) (k : Nat) (l : List Nat) (h : (k, some l) ∈ denote2d items) :
    List.Pairwise (· < ·) l ∧
    ∀ n, n ∈ l ↔ ∃ it ∈ items, (∃ e ∈ it.outer, e.Covers k) ∧ ∃ i, it.inner = some i ∧ ∃ e ∈ i, e.Covers n := by
  obtain ⟨_, hv⟩ := (mem_denote2d' items k (some l)).mp h
  obtain ⟨hs, hm⟩ := valueOf_some items k l hv.symm
  refine ⟨hs, fun n => ?_⟩
  rw [hm]
  constructor
  · rintro ⟨it, hit, hk, rest⟩; exact ⟨it, hit, (hasKey_iff it k).mp hk, rest⟩
  · rintro ⟨it, hit, hk, rest⟩; exact ⟨it, hit, (hasKey_iff it k).mpr hk, rest⟩

/-- every listed key is present -/
theorem denote2d_complete (items : List Item) (k : Nat) (it : Item) (hit : it ∈ items) (e : Elem) (he : e ∈ it.outer)
    (hc : e.Covers k) : ∃ v, (k, v) ∈ denote2d items :=
  ⟨valueOf items k, (mem_denote2d' items k _).mpr ⟨⟨it, hit, (hasKey_iff it k).mpr ⟨e, he, hc⟩⟩, rfl⟩⟩

/-- a two-dimensional expression written in any notation (no space inside an item) denotes `denote2d` of its items -/
theorem unravel2d_render (rs : List ItemR) (h : ∀ r ∈ rs, r.WF) :
    unravel2d (render2d rs) = some (denote2d (rs.map ItemR.item)) := by
  cases rs with
  | nil => decide
  | cons r rs' =>
    unfold unravel2d
    rw [parseItems_render2d (r :: rs') (by simp) h]; rfl

example : unravel2d ['1', ':', '1', ',', '2', ' ', ' ', '1', '-', '3', ':', '0', ',', '2', '-', '4', ' ', ' ', '3'] = some [(1, some [0, 1, 2, 3, 4]), (2, some [0, 2, 3, 4]), (3, none)] := by
  decide +kernel

end Gallia.C20
