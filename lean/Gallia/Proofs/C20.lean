import Gallia.Model.Parse
namespace Gallia.C20
open Gallia.Parse

theorem placeholder_010_rejected : autoIntL ['0', '1', '0'] = none := by decide

end Gallia.C20
