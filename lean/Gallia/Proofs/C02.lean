import Gallia.Proofs.Lemmas.UdsResp
import Gallia.Gen.C02Registry
/-
  C02 — Decoded UDS responses expose the received fields and re-encode to the same bytes.
  Property theorems only; helper lemmas are in `Proofs/Lemmas/UdsResp.lean`.
  `decodeResp` is the oracle (ISO 14229-1 layouts, lossless reading of gallia's length / format rules, gated by the
  response registry); the correspondence harness compares the real `UDSResponse.parse_dynamic` / `.pdu` with it.
-/
namespace Gallia.C02
open Gallia Gallia.UdsResp

/-! ### (T) regenerated tables -/

/-- the hand-written response registry (class, parser family, response id, dispatch, SUB_FUNCTION_ID, sub-function
    gate, minimal / maximal length) equals the table regenerated from the live classes on every run -/
theorem responseRegistry_agrees : Gen.C02Registry.responseRegistry = registryRows := by rfl

/-- the NRC bytes a typed negative response may carry are exactly `UDSErrorCodes` -/
theorem nrc_agrees : Gen.C02Registry.errorCodes = nrcTable := by decide

theorem dtcFormat_agrees : Gen.C02Registry.dtcFormats = dtcFormatTable := by decide

/-! ### losslessness -/

/-- **the property's core**: whatever byte string the decoder accepts — typed positive, negative or raw — the
    object it returns re-serialises to exactly the received bytes. For ALL byte strings, no length bound. -/
theorem encodeResp_decodeResp (b : Bytes) (r : Resp) (h : decodeResp b = .ok r) : encodeResp r = b := by
  unfold decodeResp at h
  split at h
  · cases h
  · cases h; rfl
  · exact parseKind_ok h

/-- never silently normalised: two different received byte strings never yield the same object -/
theorem decodeResp_injective (b₁ b₂ : Bytes) (r : Resp) (h₁ : decodeResp b₁ = .ok r) (h₂ : decodeResp b₂ = .ok r) :
    b₁ = b₂ := by
  rw [← encodeResp_decodeResp b₁ r h₁, ← encodeResp_decodeResp b₂ r h₂]

/-- the typed object's constructor is the parser family of the class the registry dispatches to -/
theorem decodeResp_kind (b : Bytes) (r : Resp) (e : Entry) (h : decodeResp b = .ok r)
    (hd : dispatch b = .ok (some e)) : r.kind? = some e.kind := by
  unfold decodeResp gate at h
  rw [hd] at h
  simp only at h
  unfold checkEntry at h
  split at h
  · cases h
  · rename_i e' hg
    split at hg
    · cases hg
    · split at hg <;> cases hg
  · rename_i e' hg
    split at hg
    · cases hg
    · split at hg
      · cases hg
      · cases hg; exact parseKind_kind h

/-- unknown service or unknown sub-function: kept raw, byte for byte -/
theorem decodeResp_raw_keeps (b : Bytes) (h : gate b = .ok .raw) : decodeResp b = .ok (.rawPos b) := by
  simp [decodeResp, h]

/-! ### rejection by the registry's length gates -/

/-- a PDU shorter than the minimal length of the class it is dispatched to is rejected -/
theorem decodeResp_rejects_short (b : Bytes) (e : Entry) (hd : dispatch b = .ok (some e))
    (hl : b.length < e.minLen) : decodeResp b = .error .tooShort := by
  simp [decodeResp, gate, hd, checkEntry, lenGate, hl]

/-- a PDU longer than the maximal length of the class it is dispatched to is rejected -/
theorem decodeResp_rejects_long (b : Bytes) (e : Entry) (m : Nat) (hd : dispatch b = .ok (some e))
    (hm : e.maxLen = some m) (hl : b.length > m) : ∃ r, decodeResp b = .error r := by
  by_cases hs : b.length < e.minLen
  · exact ⟨_, decodeResp_rejects_short b e hd hs⟩
  · exact ⟨.tooLong, by simp [decodeResp, gate, hd, checkEntry, lenGate, hs, hm, hl]⟩

/-- the empty PDU is rejected -/
theorem decodeResp_rejects_empty : decodeResp [] = .error .empty := by rfl

end Gallia.C02
