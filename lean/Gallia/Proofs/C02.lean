import Gallia.Proofs.Lemmas.UdsResp
import Gallia.Gen.C02Registry
/-
  C02 — Decoded UDS responses expose the received fields and re-encode to the same bytes.
  Property theorems only; helper lemmas are in `Proofs/Lemmas/UdsResp.lean`.
  `decodeResp` is the oracle (ISO 14229-1 layouts, lossless reading of gallia's length / format rules, gated by the
  response registry); the correspondence harness compares the real `UDSResponse.parse_dynamic` / `.pdu` with it.
-/
namespace Gallia.C02
open Gallia Gallia.UdsResp

/-! ### (T) regenerated tables -/

/-- the hand-written response registry (class, parser family, response id, dispatch, SUB_FUNCTION_ID, sub-function
    gate, minimal / maximal length) equals the table regenerated from the live classes on every run -/
theorem responseRegistry_agrees : Gen.C02Registry.responseRegistry = registryRows := by rfl

/-- the NRC bytes a typed negative response may carry are exactly `UDSErrorCodes` -/
theorem nrc_agrees : Gen.C02Registry.errorCodes = nrcTable := by decide

theorem dtcFormat_agrees : Gen.C02Registry.dtcFormats = dtcFormatTable := by decide

/-! ### losslessness -/

/-- **the property's core**: whatever byte string the decoder accepts — typed positive, negative or raw — the
    object it returns re-serialises to exactly the received bytes. For ALL byte strings, no length bound. -/
theorem encodeResp_decodeResp (b : Bytes) (r : Resp) (h : decodeResp b = .ok r) : encodeResp r = b := by
  unfold decodeResp at h
  split at h
  · cases h
  · cases h; rfl
  · exact parseKind_ok h

/-- never silently normalised: two different received byte strings never yield the same object -/
theorem decodeResp_injective (b₁ b₂ : Bytes) (r : Resp) (h₁ : decodeResp b₁ = .ok r) (h₂ : decodeResp b₂ = .ok r) :
    b₁ = b₂ := by
  rw [← encodeResp_decodeResp b₁ r h₁, ← encodeResp_decodeResp b₂ r h₂]

/-- the typed object's constructor is the parser family of the class the registry dispatches to -/
theorem decodeResp_kind (b : Bytes) (r : Resp) (e : Entry) (h : decodeResp b = .ok r)
    (hd : dispatch b = .ok (some e)) : r.kind? = some e.kind := by
  unfold decodeResp gate at h
  rw [hd] at h
  simp only at h
  unfold checkEntry at h
  split at h
  · cases h
  · rename_i e' hg
    split at hg
    · cases hg
    · split at hg <;> cases hg
  · rename_i e' hg
    split at hg
    · cases hg
    · split at hg
      · cases hg
      · cases hg; exact parseKind_kind h

/-- decode after encode: every well-formed object (field values in the range of their wire width, sub-function
    registered, record constraints of the class) is decoded from its own serialisation — as itself, not as a
    neighbouring class, not as raw, not rejected -/
theorem decodeResp_encodeResp (r : Resp) (h : r.WF) : decodeResp (encodeResp r) = .ok r := by
  cases r with
  | neg sid nrc =>
    have h : nrc.toNat ∈ nrcTable := h
    refine decodeResp_of (e := registry[0]) (by rfl) (by side) (by side) (by side) ?_
    simp [registry, parseKind, pNeg, encodeResp, h]
  | dsc ty rec =>
    have h : ty.toNat < 0x80 := h
    refine decodeResp_of (e := registry[1]) (by rfl) (by side) (by side) (by side) ?_
    simp [registry, parseKind, pDsc, encodeResp]
  | ecuReset ty pdt =>
    have h : ty.toNat < 0x80 := h
    cases pdt <;>
    · refine decodeResp_of (e := registry[2]) (by rfl) (by side) (by side) (by side) ?_
      simp [registry, parseKind, pEcuReset, encodeResp]
  | secAccess ty seed =>
    have h : ty.toNat < 0x80 := h
    refine decodeResp_of (e := registry[19]) (by rfl) (by side) (by side) (by side) ?_
    simp [registry, parseKind, pSecAccess, encodeResp]
  | commCtrl ty =>
    have h : ty.toNat < 0x80 := h
    refine decodeResp_of (e := registry[20]) (by rfl) (by side) (by side) (by side) ?_
    simp [registry, parseKind, pCommCtrl, encodeResp]
  | testerPresent =>
    refine decodeResp_of (e := registry[34]) (by rfl) (by side) (by side) (by side) ?_
    simp [registry, parseKind, pTesterPresent, encodeResp]
  | ctrlDTC ty =>
    have h : ty.toNat < 0x80 := h
    refine decodeResp_of (e := registry[35]) (by rfl) (by side) (by side) (by side) ?_
    simp [registry, parseKind, pCtrlDTC, encodeResp]
  | rdbi did rec =>
    obtain ⟨hd, hr⟩ := h
    obtain ⟨a, c, hac⟩ := toBE2_cases did
    cases rec with
    | nil => exact absurd rfl hr
    | cons r rest =>
      simp only [encodeResp, hac]
      refine decodeResp_of (e := registry[17]) (by rfl) (by side) (by side) (by side) ?_
      simp [registry, parseKind, pRdbi, fromBE_of_toBE2 hac hd]
  | rmba rec =>
    have hr : rec ≠ [] := h
    cases rec with
    | nil => exact absurd rfl hr
    | cons r rest =>
      refine decodeResp_of (e := registry[18]) (by rfl) (by side) (by side) (by side) ?_
      simp [registry, parseKind, pRmba, encodeResp]
  | dddi sub did =>
    obtain ⟨hs, hn, hd⟩ := h
    cases did with
    | none =>
      have := u8_of_toNat (hn rfl); subst this
      refine decodeResp_of (e := registry[23]) (by rfl) (by side) (by side) (by side) ?_
      simp [registry, parseKind, pDddi, encodeResp]
    | some d =>
      have hd := hd d rfl
      obtain ⟨a, c, hac⟩ := toBE2_cases d
      simp only [encodeResp, hac]
      rcases hs with hs | hs | hs <;> (have := u8_of_toNat hs; subst this)
      · refine decodeResp_of (e := registry[21]) (by rfl) (by side) (by side) (by side) ?_
        simp [registry, parseKind, pDddi, fromBE_of_toBE2 hac hd]
      · refine decodeResp_of (e := registry[22]) (by rfl) (by side) (by side) (by side) ?_
        simp [registry, parseKind, pDddi, fromBE_of_toBE2 hac hd]
      · refine decodeResp_of (e := registry[23]) (by rfl) (by side) (by side) (by side) ?_
        simp [registry, parseKind, pDddi, fromBE_of_toBE2 hac hd]
  | wdbi did =>
    have hd : did < 0x10000 := h
    obtain ⟨a, c, hac⟩ := toBE2_cases did
    simp only [encodeResp, hac]
    refine decodeResp_of (e := registry[24]) (by rfl) (by side) (by side) (by side) ?_
    simp [registry, parseKind, pWdbi, fromBE_of_toBE2 hac hd]
  | wmba alfid addr size =>
    obtain ⟨ha, hs, haddr, hsize⟩ := h
    have hlen : (toBE addr (alfid.toNat % 16) ++ toBE size (alfid.toNat / 16)).length
        = alfid.toNat % 16 + alfid.toNat / 16 := by simp
    have hal := alfid.toNat_lt
    refine decodeResp_of (e := registry[33]) (by rfl) (by side) (by side) (by side) ?_
    simp only [registry, List.getElem_cons_succ, List.getElem_cons_zero, parseKind, pWmba, encodeResp]
    rw [if_pos ⟨trivial, ha, hs, hlen⟩, List.take_left' (by simp), List.drop_left' (by simp),
      fromBE_toBE _ _ haddr, fromBE_toBE _ _ hsize]
  | clearDTC =>
    refine decodeResp_of (e := registry[3]) (by rfl) (by side) (by side) (by side) ?_
    simp [registry, parseKind, pClearDTC, encodeResp]
  | dtcCount sub mask fmt count =>
    obtain ⟨hs, hf, hc⟩ := h
    obtain ⟨a, c, hac⟩ := toBE2_cases count
    simp only [encodeResp, hac]
    simp [countSubs] at hs
    rcases hs with hs | hs | hs <;> (have := u8_of_toNat hs; subst this)
    · refine decodeResp_of (e := registry[4]) (by rfl) (by side) (by side) (by side) ?_
      simp [registry, parseKind, pDtcCount, fromBE_of_toBE2 hac hc, hf]
    · refine decodeResp_of (e := registry[13]) (by rfl) (by side) (by side) (by side) ?_
      simp [registry, parseKind, pDtcCount, fromBE_of_toBE2 hac hc, hf]
    · refine decodeResp_of (e := registry[14]) (by rfl) (by side) (by side) (by side) ?_
      simp [registry, parseKind, pDtcCount, fromBE_of_toBE2 hac hc, hf]
  | dtcList sub mask recs =>
    obtain ⟨hs, hr, hdist⟩ := h
    have hp : pDtcList (0x59 :: sub :: mask :: encRecs recs) = .ok (.dtcList sub mask recs) := by
      simp [pDtcList, parseRecs_encRecs recs hr, hdist]
    simp only [encodeResp]
    rcases hs with hs | ⟨hs, hlen⟩
    · simp [listSubsOpen] at hs
      rcases hs with hs | hs | hs | hs | hs <;> (have := u8_of_toNat hs; subst this)
      · exact decodeResp_of (e := registry[5]) (by rfl) (by side) (by side) (by side) hp
      · exact decodeResp_of (e := registry[7]) (by rfl) (by side) (by side) (by side) hp
      · exact decodeResp_of (e := registry[12]) (by rfl) (by side) (by side) (by side) hp
      · exact decodeResp_of (e := registry[15]) (by rfl) (by side) (by side) (by side) hp
      · exact decodeResp_of (e := registry[16]) (by rfl) (by side) (by side) (by side) hp
    · simp [listSubsSingle] at hs
      rcases hs with hs | hs | hs | hs <;> (have := u8_of_toNat hs; subst this)
      · exact decodeResp_of (e := registry[8]) (by rfl) (by side) (by side) (by side) hp
      · exact decodeResp_of (e := registry[9]) (by rfl) (by side) (by side) (by side) hp
      · exact decodeResp_of (e := registry[10]) (by rfl) (by side) (by side) (by side) hp
      · exact decodeResp_of (e := registry[11]) (by rfl) (by side) (by side) (by side) hp
  | dtcExt dtc status recnum data =>
    obtain ⟨hd, hr⟩ := h
    obtain ⟨a, b, c, habc⟩ := toBE3_cases dtc
    simp only [encodeResp, habc]
    refine decodeResp_of (e := registry[6]) (by rfl) (by side) (by side) (by side) ?_
    simp [registry, parseKind, pDtcExt, fromBE_of_toBE3 habc hd, hr]
  | iocbi did rec =>
    obtain ⟨hd, hr⟩ := h
    obtain ⟨a, c, hac⟩ := toBE2_cases did
    cases rec with
    | nil => exact absurd rfl hr
    | cons r rest =>
      simp only [encodeResp, hac]
      refine decodeResp_of (e := registry[25]) (by rfl) (by side) (by side) (by side) ?_
      simp [registry, parseKind, pIocbi, fromBE_of_toBE2 hac hd]
  | routine sub rid rec =>
    obtain ⟨hs, hd⟩ := h
    obtain ⟨a, c, hac⟩ := toBE2_cases rid
    simp only [encodeResp, hac]
    rcases hs with hs | hs | hs <;> (have := u8_of_toNat hs; subst this)
    · refine decodeResp_of (e := registry[26]) (by rfl) (by side) (by side) (by side) ?_
      simp [registry, parseKind, pRoutine, fromBE_of_toBE2 hac hd]
    · refine decodeResp_of (e := registry[27]) (by rfl) (by side) (by side) (by side) ?_
      simp [registry, parseKind, pRoutine, fromBE_of_toBE2 hac hd]
    · refine decodeResp_of (e := registry[28]) (by rfl) (by side) (by side) (by side) ?_
      simp [registry, parseKind, pRoutine, fromBE_of_toBE2 hac hd]
  | upDownload rs lfid maxLen =>
    obtain ⟨hrs, hlo, hhi, hm⟩ := h
    have hp : pUpDownload (rs :: lfid :: toBE maxLen (lfid.toNat / 16)) = .ok (.upDownload rs lfid maxLen) := by
      simp only [pUpDownload]
      rw [if_pos ⟨hrs, hlo, hhi, by simp⟩, fromBE_toBE _ _ hm]
    have hal := lfid.toNat_lt
    simp only [encodeResp]
    rcases hrs with hrs | hrs <;> subst hrs
    · exact decodeResp_of (e := registry[29]) (by rfl) (by side) (by side) (by side) hp
    · refine decodeResp_of (e := registry[30]) (by rfl) (by side) (by side) ?_ hp
      simp [registry, subGate]
  | transferData ctr rec =>
    refine decodeResp_of (e := registry[31]) (by rfl) (by side) (by side) (by side) ?_
    simp [registry, parseKind, pTransferData, encodeResp]
  | transferExit rec =>
    cases rec <;>
    · refine decodeResp_of (e := registry[32]) (by rfl) (by side) (by side) (by side) ?_
      simp [registry, parseKind, pTransferExit, encodeResp]
  | rawPos b =>
    have hg : gate b = .ok .raw := h
    simp [encodeResp, decodeResp, hg]

/-- unknown service or unknown sub-function: kept raw, byte for byte -/
theorem decodeResp_raw_keeps (b : Bytes) (h : gate b = .ok .raw) : decodeResp b = .ok (.rawPos b) := by
  simp [decodeResp, h]

/-! ### rejection by the registry's length gates -/

/-- a PDU shorter than the minimal length of the class it is dispatched to is rejected -/
theorem decodeResp_rejects_short (b : Bytes) (e : Entry) (hd : dispatch b = .ok (some e))
    (hl : b.length < e.minLen) : decodeResp b = .error .tooShort := by
  simp [decodeResp, gate, hd, checkEntry, lenGate, hl]

/-- a PDU longer than the maximal length of the class it is dispatched to is rejected -/
theorem decodeResp_rejects_long (b : Bytes) (e : Entry) (m : Nat) (hd : dispatch b = .ok (some e))
    (hm : e.maxLen = some m) (hl : b.length > m) : ∃ r, decodeResp b = .error r := by
  by_cases hs : b.length < e.minLen
  · exact ⟨_, decodeResp_rejects_short b e hd hs⟩
  · exact ⟨.tooLong, by simp [decodeResp, gate, hd, checkEntry, lenGate, hs, hm, hl]⟩

/-- the empty PDU is rejected -/
theorem decodeResp_rejects_empty : decodeResp [] = .error .empty := by rfl

end Gallia.C02
