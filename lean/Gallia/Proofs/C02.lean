import Gallia.Model.UdsResp
import Gallia.Gen.C02Registry
namespace Gallia.C02
open Gallia Gallia.UdsResp

/-- (T) the hand-written response registry equals the table regenerated from the live classes -/
theorem responseRegistry_agrees : Gen.C02Registry.responseRegistry = registryRows := by
  rfl

theorem nrc_agrees : Gen.C02Registry.errorCodes = nrcTable := by decide

theorem dtcFormat_agrees : Gen.C02Registry.dtcFormats = dtcFormatTable := by decide

end Gallia.C02
