import Gallia.Proofs.Lemmas.UdsResp
import Gallia.Gen.C02Registry
import Gallia.Proofs.Lemmas.UdsRespCtor
import Gallia.Gen.C02Ctor
import Gallia.Proofs.Lemmas.UdsRespFields
import Gallia.Gen.C02Fields
import Gallia.Proofs.Lemmas.UdsRespFromPdu
import Gallia.Proofs.Lemmas.UdsRespExposes
/-
  C02 — Decoded UDS responses expose the received fields and re-encode to the same bytes.
  Property theorems only; helper lemmas are in `Proofs/Lemmas/UdsResp.lean`.
  `decodeResp` is the oracle (ISO 14229-1 layouts, lossless reading of gallia's length / format rules, gated by the
  response registry); the correspondence harness compares the real `UDSResponse.parse_dynamic` / `.pdu` with it.
-/
namespace Gallia.C02
open Gallia Gallia.UdsResp

/-! ### (T) regenerated tables -/

/-- the hand-written response registry (class, parser family, response id, dispatch, SUB_FUNCTION_ID, sub-function
    gate, minimal / maximal length) equals the table regenerated from the live classes on every run -/
theorem responseRegistry_agrees : Gen.C02Registry.responseRegistry = registryRows := by rfl

/-- the NRC bytes a typed negative response may carry are exactly `UDSErrorCodes` -/
theorem nrc_agrees : Gen.C02Registry.errorCodes = nrcTable := by decide

theorem dtcFormat_agrees : Gen.C02Registry.dtcFormats = dtcFormatTable := by decide

/-! ### losslessness -/

/-- **the property's core**: whatever byte string the decoder accepts — typed positive, negative or raw — the
    object it returns re-serialises to exactly the received bytes. For ALL byte strings, no length bound. -/
theorem encodeResp_decodeResp (b : Bytes) (r : Resp) (h : decodeResp b = .ok r) : encodeResp r = b := by
  unfold decodeResp at h
  split at h
  · cases h
  · cases h; rfl
  · exact parseKind_ok h

/-- never silently normalised: two different received byte strings never yield the same object -/
theorem decodeResp_injective (b₁ b₂ : Bytes) (r : Resp) (h₁ : decodeResp b₁ = .ok r) (h₂ : decodeResp b₂ = .ok r) :
    b₁ = b₂ := by
  rw [← encodeResp_decodeResp b₁ r h₁, ← encodeResp_decodeResp b₂ r h₂]

/-- the typed object's constructor is the parser family of the class the registry dispatches to -/
theorem decodeResp_kind (b : Bytes) (r : Resp) (e : Entry) (h : decodeResp b = .ok r)
    (hd : dispatch b = .ok (some e)) : r.kind? = some e.kind := by
  unfold decodeResp gate at h
  rw [hd] at h
  simp only at h
  unfold checkEntry at h
  split at h
  · cases h
  · rename_i e' hg
    split at hg
    · cases hg
    · split at hg <;> cases hg
  · rename_i e' hg
    split at hg
    · cases hg
    · split at hg
      · cases hg
      · cases hg; exact parseKind_kind h

/-- decode after encode: every well-formed object (field values in the range of their wire width, sub-function
    registered, record constraints of the class) is decoded from its own serialisation — as itself, not as a
    neighbouring class, not as raw, not rejected -/
theorem decodeResp_encodeResp (r : Resp) (h : r.WF) : decodeResp (encodeResp r) = .ok r := by
  cases r with
  | neg sid nrc =>
    have h : nrc.toNat ∈ nrcTable := h
    refine decodeResp_of (e := registry[0]) (by rfl) (by side) (by side) (by side) ?_
    simp [registry, parseKind, pNeg, encodeResp, h]
  | dsc ty rec =>
    have h : ty.toNat < 0x80 := h
    refine decodeResp_of (e := registry[1]) (by rfl) (by side) (by side) (by side) ?_
    simp [registry, parseKind, pDsc, encodeResp]
  | ecuReset ty pdt =>
    have h : ty.toNat < 0x80 := h
    cases pdt <;>
    · refine decodeResp_of (e := registry[2]) (by rfl) (by side) (by side) (by side) ?_
      simp [registry, parseKind, pEcuReset, encodeResp]
  | secAccess ty seed =>
    have h : ty.toNat < 0x80 := h
    refine decodeResp_of (e := registry[19]) (by rfl) (by side) (by side) (by side) ?_
    simp [registry, parseKind, pSecAccess, encodeResp]
  | commCtrl ty =>
    have h : ty.toNat < 0x80 := h
    refine decodeResp_of (e := registry[20]) (by rfl) (by side) (by side) (by side) ?_
    simp [registry, parseKind, pCommCtrl, encodeResp]
  | testerPresent =>
    refine decodeResp_of (e := registry[34]) (by rfl) (by side) (by side) (by side) ?_
    simp [registry, parseKind, pTesterPresent, encodeResp]
  | ctrlDTC ty =>
    have h : ty.toNat < 0x80 := h
    refine decodeResp_of (e := registry[35]) (by rfl) (by side) (by side) (by side) ?_
    simp [registry, parseKind, pCtrlDTC, encodeResp]
  | rdbi did rec =>
    obtain ⟨hd, hr⟩ := h
    obtain ⟨a, c, hac⟩ := toBE2_cases did
    cases rec with
    | nil => exact absurd rfl hr
    | cons r rest =>
      simp only [encodeResp, hac]
      refine decodeResp_of (e := registry[17]) (by rfl) (by side) (by side) (by side) ?_
      simp [registry, parseKind, pRdbi, fromBE_of_toBE2 hac hd]
  | rmba rec =>
    have hr : rec ≠ [] := h
    cases rec with
    | nil => exact absurd rfl hr
    | cons r rest =>
      refine decodeResp_of (e := registry[18]) (by rfl) (by side) (by side) (by side) ?_
      simp [registry, parseKind, pRmba, encodeResp]
  | dddi sub did =>
    obtain ⟨hs, hn, hd⟩ := h
    cases did with
    | none =>
      have := u8_of_toNat (hn rfl); subst this
      refine decodeResp_of (e := registry[23]) (by rfl) (by side) (by side) (by side) ?_
      simp [registry, parseKind, pDddi, encodeResp]
    | some d =>
      have hd := hd d rfl
      obtain ⟨a, c, hac⟩ := toBE2_cases d
      simp only [encodeResp, hac]
      rcases hs with hs | hs | hs <;> (have := u8_of_toNat hs; subst this)
      · refine decodeResp_of (e := registry[21]) (by rfl) (by side) (by side) (by side) ?_
        simp [registry, parseKind, pDddi, fromBE_of_toBE2 hac hd]
      · refine decodeResp_of (e := registry[22]) (by rfl) (by side) (by side) (by side) ?_
        simp [registry, parseKind, pDddi, fromBE_of_toBE2 hac hd]
      · refine decodeResp_of (e := registry[23]) (by rfl) (by side) (by side) (by side) ?_
        simp [registry, parseKind, pDddi, fromBE_of_toBE2 hac hd]
  | wdbi did =>
    have hd : did < 0x10000 := h
    obtain ⟨a, c, hac⟩ := toBE2_cases did
    simp only [encodeResp, hac]
    refine decodeResp_of (e := registry[24]) (by rfl) (by side) (by side) (by side) ?_
    simp [registry, parseKind, pWdbi, fromBE_of_toBE2 hac hd]
  | wmba alfid addr size =>
    obtain ⟨ha, hs, haddr, hsize⟩ := h
    have hlen : (toBE addr (alfid.toNat % 16) ++ toBE size (alfid.toNat / 16)).length
        = alfid.toNat % 16 + alfid.toNat / 16 := by simp
    have hal := alfid.toNat_lt
    refine decodeResp_of (e := registry[33]) (by rfl) (by side) (by side) (by side) ?_
    simp only [registry, List.getElem_cons_succ, List.getElem_cons_zero, parseKind, pWmba, encodeResp]
    rw [if_pos ⟨trivial, ha, hs, hlen⟩, List.take_left' (by simp), List.drop_left' (by simp),
      fromBE_toBE _ _ haddr, fromBE_toBE _ _ hsize]
  | clearDTC =>
    refine decodeResp_of (e := registry[3]) (by rfl) (by side) (by side) (by side) ?_
    simp [registry, parseKind, pClearDTC, encodeResp]
  | dtcCount sub mask fmt count =>
    obtain ⟨hs, hf, hc⟩ := h
    obtain ⟨a, c, hac⟩ := toBE2_cases count
    simp only [encodeResp, hac]
    simp [countSubs] at hs
    rcases hs with hs | hs | hs <;> (have := u8_of_toNat hs; subst this)
    · refine decodeResp_of (e := registry[4]) (by rfl) (by side) (by side) (by side) ?_
      simp [registry, parseKind, pDtcCount, fromBE_of_toBE2 hac hc, hf]
    · refine decodeResp_of (e := registry[13]) (by rfl) (by side) (by side) (by side) ?_
      simp [registry, parseKind, pDtcCount, fromBE_of_toBE2 hac hc, hf]
    · refine decodeResp_of (e := registry[14]) (by rfl) (by side) (by side) (by side) ?_
      simp [registry, parseKind, pDtcCount, fromBE_of_toBE2 hac hc, hf]
  | dtcList sub mask recs =>
    obtain ⟨hs, hr, hdist⟩ := h
    have hp : pDtcList (0x59 :: sub :: mask :: encRecs recs) = .ok (.dtcList sub mask recs) := by
      simp [pDtcList, parseRecs_encRecs recs hr, hdist]
    simp only [encodeResp]
    rcases hs with hs | ⟨hs, hlen⟩
    · simp [listSubsOpen] at hs
      rcases hs with hs | hs | hs | hs | hs <;> (have := u8_of_toNat hs; subst this)
      · exact decodeResp_of (e := registry[5]) (by rfl) (by side) (by side) (by side) hp
      · exact decodeResp_of (e := registry[7]) (by rfl) (by side) (by side) (by side) hp
      · exact decodeResp_of (e := registry[12]) (by rfl) (by side) (by side) (by side) hp
      · exact decodeResp_of (e := registry[15]) (by rfl) (by side) (by side) (by side) hp
      · exact decodeResp_of (e := registry[16]) (by rfl) (by side) (by side) (by side) hp
    · simp [listSubsSingle] at hs
      rcases hs with hs | hs | hs | hs <;> (have := u8_of_toNat hs; subst this)
      · exact decodeResp_of (e := registry[8]) (by rfl) (by side) (by side) (by side) hp
      · exact decodeResp_of (e := registry[9]) (by rfl) (by side) (by side) (by side) hp
      · exact decodeResp_of (e := registry[10]) (by rfl) (by side) (by side) (by side) hp
      · exact decodeResp_of (e := registry[11]) (by rfl) (by side) (by side) (by side) hp
  | dtcExt dtc status recnum data =>
    obtain ⟨hd, hr⟩ := h
    obtain ⟨a, b, c, habc⟩ := toBE3_cases dtc
    simp only [encodeResp, habc]
    refine decodeResp_of (e := registry[6]) (by rfl) (by side) (by side) (by side) ?_
    simp [registry, parseKind, pDtcExt, fromBE_of_toBE3 habc hd, hr]
  | iocbi did rec =>
    obtain ⟨hd, hr⟩ := h
    obtain ⟨a, c, hac⟩ := toBE2_cases did
    cases rec with
    | nil => exact absurd rfl hr
    | cons r rest =>
      simp only [encodeResp, hac]
      refine decodeResp_of (e := registry[25]) (by rfl) (by side) (by side) (by side) ?_
      simp [registry, parseKind, pIocbi, fromBE_of_toBE2 hac hd]
  | routine sub rid rec =>
    obtain ⟨hs, hd⟩ := h
    obtain ⟨a, c, hac⟩ := toBE2_cases rid
    simp only [encodeResp, hac]
    rcases hs with hs | hs | hs <;> (have := u8_of_toNat hs; subst this)
    · refine decodeResp_of (e := registry[26]) (by rfl) (by side) (by side) (by side) ?_
      simp [registry, parseKind, pRoutine, fromBE_of_toBE2 hac hd]
    · refine decodeResp_of (e := registry[27]) (by rfl) (by side) (by side) (by side) ?_
      simp [registry, parseKind, pRoutine, fromBE_of_toBE2 hac hd]
    · refine decodeResp_of (e := registry[28]) (by rfl) (by side) (by side) (by side) ?_
      simp [registry, parseKind, pRoutine, fromBE_of_toBE2 hac hd]
  | upDownload rs lfid maxLen =>
    obtain ⟨hrs, hlo, hhi, hm⟩ := h
    have hp : pUpDownload (rs :: lfid :: toBE maxLen (lfid.toNat / 16)) = .ok (.upDownload rs lfid maxLen) := by
      simp only [pUpDownload]
      rw [if_pos ⟨hrs, hlo, hhi, by simp⟩, fromBE_toBE _ _ hm]
    have hal := lfid.toNat_lt
    simp only [encodeResp]
    rcases hrs with hrs | hrs <;> subst hrs
    · exact decodeResp_of (e := registry[29]) (by rfl) (by side) (by side) (by side) hp
    · refine decodeResp_of (e := registry[30]) (by rfl) (by side) (by side) ?_ hp
      simp [registry, subGate]
  | transferData ctr rec =>
    refine decodeResp_of (e := registry[31]) (by rfl) (by side) (by side) (by side) ?_
    simp [registry, parseKind, pTransferData, encodeResp]
  | transferExit rec =>
    cases rec <;>
    · refine decodeResp_of (e := registry[32]) (by rfl) (by side) (by side) (by side) ?_
      simp [registry, parseKind, pTransferExit, encodeResp]
  | rawPos b =>
    have hg : gate b = .ok .raw := h
    simp [encodeResp, decodeResp, hg]

/-- the decoder only produces well-formed objects: with `decodeResp_encodeResp` and `encodeResp_decodeResp` the accepted
    byte strings and the well-formed objects are in bijection -/
theorem decodeResp_wf (b : Bytes) (r : Resp) (h : decodeResp b = .ok r) : r.WF := by
  by_cases hr : r.kind? = none
  · cases r <;> simp [Resp.kind?] at hr
    obtain ⟨rfl, hg⟩ := decodeResp_raw h; exact hg
  · obtain ⟨e, hd, hl, hs, hp⟩ := decodeResp_typed h hr
    obtain ⟨hmem, s, t, rfl, hrs⟩ := dispatch_spec hd
    have hk := parseKind_kind hp
    obtain ⟨hf1, hf2, hf3, hf4, hf5⟩ := reg_facts e hmem
    obtain ⟨hmin, hmax⟩ := lenGate_ok hl
    have hb := parseKind_ok hp
    cases r
    case rawPos => simp [Resp.kind?] at hr
    all_goals (simp only [Resp.kind?, Option.some.injEq] at hk; rw [← hk] at hp; simp only [parseKind] at hp)
    case neg => exact pNeg_wf hp
    case testerPresent => exact pTesterPresent_wf hp
    case rdbi => exact pRdbi_wf hp
    case rmba => exact pRmba_wf hp
    case wdbi => exact pWdbi_wf hp
    case wmba => exact pWmba_wf hp
    case clearDTC => exact pClearDTC_wf hp
    case dtcExt => exact pDtcExt_wf hp
    case iocbi => exact pIocbi_wf hp
    case upDownload => exact pUpDownload_wf hp
    case transferData => exact pTransferData_wf hp
    case transferExit => exact pTransferExit_wf hp
    case dsc ty rec =>
      simp only [encodeResp] at hb; cases hb
      exact (subGate_ok hs).1 (hf1 (by simp [← hk]))
    case ecuReset ty pdt =>
      cases pdt <;> (simp only [encodeResp] at hb; cases hb; exact (subGate_ok hs).1 (hf1 (by simp [← hk])))
    case secAccess ty seed =>
      simp only [encodeResp] at hb; cases hb
      exact (subGate_ok hs).1 (hf1 (by simp [← hk]))
    case commCtrl ty =>
      simp only [encodeResp] at hb; cases hb
      exact (subGate_ok hs).1 (hf1 (by simp [← hk]))
    case ctrlDTC ty =>
      simp only [encodeResp] at hb; cases hb
      exact (subGate_ok hs).1 (hf1 (by simp [← hk]))
    case dddi sub did =>
      have hsub : ∀ k, e.sub = some k → sub.toNat = k := by
        cases did <;> simp only [encodeResp] at hb <;> cases hb <;> exact (subGate_ok hs).2
      refine ⟨?_, ?_, ?_⟩
      · rcases hf2 hk.symm with ⟨h1, _⟩ | ⟨h1, _⟩ | h1
        · exact Or.inl (hsub _ h1)
        · exact Or.inr (Or.inl (hsub _ h1))
        · exact Or.inr (Or.inr (hsub _ h1))
      · rintro rfl
        simp only [encodeResp] at hb; cases hb
        rcases hf2 hk.symm with ⟨h1, h2⟩ | ⟨h1, h2⟩ | h1
        · simp [h2] at hmin
        · simp [h2] at hmin
        · exact (subGate_ok hs).2 _ h1
      · rintro d rfl
        exact pDddi_facts hp
    case dtcCount sub mask fmt count =>
      obtain ⟨hfm, hc⟩ := pDtcCount_facts hp
      simp only [encodeResp] at hb; cases hb
      obtain ⟨k, hk1, hk2⟩ := hf3 hk.symm
      have := (subGate_ok hs).2 _ hk2
      exact ⟨this ▸ hk1, hfm, hc⟩
    case dtcList sub mask recs =>
      obtain ⟨hlt, hdist⟩ := pDtcList_facts hp
      simp only [encodeResp] at hb; cases hb
      refine ⟨?_, hlt, hdist⟩
      rcases hf4 hk.symm with ⟨k, hk1, hk2⟩ | ⟨⟨k, hk1, hk2⟩, hmx⟩
      · left; have := (subGate_ok hs).2 _ hk2; exact this ▸ hk1
      · right
        have := (subGate_ok hs).2 _ hk2
        refine ⟨this ▸ hk1, ?_⟩
        have := hmax 7 hmx
        simp [encRecs_length] at this
        omega
    case routine sub rid rec =>
      have hrid := pRoutine_facts hp
      simp only [encodeResp] at hb; cases hb
      refine ⟨?_, hrid⟩
      rcases hf5 hk.symm with h1 | h1 | h1
      · exact Or.inl ((subGate_ok hs).2 _ h1)
      · exact Or.inr (Or.inl ((subGate_ok hs).2 _ h1))
      · exact Or.inr (Or.inr ((subGate_ok hs).2 _ h1))

/-! ### field positions: the values exposed are the ones ISO 14229-1 places at these byte positions -/

/-- negative response: `7F`, request service id at byte 1, response code at byte 2, nothing else -/
theorem decode_nrc (b : Bytes) (sid nrc : UInt8) (h : decodeResp b = .ok (.neg sid nrc)) :
    b = [0x7F, sid, nrc] ∧ nrc.toNat ∈ nrcTable :=
  ⟨(encodeResp_decodeResp b _ h).symm, decodeResp_wf b _ h⟩

/-- sub-function byte of the session / reset / security / communication / DTC-setting responses: byte 1, bit 7 clear -/
theorem decode_subfn (b : Bytes) (ty : UInt8) (rec : Bytes) :
    (decodeResp b = .ok (.dsc ty rec) → b = 0x50 :: ty :: rec ∧ ty.toNat < 0x80) ∧
    (decodeResp b = .ok (.secAccess ty rec) → b = 0x67 :: ty :: rec ∧ ty.toNat < 0x80) ∧
    (decodeResp b = .ok (.ecuReset ty none) → b = [0x51, ty] ∧ ty.toNat < 0x80) ∧
    (decodeResp b = .ok (.commCtrl ty) → b = [0x68, ty] ∧ ty.toNat < 0x80) ∧
    (decodeResp b = .ok (.ctrlDTC ty) → b = [0xC5, ty] ∧ ty.toNat < 0x80) :=
  ⟨fun h => ⟨(encodeResp_decodeResp b _ h).symm, decodeResp_wf b _ h⟩,
   fun h => ⟨(encodeResp_decodeResp b _ h).symm, decodeResp_wf b _ h⟩,
   fun h => ⟨(encodeResp_decodeResp b _ h).symm, decodeResp_wf b _ h⟩,
   fun h => ⟨(encodeResp_decodeResp b _ h).symm, decodeResp_wf b _ h⟩,
   fun h => ⟨(encodeResp_decodeResp b _ h).symm, decodeResp_wf b _ h⟩⟩

/-- ReadDataByIdentifier: identifier = big-endian bytes 1..2, record = everything from byte 3 (never empty) -/
theorem decode_did (b : Bytes) (did : Nat) (rec : Bytes) (h : decodeResp b = .ok (.rdbi did rec)) :
    b.head? = some 0x62 ∧ did = fromBE ((b.drop 1).take 2) ∧ rec = b.drop 3 ∧ rec ≠ [] := by
  have hp := decodeResp_parse h (k := .rdbi) rfl
  simp only [parseKind] at hp; unfold pRdbi at hp
  pos_tac hp

theorem decode_did_wdbi (b : Bytes) (did : Nat) (h : decodeResp b = .ok (.wdbi did)) :
    b.head? = some 0x6E ∧ did = fromBE (b.drop 1) ∧ b.length = 3 := by
  have hp := decodeResp_parse h (k := .wdbi) rfl
  simp only [parseKind] at hp; unfold pWdbi at hp
  pos_tac hp

theorem decode_did_iocbi (b : Bytes) (did : Nat) (rec : Bytes) (h : decodeResp b = .ok (.iocbi did rec)) :
    b.head? = some 0x6F ∧ did = fromBE ((b.drop 1).take 2) ∧ rec = b.drop 3 ∧ rec ≠ [] := by
  have hp := decodeResp_parse h (k := .iocbi) rfl
  simp only [parseKind] at hp; unfold pIocbi at hp
  pos_tac hp

/-- RoutineControl: routine identifier = big-endian bytes 2..3, status record from byte 4 -/
theorem decode_rid (b : Bytes) (sub : UInt8) (rid : Nat) (rec : Bytes)
    (h : decodeResp b = .ok (.routine sub rid rec)) :
    b.head? = some 0x71 ∧ b[1]? = some sub ∧ rid = fromBE ((b.drop 2).take 2) ∧ rec = b.drop 4 := by
  have hp := decodeResp_parse h (k := .routine) rfl
  simp only [parseKind] at hp; unfold pRoutine at hp
  pos_tac hp

/-- number-of-DTC answers: mask byte 2, format byte 3, count = big-endian bytes 4..5 -/
theorem decode_dtc_count (b : Bytes) (sub mask fmt : UInt8) (count : Nat)
    (h : decodeResp b = .ok (.dtcCount sub mask fmt count)) :
    b[1]? = some sub ∧ b[2]? = some mask ∧ b[3]? = some fmt ∧ count = fromBE (b.drop 4) ∧ b.length = 6 := by
  have hp := decodeResp_parse h (k := .dtcCount) rfl
  simp only [parseKind] at hp; unfold pDtcCount at hp
  pos_tac hp

/-- DTC lists: the i-th record is DTC = big-endian bytes 3+4i .. 5+4i, status = byte 6+4i — every record, in order -/
theorem decode_dtc_status (b : Bytes) (sub mask : UInt8) (recs : List (Nat × UInt8))
    (h : decodeResp b = .ok (.dtcList sub mask recs)) (i : Nat) (hi : i < recs.length) :
    recs[i].1 = fromBE ((b.drop (3 + 4 * i)).take 3) ∧ b[3 + 4 * i + 3]? = some recs[i].2 ∧
    b.length = 3 + 4 * recs.length := by
  have hb := encodeResp_decodeResp b _ h
  have hp := decodeResp_parse h (k := .dtcList) rfl
  simp only [parseKind] at hp; unfold pDtcList at hp
  split at hp
  · rename_i s sub' mask' rs
    split at hp
    · split at hp
      · rename_i l hl
        split at hp
        · cases hp
          have := parseRecs_getElem hl i hi
          have e1 : 3 + 4 * i = 4 * i + 1 + 1 + 1 := by omega
          have e2 : 3 + 4 * i + 3 = (4 * i + 3) + 1 + 1 + 1 := by omega
          refine ⟨?_, ?_, ?_⟩
          · rw [e1]; simpa using this.1
          · rw [e2]; simpa using this.2
          · rw [← hb]; simp [encodeResp, encRecs_length]; omega
        · cases hp
      · cases hp
    · cases hp
  · cases hp

/-- ext-data-by-DTC-number: DTC = big-endian bytes 2..4, status byte 5, record number byte 6, data from byte 7 -/
theorem decode_ext (b : Bytes) (dtc : Nat) (status recnum : UInt8) (data : Bytes)
    (h : decodeResp b = .ok (.dtcExt dtc status recnum data)) :
    dtc = fromBE ((b.drop 2).take 3) ∧ b[5]? = some status ∧ b[6]? = some recnum ∧ data = b.drop 7 := by
  have hp := decodeResp_parse h (k := .dtcExt) rfl
  simp only [parseKind] at hp; unfold pDtcExt at hp
  pos_tac hp

/-- WriteMemoryByAddress: the two nibbles of byte 1 give the widths; address and size fill the rest exactly -/
theorem decode_mem (b : Bytes) (alfid : UInt8) (addr size : Nat) (h : decodeResp b = .ok (.wmba alfid addr size)) :
    b[1]? = some alfid ∧ b.length = 2 + alfid.toNat % 16 + alfid.toNat / 16 ∧
    addr = fromBE ((b.drop 2).take (alfid.toNat % 16)) ∧ size = fromBE (b.drop (2 + alfid.toNat % 16)) := by
  have hp := decodeResp_parse h (k := .wmba) rfl
  simp only [parseKind] at hp; unfold pWmba at hp
  split at hp
  · split at hp
    · rename_i hc
      obtain ⟨_, _, _, hlen⟩ := hc
      cases hp
      refine ⟨by simp, by simp [hlen]; omega, by simp, ?_⟩
      rw [show 2 + alfid.toNat % 16 = alfid.toNat % 16 + 1 + 1 by omega]; simp
    · cases hp
  · cases hp

/-- RequestDownload / RequestUpload: the high nibble of byte 1 is the number of length bytes that follow, the low
    nibble is 0, and maxNumberOfBlockLength is exactly those bytes -/
theorem decode_block_length (b : Bytes) (rs lfid : UInt8) (maxLen : Nat)
    (h : decodeResp b = .ok (.upDownload rs lfid maxLen)) :
    b.head? = some rs ∧ b[1]? = some lfid ∧ lfid.toNat % 16 = 0 ∧ b.length = 2 + lfid.toNat / 16 ∧
    maxLen = fromBE (b.drop 2) := by
  have hp := decodeResp_parse h (k := .upDownload) rfl
  simp only [parseKind] at hp; unfold pUpDownload at hp
  split at hp
  · split at hp
    · rename_i hc
      obtain ⟨_, hlo, _, hlen⟩ := hc
      cases hp
      exact ⟨by simp, by simp, hlo, by simp [hlen]; omega, by simp⟩
    · cases hp
  · cases hp

/-- optional 2-byte identifier of the DynamicallyDefineDataIdentifier responses: absent, or exactly bytes 2..3 -/
theorem decode_dddi (b : Bytes) (sub : UInt8) (did : Option Nat) (h : decodeResp b = .ok (.dddi sub did)) :
    b[1]? = some sub ∧ ((did = none ∧ b.length = 2) ∨ (did = some (fromBE (b.drop 2)) ∧ b.length = 4)) := by
  have hp := decodeResp_parse h (k := .dddi) rfl
  simp only [parseKind] at hp; unfold pDddi at hp
  pos_tac hp

/-- a PDU that the registry dispatches to a class is never degraded to a raw response: it is decoded as that class's
    family or rejected -/
theorem known_class_never_raw (b p : Bytes) (e : Entry) (hd : dispatch b = .ok (some e)) :
    decodeResp b ≠ .ok (.rawPos p) := by
  intro h
  have := decodeResp_kind b _ e h hd
  simp [Resp.kind?] at this

/-- unknown service or unknown sub-function: kept raw, byte for byte -/
theorem decodeResp_raw_keeps (b : Bytes) (h : gate b = .ok .raw) : decodeResp b = .ok (.rawPos b) := by
  simp [decodeResp, h]

/-! ### rejection by the registry's length gates -/

/-- a PDU shorter than the minimal length of the class it is dispatched to is rejected -/
theorem decodeResp_rejects_short (b : Bytes) (e : Entry) (hd : dispatch b = .ok (some e))
    (hl : b.length < e.minLen) : decodeResp b = .error .tooShort := by
  simp [decodeResp, gate, hd, checkEntry, lenGate, hl]

/-- a PDU longer than the maximal length of the class it is dispatched to is rejected -/
theorem decodeResp_rejects_long (b : Bytes) (e : Entry) (m : Nat) (hd : dispatch b = .ok (some e))
    (hm : e.maxLen = some m) (hl : b.length > m) : ∃ r, decodeResp b = .error r := by
  by_cases hs : b.length < e.minLen
  · exact ⟨_, decodeResp_rejects_short b e hd hs⟩
  · exact ⟨.tooLong, by simp [decodeResp, gate, hd, checkEntry, lenGate, hs, hm, hl]⟩

/-- the empty PDU is rejected -/
theorem decodeResp_rejects_empty : decodeResp [] = .error .empty := by rfl

/-! ### negative responses -/

/-- every response code of gallia's `UDSErrorCodes` (the regenerated list) decodes, for every request service id -/
theorem neg_total : ∀ n ∈ Gen.C02Registry.errorCodes, ∀ sid : UInt8,
    decodeResp [0x7F, sid, UInt8.ofNat n] = .ok (.neg sid (UInt8.ofNat n)) := by
  rw [nrc_agrees]
  intro n hn sid
  have hlt := nrcTable_lt n hn
  exact decodeResp_encodeResp (.neg sid (UInt8.ofNat n)) (by
    show (UInt8.ofNat n).toNat ∈ nrcTable
    simpa [Nat.mod_eq_of_lt hlt] using hn)

/-- a response code outside the table is rejected, never kept as a number gallia has no name for -/
theorem neg_rejects_unknown (sid nrc : UInt8) (h : nrc.toNat ∉ nrcTable) :
    decodeResp [0x7F, sid, nrc] = .error .nrc := by
  have hd : dispatch [0x7F, sid, nrc] = .ok (some registry[0]) := by rfl
  simp [decodeResp, gate, hd, checkEntry, lenGate, subGate, registry, parseKind, pNeg, h]

/-- a negative response is exactly three bytes long -/
theorem neg_rejects_length (t : Bytes) (h : t.length ≠ 2) : ∃ r, decodeResp (0x7F :: t) = .error r := by
  have hd : dispatch (0x7F :: t) = .ok (some registry[0]) := by rfl
  by_cases hs : t.length < 2
  · exact ⟨_, decodeResp_rejects_short _ _ hd (by simp [registry]; omega)⟩
  · exact decodeResp_rejects_long _ _ 3 hd (by simp [registry]) (by simp; omega)

/-- the gates used above are the ones of the regenerated table: the entry a PDU is dispatched to is a row of
    `Gen.C02Registry.responseRegistry`, and its minimal / maximal length reject -/
theorem rejects_by_generated_table (b : Bytes) (e : Entry) (hd : dispatch b = .ok (some e)) :
    (e.cls, e.kind.family, e.rsid, e.bySub, e.sub, e.subFn, e.minLen, e.maxLen) ∈ Gen.C02Registry.responseRegistry ∧
    (b.length < e.minLen → decodeResp b = .error .tooShort) ∧
    (∀ m, e.maxLen = some m → b.length > m → ∃ r, decodeResp b = .error r) := by
  refine ⟨?_, decodeResp_rejects_short b e hd, fun m hm hl => decodeResp_rejects_long b e m hd hm hl⟩
  rw [responseRegistry_agrees]
  exact List.mem_map.mpr ⟨e, (dispatch_spec hd).1, rfl⟩

/-! ### the hypotheses are satisfiable; the confirmed defects are rejections of the oracle -/

example : decodeResp [0x62, 0xF1, 0x90, 0x01, 0x02] = .ok (.rdbi 0xF190 [0x01, 0x02]) := by eval_dec
example : decodeResp [0x59, 0x02, 0xFF, 0, 0, 1, 8, 0, 0, 2, 9] = .ok (.dtcList 0x02 0xFF [(1, 8), (2, 9)]) := by eval_dec
example : (Resp.dtcList 0x02 0xFF [(1, 8), (2, 9)]).WF :=
  decodeResp_wf [0x59, 0x02, 0xFF, 0, 0, 1, 8, 0, 0, 2, 9] _ (by eval_dec)
/-- low nibble of the format byte = width of the address, high nibble = width of the size -/
example : decodeResp [0x7D, 0x12, 0xAA, 0xBB, 0xCC] = .ok (.wmba 0x12 0xAABB 0xCC) := by eval_dec
example : (Resp.wmba 0x12 0xAABB 0xCC).WF := decodeResp_wf [0x7D, 0x12, 0xAA, 0xBB, 0xCC] _ (by eval_dec)
example : dispatch [0x51, 0x01, 0x02, 0x03] = .ok (some registry[2]) := by rfl

/-- DESIGN §8 items 6–8: the inputs gallia used to normalise have no typed reading in the oracle -/
theorem defect_inputs_rejected :
    decodeResp [0x74, 0x20, 0x01] = .error .format ∧ decodeResp [0x74, 0x10, 0x00, 0x01] = .error .format ∧
    decodeResp [0x7D, 0x11, 0xAA, 0xBB, 0xCC] = .error .format ∧ decodeResp [0x6C, 0x03, 0xAA] = .error .format ∧
    decodeResp [0x59, 0x02, 0xFF, 0, 0, 1, 8, 0, 0, 1, 9] = .error .format :=
  ⟨by eval_dec, by eval_dec, by eval_dec, by eval_dec, by eval_dec⟩


/-! ### the constructor side: what gallia itself builds (`__init__` + `.pdu`) -/

/-- (T) the parameter lists of every registry class's `__init__` are the ones the model's `Fields` stand for -/
theorem ctorSigs_agree : Gen.C02Ctor.ctorSigs = ctorSigRows := by decide

/-- (T) the InputOutputControlByIdentifier convenience classes and the control parameter each prepends -/
theorem convClasses_agree : Gen.C02Ctor.convClasses = convClasses := by decide

/-- every object a constructor accepts is a well-formed typed response (never raw), of the parser family of its class -/
theorem construct_wf (cls : String) (f : Fields) (r : Resp) (h : construct cls f = some r) :
    r.WF ∧ ∃ e ∈ registry, e.cls = cls ∧ r.kind? = some e.kind := by
  obtain ⟨e, he, hcls, hc⟩ := construct_entry h
  exact ⟨constructE_wf he hc, e, he, hcls, constructE_kind hc⟩

/-- for every class and every field valuation the constructor accepts, the parser reads the constructed PDU back as
    exactly the constructed object (same constructor, same field values), and re-serialising gives the same bytes.
    `construct_exposes` (below) adds `exposed r = some f` for calls in the form `_from_pdu` uses (`Fields.Canon f`); the
    tie compares the object's own attributes with the parsed-back ones on every canonical call as well. -/
theorem construct_pdu_parses_back (cls : String) (f : Fields) (r : Resp) (h : construct cls f = some r) :
    decodeResp (encodeResp r) = .ok r := decodeResp_encodeResp r (construct_wf cls f r h).1

/-- the constructed PDU dispatches to a registry class of the constructing class's parser family, satisfies that
    class's length rule and sub-function gate, and is neither rejected nor kept raw -/
theorem construct_pdu_wf (cls : String) (f : Fields) (r : Resp) (h : construct cls f = some r) :
    ∃ e, dispatch (encodeResp r) = .ok (some e) ∧ e.minLen ≤ (encodeResp r).length ∧
      (∀ m, e.maxLen = some m → (encodeResp r).length ≤ m) ∧ subGate e (encodeResp r) = .ok () ∧
      r.kind? = some e.kind ∧ decodeResp (encodeResp r) ≠ .ok (.rawPos (encodeResp r)) := by
  obtain ⟨hwf, e0, _, _, hk⟩ := construct_wf cls f r h
  have hdec := decodeResp_encodeResp r hwf
  have hne : r.kind? ≠ none := by rw [hk]; simp
  obtain ⟨e, hd, hl, hs, _⟩ := decodeResp_typed hdec hne
  have hlen := lenGate_ok hl
  refine ⟨e, hd, hlen.1, hlen.2, hs, decodeResp_kind _ r e hdec hd, ?_⟩
  rw [hdec]
  intro hc
  injection hc with hc
  rw [hc] at hne
  simp [Resp.kind?] at hne

/-- where the bytes are equal the objects are equal: two accepted constructor calls (of any classes) that serialise
    to the same PDU built the same typed object - same class family, same value in every field.
    Partial: stated on the built objects; the step from the object back to the call's arguments (`construct_exposes`,
    injectivity of the canonical calls themselves) is not proved. -/
theorem construct_injective_partial (c₁ c₂ : String) (f₁ f₂ : Fields) (r₁ r₂ : Resp)
    (h₁ : construct c₁ f₁ = some r₁) (h₂ : construct c₂ f₂ = some r₂) (hb : encodeResp r₁ = encodeResp r₂) : r₁ = r₂ := by
  have d₁ := construct_pdu_parses_back c₁ f₁ r₁ h₁
  have d₂ := construct_pdu_parses_back c₂ f₂ r₂ h₂
  rw [hb, d₂] at d₁
  cases d₁; rfl

/-- the constructor-side defects found by this check stay refused: empty ReadMemoryByAddress / ReadDataByIdentifier
    records, a second record in a first / most-recent DTC report, an extended-data answer without a record number -/
theorem ctor_defect_inputs_refused :
    construct "ReadMemoryByAddressResponse" (.rmba []) = none ∧
    construct "ReadDataByIdentifierResponse" (.rdbi [0x1234] [[]]) = none ∧
    construct "ReadDataByIdentifierResponse" (.rdbi [] []) = none ∧
    construct "ReportFirstTestFailedDTCResponse" (.dtcListD 0xFF [(1, 2), (3, 4)]) = none ∧
    construct "ReportDTCExtDataRecordByDTCNumberResponse" (.dtcExtT 1 2 []) = none := by decide

example : construct "WriteMemoryByAddressResponse" (.wmba 0x1234 1 (some 0x12)) = some (.wmba 0x12 0x1234 1) := by decide
example : construct "ReadDataByIdentifierResponse" (.rdbi [1, 2] [[0x61], [0x62]]) = some (.rdbi 1 [0x61, 0, 2, 0x62]) := by decide
example : construct "ReportDTCByStatusMaskResponse" (.dtcListD 0xFF [(1, 2), (3, 4)]) = some (.dtcList 2 0xFF [(1, 2), (3, 4)]) := by
  decide
example : construct "RequestDownloadResponse" (.upDownload 0x1234 (some 0x40)) = some (.upDownload 0x74 0x40 0x1234) := by decide

/-! ### every attribute of every response class at its ISO position (one table, regenerated from the live classes) -/

/-- (T) the table class → [(attribute leaf, how, offset, width)] probed from the live classes on marker PDUs on every run
    equals the model's `layoutOf` for every registry class: a class or attribute that appears in the code and not in the
    model (or the other way round, or at another position / width / rule) breaks this obligation -/
theorem fieldTable_agrees : Gen.C02Fields.fieldTable = fieldRows := by decide +kernel

/-- the table has a row list for every class of the registry -/
theorem fieldsAt_total (b : Bytes) : ∀ e ∈ registry, (fieldsAt e.cls b).isSome = true := by
  intro e he
  have := find_cls e he
  unfold fieldsAt
  cases hf : registry.find? (fun x => x.cls == e.cls) with
  | none => rw [hf] at this; cases this
  | some e1 => rfl

/-- **every field at its position**: for every class of the table and every byte string `decodeResp` accepts as that
    class, the attribute leaves of the decoded object (all of them: `leaves`) are `fieldsAt` of the received bytes — the
    ISO position slices named by the table. For ALL byte strings; the selected `decode_*` lemmas above are instances. -/
theorem every_field_at_its_position (b : Bytes) (r : Resp) (e : Entry) (h : decodeResp b = .ok r)
    (hd : dispatch b = .ok (some e)) : fieldsAt e.cls b = some (leaves r) := by
  have hk := decodeResp_kind b r e h hd
  obtain ⟨e1, hd1, hl, _, hp⟩ := decodeResp_typed h (by simp [hk])
  rw [hd] at hd1
  cases hd1
  have hmem := (dispatch_spec hd).1
  have hf := find_cls e hmem
  unfold fieldsAt
  cases hfe : registry.find? (fun x => x.cls == e.cls) with
  | none => rw [hfe] at hf; cases hf
  | some e2 =>
    rw [hfe] at hf
    simp only [Option.map_some, Option.some.injEq] at hf
    simp only [Option.map_some, Option.some.injEq]
    rw [leaves_eq_fieldsOf hl hp]
    unfold fieldsOf
    rw [hf]

/-- the same, named by the class the decoder reports: whenever `decodeResp` returns a typed object, its leaves are the
    table's slices for `className b` -/
theorem every_field_at_its_position_by_name (b : Bytes) (r : Resp) (h : decodeResp b = .ok r) (hr : r.kind? ≠ none) :
    fieldsAt (className b) b = some (leaves r) := by
  obtain ⟨e, hd, hl, hs, _⟩ := decodeResp_typed h hr
  have : className b = e.cls := by simp [className, gate, hd, checkEntry, hl, hs]
  rw [this]
  exact every_field_at_its_position b r e h hd

/-- raw responses expose no typed field -/
theorem raw_exposes_nothing (b p : Bytes) (h : decodeResp b = .ok (.rawPos p)) : leaves (.rawPos p) = [] ∧ p = b :=
  ⟨rfl, (decodeResp_raw h).1⟩

example : fieldsAt "WriteMemoryByAddressResponse" [0x7D, 0x12, 0xAA, 0xBB, 0xCC] =
    some [("address_and_length_format_identifier", .int 0x12), ("memory_address", .int 0xAABB), ("memory_size", .int 0xCC)] := by
  decide +kernel
example : fieldsAt "ReportDTCByStatusMaskResponse" [0x59, 0x02, 0xFF, 0, 0, 1, 8, 0, 0, 2, 9] =
    some [("dtc_and_status_record{}", .recs [(1, 8), (2, 9)]), ("dtc_status_availability_mask", .int 0xFF), ("sub_function", .int 2)] := by
  decide +kernel
example : fieldsAt "ClearDynamicallyDefinedDataIdentifierResponse" [0x6C, 0x03] =
    some [("dynamically_defined_data_identifier", .none), ("sub_function", .int 3)] := by decide +kernel
example : dispatch [0x7D, 0x12, 0xAA, 0xBB, 0xCC] = .ok (some registry[33]) := by rfl

/-! ### the class-level entry points `<Response>.from_pdu` / `parse_static` against `parse_dynamic`

  `fromPduE e` is `Cls.from_pdu` of the registry class `e` (its own `_check_pdu` and `_from_pdu`, no registry dispatch): what
  the typed helpers of the client and the `parse_static` callers run. -/

/-- whatever a class's own `from_pdu` accepts, the dynamic parser accepts as the same object (so: same class, same
    fields, same re-serialisation) -/
theorem from_pdu_accepted_by_dynamic (e : Entry) (b : Bytes) (r : Resp) (he : e ∈ registry)
    (h : fromPduE e b = .ok r) : decodeResp b = .ok r ∧ dispatch b = .ok (some e) :=
  ⟨fromPduE_decodeResp he h, dispatch_of_fromPduE he h⟩

/-- ... and whatever the dynamic parser accepts as class `e`, `e.from_pdu` accepts as the same object -/
theorem dynamic_accepted_by_from_pdu (e : Entry) (b : Bytes) (r : Resp) (h : decodeResp b = .ok r)
    (hd : dispatch b = .ok (some e)) : fromPduE e b = .ok r := decodeResp_fromPduE h hd

/-- **`from_pdu` and `parse_dynamic` agree wherever both accept** (any registry class, any byte string) -/
theorem from_pdu_agrees_with_dynamic (e : Entry) (b : Bytes) (r₁ r₂ : Resp) (he : e ∈ registry)
    (h₁ : fromPduE e b = .ok r₁) (h₂ : decodeResp b = .ok r₂) : r₁ = r₂ := by
  have := fromPduE_decodeResp he h₁
  rw [this] at h₂
  cases h₂; rfl

/-- **`from_pdu` of a class the PDU does not belong to rejects**: the registry dispatches `b` to `e₂`, `e` is another
    registry class -/
theorem from_pdu_wrong_class_rejects (e e₂ : Entry) (b : Bytes) (he : e ∈ registry)
    (hd : dispatch b = .ok (some e₂)) (hne : e₂ ≠ e) : ∃ x, fromPduE e b = .error x := by
  cases h : fromPduE e b with
  | error x => exact ⟨x, rfl⟩
  | ok r =>
    have := dispatch_of_fromPduE he h
    rw [hd] at this
    cases this
    exact absurd rfl hne

/-- a PDU of an unknown service / unknown sub-function (kept raw by the dynamic parser) is rejected by every class -/
theorem from_pdu_raw_rejects (e : Entry) (b : Bytes) (he : e ∈ registry) (hg : gate b = .ok .raw) :
    ∃ x, fromPduE e b = .error x := by
  cases h : fromPduE e b with
  | error x => exact ⟨x, rfl⟩
  | ok r =>
    have hd := dispatch_of_fromPduE he h
    obtain ⟨hl, hs, _, _⟩ := fromPduE_ok h
    simp [gate, hd, checkEntry, hl, hs] at hg

/-- `NegativeResponse.from_pdu` IS the negative branch of the dynamic parser: same verdict (accepted object or the
    reason of the rejection) on every byte string starting with 7F -/
theorem neg_from_pdu_is_dynamic (t : Bytes) : fromPduE negEntry (0x7F :: t) = decodeResp (0x7F :: t) :=
  fromPduE_neg t

/-- `Cls.parse_static` of any class on a byte string starting with 7F is the negative branch of the dynamic parser -/
theorem parse_static_neg_is_dynamic (e : Entry) (t : Bytes) : parseStaticE e (0x7F :: t) = decodeResp (0x7F :: t) := by
  simp only [parseStaticE, if_true]
  exact fromPduE_neg t

/-- `Cls.parse_static` accepts only what the dynamic parser accepts, as the same object -/
theorem parse_static_agrees_with_dynamic (e : Entry) (b : Bytes) (r : Resp) (he : e ∈ registry)
    (h : parseStaticE e b = .ok r) : decodeResp b = .ok r := by
  unfold parseStaticE at h
  split at h
  · cases h
  · split at h
    · exact fromPduE_decodeResp negEntry_mem h
    · exact fromPduE_decodeResp he h

/-- the fields of an object obtained through `Cls.from_pdu` are at their positions as well -/
theorem from_pdu_fields_at_position (e : Entry) (b : Bytes) (r : Resp) (he : e ∈ registry)
    (h : fromPduE e b = .ok r) : fieldsAt e.cls b = some (leaves r) :=
  every_field_at_its_position b r e (fromPduE_decodeResp he h) (dispatch_of_fromPduE he h)

example : fromPduE registry[26] [0x71, 0x01, 0x12, 0x34, 0xAA] = .ok (.routine 1 0x1234 [0xAA]) := by
  simp [fromPduE, registry, lenGate, subGate, parseKind, pRoutine, fromBE]
example : dispatch [0x71, 0x01, 0x12, 0x34, 0xAA] = .ok (some registry[26]) := by rfl
example : fromPduE registry[27] [0x71, 0x01, 0x12, 0x34, 0xAA] = .error .subFunction := by
  simp [fromPduE, registry, lenGate, subGate]
example : parseStaticE registry[26] [0x7F, 0x31, 0x11] = .ok (.neg 0x31 0x11) := by
  simp [parseStaticE, fromPduE, negEntry, lenGate, subGate, parseKind, pNeg, nrcTable]

/-! ### the constructor side, completed: the object built from fields `f` exposes exactly `f` -/

/-- **construct_exposes**: for every class and every canonical constructor call (the form `_from_pdu` itself uses: one
    identifier / one record, explicit format bytes, tuple + one-entry mapping) that the constructor accepts, the constructed
    object exposes exactly the field values it was built from - all 21 constructor forms. With `construct_pdu_parses_back`:
    build → serialise → parse → read the attributes gives back the arguments. -/
theorem construct_exposes (cls : String) (f : Fields) (r : Resp) (h : construct cls f = some r) (hc : f.Canon) :
    exposed r = some f := by
  obtain ⟨e, _, _, hE⟩ := construct_entry h
  exact constructE_exposes hE hc

/-- the InputOutputControlByIdentifier convenience classes expose the identifier and their control parameter followed by
    the control states -/
theorem construct_conv_exposes (cls : String) (p : Nat) (did : Int) (states : Bytes) (r : Resp)
    (hp : convClasses.find? (fun q => q.1 == cls) = some (cls, p)) (h : constructConv cls did states = some r) :
    exposed r = some (.iocbi did (UInt8.ofNat p :: states)) := by
  unfold constructConv at h
  rw [hp] at h
  exact construct_exposes _ _ r h trivial

/-- canonical calls are determined by the bytes they put on the wire: two accepted canonical calls (any classes) with the
    same PDU have the same field values -/
theorem construct_canon_injective (c₁ c₂ : String) (f₁ f₂ : Fields) (r₁ r₂ : Resp)
    (h₁ : construct c₁ f₁ = some r₁) (h₂ : construct c₂ f₂ = some r₂) (k₁ : f₁.Canon) (k₂ : f₂.Canon)
    (hb : encodeResp r₁ = encodeResp r₂) : f₁ = f₂ := by
  have e₁ := construct_pdu_parses_back c₁ f₁ r₁ h₁
  have e₂ := construct_pdu_parses_back c₂ f₂ r₂ h₂
  rw [hb] at e₁
  rw [e₁] at e₂
  cases e₂
  have x₁ := construct_exposes c₁ f₁ r₁ h₁ k₁
  have x₂ := construct_exposes c₂ f₂ r₁ h₂ k₂
  rw [x₁] at x₂
  cases x₂; rfl

example : construct "WriteMemoryByAddressResponse" (.wmba 0x1234 1 (some 0x12)) = some (.wmba 0x12 0x1234 1) ∧
    exposed (.wmba 0x12 0x1234 1) = some (.wmba 0x1234 1 (some 0x12)) ∧ (Fields.wmba 0x1234 1 (some 0x12)).Canon := by
  refine ⟨by decide, rfl, by simp [Fields.Canon]⟩

/-! ### the record rule of the field table, spelled out -/

/-- `recs off w` (the DTC-and-status mapping of the ReadDTCInformation list sub-functions, `w = 3`): the number of entries
    is the number of whole (w+1)-byte records, and entry `i` is (big-endian bytes (w+1)·i .. (w+1)·i+w-1, byte (w+1)·i+w)
    of the bytes after the header - every record, for any length -/
theorem recs_rule_positions (w : Nat) (b : Bytes) :
    (recsAt w b).length = b.length / (w + 1) ∧
    ∀ i (hi : i < (recsAt w b).length),
      (recsAt w b)[i] = (fromBE (slice b ((w + 1) * i) w), (b.getD ((w + 1) * i + w) 0).toNat) :=
  ⟨recsFuel_length w _ b (Nat.le_refl _), fun i hi => recsFuel_getElem w _ b i (Nat.le_refl _) hi⟩

example : recsAt 3 [0, 0, 1, 8, 0, 0, 2, 9] = [(1, 8), (2, 9)] := by decide +kernel

end Gallia.C02
