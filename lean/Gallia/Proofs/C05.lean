import Gallia.Model.ClientConc
/-
  C05 — Concurrent users of one UDS client never interleave their exchanges.
  Statements are about *every* accepted event trace, i.e. every schedule of any number of tasks.
-/
namespace Gallia.C05
open Gallia.ClientConc

theorem accept_append (s : Sys) (a b : List Event) :
    accept s (a ++ b) = (accept s a).bind fun s' => accept s' b := by
  induction a generalizing s with
  | nil => rfl
  | cons e es ih =>
    simp only [List.cons_append, accept]
    cases step s e with
    | none => rfl
    | some s' => exact ih s'

/-- every transport operation in an accepted trace is performed by the task holding the client lock -/
theorem ops_by_holder (s s' : Sys) (pre post : List Event) (t : Tid) (k : OpKind)
    (h : accept s (pre ++ Event.op t k :: post) = some s') :
    ∃ s1, accept s pre = some s1 ∧ s1.holder = some t := by
  rw [accept_append] at h
  cases h1 : accept s pre with
  | none => rw [h1] at h; cases h
  | some s1 =>
    refine ⟨s1, rfl, ?_⟩
    rw [h1] at h
    simp only [Option.bind, accept, step] at h
    by_cases hh : s1.holder = some t
    · exact hh
    · simp [hh] at h

/-- the holder can only change through its own release -/
theorem holder_stable (s s' : Sys) (t : Tid) (mid : List Event) (hs : s.holder = some t)
    (hno : ∀ e ∈ mid, e ≠ Event.rel t) (h : accept s mid = some s') : s'.holder = some t := by
  induction mid generalizing s with
  | nil => simp only [accept] at h; injection h with h; subst h; exact hs
  | cons e es ih =>
    simp only [accept] at h
    cases he : step s e with
    | none => rw [he] at h; cases h
    | some s1 =>
      rw [he] at h
      apply ih s1 _ (fun x hx => hno x (by simp [hx])) h
      cases e with
      | want u => simp only [step] at he; split at he <;> first | (injection he with he; subst he; exact hs) | cases he
      | got u => simp only [step, hs] at he; cases he
      | op u k => simp only [step] at he; split at he <;> first | (injection he with he; subst he; exact hs) | cases he
      | rel u =>
        simp only [step] at he
        split at he
        · rename_i hu
          rw [hs] at hu; injection hu with hu; subst hu
          exact absurd rfl (hno (Event.rel t) (by simp))
        · cases he
      | unwait u => simp only [step] at he; split at he <;> first | (injection he with he; subst he; exact hs) | cases he
      | ended u => simp only [step] at he; split at he <;> first | (injection he with he; subst he; exact hs) | cases he

/-- **exclusive**: between the moment a task obtains the client and the moment it releases it - the whole
    exchange including responsePending extensions and retries - no other task touches the transport -/
theorem exclusive (s0 s' : Sys) (pre mid post : List Event) (t u : Tid) (k : OpKind)
    (h : accept s0 (pre ++ Event.got t :: (mid ++ Event.op u k :: post)) = some s')
    (hno : ∀ e ∈ mid, e ≠ Event.rel t) : u = t := by
  rw [accept_append] at h
  cases h1 : accept s0 pre with
  | none => rw [h1] at h; cases h
  | some s1 =>
    rw [h1] at h
    simp only [Option.bind, accept] at h
    cases h2 : step s1 (Event.got t) with
    | none => rw [h2] at h; cases h
    | some s2 =>
      rw [h2] at h
      have hh : s2.holder = some t := by
        simp only [step] at h2
        split at h2
        · split at h2 <;> first | (injection h2 with h2; subst h2; rfl) | cases h2
        · cases h2
      obtain ⟨s3, h3, h4⟩ := ops_by_holder s2 s' mid post u k h
      have := holder_stable s2 s3 t mid hh hno h3
      rw [this] at h4; injection h4 with h4; exact h4.symm

/-- reachable states: a task never waits for a lock it holds, and waits at most once -/
def Inv (s : Sys) : Prop := s.waiters.Nodup ∧ ∀ t, s.holder = some t → t ∉ s.waiters

theorem inv_step (s s' : Sys) (e : Event) (hi : Inv s) (h : step s e = some s') : Inv s' := by
  obtain ⟨hn, hh⟩ := hi
  cases e with
  | want t =>
    simp only [step] at h
    split at h
    · cases h
    · rename_i hc
      injection h with h; subst h
      simp only [not_or] at hc
      refine ⟨?_, ?_⟩
      · simp only []
        rw [List.nodup_append]
        exact ⟨hn, by simp, by intro a ha b hb; simp at hb; subst hb; intro e; subst e; exact hc.2 ha⟩
      · intro u hu
        simp only [] at hu ⊢
        simp only [List.mem_append, List.mem_singleton, not_or]
        exact ⟨hh u hu, by intro e; subst e; exact hc.1 hu⟩
  | got t =>
    simp only [step] at h
    split at h
    · rename_i w ws hhold hw
      split at h
      · injection h with h; subst h
        rw [hw] at hn
        have := List.nodup_cons.mp hn
        refine ⟨this.2, ?_⟩
        intro u hu; simp only [] at hu ⊢; injection hu with hu; subst hu
        rename_i hwt; subst hwt; exact this.1
      · cases h
    · cases h
  | op t k => simp only [step] at h; split at h <;> first | (injection h with h; subst h; exact ⟨hn, hh⟩) | cases h
  | rel t =>
    simp only [step] at h
    split at h
    · injection h with h; subst h; exact ⟨hn, by intro u hu; cases hu⟩
    · cases h
  | unwait t =>
    simp only [step] at h
    split at h
    · injection h with h; subst h
      refine ⟨hn.filter _, ?_⟩
      intro u hu hm
      exact hh u hu (List.mem_filter.mp hm).1
    · cases h
  | ended t => simp only [step] at h; split at h <;> first | (injection h with h; subst h; exact ⟨hn, hh⟩) | cases h

theorem inv_accept (evs : List Event) (s0 s : Sys) (hi : Inv s0) (h : accept s0 evs = some s) : Inv s := by
  induction evs generalizing s0 with
  | nil => simp only [accept] at h; injection h with h; subst h; exact hi
  | cons e es ih =>
    simp only [accept] at h
    cases he : step s0 e with
    | none => rw [he] at h; cases h
    | some s1 => rw [he] at h; exact ih s1 (inv_step s0 s1 e hi he) h

theorem inv_reachable (evs : List Event) (s : Sys) (h : accept Sys.init evs = some s) : Inv s :=
  inv_accept evs Sys.init s ⟨by simp [Sys.init], by intro t ht; cases ht⟩ h

/-- **progress**: in every reachable state the lock can move on - a holder can always release, and a free lock
    with waiting tasks can always be taken by the longest waiter; there is no reachable state in which tasks wait
    and nothing is enabled -/
theorem progress (evs : List Event) (s : Sys) (_h : accept Sys.init evs = some s) :
    (∀ t, s.holder = some t → (step s (Event.rel t)).isSome = true) ∧
    (s.holder = none → ∀ w ws, s.waiters = w :: ws → step s (Event.got w) = some { holder := some w, waiters := ws }) := by
  refine ⟨?_, ?_⟩
  · intro t ht; simp [step, ht]
  · intro hn w ws hw; simp [step, hn, hw]

/-- **release on cancel / failure**: when the holder leaves its exchange for whatever reason (return, exception,
    cancellation: all leave the `async with` block), the longest-waiting task obtains the client next, in order -/
theorem release_hands_over (evs : List Event) (s : Sys) (_h : accept Sys.init evs = some s)
    (t w : Tid) (ws : List Tid) (ht : s.holder = some t) (hw : s.waiters = w :: ws) :
    accept s [Event.rel t, Event.got w] = some { holder := some w, waiters := ws } := by
  simp [accept, step, ht, hw]

/-- a waiter that is cancelled leaves the queue and cannot obtain the client afterwards without asking again -/
theorem cancelled_waiter_never_gets (s s' : Sys) (t : Tid) (h : step s (Event.unwait t) = some s') :
    t ∉ s'.waiters ∧ step s' (Event.got t) = none := by
  simp only [step] at h
  split at h
  · injection h with h; subst h
    have hnot : t ∉ s.waiters.filter (· ≠ t) := by simp
    refine ⟨hnot, ?_⟩
    simp only [step]
    split
    · rename_i w ws _ hw
      split
      · rename_i hwt; subst hwt
        exact absurd (by rw [hw]; simp) hnot
      · rfl
    · rfl
  · cases h

/-- a task that has ended holds nothing: its end is only accepted when it neither holds nor waits for the client -/
theorem ended_holds_nothing (s s' : Sys) (t : Tid) (h : step s (Event.ended t) = some s') :
    s.holder ≠ some t ∧ t ∉ s.waiters ∧ s' = s := by
  simp only [step] at h
  split at h
  · cases h
  · rename_i hc; injection h with h
    simp only [not_or] at hc
    exact ⟨hc.1, hc.2, h.symm⟩

/-- FIFO: the client is granted in the order in which it was requested -/
theorem fifo_grant (s s' : Sys) (t : Tid) (h : step s (Event.got t) = some s') : s.waiters.head? = some t := by
  simp only [step] at h
  split at h
  · rename_i w ws _ hw
    split at h
    · rename_i hwt; subst hwt; simp [hw]
    · cases h
  · cases h

/-- non-vacuity: two callers and the tester-present worker; the second caller is cancelled while waiting -/
example : accept Sys.init
    [.want 1, .got 1, .op 1 .write, .want 2, .want 3, .op 1 .read, .unwait 2, .ended 2, .op 1 .read, .rel 1, .ended 1,
     .got 3, .op 3 .write, .op 3 .read, .rel 3] = some { holder := none, waiters := [] } := by decide

/-- ... and a write by a task that does not hold the client is rejected -/
example : accept Sys.init [.want 1, .got 1, .op 1 .write, .op 2 .write] = none := by decide

end Gallia.C05
