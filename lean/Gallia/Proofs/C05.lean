import Gallia.Model.ClientConc
import Gallia.Proofs.Lemmas.ClientMulti
import Gallia.Proofs.Lemmas.ClientMultiReply
import Gallia.Gen.C05Locks
import Gallia.Proofs.Lemmas.TransportReconnect
/-
  C05 — Concurrent users of one UDS client never interleave their exchanges.
  Statements are about *every* accepted event trace, i.e. every schedule of any number of tasks.
-/
namespace Gallia.C05
open Gallia.ClientConc

theorem accept_append (s : Sys) (a b : List Event) :
    accept s (a ++ b) = (accept s a).bind fun s' => accept s' b := Gallia.ClientMulti.accept_append s a b

/-- every transport operation in an accepted trace is performed by the task holding the client lock -/
theorem ops_by_holder (s s' : Sys) (pre post : List Event) (t : Tid) (k : OpKind)
    (h : accept s (pre ++ Event.op t k :: post) = some s') :
    ∃ s1, accept s pre = some s1 ∧ s1.holder = some t := by
  rw [accept_append] at h
  cases h1 : accept s pre with
  | none => rw [h1] at h; cases h
  | some s1 =>
    refine ⟨s1, rfl, ?_⟩
    rw [h1] at h
    simp only [Option.bind, accept, step] at h
    by_cases hh : s1.holder = some t
    · exact hh
    · simp [hh] at h

/-- the holder can only change through its own release -/
theorem holder_stable (s s' : Sys) (t : Tid) (mid : List Event) (hs : s.holder = some t)
    (hno : ∀ e ∈ mid, e ≠ Event.rel t) (h : accept s mid = some s') : s'.holder = some t := by
  induction mid generalizing s with
  | nil => simp only [accept] at h; injection h with h; subst h; exact hs
  | cons e es ih =>
    simp only [accept] at h
    cases he : step s e with
    | none => rw [he] at h; cases h
    | some s1 =>
      rw [he] at h
      apply ih s1 _ (fun x hx => hno x (by simp [hx])) h
      cases e with
      | want u => simp only [step] at he; split at he <;> first | (injection he with he; subst he; exact hs) | cases he
      | got u => simp only [step, hs] at he; cases he
      | op u k => simp only [step] at he; split at he <;> first | (injection he with he; subst he; exact hs) | cases he
      | rel u =>
        simp only [step] at he
        split at he
        · rename_i hu
          rw [hs] at hu; injection hu with hu; subst hu
          exact absurd rfl (hno (Event.rel t) (by simp))
        · cases he
      | unwait u => simp only [step] at he; split at he <;> first | (injection he with he; subst he; exact hs) | cases he
      | ended u => simp only [step] at he; split at he <;> first | (injection he with he; subst he; exact hs) | cases he

/-- **exclusive**: between the moment a task obtains the client and the moment it releases it - the whole
    exchange including responsePending extensions and retries - no other task touches the transport -/
theorem exclusive (s0 s' : Sys) (pre mid post : List Event) (t u : Tid) (k : OpKind)
    (h : accept s0 (pre ++ Event.got t :: (mid ++ Event.op u k :: post)) = some s')
    (hno : ∀ e ∈ mid, e ≠ Event.rel t) : u = t := by
  rw [accept_append] at h
  cases h1 : accept s0 pre with
  | none => rw [h1] at h; cases h
  | some s1 =>
    rw [h1] at h
    simp only [Option.bind, accept] at h
    cases h2 : step s1 (Event.got t) with
    | none => rw [h2] at h; cases h
    | some s2 =>
      rw [h2] at h
      have hh : s2.holder = some t := by
        simp only [step] at h2
        split at h2
        · split at h2 <;> first | (injection h2 with h2; subst h2; rfl) | cases h2
        · cases h2
      obtain ⟨s3, h3, h4⟩ := ops_by_holder s2 s' mid post u k h
      have := holder_stable s2 s3 t mid hh hno h3
      rw [this] at h4; injection h4 with h4; exact h4.symm

/-- reachable states: a task never waits for a lock it holds, and waits at most once -/
def Inv (s : Sys) : Prop := s.waiters.Nodup ∧ ∀ t, s.holder = some t → t ∉ s.waiters

theorem inv_step (s s' : Sys) (e : Event) (hi : Inv s) (h : step s e = some s') : Inv s' := by
  obtain ⟨hn, hh⟩ := hi
  cases e with
  | want t =>
    simp only [step] at h
    split at h
    · cases h
    · rename_i hc
      injection h with h; subst h
      simp only [not_or] at hc
      refine ⟨?_, ?_⟩
      · simp only []
        rw [List.nodup_append]
        exact ⟨hn, by simp, by intro a ha b hb; simp at hb; subst hb; intro e; subst e; exact hc.2 ha⟩
      · intro u hu
        simp only [] at hu ⊢
        simp only [List.mem_append, List.mem_singleton, not_or]
        exact ⟨hh u hu, by intro e; subst e; exact hc.1 hu⟩
  | got t =>
    simp only [step] at h
    split at h
    · rename_i w ws hhold hw
      split at h
      · injection h with h; subst h
        rw [hw] at hn
        have := List.nodup_cons.mp hn
        refine ⟨this.2, ?_⟩
        intro u hu; simp only [] at hu ⊢; injection hu with hu; subst hu
        rename_i hwt; subst hwt; exact this.1
      · cases h
    · cases h
  | op t k => simp only [step] at h; split at h <;> first | (injection h with h; subst h; exact ⟨hn, hh⟩) | cases h
  | rel t =>
    simp only [step] at h
    split at h
    · injection h with h; subst h; exact ⟨hn, by intro u hu; cases hu⟩
    · cases h
  | unwait t =>
    simp only [step] at h
    split at h
    · injection h with h; subst h
      refine ⟨hn.filter _, ?_⟩
      intro u hu hm
      exact hh u hu (List.mem_filter.mp hm).1
    · cases h
  | ended t => simp only [step] at h; split at h <;> first | (injection h with h; subst h; exact ⟨hn, hh⟩) | cases h

theorem inv_accept (evs : List Event) (s0 s : Sys) (hi : Inv s0) (h : accept s0 evs = some s) : Inv s := by
  induction evs generalizing s0 with
  | nil => simp only [accept] at h; injection h with h; subst h; exact hi
  | cons e es ih =>
    simp only [accept] at h
    cases he : step s0 e with
    | none => rw [he] at h; cases h
    | some s1 => rw [he] at h; exact ih s1 (inv_step s0 s1 e hi he) h

theorem inv_reachable (evs : List Event) (s : Sys) (h : accept Sys.init evs = some s) : Inv s :=
  inv_accept evs Sys.init s ⟨by simp [Sys.init], by intro t ht; cases ht⟩ h

/-- **progress**: in every reachable state the lock can move on - a holder can always release, and a free lock
    with waiting tasks can always be taken by the longest waiter; there is no reachable state in which tasks wait
    and nothing is enabled -/
theorem progress (evs : List Event) (s : Sys) (_h : accept Sys.init evs = some s) :
    (∀ t, s.holder = some t → (step s (Event.rel t)).isSome = true) ∧
    (s.holder = none → ∀ w ws, s.waiters = w :: ws → step s (Event.got w) = some { holder := some w, waiters := ws }) := by
  refine ⟨?_, ?_⟩
  · intro t ht; simp [step, ht]
  · intro hn w ws hw; simp [step, hn, hw]

/-- **release on cancel / failure**: when the holder leaves its exchange for whatever reason (return, exception,
    cancellation: all leave the `async with` block), the longest-waiting task obtains the client next, in order -/
theorem release_hands_over (evs : List Event) (s : Sys) (_h : accept Sys.init evs = some s)
    (t w : Tid) (ws : List Tid) (ht : s.holder = some t) (hw : s.waiters = w :: ws) :
    accept s [Event.rel t, Event.got w] = some { holder := some w, waiters := ws } := by
  simp [accept, step, ht, hw]

/-- a waiter that is cancelled leaves the queue and cannot obtain the client afterwards without asking again -/
theorem cancelled_waiter_never_gets (s s' : Sys) (t : Tid) (h : step s (Event.unwait t) = some s') :
    t ∉ s'.waiters ∧ step s' (Event.got t) = none := by
  simp only [step] at h
  split at h
  · injection h with h; subst h
    have hnot : t ∉ s.waiters.filter (· ≠ t) := by simp
    refine ⟨hnot, ?_⟩
    simp only [step]
    split
    · rename_i w ws _ hw
      split
      · rename_i hwt; subst hwt
        exact absurd (by rw [hw]; simp) hnot
      · rfl
    · rfl
  · cases h

/-- a task that has ended holds nothing: its end is only accepted when it neither holds nor waits for the client -/
theorem ended_holds_nothing (s s' : Sys) (t : Tid) (h : step s (Event.ended t) = some s') :
    s.holder ≠ some t ∧ t ∉ s.waiters ∧ s' = s := by
  simp only [step] at h
  split at h
  · cases h
  · rename_i hc; injection h with h
    simp only [not_or] at hc
    exact ⟨hc.1, hc.2, h.symm⟩

/-- FIFO: the client is granted in the order in which it was requested -/
theorem fifo_grant (s s' : Sys) (t : Tid) (h : step s (Event.got t) = some s') : s.waiters.head? = some t := by
  simp only [step] at h
  split at h
  · rename_i w ws _ hw
    split at h
    · rename_i hwt; subst hwt; simp [hw]
    · cases h
  · cases h

/-- non-vacuity: two callers and the tester-present worker; the second caller is cancelled while waiting -/
example : accept Sys.init
    [.want 1, .got 1, .op 1 .write, .want 2, .want 3, .op 1 .read, .unwait 2, .ended 2, .op 1 .read, .rel 1, .ended 1,
     .got 3, .op 3 .write, .op 3 .read, .rel 3] = some { holder := none, waiters := [] } := by decide

/-- ... and a write by a task that does not hold the client is rejected -/
example : accept Sys.init [.want 1, .got 1, .op 1 .write, .op 2 .write] = none := by decide

/-! ## FIFO fairness -/

/-- strike out the last occurrence -/
def eraseLast (t : Tid) (l : List Tid) : List Tid := (l.reverse.erase t).reverse

/-- the queue as the property describes it, written without reference to the lock: tasks in the order in which they
    asked for the client; a task that is cancelled while it waits is struck out (its latest request) -/
def arrivalsOf : List Event → List Tid → List Tid
  | [], q => q
  | .want t :: es, q => arrivalsOf es (q ++ [t])
  | .unwait t :: es, q => arrivalsOf es (eraseLast t q)
  | _ :: es, q => arrivalsOf es q

/-- the tasks that obtained the client, in that order -/
def grantsOf : List Event → List Tid
  | [] => []
  | .got t :: es => t :: grantsOf es
  | _ :: es => grantsOf es

theorem eraseLast_append_mem (g w : List Tid) (t : Tid) (hm : t ∈ w) (hn : w.Nodup) :
    eraseLast t (g ++ w) = g ++ w.filter (· ≠ t) := by
  unfold eraseLast
  have hr : w.reverse.Nodup := by
    unfold List.Nodup at hn ⊢
    rw [List.pairwise_reverse]
    exact hn.imp (fun h => h.symm)
  rw [List.reverse_append, List.erase_append_left _ (by simpa using hm), List.reverse_append, List.reverse_reverse,
    hr.erase_eq_filter, List.filter_reverse, List.reverse_reverse]
  congr 1
  apply List.filter_congr
  intro x _; by_cases hx : x = t <;> simp [hx]

theorem fifo_gen (evs : List Event) (s0 s : Sys) (g : List Tid) (hi : Inv s0) (h : accept s0 evs = some s) :
    g ++ grantsOf evs ++ s.waiters = arrivalsOf evs (g ++ s0.waiters) := by
  induction evs generalizing s0 g with
  | nil => simp only [accept] at h; injection h with h; subst h; simp [grantsOf, arrivalsOf]
  | cons e es ih =>
    simp only [accept] at h
    cases he : step s0 e with
    | none => rw [he] at h; cases h
    | some s1 =>
      rw [he] at h
      have hi1 := inv_step s0 s1 e hi he
      cases e with
      | want t =>
        have := ih s1 g hi1 h
        simp only [step] at he; split at he
        · cases he
        · injection he with he; subst he
          simpa [grantsOf, arrivalsOf, List.append_assoc] using this
      | got t =>
        have := ih s1 (g ++ [t]) hi1 h
        simp only [step] at he; split at he
        · rename_i w ws _ hw
          split at he
          · rename_i hwt; subst hwt
            injection he with he; subst he
            simpa [grantsOf, arrivalsOf, List.append_assoc, hw] using this
          · cases he
        · cases he
      | op t k =>
        have := ih s1 g hi1 h
        simp only [step] at he; split at he
        · injection he with he; subst he; simpa [grantsOf, arrivalsOf] using this
        · cases he
      | rel t =>
        have := ih s1 g hi1 h
        simp only [step] at he; split at he
        · injection he with he; subst he; simpa [grantsOf, arrivalsOf] using this
        · cases he
      | unwait t =>
        have := ih s1 g hi1 h
        simp only [step] at he; split at he
        · rename_i hm
          injection he with he; subst he
          simp only [grantsOf, arrivalsOf]
          rw [eraseLast_append_mem g s0.waiters t hm hi.1]
          exact this
        · cases he
      | ended t =>
        have := ih s1 g hi1 h
        simp only [step] at he; split at he
        · cases he
        · injection he with he; subst he; simpa [grantsOf, arrivalsOf] using this

/-- **fifo_fairness** (acceptor level): in every accepted trace the tasks that obtained the client so far, followed by
    those still waiting, are exactly the arrivals in arrival order with the cancelled waits struck out: grant order =
    arrival order among uncancelled waiters, nobody overtakes and nobody is skipped -/
theorem fifo_fairness_trace (evs : List Event) (s : Sys) (h : accept Sys.init evs = some s) :
    grantsOf evs ++ s.waiters = arrivalsOf evs [] := by
  have := fifo_gen evs Sys.init s [] ⟨by simp [Sys.init], by intro t ht; cases ht⟩ h
  simpa [Sys.init] using this

example : grantsOf [.want 1, .got 1, .want 2, .want 3, .want 4, .unwait 3, .rel 1, .got 2] = [1, 2] ∧
    arrivalsOf [.want 1, .got 1, .want 2, .want 3, .want 4, .unwait 3, .rel 1, .got 2] [] = [1, 2, 4] := by decide

/-! ## the multi-task operational model (`Model/ClientMulti.lean`)

  `P : Progs` gives every task its program, `WF P` says every round is lock-bracketed (`real_wf`: the programs of gallia's
  callers are), `born` says which tasks exist from the start, `cs : List Choice` is an arbitrary schedule (which task runs,
  where a CancelledError is delivered, which message the network delivers when). -/

section Multi
open Gallia.ClientMulti hiding Inv accept_append

/-- **the programs of gallia's callers are lock-bracketed**: a system whose tasks are callers of `request()` (`requestX`
    over any configuration and script: retries, responsePending polls, backoff, reconnects included), callers of
    `reconnect()`, tester-present workers, and tasks performing any sequence of such calls, sleeps,
    `start_cyclic_tester_present` / `stop_cyclic_tester_present` (a scanner's main task, `wait_for_ecu`) satisfies the
    hypothesis `WF P` of every theorem below -/
theorem callers_are_bracketed (P : Progs) (h : ∀ t, RealProg (P t)) : WF P := real_wf P h

/-- **refinement**: whatever the scheduler does, the events of the operational model (tasks running their programs
    against an owner-less lock) form a trace the lock-discipline acceptor accepts, ending in the model's lock state -
    so every theorem about accepted traces above holds for the runs of the operational model -/
theorem events_accepted (P : Progs) (hP : WF P) (born : Tid → Bool) (cs : List Choice) (s : MSys)
    (h : mrun P (MSys.init P born) cs = some s) : accept Sys.init s.events = some s.lock :=
  (rinv_run P hP cs _ s (rinv_init P hP born) h).2

/-- **wire_is_serial**: for every schedule and every script, between the moment task `t` obtains the client and its
    release - first transmission, responsePending polls, backoff, reconnect, retransmissions - every write / read /
    reconnect on the wire is `t`'s -/
theorem wire_is_serial (P : Progs) (hP : WF P) (born : Tid → Bool) (cs : List Choice) (s : MSys)
    (h : mrun P (MSys.init P born) cs = some s) (pre mid post : List Event) (t u : Tid) (k : OpKind)
    (he : s.events = pre ++ Event.got t :: (mid ++ Event.op u k :: post)) (hno : ∀ e ∈ mid, e ≠ Event.rel t) : u = t :=
  exclusive Sys.init s.lock pre mid post t u k (by rw [← he]; exact events_accepted P hP born cs s h) hno

/-- the event trace IS the wire: the transport operations of the await points the tasks completed (`log`: task, round,
    await point of its program) and the `op` events are the same sequence of (task, write / read / reconnect) - so
    `wire_is_serial` speaks about the operations of the callers' programs (`requestX` traces) -/
theorem events_are_the_wire (P : Progs) (born : Tid → Bool) (cs : List Choice) (s : MSys)
    (h : mrun P (MSys.init P born) cs = some s) : s.log.filterMap wireOfLog = s.events.filterMap wireOfEvent :=
  run_wire P cs _ s h rfl

/-- … and at the level of single steps: a task whose next await point touches the transport holds the lock, and
    nobody else does -/
theorem wire_op_by_holder (P : Progs) (hP : WF P) (born : Tid → Bool) (cs : List Choice) (s : MSys)
    (h : mrun P (MSys.init P born) cs = some s) (t : Tid) (a : Act) (rest : List Act)
    (hc : (s.tasks t).phase = .idle ∨ (s.tasks t).phase = .holding) (htodo : (s.tasks t).todo = a :: rest)
    (hw : a.isWire = true) : s.lock.holder = some t ∧ ∀ u, u ≠ t → (s.tasks u).phase ≠ .holding := by
  have hi := (rinv_run P hP cs _ s (rinv_init P hP born) h).1
  obtain ⟨wi, _⟩ := phaseOk_cons (hi.ok t) htodo
  have hh : s.lock.holder = some t := by
    rcases hc with hc | hc
    · have := wi hc
      cases a with
      | io o => simp [wfIn, Act.isWire] at this hw; rw [Option.isSome_iff_ne_none] at hw; exact absurd this.1 hw
      | _ => simp [Act.isWire] at hw
    · exact (hi.hold t).mp hc
  refine ⟨hh, ?_⟩
  intro u hu e
  have := (hi.hold u).mp e
  rw [hh] at this; injection this with this; exact hu this.symm

/-- **release_only_by_holder** (the owner-less `asyncio.Lock.release()`): the step function lets ANY task release the
    lock; in every reachable state a task whose next await point is `release` is the holder -/
theorem release_only_by_holder (P : Progs) (hP : WF P) (born : Tid → Bool) (cs : List Choice) (s : MSys)
    (h : mrun P (MSys.init P born) cs = some s) (t : Tid) (rest : List Act)
    (hc : (s.tasks t).phase = .idle ∨ (s.tasks t).phase = .holding) (htodo : (s.tasks t).todo = .release :: rest) :
    s.lock.holder = some t := by
  have hi := (rinv_run P hP cs _ s (rinv_init P hP born) h).1
  obtain ⟨wi, _⟩ := phaseOk_cons (hi.ok t) htodo
  rcases hc with hc | hc
  · have := wi hc; simp [wfIn] at this
  · exact (hi.hold t).mp hc

/-- **fifo_fairness**: in every run of the operational model, grant order = arrival order among uncancelled waiters -/
theorem fifo_fairness (P : Progs) (hP : WF P) (born : Tid → Bool) (cs : List Choice) (s : MSys)
    (h : mrun P (MSys.init P born) cs = some s) : grantsOf s.events ++ s.lock.waiters = arrivalsOf s.events [] :=
  fifo_fairness_trace s.events s.lock (events_accepted P hP born cs s h)

/-- **cancel_safe**: cancelling a task that WAITS for the client neither releases it nor steals it: the holder stays
    the holder, the other waiters keep their order, nobody else's state changes, and the cancelled task never holds the
    client afterwards, whatever the rest of the schedule -/
theorem cancel_safe (P : Progs) (hP : WF P) (born : Tid → Bool) (cs : List Choice) (s : MSys)
    (h : mrun P (MSys.init P born) cs = some s) (t : Tid) (hp : (s.tasks t).phase = .waiting) :
    ∃ s', mstep P s (.cancel t) = some s' ∧ s'.lock.holder = s.lock.holder ∧
      s'.lock.waiters = s.lock.waiters.filter (· ≠ t) ∧ (∀ u, u ≠ t → s'.tasks u = s.tasks u) ∧ s'.inbox = s.inbox ∧
      ∀ cs' s'', mrun P s' cs' = some s'' → s''.lock.holder ≠ some t ∧ t ∉ s''.lock.waiters := by
  obtain ⟨s', hm, h1, h2, h3, h4, h5, _⟩ := cancel_waiting_step P s t hp
  refine ⟨s', hm, h1, h2, h4, h5, ?_⟩
  intro cs' s'' hr
  have hri := rinv_run P hP cs _ s (rinv_init P hP born) h
  have hi'' := (rinv_run P hP cs' s' s'' (rinv_step P hP s s' _ hri hm) hr).1
  have hd : (s''.tasks t).phase = .done := by rw [done_forever P cs' s' s'' hr t h3]; exact h3
  constructor
  · intro e; have := (hi''.hold t).mpr e; rw [hd] at this; cases this
  · intro e; have := (hi''.wait t).mpr e; rw [hd] at this; cases this

/-- **progress_multi**: in every reachable state
    (a) the holder may be cancelled at whatever await point it is suspended in (write, read, responsePending poll,
        backoff sleep, reconnect): the client is free at once and the queue is untouched;
    (b) a holder that ends its exchange - reply, error or exception: its next await point is `release` - frees the client;
    (c) no deadlock: whenever the client is free and somebody waits, the longest waiter is granted the client by its next
        step (or, if it is a worker being stopped, its cancellation removes it and the next one is at the head);
    (d) hence a leaving holder hands over to the longest waiter -/
theorem progress_multi (P : Progs) (hP : WF P) (born : Tid → Bool) (cs : List Choice) (s : MSys)
    (h : mrun P (MSys.init P born) cs = some s) :
    (∀ t, s.lock.holder = some t →
      ∃ s', mstep P s (.cancel t) = some s' ∧ s'.lock.holder = none ∧ s'.lock.waiters = s.lock.waiters ∧
        (∀ u, u ≠ t → s'.tasks u = s.tasks u)) ∧
    (∀ t rest, s.lock.holder = some t → (s.tasks t).stopReq = false → (s.tasks t).todo = .release :: rest →
      ∃ s', mstep P s (.run t) = some s' ∧ s'.lock.holder = none ∧ s'.lock.waiters = s.lock.waiters ∧
        (∀ u, u ≠ t → s'.tasks u = s.tasks u)) ∧
    (∀ w ws, s.lock.holder = none → s.lock.waiters = w :: ws →
      ((s.tasks w).stopReq = false → ∃ s', mstep P s (.run w) = some s' ∧ s'.lock = { holder := some w, waiters := ws }) ∧
      ((s.tasks w).stopReq = true → ∃ s', mstep P s (.cancel w) = some s' ∧ s'.lock = { holder := none, waiters := ws })) := by
  have hi := (rinv_run P hP cs _ s (rinv_init P hP born) h).1
  refine ⟨?_, ?_, ?_⟩
  · intro t ht
    obtain ⟨s', hm, h1, h2, _, h4, _⟩ := cancel_holding_step P s t ((hi.hold t).mpr ht)
    exact ⟨s', hm, h1, h2, h4⟩
  · intro t rest ht hs htodo
    exact release_step P s t t rest (.inr ((hi.hold t).mpr ht)) hs htodo ht
  · intro w ws hh hw
    have hpw : (s.tasks w).phase = .waiting := (hi.wait w).mpr (by rw [hw]; simp)
    constructor
    · intro hs
      obtain ⟨s', hm, h1, _⟩ := grant_step P s w ws hpw hs hh hw
      exact ⟨s', hm, h1⟩
    · intro _
      obtain ⟨s', hm, h1, h2, _⟩ := cancel_waiting_step P s w hpw
      refine ⟨s', hm, ?_⟩
      have hnd := hi.nodup
      rw [hw] at hnd
      have hnot : w ∉ ws := (List.nodup_cons.mp hnd).1
      have : s'.lock.waiters = ws := by
        rw [h2, hw]
        simp only [ne_eq, decide_not, List.filter_cons, decide_true, Bool.not_true, Bool.false_eq_true, if_false]
        apply List.filter_eq_self.mpr
        intro a ha; simp; rintro rfl; exact hnot ha
      cases hl : s'.lock with
      | mk hd wt => rw [hl] at h1 this; simp at h1 this; rw [h1, hh, this]

/-- a leaving holder hands the client to the longest waiter: cancellation of the holder at any await point followed by
    the waiter's next step -/
theorem handover_on_cancel (P : Progs) (hP : WF P) (born : Tid → Bool) (cs : List Choice) (s : MSys)
    (h : mrun P (MSys.init P born) cs = some s) (t w : Tid) (ws : List Tid) (ht : s.lock.holder = some t)
    (hw : s.lock.waiters = w :: ws) (hs : (s.tasks w).stopReq = false) :
    ∃ s'', mrun P s [.cancel t, .run w] = some s'' ∧ s''.lock = { holder := some w, waiters := ws } := by
  obtain ⟨s', hm, h1, h2, h3⟩ := (progress_multi P hP born cs s h).1 t ht
  have hr' : mrun P (MSys.init P born) (cs ++ [.cancel t]) = some s' := by
    rw [mrun_append, h]; simp [mrun, hm]
  have hne : w ≠ t := by
    have hi := (rinv_run P hP cs _ s (rinv_init P hP born) h).1
    rintro rfl
    have a := (hi.hold w).mpr ht
    have b := (hi.wait w).mpr (by rw [hw]; simp)
    rw [a] at b; cases b
  obtain ⟨s'', hm2, hl⟩ := ((progress_multi P hP born _ s' hr').2.2 w ws h1 (by rw [h2, hw])).1 (by rw [h3 w hne]; exact hs)
  exact ⟨s'', by simp [mrun, hm, hm2], hl⟩

/-- **stop_terminates** (`stop_cyclic_tester_present`: `task.cancel()`, `await asyncio.wait([task])`): wherever the
    worker `w` is - in its interval sleep, waiting for the client, or in the middle of its exchange holding the client -
    the stopping task's `cancel()` step is enabled; from then on the worker performs no step of its own; the delivery of the
    cancellation is enabled and leaves the worker ended, neither holding nor waiting for the client (a client it held is
    free, the queue is otherwise untouched); after that the `wait` of the stopping task is enabled.  A worker that has
    already ended makes both steps of the stopping task enabled at once. -/
theorem stop_terminates (P : Progs) (hP : WF P) (born : Tid → Bool) (cs : List Choice) (s : MSys)
    (h : mrun P (MSys.init P born) cs = some s) (u w : Tid) (rest : List Act) (hne : w ≠ u)
    (hp : (s.tasks u).phase = .idle) (hs : (s.tasks u).stopReq = false)
    (htodo : (s.tasks u).todo = .stop w :: .join w :: rest) :
    ∃ s1, mstep P s (.run u) = some s1 ∧ s1.lock = s.lock ∧
      ((s.tasks w).phase = .done → ∃ s3, mstep P s1 (.run u) = some s3 ∧ s3.lock = s.lock) ∧
      ((s.tasks w).phase ≠ .done →
        mstep P s1 (.run w) = none ∧
        ∃ s2, mstep P s1 (.cancel w) = some s2 ∧ (s2.tasks w).phase = .done ∧
          s2.lock.holder ≠ some w ∧ w ∉ s2.lock.waiters ∧
          (∀ x, x ≠ w → s.lock.holder = some x → s2.lock.holder = some x) ∧
          (∀ cs' s'', mrun P s2 cs' = some s'' → s''.log.filter (·.1 == w) = s2.log.filter (·.1 == w)) ∧
          ∃ s3, mstep P s2 (.run u) = some s3 ∧ s3.lock = s2.lock) := by
  obtain ⟨s1, hm1, hl1, ht1, hp1, hs1, hnd, hd⟩ := stop_step P s u w rest hne hp hs htodo
  refine ⟨s1, hm1, hl1, ?_, ?_⟩
  · intro hdone
    obtain ⟨s3, hm3, hl3⟩ := join_step P s1 u w rest hp1 hs1 ht1 (by rw [hd hdone]; exact hdone)
    exact ⟨s3, hm3, by rw [hl3, hl1]⟩
  · intro hnot
    obtain ⟨hsr, hph⟩ := hnd hnot
    refine ⟨stopped_silent P s1 w hsr, ?_⟩
    have hri1 := rinv_step P hP s s1 _ (rinv_run P hP cs _ s (rinv_init P hP born) h) hm1
    have hi1 := hri1.1
    -- the delivery, by the phase the worker is in
    have hcancel : ∃ s2, mstep P s1 (.cancel w) = some s2 ∧ (s2.tasks w).phase = .done ∧
        (∀ x, x ≠ w → s2.tasks x = s1.tasks x) ∧ (∀ x, x ≠ w → s1.lock.holder = some x → s2.lock.holder = some x) ∧
        s2.log = s1.log := by
      cases hpw : (s1.tasks w).phase with
      | done => rw [hph] at hpw; exact absurd hpw hnot
      | waiting =>
        obtain ⟨s2, a, b, _, d, e, _, g⟩ := cancel_waiting_step P s1 w hpw
        exact ⟨s2, a, d, e, fun x _ hx => by rw [b]; exact hx, g⟩
      | holding =>
        obtain ⟨s2, a, _, _, d, e, _, g⟩ := cancel_holding_step P s1 w hpw
        refine ⟨s2, a, d, e, ?_, g⟩
        intro x hx hh
        have := (hi1.hold w).mp hpw
        rw [this] at hh; injection hh with hh; exact absurd hh.symm hx
      | idle =>
        obtain ⟨s2, a, b, d, e, _, g⟩ := cancel_out_step P s1 w (.inl hpw)
        exact ⟨s2, a, d, e, fun x _ hx => by rw [b]; exact hx, g⟩
      | unborn =>
        obtain ⟨s2, a, b, d, e, _, g⟩ := cancel_out_step P s1 w (.inr hpw)
        exact ⟨s2, a, d, e, fun x _ hx => by rw [b]; exact hx, g⟩
    obtain ⟨s2, hm2, hd2, hfr, hkeep, _⟩ := hcancel
    have hri2 := rinv_step P hP s1 s2 _ hri1 hm2
    have hi2 := hri2.1
    refine ⟨s2, hm2, hd2, ?_, ?_, ?_, ?_, ?_⟩
    · intro e; have := (hi2.hold w).mpr e; rw [hd2] at this; cases this
    · intro e; have := (hi2.wait w).mpr e; rw [hd2] at this; cases this
    · intro x hx hh; exact hkeep x hx (by rw [hl1]; exact hh)
    · intro cs' s'' hr
      exact ended_task_is_silent P cs' s2 s'' hr w hd2
    · have hu2 : s2.tasks u = s1.tasks u := hfr u (fun e => hne e.symm)
      exact join_step P s2 u w rest (by rw [hu2]; exact hp1) (by rw [hu2]; exact hs1) (by rw [hu2]; exact ht1) hd2

/-! ### replies: one inbox, whoever reads next gets the message -/

open Gallia.UdsReq Gallia.UdsMatch Gallia.Reply Gallia.Client Gallia.ClientIO in
/-- **own_reply_or_error**: task `t` calls `request()` for request `r` over its script `io`; the transport has one inbox
    and late replies to other tasks' earlier requests are handed to whoever reads next.  For every schedule:
    (1) every message `t` has consumed was classified by `parse_pdu` against `t`'s OWN request, and a message that is
        `Foreign` to `r` (reply of another service, negative response naming another service, positive reply echoing
        another primary identifier - e.g. the late reply to another caller's request; `Spec/Reply.lean`) was refused as
        mismatch: the request ends with IllegalResponse for that read, never with that message as its result;
    (2) when the call has returned a reply, that reply is a message `t` itself consumed, accepted by `parse_pdu` against
        `r`, and not foreign to `r`.
    The caveat is the hypothesis `Foreign r b`: a late reply to a byte-identical request (`classify_bytes`) and a late
    negative response naming the same service are not foreign - UDS has no sequence numbers (`same_service_negative_not_foreign`). -/
theorem own_reply_or_error (P : Progs) (hP : WF P) (born : Tid → Bool) (cs : List Choice) (s : MSys)
    (h : mrun P (MSys.init P born) cs = some s) (t : Tid) (c : CfgX) (r : Req) (io : Script)
    (hp : P t = Prog.request c r io) (hwf : r.WF) :
    (∀ n k b, (n, k, b) ∈ (s.tasks t).reads → classify r b = io.rd k ∧
      (Foreign r b → io.rd k = .mismatch ∧ (requestX c io).out = .base (.illegal k))) ∧
    (finished (s.tasks t) = true → ∀ k, (requestX c io).out = .base (.reply k) →
      ∃ b x, (0, k, b) ∈ (s.tasks t).reads ∧ parsePdu b r = .accepted x ∧ ¬ Foreign r b) := by
  have hro := run_readsOk P cs _ s (init_readsOk P born) h t
  have hi := (rinv_run P hP cs _ s (rinv_init P hP born) h).1
  have hround : ∀ n, (P t).round n = Round.request c r io := by intro n; rw [hp]; rfl
  have hcls : ∀ n k b, (n, k, b) ∈ (s.tasks t).reads → classify r b = io.rd k ∧ ∃ tmo d, OpX.rd k tmo d ∈ (runX c io).trace := by
    intro n k b hm
    obtain ⟨h1, _, tmo, d, h3⟩ := hro.classified n k b hm
    rw [hround n] at h1 h3
    exact ⟨h1, tmo, d, (mem_request_acts c r io k tmo d).mp h3⟩
  constructor
  · intro n k b hm
    obtain ⟨h1, tmo, d, h3⟩ := hcls n k b hm
    refine ⟨h1, ?_⟩
    intro hf
    have hmm : io.rd k = .mismatch := by rw [← h1]; exact classify_foreign r hwf b hf
    exact ⟨hmm, (runX_read_decides c io k tmo d h3).1 (by rw [hmm]; rfl)⟩
  · intro hfin k hk
    simp only [finished, Bool.and_eq_true, beq_iff_eq, Bool.not_eq_true'] at hfin
    obtain ⟨hdone, hnab⟩ := hfin
    have htodo : (s.tasks t).todo = [] := by have := hi.ok t; simp only [PhaseOk, hdone] at this; exact this
    have hr0 : (s.tasks t).round = 0 := by
      rcases hro.roundOk with h0 | h0
      · exact h0
      · rw [hp] at h0; simp [Prog.request, Prog.hasRound] at h0; exact h0
    have hhas : (P t).hasRound (s.tasks t).round = true := by rw [hr0, hp]; rfl
    obtain ⟨pre, hpre, hcov⟩ := hro.current hnab (by rw [hdone]; intro e; cases e) hhas
    rw [htodo, List.append_nil, hr0] at hpre
    rw [hr0] at hcov
    obtain ⟨⟨tmo, d, hmem⟩, hrep⟩ := (runX_out_read c io k).1 hk
    have hact : Act.io (.rd k tmo d) ∈ pre := by
      rw [← hpre, hround 0]; exact (mem_request_acts c r io k tmo d).mpr hmem
    have hcons : consuming (((P t).round 0).rd k) = true := by
      rw [hround 0]; show consuming (io.rd k) = true
      cases hev : io.rd k <;> simp_all [replyEv, consuming]
    obtain ⟨b, hb⟩ := hcov k tmo d hact hcons
    obtain ⟨h1, _⟩ := hcls 0 k b hb
    have hrb : replyEv (classify r b) = true := by rw [h1]; exact hrep
    obtain ⟨x, hx⟩ := classify_reply_accepted r b hrb
    exact ⟨b, x, hb, hx, reply_not_foreign r hwf b hrb⟩

open Gallia.UdsReq Gallia.Reply in
/-- the reply-crossing case of the tie: the positive reply to another caller's ReadDataByIdentifier request for a
    different identifier is foreign to this caller's request (so `own_reply_or_error` applies to it) -/
theorem rdbi_cross_is_foreign (d d' : Nat) (b : Bytes) (hne : d ≠ d') (hg : Genuine (.rdbi [d']) b)
    (hpos : isNegative b = false) : Foreign (.rdbi [d]) b := by
  unfold Genuine genuineB at hg
  unfold Foreign foreignB
  simp only [Reply.reqSid, encode] at hg ⊢
  simp only [List.head?_cons, hpos, Bool.false_and, Bool.false_or, Bool.and_eq_true] at hg ⊢
  obtain ⟨hd, hp, he⟩ := hg
  simp only [view, echoOK, List.head?_cons, beq_iff_eq] at he
  simp [hp, hd, view, echoOK, he]
  exact fun e => hne e.symm

open Gallia.UdsReq Gallia.Reply in
/-- the caveat of `own_reply_or_error`, made explicit: a negative response naming the service of the request is never
    foreign to it, whichever request of that service it was sent for (UDS negative responses carry the service id only) -/
theorem same_service_negative_not_foreign (r : Req) (s nrc : UInt8) (rest : Bytes) (hs : Reply.reqSid r = some s) :
    ¬ Foreign r (0x7F :: s :: nrc :: rest) := by
  unfold Foreign foreignB
  rw [hs]
  simp [isNegative, positiveOf]

open Gallia.UdsReq Gallia.Reply in
/-- reply crossing within ONE service where nothing is echoed: the positive reply to another caller's ReadMemoryByAddress
    request for a different number of bytes is foreign to this caller's request - whatever the addresses and whatever
    address-and-length format identifiers (minimal or explicit) the two requests were built with (so `own_reply_or_error`
    applies: it can only end this caller's request with IllegalResponse) -/
theorem rmba_cross_is_foreign (addr addr' size size' alfid alfid' : Nat) (b : Bytes) (hne : size ≠ size')
    (hg : Genuine (.rmba addr' size' alfid') b) (hpos : isNegative b = false) : Foreign (.rmba addr size alfid) b := by
  unfold Genuine genuineB at hg
  unfold Foreign foreignB
  simp only [Reply.reqSid, encode] at hg ⊢
  simp only [List.cons_append, List.head?_cons, hpos, Bool.false_and, Bool.false_or, Bool.and_eq_true] at hg ⊢
  obtain ⟨hd, hp, he⟩ := hg
  simp only [view, echoOK, beq_iff_eq] at he
  simp [hp, hd, view, echoOK, he]
  omega

open Gallia.UdsReq Gallia.Reply in
/-- the caveat, made explicit: a reply genuine to a ReadMemoryByAddress request is genuine to EVERY ReadMemoryByAddress
    request for the same number of bytes (the reply carries neither address nor format identifier): such a late reply
    cannot be told from the caller's own by anybody -/
theorem rmba_same_size_indistinguishable (addr addr' size alfid alfid' : Nat) (b : Bytes)
    (hg : Genuine (.rmba addr' size alfid') b) : Genuine (.rmba addr size alfid) b := by
  unfold Genuine genuineB at hg ⊢
  simp only [Reply.reqSid, encode, List.cons_append, List.head?_cons, view, echoOK] at hg ⊢
  exact hg

/-! ### the tester-present worker -/

open Gallia.Client Gallia.ClientIO in
/-- **worker_only_via_lock**: in a system made of gallia's callers, the tester-present worker `w` (interval `iv`) does in
    every pass of its loop exactly: the interval sleep outside the client, then one `request()` with `max_retry = 0` -
    acquire, one transmission at most, no backoff sleep, no reconnect (a lost connection ends the ping with
    MissingResponse, which the loop logs and survives), release; whenever its next await point touches the transport
    it holds the client, and every transport operation of `w` in the event trace happens while `w` is the holder -/
theorem worker_only_via_lock (P : Progs) (hreal : ∀ t, RealProg (P t)) (born : Tid → Bool) (cs : List Choice) (s : MSys)
    (h : mrun P (MSys.init P born) cs = some s) (w : Tid) (iv : Nat) (c : CfgX) (ios : Nat → Script)
    (hw : P w = Prog.worker iv c ios) :
    (∀ n, ((P w).round n).acts =
      .io (.sl iv) :: .acquire :: ((runX (workerCfg c) (ios n)).trace.map Act.io ++ [.release])) ∧
    (∀ n, (runX (workerCfg c) (ios n)).writes ≤ 1 ∧ (runX (workerCfg c) (ios n)).sleeps = [] ∧
      (runX (workerCfg c) (ios n)).reconnects = 0) ∧
    (∀ a rest, ((s.tasks w).phase = .idle ∨ (s.tasks w).phase = .holding) → (s.tasks w).todo = a :: rest →
      a.isWire = true → s.lock.holder = some w) ∧
    (∀ pre post k, s.events = pre ++ Event.op w k :: post → ∃ s1, accept Sys.init pre = some s1 ∧ s1.holder = some w) := by
  have hP := real_wf P hreal
  refine ⟨?_, ?_, ?_, ?_⟩
  · intro n
    rw [hw]
    show Act.io (.sl iv) :: (requestX (workerCfg c) (ios n)).trace.map Act.ofReq = _
    rw [request_acts]
  · intro n
    have hb := (attemptsX_bounds (workerCfg c) (ios n) 0 0 0 (.missing false)).writes
    have hs := attemptsX_sleeps (workerCfg c) (ios n) 0 0 0 (.missing false)
    refine ⟨?_, ?_, runX_no_rc (workerCfg c) (ios n) rfl⟩
    · simpa [runX, ResX.writes, workerCfg] using hb
    · have : ((List.range' 0 ((workerCfg c).maxRetry - 0)).map (waitX (workerCfg c))) = [] := by simp [workerCfg]
      rw [this] at hs
      simpa [runX, ResX.sleeps] using hs
  · intro a rest hc htodo hwire
    exact (wire_op_by_holder P hP born cs s h w a rest hc htodo hwire).1
  · intro pre post k he
    exact ops_by_holder Sys.init s.lock pre post w k (by rw [← he]; exact events_accepted P hP born cs s h)

/-! ### (T) where the code touches a mutex, regenerated from the AST on every run -/

/-- **lock_sites_agree**: in client.py, ecu.py and transports/base.py a mutex is created in the two constructors and
    used in exactly four places, each an `async with self.mutex` block (`UDSClient.reconnect`, `UDSClient._request`,
    `BaseTransport.reconnect`, `BaseTransport.request`); there is no bare `.acquire()` / `.release()` / `.locked()` call
    and no re-assignment of a mutex.  `async with` releases exactly what it acquired, on return, exception and
    cancellation: this is what makes the callers' programs bracketed (`wfIn`, `real_wf`) -/
theorem lock_sites_agree : Gen.C05Locks.lockSites = [
    ("client", "UDSClient.__init__", "create", "self.mutex"),
    ("client", "UDSClient.reconnect", "asyncWith", "self.mutex"),
    ("client", "UDSClient._request", "asyncWith", "self.mutex"),
    ("base", "BaseTransport.__init__", "create", "self.mutex"),
    ("base", "BaseTransport.reconnect", "asyncWith", "self.mutex"),
    ("base", "BaseTransport.request", "asyncWith", "self.mutex")] := by decide

/-- the methods that use the transport without taking the client lock themselves -/
def unlockedFns : List String :=
  ["UDSClient.request_unsafe", "UDSClient.reconnect_unsafe", "UDSClient._read", "UDSClient._tester_present",
   "BaseTransport.request_unsafe"]

/-- a call of an unlocked method is either lexically inside `async with <mutex>` or made by another unlocked method;
    nobody calls `_tester_present` (its `suppress_resp=True` branch writes without the lock) -/
def callGuarded (c : String × String × String × Bool) : Bool :=
  (c.2.2.2 || unlockedFns.contains c.2.1) && c.2.2.1 != "_tester_present"

/-- **unlocked_calls_guarded**: every call of `request_unsafe` / `reconnect_unsafe` / `_read` / `transport.write|read|
    request|request_unsafe|reconnect|close` in client.py, ecu.py, transports/base.py is inside an `async with
    <mutex>` block or inside one of the unlocked methods, whose only entry points are therefore the locked ones; the
    lock-free `_tester_present` has no caller.  (`ECU` adds no transport access of its own: all of ecu.py goes
    through `request()` / `reconnect()`.) -/
theorem unlocked_calls_guarded :
    Gen.C05Locks.unlockedCalls.all callGuarded = true ∧
    (Gen.C05Locks.unlockedCalls.filter (fun c => c.1 == "ecu")).length = 0 := by decide

/-! ### non-vacuity: concrete systems, evaluated by the kernel -/

section Examples
open Gallia.Client Gallia.ClientIO Gallia.UdsReq

def exCfg (maxRetry : Nat) : CfgX := ⟨maxRetry, some 1000, some 1000, 0, Limits.std⟩
def exScript (w : List WEv) (r : List Ev) (rc : List RcEv) : Script :=
  ⟨fun j => w.getD j .ok, fun k => r.getD k .timeout, fun m => rc.getD m .ok⟩

/-- caller 1 reads identifier 0x1000 (its reply comes late: timeout), caller 2 reads 0x1001 with one retry after a lost
    connection, task 3 is the tester-present worker, task 4 starts and stops it -/
def exP : Progs := fun t =>
  if t = 1 then Prog.request (exCfg 0) (.rdbi [0x1000]) (exScript [] [.timeout] [])
  else if t = 2 then Prog.request (exCfg 1) (.rdbi [0x1001]) (exScript [] [.mismatch] [])
  else if t = 3 then Prog.worker 350 (exCfg 0) (fun _ => exScript [] [.posFinal] [])
  else Prog.seq [Round.startWorker 3, Round.stopWorker 3]

def exBorn : Tid → Bool := fun t => t == 1 || t == 2 || t == 4

theorem exP_real : ∀ t, RealProg (exP t) := by
  intro t
  unfold exP
  split
  · exact .inl ⟨_, _, _, rfl⟩
  · split
    · exact .inl ⟨_, _, _, rfl⟩
    · split
      · exact .inr (.inr (.inl ⟨_, _, _, rfl⟩))
      · refine .inr (.inr (.inr ⟨_, rfl, ?_⟩))
        intro r hr
        simp at hr
        rcases hr with rfl | rfl
        · exact .inr (.inr (.inr (.inr (.inl ⟨3, rfl⟩))))
        · exact .inr (.inr (.inr (.inr (.inr ⟨3, rfl⟩))))

/-- the schedule: 4 starts the worker; 1 obtains the client and transmits, 2 and the worker queue up behind it; 1 times
    out and releases; 2 is granted the client (FIFO), transmits, and the LATE reply to 1's request (62 10 00 ..) arrives
    while 2 reads: 2 gets IllegalResponse, not that reply; the worker is cancelled by `stop` while it waits for the client -/
def exSched : List Choice :=
  [.run 4, .run 4, .run 1, .run 1, .run 1, .run 2, .run 3, .run 3, .run 1, .run 1, .run 2, .run 2,
   .deliver [0x62, 0x10, 0x00, 0xAB], .run 2, .run 2, .run 4, .cancel 3, .run 4]

def exCheck (o : Option MSys) : Bool :=
  match o with
  | some s =>
    s.lock.holder == none && s.lock.waiters == [] &&
    finished (s.tasks 1) && finished (s.tasks 2) && finished (s.tasks 4) &&
    (s.tasks 3).phase == .done && (s.tasks 3).aborted &&
    (s.tasks 2).reads == [(0, 0, [0x62, 0x10, 0x00, 0xAB])] && (s.tasks 1).reads == [] &&
    grantsOf s.events == [1, 2] && arrivalsOf s.events [] == [1, 2]
  | none => false

/-- the schedule is enabled step by step and ends as described: the hypotheses of the theorems above are satisfiable -/
example : exCheck (mrun exP (MSys.init exP exBorn) exSched) = true := by decide +kernel

example : (requestX (exCfg 1) (exScript [] [.mismatch] [])).out = .base (.illegal 0) ∧
    (requestX (exCfg 0) (exScript [] [.timeout] [])).out = .base (.missing false) := by decide +kernel

open Gallia.Reply in
example : Foreign (.rdbi [0x1001]) [0x62, 0x10, 0x00, 0xAB] ∧ Genuine (.rdbi [0x1000]) [0x62, 0x10, 0x00, 0xAB] ∧
    (Req.rdbi [0x1001]).WF ∧ classify (.rdbi [0x1001]) [0x62, 0x10, 0x00, 0xAB] = .mismatch := by decide +kernel

open Gallia.Reply in
/-- hypotheses of `rmba_cross_is_foreign` with an explicit, non-minimal format identifier (0x24: 4 address bytes, 2 size bytes): the reply to
    "4 bytes at 0x1000" is foreign to "8 bytes at 0x2000", the request bytes decode to that typed request, the matcher refuses it -/
example : Genuine (.rmba 0x1000 4 0x24) [0x63, 0x10, 0x11, 0x12, 0x13] ∧ isNegative [0x63, 0x10, 0x11, 0x12, 0x13] = false ∧
    Foreign (.rmba 0x2000 8 0x24) [0x63, 0x10, 0x11, 0x12, 0x13] ∧ (Req.rmba 0x2000 8 0x24).WF ∧
    classify (.rmba 0x2000 8 0x24) [0x63, 0x10, 0x11, 0x12, 0x13] = .mismatch ∧
    decode [0x23, 0x24, 0, 0, 0x20, 0, 0, 8] = .rmba 0x2000 8 0x24 := by decide +kernel

/-- hypotheses of `cancel_safe`, `stop_terminates`, `progress_multi` (c): after this prefix the worker waits for the client
    held by 1 with 2 ahead of it, and 4 is about to stop it -/
example : (match mrun exP (MSys.init exP exBorn) (exSched.take 8) with
    | some s => (s.tasks 3).phase == .waiting && s.lock.holder == some 1 && s.lock.waiters == [2, 3]
    | none => false) = true := by decide +kernel

/-- **why the bracketing matters** (the owner-less `asyncio.Lock.release()`): a program with a stray `release` - e.g. a
    `finally: self.mutex.release()` reached by a task that never got the lock - is not bracketed, the step function lets
    it free the lock held by task 1, task 3 is then granted the client and transmits in the middle of 1's exchange: the
    event trace is rejected by the lock-discipline acceptor -/
def strayP : Progs := fun t =>
  if t = 2 then Prog.seq [⟨[.release], .raw [], fun _ => .timeout⟩]
  else Prog.request (exCfg 0) (.rdbi [0x1000 + t]) (exScript [] [.timeout] [])

theorem unbracketed_release_breaks_exclusion :
    wfIn false ((strayP 2).round 0).acts = false ∧
    (match mrun strayP (MSys.init strayP (fun t => t == 1 || t == 2 || t == 3)) [.run 1, .run 1, .run 1, .run 3, .run 2, .run 3, .run 3] with
     | some s => s.events == [.want 1, .got 1, .op 1 .write, .want 3, .rel 2, .ended 2, .got 3, .op 3 .write] &&
                 (accept Sys.init s.events).isNone
     | none => false) = true := by decide +kernel

end Examples

end Multi

/-! ### Reconnects against a target whose `connect` fails (`BaseTransport.reconnect`, called by `UDSClient.reconnect()` /
    `reconnect_unsafe()` while the client mutex is held): the failing caller gets control back in bounded time - for EVERY
    stream of connection outcomes (refused k times then accepted, refused forever, ...) - so that its next await point is the
    `release` of `Round.reconnect` / of the request round (`progress_multi` (b)). -/
section Reconnect
open Gallia.TransportReconnect

/-- `timeout=None` (what the client passes): exactly one connection attempt, whatever the target does afterwards; a
    refused / failed attempt is the caller's error, after the duration of that one attempt -/
theorem reconnect_without_timeout_single_attempt (outcome : Nat → ConnRes) (c : Nat) :
    (clientReconnect outcome c).attempts = 1 ∧ (clientReconnect outcome c).elapsed = c ∧
    (outcome 0 = .ok → (clientReconnect outcome c).out = .connected) ∧
    (outcome 0 ≠ .ok → (clientReconnect outcome c).out = .error (outcome 0)) := by
  unfold clientReconnect reconnect
  cases h : outcome 0 <;> simp

/-- with a deadline `T` the loop makes at most `T / 100 + 1` attempts and returns by `T`, for every outcome stream -/
theorem reconnect_bounded (outcome : Nat → ConnRes) (c T : Nat) :
    (reconnect outcome c (some T)).attempts ≤ T / 100 + 1 ∧ (reconnect outcome c (some T)).elapsed ≤ T := by
  have h := rcLoop_bounded outcome c T 0 0
  simpa [reconnect] using h

/-- a target that stays away: the caller gets an error in both modes (the refusal itself, or the deadline) - never a hang -/
theorem reconnect_unreachable_target_fails (outcome : Nat → ConnRes) (h : ∀ k, outcome k = .refused) (c : Nat) :
    (reconnect outcome c none).out = .error .refused ∧ (reconnect outcome c none).attempts = 1 ∧
    ∀ T, (reconnect outcome c (some T)).out = .deadline ∧ (reconnect outcome c (some T)).elapsed ≤ T := by
  refine ⟨?_, ?_, fun T => ⟨rcLoop_refused_forever outcome h c T 0 0, (rcLoop_bounded outcome c T 0 0).2⟩⟩
  · simp [reconnect, h 0]
  · simp [reconnect, h 0]

/-- non-vacuity: refused twice then accepted - one attempt and the refusal without a timeout, three attempts and a
    connection by 350 ms with a 1 s deadline, the deadline after two attempts with 250 ms; refused forever with 520 ms -/
example :
    let o : Nat → ConnRes := fun k => if k < 2 then .refused else .ok
    reconnect o 50 none = ⟨.error .refused, 1, 50⟩ ∧ reconnect o 50 (some 1000) = ⟨.connected, 3, 350⟩ ∧
    reconnect o 50 (some 250) = ⟨.deadline, 2, 250⟩ ∧ reconnect (fun _ => .refused) 50 (some 520) = ⟨.deadline, 4, 520⟩ := by
  decide +kernel

end Reconnect


end Gallia.C05
