import Gallia.Proofs.Lemmas.Loss
import Gallia.Proofs.Lemmas.LossSys
import Gallia.Proofs.Lemmas.HsfzSys
import Gallia.Gen.C08Loss
import Gallia.Model.LossPend
import Gallia.Gen.C06Doip
import Gallia.Gen.C07Hsfz
import Gallia.Gen.C04Limits
/-
  C08 — Connection loss surfaces as a bounded-time error and the next attempt recovers.

  Model: `Model/Loss.lean` (the loss machine over the C19 / C06 / C07 protocol models, composed with the client loop of
  C04).  Helper lemmas: `Proofs/Lemmas/Loss.lean`.  All theorems hold for every protocol instance `P` (unless a
  transport is named), every scenario `sc` (any delivered prefix = any cut point of any stream, any cut kind, any event
  time, any restart delay), every connection state `c` and every start time.
-/
namespace Gallia.C08
open Gallia Gallia.Framing Gallia.Loss

variable {Q : Type}

set_option linter.unusedSimpArgs false

/-! ### tie: literals and shapes regenerated from the transports and the client on every run -/

/-- the model's reconnect window, poll interval and acknowledgement times are the literals of the code; the shapes
    the model relies on are there: a reconnect without timeout connects once, a failing close() does not abort it, DoIP
    tests its closed flag before the queue, both reader tasks leave the end-of-stream marker and both readers recognise
    it, every close() guards `wait_closed()` and sets `is_closed`, the client reconnects without timeout and maps an
    empty read to a connection error -/
theorem tables_agree :
    pollStep = Gen.C08Loss.reconnectPollMs ∧ doipWindow = Gen.C08Loss.doipReconnectWindowMs ∧
    Gen.C08Loss.reconnectSingleAttemptWithoutTimeout = true ∧ Gen.C08Loss.reconnectIgnoresCloseError = true ∧
    Gen.C08Loss.reconnectUsesTimeoutContext = true ∧
    Gen.C08Loss.doipClosedTestedFirst = true ∧ Gen.C08Loss.doipWorkerCloses = true ∧
    Gen.C08Loss.doipMarkerPut = true ∧ Gen.C08Loss.doipMarkerRead = true ∧
    Gen.C08Loss.hsfzMarkerPut = true ∧ Gen.C08Loss.hsfzMarkerRead = true ∧
    Gen.C08Loss.closeGuarded.all (·.2) = true ∧ Gen.C08Loss.closeSetsFlag.all (·.2) = true ∧
    Gen.C08Loss.clientReconnectCalls = 2 ∧ Gen.C08Loss.clientReconnectWithoutTimeout = true ∧
    Gen.C08Loss.clientEmptyReadTests = 2 ∧
    Doip.ackTimeoutMs = Gen.C06Doip.TimingAndCommunicationParameters_DiagnosticMessageMessageAckTimeout ∧
    Gen.C07Hsfz.defaultAckTimeoutMs = 1000 ∧
    Client.Limits.std.retryWait = Gen.C04Limits.retryWaitMs ∧ Client.Limits.std.waiting = Gen.C04Limits.waitingMs := by
  decide

/-! ### bounded time -/

/-- given a caller timeout `t`, the pending `request_unsafe` ends with data, the caller's timeout, a connection error or
    an explicit end-of-stream (or the decoding error of a *complete* malformed line, see `bad_line_is_complete`) - it
    never blocks, never fails with another exception - and it ends no later than `t` after it started, hence no later
    than caller timeout + acknowledgement time -/
theorem loss_bounded (P : Proto Q) (sc : Scn) (c : Conn Q) (now : Nat) (req : Bytes) (t : Nat) :
    ((opRequest P sc c now req (some t)).1.allowed ∨ (opRequest P sc c now req (some t)).1 = .badLine) ∧
    now ≤ (opRequest P sc c now req (some t)).2.1 ∧
    (opRequest P sc c now req (some t)).2.1 ≤ now + t ∧
    (opRequest P sc c now req (some t)).2.1 ≤ now + t + P.ackTime := by
  have hw := opWrite_spec P sc c now req (some t)
  simp only at hw
  obtain ⟨hres, hge, hle, _, hwr⟩ := hw
  unfold opRequest
  split
  · rename_i tw c1 heq
    have h1 : (opWrite P sc c now req (some t)).1 = .wrote := by rw [heq]
    have h2 : (opWrite P sc c now req (some t)).2.1 = tw := by rw [heq]
    have h3 : (opWrite P sc c now req (some t)).2.2 = c1 := by rw [heq]
    obtain ⟨htw, hcl, _, _, _⟩ := hwr h1
    rw [h2] at htw; subst htw
    rw [h3] at hcl
    have hr := opRead_spec P sc c1 tw (some t)
    simp only at hr
    obtain ⟨hge2, hle2, hnw, hbf, _, _, hbl, _⟩ := hr
    obtain ⟨hle3, hnb⟩ := hle2 t rfl
    refine ⟨?_, hge2, hle3, by omega⟩
    cases hres2 : (opRead P sc c1 tw (some t)).1 with
    | data d => exact .inl trivial
    | timeout => exact .inl trivial
    | connErr => exact .inl trivial
    | eos => exact .inl trivial
    | badLine => exact .inr rfl
    | wrote => exact absurd hres2 hnw
    | blocked => exact absurd hres2 hnb
    | badFd => have := (hbf hres2).1; rw [hcl] at this; cases this
  · rename_i r hne
    have hle' := hle t rfl
    refine ⟨?_, hge, hle', by omega⟩
    rcases hres with h | h | ⟨h, _⟩
    · exfalso
      apply hne (opWrite P sc c now req (some t)).2.1 (opWrite P sc c now req (some t)).2.2
      rw [← h]
    · rw [h]; exact .inl trivial
    · rw [h]; exact .inl trivial

/-- without a caller timeout the request still ends when the peer closes or resets - for every cut point, at the
    latest one acknowledgement time after it started or at the moment the stream ends; only a *silent* peer can keep a
    read without timeout waiting (there is nothing that could wake it).  `hinv`: a connection that was lost while idle
    knows it (established by `Conn.init`). -/
theorem loss_bounded_no_timeout (P : Proto Q) (sc : Scn) (c : Conn Q) (now : Nat) (req : Bytes)
    (hcut : sc.cut ≠ .silence) (hinv : sc.delta.isSome = false → c.ended = true) :
    (opRequest P sc c now req none).1 ≠ .blocked ∧
    ((opRequest P sc c now req none).2.1 ≤ now + P.ackTime ∨
      (opRequest P sc c now req none).2.1 = (opRequest P sc c now req none).2.2.te) := by
  have hw := opWrite_spec P sc c now req none
  simp only at hw
  obtain ⟨hres, hge, _, hack, hwr⟩ := hw
  unfold opRequest
  split
  · rename_i tw c1 heq
    have h1 : (opWrite P sc c now req none).1 = .wrote := by rw [heq]
    have h2 : (opWrite P sc c now req none).2.1 = tw := by rw [heq]
    have h3 : (opWrite P sc c now req none).2.2 = c1 := by rw [heq]
    obtain ⟨htw, _, hfr, _, _⟩ := hwr h1
    rw [h2] at htw; subst htw
    rw [h3] at hfr
    have hr := opRead_spec P sc c1 tw none
    simp only at hr
    obtain ⟨_, _, _, _, _, _, hbl, htime⟩ := hr
    have hte : (opRead P sc c1 tw none).2.2.te = c1.te := by
      unfold opRead; dsimp only
      have := sync_te P sc c1 tw
      repeat' split
      all_goals simp_all [Conn.finishEnd]
    constructor
    · intro hb
      obtain ⟨_, h⟩ := hbl hb
      rcases h with h | h | h
      · rw [hfr] at h; cases h
      · exact hcut h
      · -- lost while idle: the connection is ended, a read on it never blocks
        have hended : c1.ended = true := by
          have hc := hinv h
          have : (opWrite P sc c tw req none).2.2.ended = true := by
            unfold opWrite arm sync Conn.finishEnd; dsimp only
            repeat' split
            all_goals simp_all
          rw [h3] at this; exact this
        unfold opRead at hb; dsimp only at hb
        have hs : sync P sc c1 tw = c1 := by unfold sync; simp [hended]
        rw [hs] at hb
        repeat' split at hb
        all_goals simp_all [endRes]
        all_goals (split at hb <;> cases hb)
    · rcases htime trivial with h | h
      · left; rw [h]; omega
      · right; rw [h, hte]
  · rename_i r hne
    constructor
    · rcases hres with h | h | ⟨h, _⟩ <;> rw [h] <;> simp
    · exact .inl hack

/-- blocking forever needs a silent peer *and* a caller that passes no timeout: that is the only way -/
theorem blocked_only_when_silent_and_no_timeout (P : Proto Q) (sc : Scn) (c : Conn Q) (now : Nat) (req : Bytes)
    (tmo : Option Nat) (hinv : sc.delta.isSome = false → c.ended = true)
    (h : (opRequest P sc c now req tmo).1 = .blocked) : tmo = none ∧ sc.cut = .silence := by
  cases tmo with
  | some t =>
    have := (loss_bounded P sc c now req t).1
    rw [h] at this
    rcases this with h | h
    · exact absurd h (by simp [PRes.allowed])
    · cases h
  | none =>
    refine ⟨rfl, ?_⟩
    by_cases hc : sc.cut = .silence
    · exact hc
    · exact absurd h (loss_bounded_no_timeout P sc c now req hc hinv).1

/-- … and it does happen there (inherent: nothing can wake the reader): tcp-lines, silent peer, no timeout -/
theorem silent_peer_blocks_without_timeout :
    (opRequest linesProto { pre := [], cut := .silence, delta := some 0, restart := 0 }
      (Conn.init linesProto { pre := [], cut := .silence, delta := some 0, restart := 0 } 0) 100 [0x3e, 0x00] none).1
      = .blocked := by decide

/-! ### no fabricated data -/

/-- the queue a request starts from: what was queued before, or the reader side's view of the delivered prefix -/
theorem start_queue (P : Proto Q) (sc : Scn) (c : Conn Q) (now : Nat) :
    (startW P sc c now).q = c.q ∨ (startW P sc c now).q = P.parse sc.pre := startW_q P sc c now

/-- data returned by the pending request is the payload of a message that was completely received: it is among the
    payloads of the queue the request started from (the frames queued before, or those cut from the delivered prefix) -/
theorem no_fabrication (P : Proto Q) (hP : Laws P) (sc : Scn) (c : Conn Q) (now : Nat) (req : Bytes)
    (tmo : Option Nat) (d : Bytes) (h : (opRequest P sc c now req tmo).1 = .data d) :
    d ∈ P.payloads (startW P sc c now).q := by
  have hw := opWrite_spec P sc c now req tmo
  simp only at hw
  obtain ⟨hres, _, _, _, hwr⟩ := hw
  unfold opRequest at h
  split at h
  · rename_i tw c1 heq
    have h1 : (opWrite P sc c now req tmo).1 = .wrote := by rw [heq]
    have h3 : (opWrite P sc c now req tmo).2.2 = c1 := by rw [heq]
    obtain ⟨_, _, _, _, hq⟩ := hwr h1
    rw [h3] at hq
    obtain ⟨q', hq'⟩ := (opRead_spec P sc c1 tw tmo).2.2.2.2.1 d h
    have hd := hP.data_sound _ _ _ hq'
    rcases hq with hq | hq
    · rw [← hq]; exact hd
    · exact hP.ack_keeps _ _ _ hq d hd
  · rename_i r hne
    rcases hres with h' | h' | ⟨h', _⟩ <;> rw [h'] at h <;> cases h

/-- frames cut from a prefix of a stream are frames of the stream: a cut never creates a frame -/
theorem prefix_frames {F : Type} (cu : Cutter F) (stream : Bytes) (k : Nat) :
    (parseAll cu (stream.take k)).1 <+: (parseAll cu stream).1 := by
  have h := parseAll_append cu (stream.take k) (stream.drop k)
  rw [List.take_append_drop] at h
  rw [h]
  exact List.prefix_append _ _

/-- line transports: the returned message is the decoding of a newline-terminated line of the buffer (C19 `readLine`);
    an unterminated tail - what a cut inside a line leaves behind - is never returned -/
theorem no_fabrication_lines {buf m rest : Bytes} (h : linesProto.takeData buf = .hit m rest) :
    ∃ l, buf = l ++ Lines.NL :: rest ∧ Lines.NL ∉ l ∧ Lines.decodeLine l = .msg m := lines_hit_line h

/-- a decoding error can only stem from a complete line, never from a cut -/
theorem bad_line_is_complete {buf rest : Bytes} (h : linesProto.takeData buf = .bad rest) :
    ∃ l, buf = l ++ Lines.NL :: rest ∧ Lines.NL ∉ l ∧ Lines.decodeLine l = .bad := lines_bad_complete h

/-- DoIP: a payload handed out stems from a diagnostic message that the C06 framer cut completely from the bytes
    received -/
theorem no_fabrication_doip (cfg : Doip.Cfg) (pre : Bytes) (d : Bytes)
    (h : d ∈ (doipProto cfg).payloads ((doipProto cfg).parse pre)) :
    ∃ raw ∈ (parseAll Doip.doipCutter pre).1, ∃ f, Doip.classify raw = .q f ∧ Doip.isDiagFor cfg f = true ∧
      f.userData = d := by
  simp only [doipProto, doipQueue, List.mem_map, List.mem_filter, List.mem_filterMap] at h
  obtain ⟨f, ⟨⟨it, ⟨raw, hraw, rfl⟩, hit⟩, hf⟩, rfl⟩ := h
  refine ⟨raw, hraw, f, ?_, hf, rfl⟩
  cases hc : Doip.classify raw <;> rw [hc] at hit <;> simp at hit
  rw [hit]

/-- HSFZ: a payload handed out stems from a data frame that the C07 framer cut completely from the bytes received -/
theorem no_fabrication_hsfz (cfg : Hsfz.Cfg) (pre : Bytes) (d : Bytes)
    (h : d ∈ (hsfzProto cfg).payloads ((hsfzProto cfg).parse pre)) :
    ∃ x ∈ Hsfz.items (parseAll Hsfz.hsfzCutter pre).1, Hsfz.dataMatches cfg x = true ∧ x.payload = d := by
  simp only [hsfzProto, hsfzQueue, Hsfz.dataOf, List.mem_map, List.mem_filter] at h
  obtain ⟨x, ⟨hx, hm⟩, rfl⟩ := h
  exact ⟨x, hx, hm, rfl⟩

/-! ### close -/

/-- closing twice is closing once, whatever happened to the connection before -/
theorem close_idempotent (w : World Q) : wClose (wClose w) = wClose w := by
  unfold wClose
  by_cases h : w.cur = 0 <;> simp [h]

/-- after `close()` every operation on connection #0 fails at once - nothing blocks on a closed transport -/
theorem closed_never_blocks (P : Proto Q) (sc : Scn) (c : Conn Q) (now : Nat) (req : Bytes) (tmo : Option Nat)
    (hc : c.closed = true) :
    (opWrite P sc c now req tmo).1 = .connErr ∧ (opWrite P sc c now req tmo).2.1 = now ∧
    ((opRead P sc c now tmo).1 = .connErr ∨ (opRead P sc c now tmo).1 = .badFd) ∧ (opRead P sc c now tmo).2.1 = now := by
  have h1 : (sync P sc c now).closed = true := by unfold sync Conn.finishEnd; split <;> simp [hc]
  have h2 : (arm P sc c now).closed = true := by unfold arm; split <;> simp [hc]
  refine ⟨?_, ?_, ?_, ?_⟩
  · unfold opWrite; dsimp only; split <;> simp [h1, h2]
  · unfold opWrite; dsimp only; split <;> simp [h1, h2]
  · unfold opRead; dsimp only; simp only [h1, if_true]; split <;> simp
  · unfold opRead; dsimp only; simp [h1]

/-! ### the reconnect window and recovery -/

/-- line transports and HSFZ connect once: the reconnect succeeds iff the peer accepts at that moment -/
theorem reconnect_once (P : Proto Q) (sc : Scn) (w : World Q) (hk : P.kind ≠ .doip) :
    (∃ w2, wReconnect P sc w = .ok w2) ↔ accepts sc w w.now = true := by
  unfold wReconnect
  have : (P.kind == Kind.doip) = false := by simpa using hk
  simp only [this]
  constructor
  · intro ⟨w2, h⟩
    by_cases ha : accepts sc w w.now = true
    · exact ha
    · simp [ha] at h
  · intro ha; simp [ha]

/-- DoIP polls every 100 ms for 10 s: the reconnect succeeds iff the peer accepts at one of these instants -/
theorem reconnect_doip (P : Proto Q) (sc : Scn) (w : World Q) (hk : P.kind = .doip) :
    (∃ w2, wReconnect P sc w = .ok w2) ↔ ∃ k, k < 100 ∧ accepts sc w (w.now + pollStep * k) = true := by
  have hp : ∀ n t, (∃ t', poll sc w t n = some t') ↔ ∃ k, k ≤ n ∧ accepts sc w (t + pollStep * k) = true := by
    intro n
    induction n with
    | zero =>
      intro t
      simp only [poll]
      constructor
      · intro ⟨t', h⟩
        by_cases ha : accepts sc w t = true
        · exact ⟨0, Nat.le_refl _, by simpa using ha⟩
        · simp [ha] at h
      · intro ⟨k, hk, ha⟩
        have : k = 0 := by omega
        subst this
        simp only [Nat.mul_zero, Nat.add_zero] at ha
        simp [ha]
    | succ n ih =>
      intro t
      simp only [poll]
      by_cases ha : accepts sc w t = true
      · simp only [ha, if_true]
        exact ⟨fun _ => ⟨0, by omega, by simpa using ha⟩, fun _ => ⟨t, rfl⟩⟩
      · have ha' : accepts sc w t = false := by simpa using ha
        simp only [ha', Bool.false_eq_true, if_false]
        rw [ih (t + pollStep)]
        constructor
        · intro ⟨k, hk, h⟩
          exact ⟨k + 1, by omega, by rw [show t + pollStep * (k + 1) = t + pollStep + pollStep * k by simp only [pollStep]; omega]; exact h⟩
        · intro ⟨k, hk, h⟩
          cases k with
          | zero => simp at h; exact absurd h ha
          | succ k => exact ⟨k, by omega, by rw [show t + pollStep + pollStep * k = t + pollStep * (k + 1) by simp only [pollStep]; omega]; exact h⟩
  unfold wReconnect
  have : (P.kind == Kind.doip) = true := by simpa using hk
  simp only [this, if_true, doipWindow, show (10000 / pollStep - 1) = 99 by decide]
  constructor
  · intro ⟨w2, h⟩
    cases hpo : poll sc w w.now 99 with
    | none => rw [hpo] at h; cases h
    | some t' =>
      obtain ⟨k, hk, ha⟩ := (hp _ _).mp ⟨t', hpo⟩
      exact ⟨k, by omega, ha⟩
  · intro ⟨k, hk, ha⟩
    obtain ⟨t', ht'⟩ := (hp 99 w.now).mpr ⟨k, by omega, ha⟩
    rw [ht']; exact ⟨_, rfl⟩

/-- the next attempt recovers: the request meets the lost connection (connection error or end-of-stream), the client
    has at least one retry, and the peer accepts again inside the reconnect window that opens after the first backoff
    (`hrc`, characterised by `reconnect_once` / `reconnect_doip`).  Then `request()` returns the reply of the restarted
    peer, after exactly one reconnect and one retransmission on the new connection. -/
theorem recover (P : Proto Q) (sc : Scn) (rp : Reply) (cls : Bytes → Client.Ev) (c : CCfg) (req : Bytes)
    (w w1 w2 : World Q) (r : PRes)
    (hmr : 1 ≤ c.maxRetry) (hconns : 1 ≤ w.conns)
    (hreq : wRequest P sc rp w req c.tmo = (r, w1)) (hlost : r = .connErr ∨ r = .eos)
    (hrc : wReconnect P sc { w1 with now := w1.now + wait c 0 } = .ok w2)
    (hfinal : cls (rp w1.conns) = .posFinal) :
    (lossRun P sc rp cls c req w).1 = .reply (rp w1.conns) ∧
    (lossRun P sc rp cls c req w).2.conns = w1.conns + 1 ∧
    (lossRun P sc rp cls c req w).2.cur = w1.conns ∧
    (lossRun P sc rp cls c req w).2.sent = w1.sent ++ [(w1.conns, (lossRun P sc rp cls c req w).2.now)] := by
  have hw1c : w1.conns = w.conns := by
    unfold wRequest at hreq
    dsimp only at hreq
    split at hreq
    · injection hreq with _ h; rw [← h]
    · split at hreq <;> (injection hreq with _ h; rw [← h])
  -- the state after the reconnect
  have hw2 : w2.cur = w1.conns ∧ w2.conns = w1.conns + 1 ∧ w2.inbox = [] ∧ w2.sent = w1.sent := by
    unfold wReconnect at hrc
    dsimp only at hrc
    split at hrc
    · split at hrc
      · injection hrc with h; rw [← h]; simp
      · cases hrc
    · split at hrc
      · injection hrc with h; rw [← h]; simp
      · cases hrc
  obtain ⟨hcur, hcon, hin, hsent⟩ := hw2
  have hcur0 : w2.cur ≠ 0 := by omega
  -- first attempt: loss, backoff, reconnect
  have hstep0 : attemptStep P sc rp cls c req w 0 (.missing false) = .next w2 (.missing true) := by
    unfold attemptStep
    rw [hreq]
    have hal : afterLoss P sc c 0 w1 = .ok w2 := by
      unfold afterLoss; simp only [show 0 < c.maxRetry by omega, if_true]; exact hrc
    rcases hlost with rfl | rfl <;> simp [hal, Step.ofRc]
  -- second attempt on the healthy connection
  have hreq2 : wRequest P sc rp w2 req c.tmo =
      (.data (rp w1.conns), { w2 with sent := w2.sent ++ [(w2.cur, w2.now)], inbox := [] }) := by
    have hne : w1.conns ≠ 0 := by omega
    unfold wRequest
    simp [hin, hcur, hne]
  have hstep1 : attemptStep P sc rp cls c req w2 1 (.missing true) =
      .fin (.reply (rp w1.conns)) { w2 with sent := w2.sent ++ [(w2.cur, w2.now)], inbox := [] } := by
    unfold attemptStep
    rw [hreq2]
    simp [hfinal]
  have hrun : lossRun P sc rp cls c req w =
      (.reply (rp w1.conns), { w2 with sent := w2.sent ++ [(w2.cur, w2.now)], inbox := [] }) := by
    unfold lossRun
    rw [attempts, dif_neg (by omega), hstep0]
    simp only
    rw [attempts, dif_neg (by omega), hstep1]
  rw [hrun]
  simp [hcon, hcur, hsent]

/-! ### the client never blocks either -/

/-- a `transport.read(timeout)` in the world never blocks -/
theorem wRead_not_blocked (P : Proto Q) (sc : Scn) (w : World Q) (t : Nat) :
    (wRead P sc w (some t)).1 ≠ .blocked := by
  unfold wRead
  split
  · exact ((opRead_spec P sc w.c0 w.now (some t)).2.1 t rfl).2
  · split <;> simp

theorem wRequest_not_blocked (P : Proto Q) (sc : Scn) (rp : Reply) (w : World Q) (req : Bytes) (t : Nat) :
    (wRequest P sc rp w req (some t)).1 ≠ .blocked := by
  unfold wRequest
  dsimp only
  split
  · intro h
    have := (loss_bounded P sc w.c0 w.now req t).1
    rw [h] at this
    rcases this with h | h
    · exact absurd h (by simp [PRes.allowed])
    · cases h
  · split <;> simp

theorem pend_not_blocked (P : Proto Q) (sc : Scn) (cls : Bytes → Client.Ev) (c : CCfg) (w : World Q) (np nt : Nat) :
    ∀ w', pendLoop P sc cls c w np nt ≠ .done .blocked w' := by
  fun_induction pendLoop P sc cls c w np nt <;> intro w' <;> simp_all
  all_goals
    rename_i w0 _ _ _ h
    have := wRead_not_blocked P sc w0 c.lim.waiting
    rw [h] at this
    exact absurd rfl this

theorem step_not_blocked (P : Proto Q) (sc : Scn) (rp : Reply) (cls : Bytes → Client.Ev) (c : CCfg) (req : Bytes)
    (w : World Q) (i : Nat) (last : Out) (t : Nat) (ht : c.tmo = some t) :
    ∀ w', attemptStep P sc rp cls c req w i last ≠ .fin .blocked w' := by
  intro w'
  unfold attemptStep
  have hb := wRequest_not_blocked P sc rp w req t
  rw [← ht] at hb
  split
  · simp
  · unfold Step.ofRc; split <;> simp
  · unfold Step.ofRc; split <;> simp
  · split
    · split <;> simp
    · simp
    · simp
    · split
      · rename_i o w2 hp
        intro h
        injection h with h1 h2
        subst h1
        exact pend_not_blocked P sc cls c _ 1 0 _ hp
      · simp
      · unfold Step.ofRc; split <;> simp
    · simp
  · rename_i w1 h; rw [h] at hb; exact absurd rfl hb
  · rename_i r w1 h1 h2 h3 h4 h5 h6
    intro h
    injection h with h _
    cases h

theorem step_next_last (P : Proto Q) (sc : Scn) (rp : Reply) (cls : Bytes → Client.Ev) (c : CCfg) (req : Bytes)
    (w w1 : World Q) (i : Nat) (last l : Out) (h : attemptStep P sc rp cls c req w i last = .next w1 l) :
    l = last ∨ ∃ b, l = .missing b := by
  unfold attemptStep Step.ofRc at h
  repeat' split at h
  all_goals (try cases h)
  all_goals first | exact .inl rfl | exact .inr ⟨_, rfl⟩

/-- client level: with a client timeout `request()` never blocks forever, whatever the peer does, for every
    max_retry, every scenario and every world state -/
theorem client_never_blocks (P : Proto Q) (sc : Scn) (rp : Reply) (cls : Bytes → Client.Ev) (c : CCfg) (req : Bytes)
    (w : World Q) (t : Nat) (ht : c.tmo = some t) : (lossRun P sc rp cls c req w).1 ≠ .blocked := by
  have key : ∀ (w : World Q) (i : Nat) (last : Out), last ≠ .blocked →
      (attempts P sc rp cls c req w i last).1 ≠ .blocked := by
    intro w i last
    fun_induction attempts P sc rp cls c req w i last with
    | case1 w i last h => intro hl; exact hl
    | case2 w i last h o w1 hs =>
      intro _ hb
      simp only at hb
      subst hb
      exact step_not_blocked P sc rp cls c req w i last t ht w1 hs
    | case3 w i last h w1 l hs ih =>
      intro hl
      apply ih
      rcases step_next_last P sc rp cls c req w w1 i last l hs with rfl | ⟨b, rfl⟩
      · exact hl
      · simp
  exact key w 0 (.missing false) (by simp)

/-! ### the death / end-of-stream side of the C06 and C07 connection models -/

/-- C06 model (`Doip.block`): when the reader task dies (malformed frame, EOF, reset) while a consumer is blocked on the
    queue and the awaited frame has not arrived, the consumer ends with a connection error at that very moment - not
    at its deadline, and also when it has no deadline worth speaking of -/
theorem doip_death_wakes (c : Doip.Cfg) (p : Doip.Frame → Bool) (d : Nat) (s : Doip.St) (e : Doip.Ev)
    (es : List Doip.Ev) (ht : e.t < d) (hdied : e.died = true)
    (hq : DoipFifo.findSplit p (s.queue ++ e.frames) = none) :
    (Doip.block c p d s (e :: es)).1 = .conn ∧ (Doip.block c p d s (e :: es)).2.1.now = max s.now e.t ∧
    (Doip.block c p d s (e :: es)).2.1.closed = true := by
  have h1 : ¬ d ≤ e.t := by omega
  have hq' : DoipFifo.findSplit p (s.absorb c e).queue = none := hq
  simp [Doip.block, h1, hdied, Doip.St.absorb, hq]

/-- C07 model (`Hsfz.execOp .eof`): when the stream ends while a read is blocked on the queue, the read ends with
    `BrokenPipeError` at that moment, whatever its timeout - also without one -/
theorem hsfz_eof_wakes (cfg : Hsfz.Cfg) (yields : Hsfz.Wire → Bool) (s : Hsfz.Sys) (sk : List Hsfz.Item)
    (c : Option Nat) (hcl : s.client = .reading sk c) :
    (Hsfz.execOp cfg yields s .eof).client = .idle ∧
    (Hsfz.execOp cfg yields s .eof).done = s.done ++ [(s.now, .peerClosed)] ∧
    (Hsfz.execOp cfg yields s .eof).closed = s.closed := by
  simp [Hsfz.execOp, Hsfz.wake, hcl, Hsfz.Sys.finish]

/-- … and a write waiting for its acknowledgement likewise, keeping the frames it had skipped (`behind`: frames a read
    re-appended after an earlier end of stream; empty when the stream ends for the first time) -/
theorem hsfz_eof_wakes_ack_wait (cfg : Hsfz.Cfg) (yields : Hsfz.Wire → Bool) (s : Hsfz.Sys) (prev : Bytes)
    (sk : List Hsfz.Item) (a : Nat) (c : Option Nat) (hcl : s.client = .ackWait prev sk a c) :
    (Hsfz.execOp cfg yields s .eof).client = .idle ∧
    (Hsfz.execOp cfg yields s .eof).done = s.done ++ [(s.now, .peerClosed)] ∧
    (Hsfz.execOp cfg yields s .eof).queue = sk ++ s.queue ++ s.behind := by
  simp [Hsfz.execOp, Hsfz.wake, hcl, Hsfz.Sys.finish]

/-- after the end of the stream no HSFZ operation is left blocked: a read or write issued then ends at once
    (data / acknowledgement still queued, or `BrokenPipeError`) -/
theorem hsfz_after_eof_never_blocked (cfg : Hsfz.Cfg) (yields : Hsfz.Wire → Bool) (s : Hsfz.Sys)
    (hi : s.client = .idle) (he : s.eof = true) (t : Option Nat) (data : Bytes) :
    (Hsfz.execOp cfg yields s (.read t)).client = .idle ∧ (Hsfz.execOp cfg yields s (.write data t)).client = .idle := by
  have hw : ∀ u : Hsfz.Sys, u.eof = true → (Hsfz.wake u).client = .idle := by
    intro u hu
    unfold Hsfz.wake
    simp only [hu, if_true]
    cases hc : u.client <;> simp [Hsfz.Sys.finish, hc]
  constructor
  · simp only [Hsfz.execOp, hi, Hsfz.isIdle, Bool.not_true, Bool.false_eq_true, if_false]
    split
    · simp [hi]
    · exact hw _ (by rw [Hsfz.clientRun_eof cfg]; exact he)
  · simp only [Hsfz.execOp, hi, Hsfz.isIdle, Bool.not_true, Bool.false_eq_true, if_false]
    split
    · simp [hi]
    · exact hw _ (by rw [Hsfz.clientRun_eof cfg]; exact he)

/-! ### non-vacuity: concrete scenarios (tcp-lines; the peer's reply `62 f1 90 00` is the line `3632663139303030\n`) -/

/-- the peer closes 70 ms after the request, in the middle of the reply line; it accepts again at once -/
def exScn : Scn := { pre := [0x36, 0x32, 0x66, 0x31], cut := .eof, delta := some 70, restart := 0 }
def exReq : Bytes := [0x22, 0xF1, 0x90]
def exReply : Reply := fun idx => [0x62, 0xF1, 0x90, UInt8.ofNat idx]
def exCls (d : Bytes) : Client.Ev := match d with | 0x62 :: _ => .posFinal | _ => .mismatch
def exCfg : CCfg := { maxRetry := 1, tmo := some 500, lim := Client.Limits.std }
def exWorld : World Bytes := { World.init linesProto exScn 0 with now := 100 }

-- the pending request ends with end-of-stream at the moment of the event (t = 170 ≤ 100 + 500), not with `62 f1`
example : (opRequest linesProto exScn exWorld.c0 100 exReq (some 500)).1 = .eos ∧
    (opRequest linesProto exScn exWorld.c0 100 exReq (some 500)).2.1 = 170 := by decide
-- a reset at the same cut point is a connection error; silence is the caller's timeout at 600
example : (opRequest linesProto { exScn with cut := .reset } exWorld.c0 100 exReq (some 500)).1 = .connErr := by decide
example : (opRequest linesProto { exScn with cut := .silence } exWorld.c0 100 exReq (some 500)).1 = .timeout ∧
    (opRequest linesProto { exScn with cut := .silence } exWorld.c0 100 exReq (some 500)).2.1 = 600 := by decide
-- a cut after the newline delivers the message
example : (opRequest linesProto { exScn with pre := [0x36, 0x32, 0x0A] } exWorld.c0 100 exReq (some 500)).1 = .data [0x62] := by
  decide
-- the hypotheses of `recover` hold in this scenario, and its conclusion is the restarted peer's reply `62 f1 90 01`
example : (lossRun linesProto exScn exReply exCls exCfg exReq exWorld).1 = .reply [0x62, 0xF1, 0x90, 0x01] := by
  have hr : (wRequest linesProto exScn exReply exWorld exReq exCfg.tmo).1 = .eos := by decide
  have hacc : accepts exScn { (wRequest linesProto exScn exReply exWorld exReq exCfg.tmo).2 with
      now := (wRequest linesProto exScn exReply exWorld exReq exCfg.tmo).2.now + wait exCfg 0 }
      ((wRequest linesProto exScn exReply exWorld exReq exCfg.tmo).2.now + wait exCfg 0) = true := by decide
  obtain ⟨w2, h2⟩ := (reconnect_once linesProto exScn _ (by decide)).mpr hacc
  have := recover linesProto exScn exReply exCls exCfg exReq exWorld _ w2 _ (by decide) (by decide) rfl (.inr hr) h2 (by decide)
  exact this.1
-- with a restart delay of 3 s the single connection attempt of a line transport is refused
example : ¬ ∃ w2, wReconnect linesProto { exScn with restart := 3000 }
    { (wRequest linesProto { exScn with restart := 3000 } exReply exWorld exReq exCfg.tmo).2 with now := 370 } = .ok w2 := by
  rw [reconnect_once _ _ _ (by decide)]; decide
-- hypotheses of `loss_bounded_no_timeout` are satisfiable (eof, connection state of `Conn.init`)
example : exScn.cut ≠ .silence ∧ (exScn.delta.isSome = false → exWorld.c0.ended = true) := by decide

/-! ### whole executions (`Model/LossSys.lean`): any event list, any `max_retry`

  The theorems below are stated for one client call issued in ANY state `s` (whatever the events before it made of the
  connection, the listener and the peer) against ANY rest `es` of the event list (whatever the peer does while the call
  runs: deliver any bytes, cut, refuse / accept connections, lose routing activations, let time pass) - which is every
  call of every execution `LossSys.run` of every event list. -/

section Sys
open Gallia.LossSys (SProto Sys SEv PEv PConn)

/-- every call with a caller timeout `t` returns or raises - for every `max_retry = n`, every state, every event list -
    within `callBudget`: per attempt `min t ack + t` (acknowledgement, first reply), the ResponsePending loop
    (`pendBudget`), and per retry the backoff `retry_wait * 2^i` plus the reconnect window (10 s DoIP, one connection
    attempt otherwise: set-up of the reconnect included) -/
theorem sys_every_call_ends (P : SProto Q) (cls : Bytes → Client.Ev) (c : LossSys.CCfg) (req : Bytes) (t : Nat)
    (s : Sys Q) (es : List SEv) :
    (LossSys.request P cls c req (some t) s es).1 ≠ .blocked ∧
    (LossSys.request P cls c req (some t) s es).2.1.now ≤ s.now + LossSys.callBudget P c.lim t true c.maxRetry 0 := by
  have := LossSys.attempts_spec P cls c.lim req t true (by simp) c.maxRetry 0 s es (.missing false) (by simp)
  exact ⟨this.1, this.2.1⟩

/-- the exact bound when the peer sends no ResponsePending: `(n+1) * (min t ack + t)` plus, per retry `i < n`,
    `retry_wait * 2^i + window`; attained by a peer that stays silent (examples below) -/
theorem sys_every_call_ends_exact (P : SProto Q) (cls : Bytes → Client.Ev) (hnp : ∀ d, cls d ≠ .pending) (c : LossSys.CCfg)
    (req : Bytes) (t : Nat) (s : Sys Q) (es : List SEv) :
    (LossSys.request P cls c req (some t) s es).2.1.now ≤ s.now + LossSys.callBudget P c.lim t false c.maxRetry 0 := by
  have := LossSys.attempts_spec P cls c.lim req t false (fun _ => hnp) c.maxRetry 0 s es (.missing false) (by simp)
  exact this.2.1

/-- the closed form of the exact bound -/
theorem callBudget_closed (P : SProto Q) (lim : Client.Limits) (t k i : Nat) :
    LossSys.callBudget P lim t false k i =
      (k + 1) * (min t P.ackTime + t) + k * LossSys.window P + (List.range k).foldr (fun j a => LossSys.waitMs lim (i + j) + a) 0 := by
  induction k generalizing i with
  | zero => simp [LossSys.callBudget, LossSys.attemptBudget]
  | succ k ih =>
    simp only [LossSys.callBudget, LossSys.attemptBudget, ih, Bool.false_eq_true, if_false, if_true]
    rw [List.range_succ_eq_map, List.foldr_cons, List.foldr_map]
    simp only [Nat.add_zero, Nat.succ_mul, Nat.add_assoc, Nat.add_comm 1]
    have : ∀ j, LossSys.waitMs lim (i + (j + 1)) = LossSys.waitMs lim (i + 1 + j) := by intro j; congr 1; omega
    simp only [this]
    omega

/-- the request is written exactly once per attempt, on the connection the transport holds when the attempt starts -/
theorem sys_retries_exact_attempt (P : SProto Q) (cls : Bytes → Client.Ev) (lim : Client.Limits) (req : Bytes) (t : Nat)
    (retry : Bool) (i : Nat) (s : Sys Q) (es : List SEv) (last : Out) :
    (LossSys.attemptStep P cls lim req (some t) retry i s es last).sys.wire = s.wire ++ [(s.conn.idx, s.now, req)] :=
  (LossSys.attemptStep_spec P cls lim req t retry i s es last true (by simp)).2.1

/-- a call with `max_retry = n` writes the request at least once and at most `n + 1` times -/
theorem sys_retries_exact (P : SProto Q) (cls : Bytes → Client.Ev) (c : LossSys.CCfg) (req : Bytes) (t : Nat)
    (s : Sys Q) (es : List SEv) :
    s.wire.length + 1 ≤ (LossSys.request P cls c req (some t) s es).2.1.wire.length ∧
    (LossSys.request P cls c req (some t) s es).2.1.wire.length ≤ s.wire.length + c.maxRetry + 1 := by
  have := LossSys.attempts_spec P cls c.lim req t true (by simp) c.maxRetry 0 s es (.missing false) (by simp)
  exact this.2.2

/-- close is idempotent in every state -/
theorem sys_close_idempotent (s : Sys Q) : LossSys.closeConn (LossSys.closeConn s) = LossSys.closeConn s := rfl

/-- recovery, for every `max_retry = k + 1 ≥ 1`: when the loss surfaces in the first attempt as a connection error or
    end-of-stream (`hloss`) and the peer accepts connections again by the end of the backoff, answers routing
    activations and answers the request (`Answers`: acknowledged and read as the message `d`, a final reply), the call
    returns exactly that reply, through exactly one new connection - whatever state the loss left behind -/
theorem sys_recovers (P : SProto Q) (cls : Bytes → Client.Ev) (lim : Client.Limits) (req : Bytes) (tmo : Option Nat) (k : Nat)
    (s : Sys Q) (es : List SEv) (r : PRes) (s1 : Sys Q) (es1 : List SEv) (b d : Bytes)
    (hloss : LossSys.opRequest P s es req tmo = (r, s1, es1)) (hr : r = .connErr ∨ r = .eos)
    (hup : s1.up = true) (hsrv : s1.serve = some b) (hra : s1.raOn = true) (hq : LossSys.Quiet es1)
    (ha : LossSys.Answers P req b d) (hd : d ≠ []) (hcls : cls d = .posFinal) :
    (LossSys.request P cls { maxRetry := k + 1, lim } req tmo s es).1 = .reply d ∧
    (LossSys.request P cls { maxRetry := k + 1, lim } req tmo s es).2.1.nconn = s1.nconn + 1 :=
  LossSys.recovers P cls lim req tmo k s es r s1 es1 b d hloss hr hup hsrv hra hq ha hd hcls

/-- close is harmless: after `close()` - once or twice, in any state, also after a loss - the next request with
    `max_retry ≥ 1` reconnects and returns the peer's reply (close, then reconnect, then request works) -/
theorem sys_close_harmless (P : SProto Q) (cls : Bytes → Client.Ev) (lim : Client.Limits) (req : Bytes) (tmo : Option Nat) (k : Nat)
    (s : Sys Q) (es : List SEv) (b d : Bytes)
    (hup : s.up = true) (hsrv : s.serve = some b) (hra : s.raOn = true) (hq : LossSys.Quiet es)
    (ha : LossSys.Answers P req b d) (hd : d ≠ []) (hcls : cls d = .posFinal) :
    LossSys.closeConn (LossSys.closeConn s) = LossSys.closeConn s ∧
    (LossSys.request P cls { maxRetry := k + 1, lim } req tmo (LossSys.closeConn s) es).1 = .reply d ∧
    (LossSys.request P cls { maxRetry := k + 1, lim } req tmo (LossSys.closeConn s) es).2.1.nconn = s.nconn + 1 := by
  refine ⟨rfl, ?_⟩
  have h := LossSys.recovers P cls lim req tmo k _ es .connErr _ es b d
    (LossSys.opRequest_closed P (LossSys.closeConn s) es req tmo rfl) (.inl rfl) hup hsrv hra hq ha hd hcls
  exact h

/-- a backlog of any length never hides the end of the stream: once the peer has closed / reset the connection (or the
    transport is closed) every transport read returns at once - a queued message, end-of-stream or a connection error,
    never a timeout, never blocked - with or without caller timeout -/
theorem sys_backlog_read_ends (P : SProto Q) (s : Sys Q) (es : List SEv) (tmo : Option Nat)
    (h : s.conn.closed = true ∨ s.conn.streamEnded = true) :
    (LossSys.opRead P s es tmo).1 ≠ .blocked ∧ (LossSys.opRead P s es tmo).1 ≠ .timeout ∧
    (LossSys.opRead P s es tmo).2.1.now = s.now ∧ (LossSys.opRead P s es tmo).2.2 = es :=
  LossSys.opRead_ended P s es tmo h

-- `Answers` is satisfiable: the line `62 01` answers on a line transport
example : LossSys.Answers LossSys.linesS exReq [0x36, 0x32, 0x30, 0x31, 0x0A] [0x62, 0x01] :=
  fun _ => ⟨_, _, rfl, rfl, rfl⟩

/-- no fabrication over whole executions: whatever `request()` returns is the payload of a message that was completely
    received on connection `j` (`FromConn`: it lies in the queue that connection has after peer deliveries on it), and
    `j` is the connection the last write of the request went out on - the write of the attempt that returned it.  Every
    reconnect starts from an empty queue and an empty reader buffer (`sys_retries_exact_conn`), so nothing received
    before a reconnect is ever returned.  What the code does NOT guarantee - and the model shows (example below) - is
    that the message was sent after the request: a late reply to an earlier, timed-out request on the SAME connection
    is handed to the next request (and returned when it matches the request's service). -/
theorem sys_no_fabrication (P : SProto Q) (hP : Laws P.toProto) (cls : Bytes → Client.Ev) (c : LossSys.CCfg) (req : Bytes) (t : Nat)
    (s : Sys Q) (es : List SEv) (d : Bytes) (h : (LossSys.request P cls c req (some t) s es).1 = .reply d) :
    ∃ j tw w0, LossSys.FromConn P j d ∧ (LossSys.request P cls c req (some t) s es).2.1.wire = w0 ++ [(j, tw, req)] :=
  LossSys.attempts_origin P hP cls c.lim req t c.maxRetry 0 s es (.missing false) (by simp) d h

/-- one attempt: a reply is read on the connection the attempt wrote the request to, with no reconnect in between -/
theorem sys_no_fabrication_attempt (P : SProto Q) (hP : Laws P.toProto) (cls : Bytes → Client.Ev) (lim : Client.Limits)
    (req : Bytes) (tmo : Option Nat) (retry : Bool) (i : Nat) (s : Sys Q) (es : List SEv) (last : Out) (d : Bytes)
    (s1 : Sys Q) (es1 : List SEv) (h : LossSys.attemptStep P cls lim req tmo retry i s es last = .fin (.reply d) s1 es1) :
    LossSys.Same s s1 ∧ LossSys.FromConn P s.conn.idx d :=
  (LossSys.attemptStep_conn P hP cls lim req tmo retry i s es last).1 d s1 es1 h

/-- the attempts of a call and their connections: an attempt that is followed by another one either left the
    connection alone (timeout, busy: `Same` - the next write goes out on the same connection, no connection opened) or
    ended with a loss that surfaced as ConnectionError / end-of-stream (`missing true`) and was followed by exactly one
    reconnect: the next attempt runs on the newest connection, opened after the loss, with an empty queue and buffer;
    an attempt that ended in a timeout (`missing false`) never reconnects -/
theorem sys_retries_exact_conn (P : SProto Q) (hP : Laws P.toProto) (cls : Bytes → Client.Ev) (lim : Client.Limits)
    (req : Bytes) (tmo : Option Nat) (retry : Bool) (i : Nat) (s : Sys Q) (es : List SEv) (last : Out) :
    (∀ s1 es1 l, LossSys.attemptStep P cls lim req tmo retry i s es last = .next s1 es1 l →
      LossSys.Same s s1 ∨ (l = .missing true ∧ retry = true ∧ LossSys.Renewed P s s1)) ∧
    (∀ s1 es1, LossSys.attemptStep P cls lim req tmo retry i s es last = .next s1 es1 (.missing false) → LossSys.Same s s1) :=
  (LossSys.attemptStep_conn P hP cls lim req tmo retry i s es last).2

/-- what `sys_every_call_ends` says about one observation of an execution -/
def GoodObs (P : SProto Q) (c : LossSys.CCfg) : LossSys.Obs → Prop
  | .req o (some t) t0 t1 _ => o ≠ .blocked ∧ t1 ≤ t0 + LossSys.callBudget P c.lim t true c.maxRetry 0
  | .rd r (some t) t0 t1 => r ≠ .blocked ∧ t1 ≤ t0 + t
  | _ => True

/-- whole executions: for every event list (and every start state) every `request()` issued with a caller timeout `t`
    returns or raises within `callBudget`, and every transport read with a timeout within that timeout -/
theorem sys_run_calls_end (P : SProto Q) (cl : Bytes → Client.Ev) (c : LossSys.CCfg) (fuel : Nat)
    (s : Sys Q) (es : List SEv) (acc : List LossSys.Obs) (hacc : ∀ o ∈ acc, GoodObs P c o) :
    ∀ o ∈ (LossSys.run P cl c fuel s es acc).2, GoodObs P c o := by
  induction fuel generalizing s es acc with
  | zero => simpa [LossSys.run] using hacc
  | succ n ih =>
    cases es with
    | nil => simpa [LossSys.run] using hacc
    | cons e es =>
      unfold LossSys.run
      have hext : ∀ (x : LossSys.Obs), GoodObs P c x → ∀ o ∈ acc ++ [x], GoodObs P c o := by
        intro x hx o ho
        rcases List.mem_append.mp ho with h | h
        · exact hacc o h
        · simp only [List.mem_singleton] at h; subst h; exact hx
      cases e with
      | peer pe => exact ih _ _ _ hacc
      | close => exact ih _ _ _ (hext _ trivial)
      | reconnect => exact ih _ _ _ (hext _ trivial)
      | read tmo =>
        have hg : GoodObs P c (.rd (LossSys.opRead P s es tmo).1 tmo s.now (LossSys.opRead P s es tmo).2.1.now) := by
          cases tmo with
          | none => trivial
          | some t => exact LossSys.opRead_time P s es t
        simp only
        split
        · exact hext _ hg
        · exact ih _ _ _ (hext _ hg)
      | request d tmo =>
        have hg : GoodObs P c (.req (LossSys.request P cl c d tmo s es).1 tmo s.now (LossSys.request P cl c d tmo s es).2.1.now
            (LossSys.request P cl c d tmo s es).2.1.nconn) := by
          cases tmo with
          | none => trivial
          | some t => exact sys_every_call_ends P cl c d t s es
        simp only
        split
        · exact hext _ hg
        · exact ih _ _ _ (hext _ hg)

/-- the three transports satisfy the hypothesis of the no-fabrication theorems -/
theorem sys_laws : Laws LossSys.linesS.toProto ∧ (∀ cfg, Laws (LossSys.doipS cfg).toProto) ∧ (∀ cfg, Laws (LossSys.hsfzS cfg).toProto) :=
  ⟨linesLaws, doipLaws, hsfzLaws⟩

/-! examples: the hypotheses are satisfiable and the exact bound is attained -/

theorem exCls_no_pending : ∀ d, exCls d ≠ .pending := by intro d; unfold exCls; split <;> simp

def exSys : Sys Bytes := LossSys.Sys.init LossSys.linesS
def exC (n : Nat) : LossSys.CCfg := { maxRetry := n, lim := Client.Limits.std }

-- a silent peer on a line transport, max_retry = 2, timeout 500 ms: three attempts on the same connection, the call
-- ends at exactly 3 * 500 + 200 + 400 = 2100 ms = the bound; three writes of the request, one connection
example : (LossSys.request LossSys.linesS exCls (exC 2) exReq (some 500) exSys []).2.1.now = 2100 ∧
    LossSys.callBudget LossSys.linesS Client.Limits.std 500 false 2 0 = 2100 ∧
    (LossSys.request LossSys.linesS exCls (exC 2) exReq (some 500) exSys []).1 = .missing false ∧
    (LossSys.request LossSys.linesS exCls (exC 2) exReq (some 500) exSys []).2.1.wire = [(0, 0, exReq), (0, 700, exReq), (0, 1600, exReq)] ∧
    (LossSys.request LossSys.linesS exCls (exC 2) exReq (some 500) exSys []).2.1.nconn = 1 := by decide
-- the peer closes 70 ms after the request and accepts again: the second attempt goes out on connection #1 after the
-- backoff and returns the reply the peer sends there; the bytes of connection #0 (`62 f1` without newline) are gone
example : (LossSys.request LossSys.linesS exCls (exC 1) exReq (some 500) exSys
      [.peer (.advance 70), .peer (.deliver [0x36, 0x32, 0x66, 0x31]), .peer (.cut .eof), .peer (.advance 250),
       .peer (.deliver [0x36, 0x32, 0x30, 0x31, 0x0A])]).1 = .reply [0x62, 0x01] := by decide
-- max_retry = 0: the same loss ends the call with MissingResponse(cause = connection error) - no recovery
example : (LossSys.request LossSys.linesS exCls (exC 0) exReq (some 500) exSys
      [.peer (.advance 70), .peer (.cut .eof), .peer (.advance 250), .peer (.deliver [0x36, 0x32, 0x0A])]).1 = .missing true := by
  decide
-- a stale reply IS handed to the next request on the same connection (what the code does): the reply to the request
-- that timed out arrives late and is returned to the follow-up request
example : (LossSys.run LossSys.linesS exCls (exC 0) 10 exSys
      [.request exReq (some 500), .peer (.advance 600), .peer (.deliver [0x36, 0x32, 0x0A]), .request exReq (some 500)] []).2.map
      (fun | .req o _ _ _ _ => some o | _ => none) = [some (.missing false), some (.reply [0x62])] := by decide

-- `GoodObs` is not vacuous: the observations of the run with the late reply above
example : ∀ o ∈ (LossSys.run LossSys.linesS exCls (exC 0) 10 exSys
      [.request exReq (some 500), .peer (.advance 600), .peer (.deliver [0x36, 0x32, 0x0A]), .request exReq (some 500)] []).2,
    GoodObs LossSys.linesS (exC 0) o :=
  sys_run_calls_end LossSys.linesS exCls (exC 0) 10 exSys _ [] (by simp)

end Sys

/-! ### several pending readers at the moment of the loss (Model/LossPend.lean) -/
section Pend
open Gallia.LossPend

/-- the outcome list names the readers in start order: every pending reader - any number k of them - gets an outcome -/
theorem pend_all_readers_accounted (fl : Flavor) (n D : Nat) (loss : Option Nat) (j : Nat) (rs : List Rd) :
    (outcomes fl n D loss j rs).map Prod.fst = rs := by
  induction rs generalizing j with
  | nil => simp [outcomes]
  | cons r rs ih =>
    unfold outcomes
    split <;> simp [ih]

/-- "never blocks forever", for any number of pending readers of any kind, with or without caller timeout, on every
    flavour of connection, any number of queued messages: once the connection is lost (eof / reset / ack timeout / close,
    at time `l`, after the delivery at `D`) EVERY pending read ends - no later than the loss, and no later than its own
    caller timeout -/
theorem pend_every_reader_ends (fl : Flavor) (n D l : Nat) (hD : D ≤ l) (j : Nat) (rs : List Rd) :
    ∀ p ∈ outcomes fl n D (some l) j rs,
      p.2.res ≠ .blocked ∧ p.2.t ≤ l ∧ (∀ d, p.1.tmo = some d → p.2.t ≤ d) := by
  induction rs generalizing j with
  | nil => simp [outcomes]
  | cons r rs ih =>
    intro p hp
    unfold outcomes at hp
    split at hp
    · rename_i hc
      rcases List.mem_cons.mp hp with rfl | hp
      · refine ⟨by simp, hD, ?_⟩
        intro d hd
        have hd2 : r.tmo = some d := hd
        simp only [Bool.and_eq_true, waitsAt, hd2, decide_eq_true_eq] at hc
        show D ≤ d
        omega
      · exact ih _ p hp
    · rcases List.mem_cons.mp hp with rfl | hp
      · cases ht : r.tmo with
        | none => simp [ending, ht]
        | some d =>
          simp only [ending, ht]
          split <;> simp <;> omega
      · exact ih _ p hp

/-- with a caller timeout a pending read ends by that timeout whatever the peer does (also when it stays silent for ever);
    only a read without caller timeout on a connection that is never lost may wait for ever -/
theorem pend_timeout_bounds (fl : Flavor) (n D : Nat) (loss : Option Nat) (j : Nat) (rs : List Rd) :
    ∀ p ∈ outcomes fl n D loss j rs, ∀ d, p.1.tmo = some d → p.2.res ≠ .blocked ∧ p.2.t ≤ d := by
  induction rs generalizing j with
  | nil => simp [outcomes]
  | cons r rs ih =>
    intro p hp d hd
    unfold outcomes at hp
    split at hp
    · rename_i hc
      rcases List.mem_cons.mp hp with rfl | hp
      · have hd2 : r.tmo = some d := hd
        simp only [Bool.and_eq_true, waitsAt, hd2, decide_eq_true_eq] at hc
        refine ⟨by simp, ?_⟩
        show D ≤ d
        omega
      · exact ih _ p hp d hd
    · rcases List.mem_cons.mp hp with rfl | hp
      · simp only at hd
        cases loss with
        | none => simp [ending, hd]
        | some l =>
          simp only [ending, hd]
          split <;> simp <;> omega
      · exact ih _ p hp d hd

/-- no fabricated data: a reader only ever returns one of the `n` messages the peer delivered, and only a reader that
    reads the queue the message was put in and was still waiting when it arrived -/
theorem pend_no_fabrication (fl : Flavor) (n D : Nat) (loss : Option Nat) (j : Nat) (rs : List Rd) :
    ∀ p ∈ outcomes fl n D loss j rs, ∀ i, p.2.res = .data i →
      j ≤ i ∧ i < n ∧ p.2.t = D ∧ eligible fl p.1.op = true ∧ waitsAt p.1 D = true := by
  induction rs generalizing j with
  | nil => simp [outcomes]
  | cons r rs ih =>
    intro p hp i hi
    unfold outcomes at hp
    split at hp
    · rename_i hc
      simp only [Bool.and_eq_true, decide_eq_true_eq] at hc
      rcases List.mem_cons.mp hp with rfl | hp
      · simp only [Res.data.injEq] at hi
        subst hi
        exact ⟨Nat.le_refl _, hc.2, rfl, hc.1.1, hc.1.2⟩
      · have := ih _ p hp i hi
        exact ⟨by omega, this.2⟩
    · rcases List.mem_cons.mp hp with rfl | hp
      · exfalso
        revert hi
        simp only [ending]
        split <;> (try split) <;> simp
      · exact ih _ p hp i hi

-- not vacuous: three readers on the separate diagnostic-message queue (two without caller timeout), one message, the
-- loss at 1000 ms: the first gets the message, the second times out, the third AND the `read_frame` reader end at the loss
example : (outcomes .doipSep 1 150 (some 1000) 0
      [⟨.diag, none⟩, ⟨.diag, some 700⟩, ⟨.diag, none⟩, ⟨.frame, none⟩]).map Prod.snd
    = [⟨.data 0, 150⟩, ⟨.timeout, 700⟩, ⟨.conn, 1000⟩, ⟨.conn, 1000⟩] := by decide
-- the peer stays silent: exactly the readers without caller timeout wait for ever
example : (outcomes .hsfz 0 0 none 0 [⟨.diag, none⟩, ⟨.frame, some 300⟩]).map Prod.snd
    = [⟨.blocked, 0⟩, ⟨.timeout, 300⟩] := by decide

end Pend

end Gallia.C08
