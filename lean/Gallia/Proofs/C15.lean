import Gallia.Proofs.Lemmas.Lifecycle
import Gallia.Gen.C15Exit
/-
  C15 — Every run leaves a consistent exit code, META.json, log file and database record.

  Property theorems only; helper lemmas are in `Proofs/Lemmas/Lifecycle.lean`.
  All theorems quantify over every configuration `c : Cfg` (command kind x lock x artifacts x database x hooks) and
  every script `s : Script` (hook scripts ok / failing; database opens / cannot be opened; at each of setup, main, teardown-before-super,
  teardown-after-super: return, `sys.exit(n)` for every n, `sys.exit(non-int)`, connection / UDS / other error,
  KeyboardInterrupt, cancellation of the main task) - no bounds.
-/
namespace Gallia.C15
open Gallia.Lifecycle Gallia.Lifecycle.Spec

/-! ## (T) the model's tables are the ones in the source -/

/-- exit code constants: `exitcodes.OK/SOFTWARE/IOERR`, `128 + signal.SIGINT` -/
theorem exit_constants_agree :
    (Gen.C15Exit.OK, Gen.C15Exit.SOFTWARE, Gen.C15Exit.IOERR, Gen.C15Exit.SIGINT_EXIT) =
      (OK, SOFTWARE, IOERR, SIGINT_EXIT) := by decide

/-- the `except` clauses of `entry_point` (AST): classes and bodies, in source order -/
theorem ladder_agrees : Gen.C15Exit.ladder = ladderNames {} := by decide

/-- which clause catches what, by `issubclass` on the live exception classes, is what `dispatch` computes -/
theorem first_match_agrees :
    Gen.C15Exit.firstMatch =
      [ExcType.keyboardInterrupt, .systemExit, .exception, .cancelledError].map fun t =>
        (t.genName, (ladder {}).findIdx? fun p => decide (t ∈ p.1)) := by decide

/-- statement order of `entry_point` (AST) is the order in which `entryPointQ` performs its steps -/
theorem steps_agree : Gen.C15Exit.steps = modelSteps := by decide

/-- `AsyncScript.run` is `setup(); try: main() finally: teardown()` -/
theorem run_shape_agrees : Gen.C15Exit.runShape = modelRunShape := by decide

/-- `CATCHED_EXCEPTIONS` of the three command base classes over the partition connection / UDS / other -/
theorem catched_agrees :
    (Gen.C15Exit.catchedPlain, Gen.C15Exit.catchedScanner, Gen.C15Exit.catchedUds) =
      ((catched .plain).map ErrClass.name, (catched .scanner).map ErrClass.name, (catched .uds).map ErrClass.name) := by
  decide

/-- the repaired behaviours are still repaired in the source: `Scanner.teardown` does not disconnect the database,
    `run_hook` reads no name that is unbound when the script fails, `DBHandler.connect` cleans up after a failed open
    (that `_db_insert_run_meta()` sits inside the `try:` is part of `steps_agree`) -/
theorem quirks_agree :
    (Gen.C15Exit.scannerTeardownDisconnectsDb, Gen.C15Exit.hookUnboundNames.isEmpty,
        Gen.C15Exit.dbConnectClosesOnFailure) =
      (({} : Quirks).scannerDisconnect, !({} : Quirks).hookUnbound, !({} : Quirks).dbOpenUnguarded) := by decide

/-! ## the headline theorems -/

/-- `entry_point()` always returns (nothing escapes), and the code follows the documented mapping:
    0 / n / 70 for a non-int `sys.exit` / 74 for an error the command declares as expected, else 70 / 130 for
    KeyboardInterrupt and for cancellation — decided by the exception that Python's try/finally rules let out of
    `setup(); try: main() finally: teardown()` (a database that cannot be opened counts as an unexpected error) -/
theorem exit_mapping (c : Cfg) (s : Script) :
    (entryPoint c s).exit = .ret (match ended c s with
      | none => 0
      | some (.sysExit n) => n
      | some .sysExitOther => 70
      | some (.err e) => if e ∈ catched c.kind then 74 else 70
      | some .kbd => 130
      | some .cancelled => 130) := by
  rw [(entryPoint_fields c s).1]
  simp only [code]
  rcases ended c s with _ | (n | _ | e | _ | _) <;> simp [exitOf]

/-- META.json exists exactly when an artifacts directory is configured and carries the returned exit code -/
theorem meta_agrees (c : Cfg) (s : Script) :
    (c.art = true → ∃ m, (entryPoint c s).metaFile = some m ∧ (entryPoint c s).exit = .ret m.exit) ∧
    (c.art = false → (entryPoint c s).metaFile = none) := by
  obtain ⟨hx, -, -, -, -, -, hm, -⟩ := entryPoint_fields c s
  constructor
  · intro h; exact ⟨_, by simpa [h] using hm, by simpa using hx⟩
  · intro h; simpa [h] using hm

/-- with a database (that can be opened) the run_meta row is completed (end time set) with the returned exit code, whatever the command
    kind, and the connection is closed in every case -/
theorem db_agrees (c : Cfg) (s : Script) :
    (c.db = true → s.dbFails = false →
        ∃ a b x, (entryPoint c s).dbRow = .done a b x ∧ (entryPoint c s).exit = .ret x) ∧
    (c.db = false → (entryPoint c s).dbRow = .absent) ∧
    (entryPoint c s).dbClosed = true := by
  obtain ⟨hx, -, -, hc, -, -, -, hd, -⟩ := entryPoint_fields c s
  refine ⟨?_, ?_, hc⟩
  · intro h h'; exact ⟨_, _, _, by simpa [h, h'] using hd, by simpa using hx⟩
  · intro h; simpa [h] using hd

/-- the zstd log handler is removed and closed in every run -/
theorem log_closed (c : Cfg) (s : Script) : (entryPoint c s).logClosed = true := (entryPoint_fields c s).2.2.1

/-- the lock is released in every run ... -/
theorem lock_released (c : Cfg) (s : Script) : (entryPoint c s).lockReleased = true := (entryPoint_fields c s).2.1

/-- ... and held at every observable action before that (pre-hook, connect, setup, main, teardown, close, post-hook) -/
theorem lock_held_throughout (c : Cfg) (s : Script) :
    ∀ o ∈ (entryPoint c s).trace, o.lockHeld = c.lock := by
  rw [entryPoint_trace]
  intro o ho
  simp only [List.mem_append] at ho
  rcases ho with (ho | ho) | ho
  · cases hh : c.hooks <;> simp [hh] at ho; subst ho; rfl
  · split at ho
    · simp at ho
    · simp only [List.mem_map] at ho; obtain ⟨a, -, rfl⟩ := ho; rfl
  · cases hh : c.hooks <;> simp [hh] at ho; subst ho; rfl

/-- META.json is written after teardown and before the post-hook: no action of the run sees it but the post-hook -/
theorem meta_written_after_teardown (c : Cfg) (s : Script) :
    ∀ o ∈ (entryPoint c s).trace, o.metaExists = (c.art && o.act == .post) := by
  rw [entryPoint_trace]
  intro o ho
  simp only [List.mem_append] at ho
  rcases ho with (ho | ho) | ho
  · cases hh : c.hooks <;> simp [hh] at ho; subst ho; simp
  · split at ho
    · simp at ho
    simp only [List.mem_map] at ho
    obtain ⟨a, ha, rfl⟩ := ho
    have : a ≠ .post := by
      intro h; subst h
      cases hk : c.kind <;> cases h1 : s.setup <;> cases h2 : s.tdPre <;>
        simp [bodyActs, Kind.isScanner, Kind.closes, List.replicate, hk, h1, h2] at ha
    cases a <;> simp_all
  · cases hh : c.hooks <;> simp [hh] at ho; subst ho; simp

/-- start / end times: META.json start < database start < META.json end < database end (logical clock) -/
theorem times_ordered (c : Cfg) (s : Script) :
    (∀ m, (entryPoint c s).metaFile = some m → m.start < m.stop) ∧
    (∀ a b x, (entryPoint c s).dbRow = .done a b x → a < b) ∧
    (∀ m a b x, (entryPoint c s).metaFile = some m → (entryPoint c s).dbRow = .done a b x →
        m.start < a ∧ a < m.stop ∧ m.stop < b) := by
  obtain ⟨-, -, -, -, -, -, hm, hd, -⟩ := entryPoint_fields c s
  have h0 := startTick_pos c s
  have h1 := start_lt_stop c s
  refine ⟨?_, ?_, ?_⟩
  · intro m h; rw [hm] at h; cases ha : c.art <;> simp [ha] at h; subst h; simp; omega
  · intro a b x h; rw [hd] at h; cases hb : c.db <;> cases hf : s.dbFails <;> simp [hb, hf] at h; omega
  · intro m a b x h h'
    rw [hm] at h; rw [hd] at h'
    cases ha : c.art <;> simp [ha] at h
    cases hb : c.db <;> cases hf : s.dbFails <;> simp [hb, hf] at h'
    subst h; simp; omega

/-- with hooks enabled both hooks run, and the post-hook is told the returned exit code, in GALLIA_EXIT_CODE and
    inside GALLIA_META, with the end time that META.json carries; with hooks disabled none runs -/
theorem post_hook_env (c : Cfg) (s : Script) :
    (c.hooks = true → (entryPoint c s).preRan = true ∧
        ∃ e, (entryPoint c s).postEnv = some e ∧ (entryPoint c s).exit = .ret e.exitCode ∧ e.metaExit = e.exitCode ∧
          ∀ m, (entryPoint c s).metaFile = some m → e.metaStop = m.stop) ∧
    (c.hooks = false → (entryPoint c s).preRan = false ∧ (entryPoint c s).postEnv = none) := by
  obtain ⟨hx, -, -, -, hp, -, hm, -, he⟩ := entryPoint_fields c s
  constructor
  · intro h
    refine ⟨by simpa [h] using hp, _, by simpa [h] using he, by simpa using hx, rfl, ?_⟩
    intro m hm'; rw [hm] at hm'
    cases ha : c.art <;> simp [ha] at hm'; subst hm'; rfl
  · intro h; exact ⟨by simpa [h] using hp, by simpa [h] using he⟩

/-- a failing hook is reported and changes nothing else: the outcome with any hook failures is the outcome with
    well-behaved hooks, except that exactly the failing hooks that ran are reported -/
theorem hook_failure_inert (c : Cfg) (s : Script) :
    entryPoint c s =
      { entryPoint c { s with preFails := false, postFails := false } with reports := failing c s } := by
  rw [entryPoint_eq, entryPoint_eq]
  obtain ⟨pf, df, e1, e2, e3, e4, qf⟩ := s
  cases hl : c.lock <;> cases hh : c.hooks <;> cases ha : c.art <;> cases hd : c.db <;> cases df <;>
    cases pf <;> cases qf <;>
  simp [St.final, endState, finishedState, unlock, postPhase, finish, tryBody, dbInsert, prePhase, runHook, St.obs,
    St.step, failing, runBody_tick_eq, runBody_transportOpen, runBody_trace, bodyActs, code, ended, raised,
    hl, hh, ha, hd]

/-- the executable specification (`Spec.violations`, the one the harness evaluates on the real runs) finds nothing
    wrong with any run of the model -/
theorem spec_holds (c : Cfg) (s : Script) : violations c s (entryPoint c s) = [] := by
  obtain ⟨hx, hl, hg, hc, hp, hr, hm, hd, he⟩ := entryPoint_fields c s
  have h1 := start_lt_stop c s
  have ht : ((entryPoint c s).trace.all fun o => o.lockHeld == c.lock) = true := by
    rw [List.all_eq_true]; intro o ho; simpa using lock_held_throughout c s o ho
  unfold violations
  simp only [hx, hl, hg, hc, hp, hr, hm, hd, he, ht]
  cases c.art <;> cases c.db <;> cases s.dbFails <;> cases c.hooks <;> simp [chk] <;> omega

/-- the transport of a scanner is closed again unless `setup()` or the command's own teardown code (before
    `super().teardown()`) raises - in those two cases the code leaves it open -/
theorem transport_closed_iff (c : Cfg) (s : Script) :
    (entryPoint c s).transportClosed =
      !(!(c.db && s.dbFails) && c.kind.isScanner && (s.setup.isSome || s.tdPre.isSome)) :=
  entryPoint_transport c s

/-- teardown runs exactly when the run got as far as a successful setup, whatever main does -/
theorem teardown_iff_setup_ok (c : Cfg) (s : Script) :
    (Act.tdPre ∈ (entryPoint c s).trace.map (·.act)) ↔ (s.setup = none ∧ ¬(c.db = true ∧ s.dbFails = true)) := by
  rw [entryPoint_trace]
  cases hk : c.kind <;> cases hh : c.hooks <;> cases hd : c.db <;> cases hf : s.dbFails <;>
    cases h1 : s.setup <;> cases h2 : s.tdPre <;>
    simp [bodyActs, Kind.isScanner, Kind.closes, List.replicate, h1, h2]

/-! ## each repair was necessary: the pinned behaviours break the specification -/

/-- `run_hook` reading the unbound `p`: a failing pre-hook aborts the run before anything is recorded -/
theorem pinned_hook_defect :
    violations { hooks := true, art := true, lock := true } { preFails := true }
      (entryPointQ { hookUnbound := true } { hooks := true, art := true, lock := true } { preFails := true })
    = ["exit-code", "meta-missing", "log-left-open", "lock-held", "post-hook-skipped", "hook-failure-report"] := by
  decide

/-- `Scanner.teardown` disconnecting the database: the row of a successful scanner run is never completed -/
theorem pinned_scanner_defect :
    violations { kind := .scanner, db := true } {}
      (entryPointQ { scannerDisconnect := true } { kind := .scanner, db := true } {}) = ["db-unfinished"] := by
  decide

/-- no clause for `CancelledError`: Ctrl-C under `asyncio.run` records exit code 0 and skips post-hook and unlock -/
theorem pinned_cancel_defect :
    violations { lock := true, art := true, db := true, hooks := true } { main := some .cancelled }
      (entryPointQ { cancelUnmapped := true } { lock := true, art := true, db := true, hooks := true }
        { main := some .cancelled })
    = ["exit-code", "meta-exit-code", "db-exit-code", "lock-held", "post-hook-skipped"] := by
  decide

/-- `_db_insert_run_meta()` before the `try:` and a `connect()` that leaks: a database that cannot be opened ends the
    run with nothing recorded, the log handler and the lock left open and the connection (its thread) alive -/
theorem pinned_db_open_defect :
    violations { lock := true, art := true, db := true, hooks := true } { dbFails := true }
      (entryPointQ { dbOpenUnguarded := true } { lock := true, art := true, db := true, hooks := true }
        { dbFails := true })
    = ["exit-code", "meta-missing", "db-left-open", "log-left-open", "lock-held", "post-hook-skipped"] := by
  decide

/-! ## the hypotheses are satisfiable / the statements are not vacuous -/

example : (entryPoint { kind := .uds, lock := true, art := true, db := true, hooks := true }
            { main := some (.err .conn), tdPost := some (.sysExit 3), postFails := true }).exit = .ret 3 := by decide

example : ∃ m, (entryPoint { kind := .scanner, art := true, db := true } { setup := some (.err .uds) }).metaFile = some m
    ∧ m.exit = 74 ∧ (entryPoint { kind := .scanner, art := true, db := true } { setup := some (.err .uds) }).dbRow
        = .done 2 6 74 := by decide

example : (entryPoint { kind := .uds, art := true, db := true } { dbFails := true, main := some (.sysExit 3) }).exit
    = .ret 70 := by decide

example : (entryPoint { kind := .plain } { main := some (.err .conn) }).exit = .ret 70 := by decide

end Gallia.C15
