import Gallia.Model.Lifecycle
import Gallia.Spec.Lifecycle
import Gallia.Gen.C15Exit
namespace Gallia.C15
open Gallia.Lifecycle

theorem exit_constants_agree :
    (Gen.C15Exit.OK, Gen.C15Exit.SOFTWARE, Gen.C15Exit.IOERR, Gen.C15Exit.SIGINT_EXIT) = (OK, SOFTWARE, IOERR, SIGINT_EXIT) := by
  decide

end Gallia.C15
