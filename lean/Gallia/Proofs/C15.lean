import Gallia.Proofs.Lemmas.Lifecycle
import Gallia.Gen.C15Exit
import Gallia.Model.LifecycleDb
/-
  C15 — Every run leaves a consistent exit code, META.json, log file and database record.

  Property theorems only; helper lemmas are in `Proofs/Lemmas/LifecycleSteps.lean` and `Proofs/Lemmas/Lifecycle.lean`.
  All theorems quantify over every configuration `c : Cfg` (command kind x lock x artifacts x database x hooks x power
  supply x dumpcap x tester-present task x properties) and every script `s : Script` (hook scripts ok / failing; database
  opens / cannot be opened; at each of the command's own points setup, main, teardown-before-super, teardown-after-super
  and at each of the framework's steps - power supply connect, dumpcap (started / not started / missing / not coming
  up), transport connect, `ecu.connect`, tester-present start, properties, properties in teardown, tester-present stop,
  `ecu.transport.close()`, `transport.close()`, `dumpcap.stop()`: return, `sys.exit(n)` for every n, `sys.exit(non-int)`,
  connection / UDS / other error, KeyboardInterrupt, cancellation of the main task) - no bounds.
  Theorems whose name ends in `_world` (and the section on the prologue) also quantify over every `w : World`: lock free /
  held by somebody else / not lockable, artifacts base writable or not, any set of earlier run directories, any clock
  reading for the new directory name.  `entryPoint c s` is the run in a benign world (`entryPointW {} {} c s`);
  `started_run_world_independent` carries every statement about it to every world in which the run starts.
-/
namespace Gallia.C15
open Gallia.Lifecycle Gallia.Lifecycle.Spec

/-! ## (T) the model's tables are the ones in the source -/

/-- exit code constants: `exitcodes.OK/SOFTWARE/IOERR/OSFILE`, `128 + signal.SIGINT` -/
theorem exit_constants_agree :
    (Gen.C15Exit.OK, Gen.C15Exit.SOFTWARE, Gen.C15Exit.IOERR, Gen.C15Exit.OSFILE, Gen.C15Exit.SIGINT_EXIT) =
      (OK, SOFTWARE, IOERR, OSFILE, SIGINT_EXIT) := by decide

/-- the `except` clauses of `entry_point` (AST): classes and bodies, in source order -/
theorem ladder_agrees : Gen.C15Exit.ladder = ladderNames {} := by decide

/-- which clause catches what, by `issubclass` on the live exception classes, is what `dispatch` computes -/
theorem first_match_agrees :
    Gen.C15Exit.firstMatch =
      [ExcType.keyboardInterrupt, .systemExit, .exception, .cancelledError].map fun t =>
        (t.genName, (ladder {}).findIdx? fun p => decide (t ∈ p.1)) := by decide

/-- statement order of `entry_point` (AST) is the order in which `entryPointW` performs its steps:
    lock (OSError -> `return exitcodes.OSFILE`), artifacts directory, log handler, pre-hook, `try:` database, run ... -/
theorem steps_agree : Gen.C15Exit.steps = modelSteps := by decide

/-- `AsyncScript.run` is `setup(); try: main() finally: teardown()` -/
theorem run_shape_agrees : Gen.C15Exit.runShape = modelRunShape := by decide

/-- statement order of `Scanner.setup`, `UDSScanner.setup`, `UDSScanner.teardown`, `Scanner.teardown` (AST) is the
    order of the step lists `scannerSetup`, `udsSetup`, `udsTeardown`, `scannerTeardown` with every switch on -/
theorem setup_teardown_order_agrees :
    (Gen.C15Exit.scannerSetupSrc, Gen.C15Exit.udsSetupSrc, Gen.C15Exit.udsTeardownSrc, Gen.C15Exit.scannerTeardownSrc) =
      (scannerSetupSrc, udsSetupSrc, udsTeardownSrc, scannerTeardownSrc) := by decide

/-- ... and every statement is guarded by the `if` the step lists assume -/
theorem guards_agree : Gen.C15Exit.guards = modelGuards := by decide

/-- `prepare_artifacts_dir` (name from the clock, `mkdir`, ENV, LATEST -> name-wise last directory) and `_aquire_flock`
    (a held lock is waited for) are what `artPhase` / `lockPhase` model -/
theorem prologue_agrees :
    (Gen.C15Exit.artifactsSteps, Gen.C15Exit.lockWaits, Gen.C15Exit.latestIsLastByName) =
      (modelArtifactsSteps, true, true) := by decide

/-- `CATCHED_EXCEPTIONS` of the three command base classes over the partition connection / UDS / other -/
theorem catched_agrees :
    (Gen.C15Exit.catchedPlain, Gen.C15Exit.catchedScanner, Gen.C15Exit.catchedUds) =
      ((catched .plain).map ErrClass.name, (catched .scanner).map ErrClass.name, (catched .uds).map ErrClass.name) := by
  decide

/-- the repaired behaviours are still repaired in the source: `Scanner.teardown` does not disconnect the database,
    `run_hook` reads no name that is unbound when the script fails, `DBHandler.connect` cleans up after a failed open
    (that `_db_insert_run_meta()` sits inside the `try:` is part of `steps_agree`); and `mkdir` has no `exist_ok` -/
theorem quirks_agree :
    (Gen.C15Exit.scannerTeardownDisconnectsDb, Gen.C15Exit.hookUnboundNames.isEmpty,
        Gen.C15Exit.dbConnectClosesOnFailure, Gen.C15Exit.mkdirExistOk) =
      (({} : Quirks).scannerDisconnect, !({} : Quirks).hookUnbound, !({} : Quirks).dbOpenUnguarded,
        ({} : Quirks).mkdirExistOk) := by decide

/-! ## the headline theorems -/

/-- `entry_point()` always returns (nothing escapes), and the code follows the documented mapping:
    0 / n / 70 for a non-int `sys.exit` / 74 for an error the command declares as expected, else 70 / 130 for
    KeyboardInterrupt and for cancellation — decided by the exception that Python's try/finally rules let out of
    `setup(); try: main() finally: teardown()`, the framework's own steps included (a database that cannot be opened
    counts as an unexpected error) -/
theorem exit_mapping (c : Cfg) (s : Script) :
    (entryPoint c s).exit = .ret (match ended c s with
      | none => 0
      | some (.sysExit n) => n
      | some .sysExitOther => 70
      | some (.err e) => if e ∈ catched c.kind then 74 else 70
      | some .kbd => 130
      | some .cancelled => 130) := by
  rw [(entryPoint_fields c s).1]
  simp only [code]
  rcases ended c s with _ | (n | _ | e | _ | _) <;> simp [exitOf]

/-- META.json exists exactly when an artifacts directory is configured and carries the returned exit code -/
theorem meta_agrees (c : Cfg) (s : Script) :
    (c.art = true → ∃ m, (entryPoint c s).metaFile = some m ∧ (entryPoint c s).exit = .ret m.exit) ∧
    (c.art = false → (entryPoint c s).metaFile = none) := by
  obtain ⟨hx, -, -, -, -, -, hm, -⟩ := entryPoint_fields c s
  constructor
  · intro h; exact ⟨_, by simpa [h] using hm, by simpa using hx⟩
  · intro h; simpa [h] using hm

/-- with a database (that can be opened) the run_meta row is completed (end time set) with the returned exit code, whatever the command
    kind, and the connection is closed in every case -/
theorem db_agrees (c : Cfg) (s : Script) :
    (c.db = true → s.dbFails = false →
        ∃ a b x, (entryPoint c s).dbRow = .done a b x ∧ (entryPoint c s).exit = .ret x) ∧
    (c.db = false → (entryPoint c s).dbRow = .absent) ∧
    (entryPoint c s).dbClosed = true := by
  obtain ⟨hx, -, -, hc, -, -, -, hd, -⟩ := entryPoint_fields c s
  refine ⟨?_, ?_, hc⟩
  · intro h h'; exact ⟨_, _, _, by simpa [h, h'] using hd, by simpa using hx⟩
  · intro h; simpa [h] using hd

/-- the zstd log handler is removed and closed in every run -/
theorem log_closed (c : Cfg) (s : Script) : (entryPoint c s).logClosed = true := (entryPoint_fields c s).2.2.1

/-- the lock is released in every run ... -/
theorem lock_released (c : Cfg) (s : Script) : (entryPoint c s).lockReleased = true := (entryPoint_fields c s).2.1

/-- ... and held at every observable action before that (pre-hook, every step of setup, main, every step of teardown,
    post-hook) -/
theorem lock_held_throughout (c : Cfg) (s : Script) :
    ∀ o ∈ (entryPoint c s).trace, o.lockHeld = c.lock := by
  rw [entryPoint_trace]
  intro o ho
  simp only [List.mem_append] at ho
  rcases ho with (ho | ho) | ho
  · cases hh : c.hooks <;> simp [hh] at ho; subst ho; rfl
  · split at ho
    · simp at ho
    · simp only [List.mem_map] at ho; obtain ⟨a, -, rfl⟩ := ho; rfl
  · cases hh : c.hooks <;> simp [hh] at ho; subst ho; rfl

/-- META.json is written after teardown and before the post-hook: no action of the run sees it but the post-hook -/
theorem meta_written_after_teardown (c : Cfg) (s : Script) :
    ∀ o ∈ (entryPoint c s).trace, o.metaExists = (c.art && o.act == .post) := by
  rw [entryPoint_trace]
  intro o ho
  simp only [List.mem_append] at ho
  rcases ho with (ho | ho) | ho
  · cases hh : c.hooks <;> simp [hh] at ho; subst ho; simp
  · split at ho
    · simp at ho
    simp only [List.mem_map] at ho
    obtain ⟨a, ha, rfl⟩ := ho
    have : a ≠ .post := fun h => (bodyActs_no_hook c s).1 (h ▸ ha)
    cases a <;> simp_all
  · cases hh : c.hooks <;> simp [hh] at ho; subst ho; simp

/-- start / end times: META.json start < database start < META.json end < database end (logical clock) -/
theorem times_ordered (c : Cfg) (s : Script) :
    (∀ m, (entryPoint c s).metaFile = some m → m.start < m.stop) ∧
    (∀ a b x, (entryPoint c s).dbRow = .done a b x → a < b) ∧
    (∀ m a b x, (entryPoint c s).metaFile = some m → (entryPoint c s).dbRow = .done a b x →
        m.start < a ∧ a < m.stop ∧ m.stop < b) := by
  obtain ⟨-, -, -, -, -, -, hm, hd, -⟩ := entryPoint_fields c s
  have h0 := startTick_pos {} c s
  have h1 := start_lt_stop {} c s
  refine ⟨?_, ?_, ?_⟩
  · intro m h; rw [hm] at h; cases ha : c.art <;> simp [ha] at h; subst h; simp; omega
  · intro a b x h; rw [hd] at h; cases hb : c.db <;> cases hf : s.dbFails <;> simp [hb, hf] at h; omega
  · intro m a b x h h'
    rw [hm] at h; rw [hd] at h'
    cases ha : c.art <;> simp [ha] at h
    cases hb : c.db <;> cases hf : s.dbFails <;> simp [hb, hf] at h'
    subst h; simp; omega

/-- with hooks enabled both hooks run, and the post-hook is told the returned exit code, in GALLIA_EXIT_CODE and
    inside GALLIA_META, with the end time that META.json carries; with hooks disabled none runs -/
theorem post_hook_env (c : Cfg) (s : Script) :
    (c.hooks = true → (entryPoint c s).preRan = true ∧
        ∃ e, (entryPoint c s).postEnv = some e ∧ (entryPoint c s).exit = .ret e.exitCode ∧ e.metaExit = e.exitCode ∧
          ∀ m, (entryPoint c s).metaFile = some m → e.metaStop = m.stop) ∧
    (c.hooks = false → (entryPoint c s).preRan = false ∧ (entryPoint c s).postEnv = none) := by
  obtain ⟨hx, -, -, -, hp, -, hm, -, he⟩ := entryPoint_fields c s
  constructor
  · intro h
    refine ⟨by simpa [h] using hp, _, by simpa [h] using he, by simpa using hx, rfl, ?_⟩
    intro m hm'; rw [hm] at hm'
    cases ha : c.art <;> simp [ha] at hm'; subst hm'; rfl
  · intro h; exact ⟨by simpa [h] using hp, by simpa [h] using he⟩

/-- the run with both hook scripts well-behaved -/
def calm (s : Script) : Script := { s with preFails := false, postFails := false }

/-- a failing hook is reported and changes nothing else: the outcome with any hook failures is the outcome with
    well-behaved hooks, except that exactly the failing hooks that ran are reported -/
theorem hook_failure_inert (c : Cfg) (s : Script) :
    entryPoint c s =
      { entryPoint c { s with preFails := false, postFails := false } with reports := failing c s } := by
  have hcode : code c (calm s) = code c s := rfl
  have hacts : bodyActs c (calm s) = bodyActs c s := rfl
  have hticks : startTick {} c (calm s) = startTick {} c s ∧ stopTick {} c (calm s) = stopTick {} c s := by
    have d1 : (calm s).dbFails = s.dbFails := rfl
    have d2 : (calm s).preFails = false := rfl
    unfold startTick stopTick tryBody dbInsert hookPre runHook
    rw [d1, d2]
    cases c.hooks <;> cases c.db <;> cases s.dbFails <;> cases s.preFails <;>
      simp [St.obs, St.step, runBody_tick_eq, hacts]
  obtain ⟨a1, a2, a3, a4, a5, a6, a7, a8, a9, a10, a11, a12, a13⟩ := started_fields {} c s
  obtain ⟨b1, b2, b3, b4, b5, b6, b7, b8, b9, b10, b11, b12, b13⟩ := started_fields {} c (calm s)
  obtain ⟨r1, r2, r3⟩ := started_resources {} c s
  obtain ⟨q1, q2, q3⟩ := started_resources {} c (calm s)
  have t1 := started_trace {} c s
  have t2 := started_trace {} c (calm s)
  rw [hcode] at b1 b7 b8 b9 b12
  rw [hticks.1, hticks.2] at b8
  rw [hticks.2] at b7 b9
  rw [hacts] at t2
  change entryPoint c s = { entryPoint c (calm s) with reports := failing c s }
  rw [entryPoint_eq, entryPoint_eq]
  apply Final.ext_fields
  · exact a1.trans b1.symm
  · exact a7.trans b7.symm
  · exact a8.trans b8.symm
  · exact a4.trans b4.symm
  · exact a3.trans b3.symm
  · exact a2.trans b2.symm
  · exact a5.trans b5.symm
  · exact a9.trans b9.symm
  · exact a6
  · exact r1.trans q1.symm
  · exact t1.trans t2.symm
  · exact r2.trans q2.symm
  · exact r3.trans q3.symm
  · exact a10.trans b10.symm
  · exact a11.trans b11.symm
  · exact a12.trans b12.symm
  · exact a13.trans b13.symm

/-! ## faults inside the framework's own setup / teardown steps -/

/-- a step of `setup()` that raises - power supply, dumpcap, refused transport connection, `ecu.connect`, tester present,
    properties or the command's own code - ends the run with the code of *that* exception; neither `main()` nor any
    step of `teardown()` runs (no half-initialised teardown); META.json, the run_meta row and the post-hook carry the
    same code, log and lock are released as in every run (`meta_agrees`, `db_agrees`, `log_closed`, `lock_released`) -/
theorem setup_fault_skips_teardown (c : Cfg) (s : Script) (e : Exc)
    (hdb : (c.db && s.dbFails) = false) (h : setupFault c s = some e) :
    (entryPoint c s).exit = .ret (exitOf c.kind (some e)) ∧
    (∀ o ∈ (entryPoint c s).trace, o.act ≠ .main) ∧
    (∀ p ∈ teardownSteps {} c s, ∀ o ∈ (entryPoint c s).trace, o.act ≠ p.act) := by
  have hs : ∀ p ∈ setupSteps c s, p.act ≠ .main ∧ ∀ t ∈ teardownSteps {} c s, p.act ≠ t.act := by
    have h : (setupSteps c s).all (fun p => p.act != .main && (teardownSteps {} c s).all fun t => p.act != t.act) = true := by
      unfold setupSteps scannerSetup udsSetup teardownSteps scannerTeardown udsTeardown
      cases c.kind <;> cases c.power <;> cases (c.art && c.dumpcap) <;> cases c.tp <;> cases c.props <;>
        cases s.dumpcap <;> cases dumpcapActive c s <;> simp [Kind.isScanner, Kind.isUds, dumpcapStep]
    intro p hp
    have := List.all_eq_true.mp h p hp
    simp only [Bool.and_eq_true, bne_iff_ne, ne_eq, List.all_eq_true] at this
    exact this
  have hacts : bodyActs c s = (performed (setupSteps c s)).map (·.act) := by
    unfold bodyActs bodySteps; simp [h]
  have hpost : ∀ t ∈ teardownSteps {} c s, t.act ≠ .post ∧ t.act ≠ .pre := by
    have h : (teardownSteps {} c s).all (fun p => p.act != .post && p.act != .pre) = true := by
      unfold teardownSteps scannerTeardown udsTeardown
      cases c.kind <;> cases dumpcapActive c s <;> cases c.tp <;> cases c.props <;>
        simp [Kind.isScanner, Kind.isUds]
    intro p hp
    have := List.all_eq_true.mp h p hp
    simpa using this
  refine ⟨?_, ?_, ?_⟩
  · rw [(entryPoint_fields c s).1]; simp [code, ended, hdb, raised, h]
  · intro o ho hm
    rw [entryPoint_trace, hdb, hacts] at ho
    simp only [Bool.false_eq_true, ↓reduceIte, List.mem_append, List.map_map, List.mem_map, Function.comp] at ho
    rcases ho with (ho | ⟨p, hp, rfl⟩) | ho
    · cases hh : c.hooks <;> simp [hh] at ho; subst ho; simp at hm
    · exact (hs p (performed_sublist _ p hp)).1 hm
    · cases hh : c.hooks <;> simp [hh] at ho; subst ho; simp at hm
  · intro t ht o ho hm
    rw [entryPoint_trace, hdb, hacts] at ho
    simp only [Bool.false_eq_true, ↓reduceIte, List.mem_append, List.map_map, List.mem_map, Function.comp] at ho
    rcases ho with (ho | ⟨p, hp, rfl⟩) | ho
    · cases hh : c.hooks <;> simp [hh] at ho; subst ho; exact (hpost t ht).2 hm.symm
    · exact (hs p (performed_sublist _ p hp)).2 t ht hm
    · cases hh : c.hooks <;> simp [hh] at ho; subst ho; exact (hpost t ht).1 hm.symm

/-- teardown runs exactly when the run got as far as a successful setup (all of it, the framework's steps included),
    whatever main does -/
theorem teardown_iff_setup_ok (c : Cfg) (s : Script) :
    (Act.tdPre ∈ (entryPoint c s).trace.map (·.act)) ↔ (setupFault c s = none ∧ ¬(c.db = true ∧ s.dbFails = true)) := by
  have hs : ∀ p ∈ setupSteps c s, p.act ≠ .tdPre := by
    have h : (setupSteps c s).all (fun p => p.act != .tdPre) = true := by
      unfold setupSteps scannerSetup udsSetup
      cases c.kind <;> cases c.power <;> cases (c.art && c.dumpcap) <;> cases c.tp <;> cases c.props <;>
        cases s.dumpcap <;> simp [Kind.isScanner, Kind.isUds, dumpcapStep]
    intro p hp
    simpa using List.all_eq_true.mp h p hp
  have hin : Act.tdPre ∈ bodyActs c s ↔ setupFault c s = none := by
    unfold bodyActs bodySteps
    constructor
    · intro h
      obtain ⟨p, hp, he⟩ := List.mem_map.mp h
      rcases List.mem_append.mp hp with hp | hp
      · exact absurd he (hs p (performed_sublist _ p hp))
      · split at hp
        · rename_i hn; simpa using hn
        · simp at hp
    · intro h
      have : Act.tdPre ∈ (performed (teardownSteps {} c s)).map (·.act) := by
        unfold teardownSteps
        simp [performed]
      simp only [h, Option.isNone_none, ↓reduceIte, List.map_append, List.map_cons, List.mem_append, List.mem_cons]
      exact Or.inr (Or.inr this)
  rw [entryPoint_trace]
  cases hh : c.hooks <;> cases hd : c.db <;> cases hf : s.dbFails <;>
    simp [List.map_map, Function.comp_def, hin]

/-- which exception wins: once `setup()` is through, an exception raised by any step of `teardown()` - the command's
    code, properties, tester-present stop, `ecu.transport.close()`, `transport.close()`, `dumpcap.stop()` - replaces
    whatever `main()` did: the whole outcome (exit code, META.json, run_meta row, hook environment, trace, resources)
    is the same for every behaviour of main, KeyboardInterrupt included -/
theorem teardown_exception_wins (c : Cfg) (s : Script) (m m' : Ev)
    (h1 : setupFault c s = none) (h2 : (teardownFault c s).isSome = true) :
    entryPoint c { s with main := m } = entryPoint c { s with main := m' } := by
  have key : ∀ (x : Ev) (st : St), runBody {} c { s with main := x } st =
      ((runSteps (teardownSteps {} c s) ((runSteps (setupSteps c s) st).1.obs .main)).1, teardownFault c s) := by
    intro x st
    obtain ⟨e, he⟩ := Option.isSome_iff_exists.mp h2
    have a1 : setupSteps c { s with main := x } = setupSteps c s := rfl
    have a2 : teardownSteps {} c { s with main := x } = teardownSteps {} c s := rfl
    unfold runBody
    simp only [a1, a2, runSteps_exc, firstFault_setupSteps, firstFault_teardownSteps, h1, he]
  have hfp : ∀ st, fromPreHook {} c { s with main := m } st = fromPreHook {} c { s with main := m' } st := by
    intro st
    have e1 : ∀ x : Ev, hookPre {} c { s with main := x } st = hookPre {} c s st := fun _ => rfl
    have e2 : ∀ (x : Ev) n st', postPhase {} c { s with main := x } n st' = postPhase {} c s n st' := fun _ _ _ => rfl
    simp only [fromPreHook, tryBody, key, e1, e2]
  unfold entryPoint entryPointQ entryPointW
  simp only [hfp]

/-- ... and an exception of main survives exactly when every step of teardown returns -/
theorem main_exception_survives (c : Cfg) (s : Script)
    (hdb : (c.db && s.dbFails) = false) (h1 : setupFault c s = none) (h2 : teardownFault c s = none) :
    (entryPoint c s).exit = .ret (exitOf c.kind s.main) := by
  rw [(entryPoint_fields c s).1]; simp [code, ended, hdb, raised, h1, h2]

/-- a refused connection to the target (`ConnectionRefusedError` out of `load_transport(target).connect`) is an expected
    error of a scanner: exit code 74 -/
theorem connect_refused_is_io_error (c : Cfg) (s : Script)
    (hk : c.kind.isScanner = true) (hdb : (c.db && s.dbFails) = false) (h : beforeConnect c s = none)
    (he : s.connect = some (.err .conn)) : (entryPoint c s).exit = .ret 74 := by
  have hf : setupFault c s = some (.err .conn) := by simp [setupFault, scannerSetupFault, hk, h, he]
  rw [(setup_fault_skips_teardown c s _ hdb hf).1]
  cases hc : c.kind <;> simp [hc, Kind.isScanner] at hk <;> simp [exitOf, catched]

/-- the transport of a scanner is left open exactly when `Scanner.setup` got it connected and then either a later step
    of `setup()` raised (no teardown) or `teardown()` raised before its first `transport.close()` returned -/
theorem transport_closed_iff (c : Cfg) (s : Script) :
    (entryPoint c s).transportClosed =
      !(!(c.db && s.dbFails) && transportOpened c s && !transportClosedAgain c s) := by
  rw [entryPoint_eq]; exact (started_resources {} c s).1

/-- the same for scripts in which only the command's own code fails (the statement before the framework's steps were
    modelled) -/
theorem transport_closed_iff_own_code (c : Cfg) (s : Script)
    (h : s.power = none ∧ s.connect = none ∧ s.ecuConnect = none ∧ s.tpStart = none ∧ s.propsPre = none ∧
         s.propsPost = none ∧ s.tpStop = none ∧ s.ecuClose = none ∧ s.close = none)
    (hd : s.dumpcap = .started ∨ s.dumpcap = .notStarted) :
    (entryPoint c s).transportClosed =
      !(!(c.db && s.dbFails) && c.kind.isScanner && (s.setup.isSome || s.tdPre.isSome)) := by
  rw [transport_closed_iff]
  obtain ⟨h1, h2, h3, h4, h5, h6, h7, h8, h9⟩ := h
  have hdf : dumpcapFault c s = none := by
    unfold dumpcapFault; rcases hd with hd | hd <;> simp [hd]
  cases hk : c.kind <;> cases hs : s.setup <;> cases ht : s.tdPre <;>
    simp [hs, ht, transportOpened, transportClosedAgain, setupFault, scannerSetupFault, beforeConnect, udsSetupFault,
      uptoFirstClose, udsTeardownFault, Kind.isScanner, Kind.isUds, hk, hdf, h1, h2, h3, h4, h5, h6, h7, h8, h9]

/-- the cyclic TesterPresent task is left running exactly when `UDSScanner.setup` started it and then either a later
    step of `setup()` raised or `teardown()` raised before `stop_cyclic_tester_present` was reached -/
theorem tp_stopped_iff (c : Cfg) (s : Script) :
    (entryPoint c s).tpStopped = !(!(c.db && s.dbFails) && tpStarted c s && !tpStopReached c s) := by
  rw [entryPoint_eq]; exact (started_resources {} c s).2.1

/-- a dumpcap process is left behind exactly when `Scanner.setup` started one and then either `setup()` raised (also:
    the process did not come up in time) or `teardown()` raised before `dumpcap.stop()` returned -/
theorem dumpcap_stopped_iff (c : Cfg) (s : Script) :
    (entryPoint c s).dcStopped = !(!(c.db && s.dbFails) && dcStarted c s && !dcStopDone c s) := by
  rw [entryPoint_eq]; exact (started_resources {} c s).2.2

/-! ## the prologue: lock file and artifacts directory, in every world -/

/-- exit code mapping including the paths on which the run does not start: a lock file that cannot be opened / locked
    gives 72 (`exitcodes.OSFILE`), Ctrl-C while waiting for a busy lock lets the `CancelledError` out of `entry_point()`
    (-> KeyboardInterrupt in `asyncio.run`), an artifacts directory that cannot be created lets the `OSError` out,
    everything else is the documented mapping -/
theorem exit_mapping_world (w : World) (c : Cfg) (s : Script) :
    (entryPointW {} w c s).exit =
      match startOf w c with
      | .noLock => .ret 72
      | .lockWaitInterrupted => .escLockWait
      | .noArtDir => .escArt
      | .started => .ret (exitOf c.kind (ended c s)) := by
  rw [entryPointW_eq]
  cases startOf w c <;> rfl

/-- the lock-failure path: `entry_point()` returns 72 and *nothing else happens* - no artifacts directory, no META.json,
    no log file, no run_meta row, no hook, no lifecycle point, no lock held, earlier runs and `LATEST` untouched.
    (Holds for the pinned tree as well: `∀ q`.) -/
theorem lock_failure_leaves_nothing (q : Quirks) (w : World) (c : Cfg) (s : Script)
    (hl : c.lock = true) (hb : w.lock = .broken) :
    entryPointW q w c s =
      { exit := .ret 72, metaFile := none, dbRow := .absent, dbClosed := true, logClosed := true, lockReleased := true,
        preRan := false, postEnv := none, reports := [], transportClosed := true, trace := [], tpStopped := true,
        dcStopped := true, waited := false, artDir := none, runs := w.runs, latest := w.latest } := by
  unfold entryPointW lockPhase
  simp [hl, hb, St.final, St.init, OSFILE]

/-- Ctrl-C while the run waits for a lock that somebody else holds: the cancellation leaves `entry_point()` and, again,
    nothing else happens - no artifacts directory, META.json, log, run_meta row, hook or lifecycle point; earlier runs
    and `LATEST` untouched.  (The lock descriptor stays with the blocked helper thread: `lockReleased = false`.) -/
theorem lock_wait_interrupted_leaves_nothing (q : Quirks) (w : World) (c : Cfg) (s : Script)
    (hl : c.lock = true) (hb : w.lock = .interrupted) :
    entryPointW q w c s =
      { exit := .escLockWait, metaFile := none, dbRow := .absent, dbClosed := true, logClosed := true,
        lockReleased := false, preRan := false, postEnv := none, reports := [], transportClosed := true, trace := [],
        tpStopped := true, dcStopped := true, waited := true, artDir := none, runs := w.runs, latest := w.latest } := by
  unfold entryPointW lockPhase
  simp [hl, hb, St.final, St.init, St.step]

/-- an artifacts directory that cannot be created (base not writable, or a directory with the name the clock gives
    already exists): the `OSError` of `mkdir` leaves `entry_point()`; no record of a run appears, earlier runs and
    `LATEST` are untouched; the lock (if any) stays with the process -/
theorem art_failure_leaves_nothing (w : World) (c : Cfg) (s : Script) (h : startOf w c = .noArtDir) :
    entryPointW {} w c s =
      { exit := .escArt, metaFile := none, dbRow := .absent, dbClosed := true, logClosed := true,
        lockReleased := !c.lock, preRan := false, postEnv := none, reports := [], transportClosed := true, trace := [],
        tpStopped := true, dcStopped := true, waited := c.lock && w.lock == .busy, artDir := none, runs := w.runs,
        latest := w.latest } := by
  rw [entryPointW_eq, h]
  unfold lockedSt
  cases c.lock <;> simp [St.final, St.init, St.step]

/-- a run that starts is the run of the benign world: lock state, earlier runs and the clock only show in `waited` and
    in the directory fields.  The artifacts directory is the new one, its META.json carries the exit code, every earlier
    run directory is still there with the META.json it had. -/
theorem started_run_world_independent (w : World) (c : Cfg) (s : Script) (h : startOf w c = .started) :
    entryPointW {} w c s =
      { entryPoint c s with
        waited := c.lock && w.lock == .busy
        artDir := if c.art then some w.now else none
        runs := if c.art then w.runs ++ [{ name := w.now, metaTag := some (code c s) }] else w.runs
        latest := if c.art then lastName (w.runs ++ [{ name := w.now }]) else w.latest } := by
  have hfresh : c.art = true → (w.runs.any fun r => r.name == w.now) = false :=
    startOf_started_fresh w c h
  obtain ⟨a1, a2, a3, a4, a5, a6, a7, a8, a9, a10, a11, a12, a13⟩ := started_fields w c s
  obtain ⟨b1, b2, b3, b4, b5, b6, b7, b8, b9, -⟩ := started_fields {} c s
  obtain ⟨r1, r2, r3⟩ := started_resources w c s
  obtain ⟨q1, q2, q3⟩ := started_resources {} c s
  have t1 := started_trace w c s
  have t2 := started_trace {} c s
  obtain ⟨k1, k2⟩ := ticks_world w c s
  rw [k1, k2] at a8
  rw [k2] at a7 a9
  rw [entryPointW_eq, h, entryPoint_eq]
  apply Final.ext_fields
  · exact a1.trans b1.symm
  · exact a7.trans b7.symm
  · exact a8.trans b8.symm
  · exact a4.trans b4.symm
  · exact a3.trans b3.symm
  · exact a2.trans b2.symm
  · exact a5.trans b5.symm
  · exact a9.trans b9.symm
  · exact a6.trans b6.symm
  · exact r1.trans q1.symm
  · exact t1.trans t2.symm
  · exact r2.trans q2.symm
  · exact r3.trans q3.symm
  · exact a10
  · exact a11
  · rw [a12]
    cases ha : c.art
    · rfl
    · simp only [↓reduceIte]; exact writeMeta_fresh _ _ _ (hfresh ha)
  · exact a13

/-- the artifacts directory chosen is fresh: whatever is already below the artifacts base, however the clock reads and
    however the run ends, every earlier run directory survives with its META.json unchanged, the directory this run uses
    has a name no earlier directory has, and the META.json with this run's exit code is in it -/
theorem artifacts_fresh_world (w : World) (c : Cfg) (s : Script) :
    (∀ r ∈ w.runs, r ∈ (entryPointW {} w c s).runs) ∧
    (∀ n, (entryPointW {} w c s).artDir = some n →
      (∀ r ∈ w.runs, r.name ≠ n) ∧
      ∃ x, (entryPointW {} w c s).exit = .ret x ∧ ({ name := n, metaTag := some x } : RunDir) ∈ (entryPointW {} w c s).runs) := by
  cases h : startOf w c
  · -- no lock
    have hl := startOf_noLock w c h
    rw [lock_failure_leaves_nothing {} w c s hl.1 hl.2]
    exact ⟨fun r hr => hr, fun n hn => by simp at hn⟩
  · have hl := startOf_interrupted w c h
    rw [lock_wait_interrupted_leaves_nothing {} w c s hl.1 hl.2]
    exact ⟨fun r hr => hr, fun n hn => by simp at hn⟩
  · rw [art_failure_leaves_nothing w c s h]
    exact ⟨fun r hr => hr, fun n hn => by simp at hn⟩
  · rw [started_run_world_independent w c s h]
    have hfresh : c.art = true → (w.runs.any fun r => r.name == w.now) = false :=
      startOf_started_fresh w c h
    cases ha : c.art
    · exact ⟨fun r hr => by simpa using hr, fun n hn => by simp at hn⟩
    · refine ⟨fun r hr => by simp [hr], fun n hn => ?_⟩
      simp only [↓reduceIte, Option.some.injEq] at hn
      subst hn
      refine ⟨?_, code c s, ?_, by simp⟩
      · intro r hr he
        have := List.any_eq_false.mp (hfresh ha) r hr
        simp [he] at this
      · simp [(entryPoint_fields c s).1]

/-- `LATEST` afterwards points at the name-wise last run directory: at this run exactly when no earlier directory has a
    later name (a clock that went backwards leaves `LATEST` on the other run) -/
theorem latest_link_world (w : World) (c : Cfg) (s : Script) (h : startOf w c = .started) (ha : c.art = true) :
    ∃ m, (entryPointW {} w c s).latest = some m ∧ w.now ≤ m ∧ (∀ r ∈ w.runs, r.name ≤ m) ∧
      (m = w.now ∨ ∃ r ∈ w.runs, r.name = m) ∧ (m = w.now ↔ ∀ r ∈ w.runs, r.name ≤ w.now) := by
  rw [started_run_world_independent w c s h]
  simp only [ha, ↓reduceIte]
  cases hl : lastName (w.runs ++ [{ name := w.now }]) with
  | none => have := (lastName_none _).mp hl; simp at this
  | some m =>
    obtain ⟨⟨r, hr, hm⟩, hle⟩ := lastName_spec _ m hl
    have h1 : w.now ≤ m := hle { name := w.now } (by simp)
    have h2 : ∀ r ∈ w.runs, r.name ≤ m := fun r hr => hle r (by simp [hr])
    refine ⟨m, rfl, h1, h2, ?_, ?_⟩
    · rcases List.mem_append.mp hr with hr | hr
      · exact Or.inr ⟨r, hr, hm⟩
      · simp at hr; subst hr; exact Or.inl hm.symm
    · constructor
      · intro he r hr; rw [← he]; exact h2 r hr
      · intro hall
        rcases List.mem_append.mp hr with hr | hr
        · have := hall r hr; omega
        · simp at hr; subst hr; exact hm.symm

/-- a lock held by somebody else only delays the run: the outcome is the one with a free lock, plus the note that it
    waited; nothing is observable before the lock is ours (`lock_held_throughout_world`) -/
theorem busy_lock_only_delays_world (w : World) (c : Cfg) (s : Script) :
    entryPointW {} { w with lock := .busy } c s =
      { entryPointW {} { w with lock := .free } c s with waited := c.lock } := by
  obtain ⟨hs, hn1, hn2⟩ := startOf_busy_free w c
  cases h : startOf { w with lock := .free } c
  · exact absurd h hn1
  · exact absurd h hn2
  · rw [art_failure_leaves_nothing _ c s h, art_failure_leaves_nothing _ c s (hs.trans h)]
    cases c.lock <;> rfl
  · rw [started_run_world_independent _ c s h, started_run_world_independent _ c s (hs.trans h)]
    cases c.lock <;> rfl

/-- in every world the lock is ours at every observable action of the run -/
theorem lock_held_throughout_world (w : World) (c : Cfg) (s : Script) :
    ∀ o ∈ (entryPointW {} w c s).trace, o.lockHeld = c.lock := by
  cases h : startOf w c
  · rw [entryPointW_eq, h]; simp [St.final, St.init]
  · rw [entryPointW_eq, h]; simp [St.final, St.init, interruptedSt, St.step]
  · rw [art_failure_leaves_nothing w c s h]; simp
  · rw [started_run_world_independent w c s h]; exact lock_held_throughout c s

/-- the executable specification (`Spec.violationsW`, the one the harness evaluates on the real runs) finds nothing
    wrong with any run of the model in any world -/
theorem spec_holds_world (w : World) (c : Cfg) (s : Script) : violationsW w c s (entryPointW {} w c s) = [] := by
  have ht := lock_held_throughout_world w c s
  have ht' : ((entryPointW {} w c s).trace.all fun o => o.lockHeld == c.lock) = true := by
    rw [List.all_eq_true]; intro o ho; simpa using ht o ho
  unfold violationsW
  cases h : startOf w c
  · have hl := startOf_noLock w c h
    rw [lock_failure_leaves_nothing {} w c s hl.1 hl.2]
    simp [chk]
  · have hl := startOf_interrupted w c h
    rw [lock_wait_interrupted_leaves_nothing {} w c s hl.1 hl.2]
    simp [chk]
  · simp only [ht']
    rw [art_failure_leaves_nothing w c s h]
    simp [chk]
  · simp only
    unfold runClauses
    simp only [ht']
    have hfresh : c.art = true → (w.runs.any fun r => r.name == w.now) = false :=
      startOf_started_fresh w c h
    have hpres : preserved w (entryPointW {} w c s) = true := by
      unfold preserved
      rw [List.all_eq_true]
      intro r hr
      have := (artifacts_fresh_world w c s).1 r hr
      simpa using this
    rw [hpres]
    rw [started_run_world_independent w c s h]
    obtain ⟨hx, hl, hg, hc, hp, hr, hm, hd, he⟩ := entryPoint_fields c s
    have h1 := start_lt_stop {} c s
    simp only [hx, hl, hg, hc, hp, hr, hm, hd, he]
    cases ha : c.art
    · cases c.db <;> cases s.dbFails <;> cases c.hooks <;> simp [chk] <;> omega
    · have hf := hfresh ha
      cases c.db <;> cases s.dbFails <;> cases c.hooks <;> simp [chk, hf] <;> omega

/-- ... in particular in a benign world -/
theorem spec_holds (c : Cfg) (s : Script) : violations c s (entryPoint c s) = [] :=
  spec_holds_world {} c s

/-! ## each repair / each guard is necessary: the pinned behaviours break the specification -/

/-- `run_hook` reading the unbound `p`: a failing pre-hook aborts the run before anything is recorded -/
theorem pinned_hook_defect :
    violations { hooks := true, art := true, lock := true } { preFails := true }
      (entryPointQ { hookUnbound := true } { hooks := true, art := true, lock := true } { preFails := true })
    = ["exit-code", "meta-missing", "log-left-open", "lock-held", "post-hook-skipped", "hook-failure-report"] := by
  decide

/-- `Scanner.teardown` disconnecting the database: the row of a successful scanner run is never completed -/
theorem pinned_scanner_defect :
    violations { kind := .scanner, db := true } {}
      (entryPointQ { scannerDisconnect := true } { kind := .scanner, db := true } {}) = ["db-unfinished"] := by
  decide

/-- no clause for `CancelledError`: Ctrl-C under `asyncio.run` records exit code 0 and skips post-hook and unlock -/
theorem pinned_cancel_defect :
    violations { lock := true, art := true, db := true, hooks := true } { main := some .cancelled }
      (entryPointQ { cancelUnmapped := true } { lock := true, art := true, db := true, hooks := true }
        { main := some .cancelled })
    = ["exit-code", "meta-exit-code", "db-exit-code", "lock-held", "post-hook-skipped"] := by
  decide

/-- `_db_insert_run_meta()` before the `try:` and a `connect()` that leaks: a database that cannot be opened ends the
    run with nothing recorded, the log handler and the lock left open and the connection (its thread) alive -/
theorem pinned_db_open_defect :
    violations { lock := true, art := true, db := true, hooks := true } { dbFails := true }
      (entryPointQ { dbOpenUnguarded := true } { lock := true, art := true, db := true, hooks := true }
        { dbFails := true })
    = ["exit-code", "meta-missing", "db-left-open", "log-left-open", "lock-held", "post-hook-skipped"] := by
  decide

/-- `mkdir` without `exist_ok` is what keeps runs apart: with `exist_ok=True` a run whose clock reading collides with an
    earlier run's directory overwrites that run's META.json (here: exit code 0 recorded over a run that ended with 3) -/
theorem exist_ok_would_overwrite :
    violationsW { now := 5, runs := [{ name := 5, metaTag := some 3 }] } { art := true } {}
      (entryPointW { mkdirExistOk := true } { now := 5, runs := [{ name := 5, metaTag := some 3 }] } { art := true } {})
    = ["previous-run-overwritten"] := by
  decide

/-! ## the hypotheses are satisfiable / the statements are not vacuous -/

example : (entryPoint { kind := .uds, lock := true, art := true, db := true, hooks := true }
            { main := some (.err .conn), tdPost := some (.sysExit 3), postFails := true }).exit = .ret 3 := by decide

example : ∃ m, (entryPoint { kind := .scanner, art := true, db := true } { setup := some (.err .uds) }).metaFile = some m
    ∧ m.exit = 74 ∧ (entryPoint { kind := .scanner, art := true, db := true } { setup := some (.err .uds) }).dbRow
        = .done 2 6 74 := by decide

example : (entryPoint { kind := .uds, art := true, db := true } { dbFails := true, main := some (.sysExit 3) }).exit
    = .ret 70 := by decide

example : (entryPoint { kind := .plain } { main := some (.err .conn) }).exit = .ret 70 := by decide

-- `setup_fault_skips_teardown` / `connect_refused_is_io_error`: refused connection with dumpcap already running
example : setupFault (.allOn .uds) { connect := some (.err .conn) } = some (.err .conn)
    ∧ beforeConnect (.allOn .uds) { connect := some (.err .conn) } = none
    ∧ (entryPoint (.allOn .uds) { connect := some (.err .conn) }).exit = .ret 74
    ∧ (entryPoint (.allOn .uds) { connect := some (.err .conn) }).dcStopped = false
    ∧ (entryPoint (.allOn .uds) { connect := some (.err .conn) }).transportClosed = true := by decide

-- `teardown_exception_wins`: Ctrl-C in main, then `transport.close()` raises an OSError: 70, not 130
example : setupFault (.allOn .scanner) { main := some .kbd, close := some (.err .other) } = none
    ∧ (teardownFault (.allOn .scanner) { main := some .kbd, close := some (.err .other) }).isSome = true
    ∧ (entryPoint (.allOn .scanner) { main := some .kbd, close := some (.err .other) }).exit = .ret 70
    ∧ (entryPoint (.allOn .scanner) { main := some .kbd, close := some (.err .other) }).dcStopped = false := by decide

-- `main_exception_survives`
example : setupFault (.allOn .uds) { main := some (.sysExit 5) } = none
    ∧ teardownFault (.allOn .uds) { main := some (.sysExit 5) } = none
    ∧ (entryPoint (.allOn .uds) { main := some (.sysExit 5) }).exit = .ret 5 := by decide

-- tester present left running: properties fail in setup after the task was started
example : (entryPoint (.allOn .uds) { propsPre := some (.err .uds) }).tpStopped = false
    ∧ (entryPoint (.allOn .uds) { propsPre := some (.err .uds) }).exit = .ret 74 := by decide

-- the three starts
example : startOf { lock := .interrupted } { lock := true, art := true } = .lockWaitInterrupted
    ∧ (entryPointW {} { lock := .interrupted, runs := [{ name := 3, metaTag := some 1 }] } { lock := true, art := true }
        { main := some (.sysExit 4) }).runs = [{ name := 3, metaTag := some 1 }] := by decide

example : startOf { lock := .broken } { lock := true } = .noLock
    ∧ startOf { baseOk := false } { art := true } = .noArtDir
    ∧ startOf { now := 7, runs := [{ name := 7, metaTag := some 0 }] } { art := true } = .noArtDir
    ∧ startOf { lock := .busy, now := 7, runs := [{ name := 3, metaTag := some 1 }, { name := 9, metaTag := some 0 }] }
        { lock := true, art := true } = .started := by decide

-- a started run among earlier runs: fresh directory, META.json in it, LATEST stays on the later-named run
example : (entryPointW {} { lock := .busy, now := 7, runs := [{ name := 3, metaTag := some 1 }, { name := 9, metaTag := some 0 }] }
            { lock := true, art := true } { main := some (.sysExit 4) }).runs
          = [{ name := 3, metaTag := some 1 }, { name := 9, metaTag := some 0 }, { name := 7, metaTag := some 4 }]
    ∧ (entryPointW {} { lock := .busy, now := 7, runs := [{ name := 3, metaTag := some 1 }, { name := 9, metaTag := some 0 }] }
            { lock := true, art := true } { main := some (.sysExit 4) }).latest = some 9
    ∧ (entryPointW {} { lock := .busy, now := 7, runs := [{ name := 3, metaTag := some 1 }, { name := 9, metaTag := some 0 }] }
            { lock := true, art := true } { main := some (.sysExit 4) }).waited = true := by decide

/-! ### faults at the individual awaited statements inside the database calls (Model/LifecycleDb.lean) -/
section DbFaults
open Gallia.Lifecycle.DbFault

/-- For ANY fault point (call, index of the awaited statement - no bound -, statement fails / Ctrl-C while it is awaited), any
    command kind and whatever the command's own code ends with: the run of the model satisfies every demand of the property
    (exit code from the mapping, the run entry absent or completed with that very code, connection closed, finally block
    run to its end) exactly when the fault point is not the recorded one (`Fault.bad`: Ctrl-C at the INSERT). -/
theorem dbfault_consistent_iff (k : Kind) (f : Fault) (body : Option Exc) :
    DbFault.violations k (some f) body (run k (some f) body) = [] ↔ f.bad = false := by
  obtain ⟨c, i, m⟩ := f
  have hc : (ErrClass.other ∈ catched k) = False := by cases k <;> simp [catched]
  have hm : (mapExit {} k body).2 = false := by
    unfold mapExit
    split
    · rfl
    · rename_i e; cases e <;> rfl
  generalize hx : mapExit {} k body = x at hm
  obtain ⟨code, esc⟩ := x
  simp only at hm
  subst hm
  have h70 : mapExit {} k (some (.err .other)) = (70, false) := by
    simp [mapExit, dispatch, ladder, handle, Exc.type, hc, SOFTWARE]
  have h130 : mapExit {} k (some .cancelled) = (130, false) := by
    simp [mapExit, dispatch, ladder, handle, Exc.type, SIGINT_EXIT]
  have a1 : awaits .connect = 5 := by decide
  have a2 : awaits .insert = 2 := by decide
  have a3 : awaits .complete = 2 := by decide
  have a4 : awaits .disconnect = 1 := by decide
  cases c <;> cases m <;>
    (match i with
     | 0 | 1 | 2 | 3 | 4 | n + 5 =>
       simp [DbFault.violations, run, tryDb, call, faultOf, stmts, runStmts, Stmt.awaited, Db.apply, Db.close, allowed, Fault.reached,
             a1, a2, a3, a4, rowDemanded, Fault.bad, hx, h70, h130, SOFTWARE, SIGINT_EXIT])

/-- without a fault the statement-level model is `dbInsert` + the database part of `finish`: row completed with the code -/
theorem dbfault_none_refines (k : Kind) (body : Option Exc) :
    run k none body = ⟨if (mapExit {} k body).2 then .escCancelled else .ret (mapExit {} k body).1,
                       some (some (mapExit {} k body).1), true, true, false⟩ := by
  simp [run, tryDb, call, faultOf, stmts, runStmts, Stmt.awaited, Db.apply, Db.close]

-- non-vacuity: a good fault point (the commit of insert_run_meta fails: the row is completed with 70), a bad one, one never reached
example : run .plain (some ⟨.insert, 1, .raise⟩) none = ⟨.ret 70, some (some 70), true, true, true⟩
    ∧ (⟨.insert, 1, .raise⟩ : Fault).bad = false
    ∧ run .plain (some ⟨.insert, 1, .cancel⟩) (some (.sysExit 3)) = ⟨.ret 130, some (some 130), true, true, true⟩
    ∧ run .uds (some ⟨.insert, 0, .cancel⟩) none = ⟨.ret 130, some none, true, true, true⟩
    ∧ run .plain (some ⟨.complete, 0, .cancel⟩) (some (.sysExit 3)) = ⟨.ret 3, some (some 3), true, true, true⟩
    ∧ run .plain (some ⟨.complete, 0, .raise⟩) none = ⟨.ret 0, some none, true, true, true⟩
    ∧ run .plain (some ⟨.disconnect, 7, .raise⟩) (some (.sysExit 4)) = ⟨.ret 4, some (some 4), true, true, false⟩ := by decide

/-! ### contention on the database file (another writer holds the write lock for a while) -/

/-- Contention that ends before the connection's busy timeout is invisible: for ANY phase, duration, timeout, command kind and
    ending of the command the run is the undisturbed one. -/
theorem short_contention_invisible (timeout : Nat) (k : Kind) (c : Contention) (body : Option Exc) (h : c.hold < timeout) :
    runC timeout k c body = run k none body := by
  simp [runC, contentionFault, h, dbfault_none_refines]

/-- ... so with the documented timeout every demand of the property is met and the run entry is completed with the code. -/
theorem short_contention_consistent (k : Kind) (c : Contention) (body : Option Exc) (h : c.hold < BUSY_TIMEOUT_MS) :
    violationsC k c body (runC BUSY_TIMEOUT_MS k c body) = []
    ∧ (runC BUSY_TIMEOUT_MS k c body).row = some (some (mapExit {} k body).1) := by
  have hm : (mapExit {} k body).2 = false := by
    unfold mapExit
    split
    · rfl
    · rename_i e; cases e <;> rfl
  rw [short_contention_invisible _ k c body h, dbfault_none_refines]
  simp [violationsC, h, DbFault.violations, allowed, hm]

/-- The timeout matters: a connection that waits less than the other writer holds the lock loses the end of the run when the
    contention meets complete_run_meta - whatever the kind and the ending (the run entry stays without end time / exit code). -/
theorem long_contention_loses_the_record (timeout : Nat) (k : Kind) (hold : Nat) (body : Option Exc)
    (h1 : timeout ≤ hold) (h2 : hold < BUSY_TIMEOUT_MS) :
    (runC timeout k ⟨.complete, hold⟩ body).row = some none
    ∧ "db-unfinished" ∈ violationsC k ⟨.complete, hold⟩ body (runC timeout k ⟨.complete, hold⟩ body) := by
  have h : ¬ hold < timeout := by omega
  simp [runC, contentionFault, h, h2, firstLock, Phase.call, stmts, Stmt.locks, violationsC, DbFault.violations, run, tryDb, call,
        faultOf, runStmts, Stmt.awaited, Db.apply, Db.close, rowDemanded]

-- non-vacuity: 1.5 s of contention at the end of a run that exits with 3: invisible with 10 s of patience, fatal with 10 ms
example : runC BUSY_TIMEOUT_MS .plain ⟨.complete, 1500⟩ (some (.sysExit 3)) = ⟨.ret 3, some (some 3), true, true, false⟩
    ∧ runC 10 .plain ⟨.complete, 1500⟩ (some (.sysExit 3)) = ⟨.ret 3, some none, true, true, false⟩
    ∧ runC 10 .uds ⟨.insert, 300⟩ (some (.sysExit 3)) = ⟨.ret 70, none, true, true, false⟩
    ∧ runC 0 .scanner ⟨.disconnect, 1500⟩ none = ⟨.ret 0, some (some 0), true, true, false⟩
    ∧ violationsC .uds ⟨.insert, 300⟩ (some (.sysExit 3)) (runC 10 .uds ⟨.insert, 300⟩ (some (.sysExit 3))) = ["exit-code"] := by decide

end DbFaults

end Gallia.C15
