import Gallia.Proofs.Lemmas.Server
import Gallia.Gen.C13Chain
/-
  C13 - the virtual ECU answers by the ISO 14229-1 default response rules.
  `respond` (Model/Server.lean) follows `UDSServer.respond` statement by statement; `isoDefault`
  (Spec/IsoDefault.lean) is the priority list of the standard. Property theorems only.
-/
namespace Gallia.C13
open Gallia Gallia.Server Gallia.IsoDefault

/-! ### (T) regenerated tables -/

/-- the model's rule order is the order of the `if` statements of `respond_without_state_change`, each guarded
    by the switch of the same name; then the handler, then `default_response_if_none` -/
theorem chain_order_agrees :
    Gen.C13Chain.chain = chain.map (fun i => (i.name, i.name)) ++
      [("", "respond_after_default"), (Sw.none_.name, Sw.none_.name)] := by decide

/-- `respond` = chain, then `update_state`, then the (guarded) suppression -/
theorem respond_order_agrees :
    Gen.C13Chain.respondCalls = ["respond_without_state_change", "update_state", Sw.suppress.name] := by decide

/-- the nine switches, all on by default -/
theorem switches_agree : Gen.C13Chain.behaviorFields = Sw.all.map (fun i => (i.name, allOn i)) := by decide

/-- sub-function services, NRC values, service ids and the session identifier used by the model -/
theorem tables_agree :
    Gen.C13Chain.subFnServices = subFnServices ∧
    Gen.C13Chain.nrc = [("generalReject", nrcGeneralReject), ("serviceNotSupported", nrcSNS),
      ("subFunctionNotSupported", nrcSFNS), ("incorrectMessageLengthOrInvalidFormat", nrcLength),
      ("requestSequenceError", nrcSequence), ("invalidKey", nrcInvalidKey),
      ("subFunctionNotSupportedInActiveSession", nrcSFNSIAS), ("serviceNotSupportedInActiveSession", nrcSNSIAS)] ∧
    Gen.C13Chain.sid = [("DiagnosticSessionControl", sidDSC), ("EcuReset", sidReset), ("ReadDataByIdentifier", sidRDBI),
      ("SecurityAccess", sidSA), ("RoutineControl", sidRoutine), ("TesterPresent", sidTP)] ∧
    Gen.C13Chain.activeSessionDid = 0xF186 := by decide

/-- which NRCs each rule method mentions (in source order) -/
theorem rule_nrcs_agree :
    Gen.C13Chain.ruleNrcs = [
      (Sw.sns.name, ["serviceNotSupportedInActiveSession", "serviceNotSupported"]),
      (Sw.missingSub.name, ["incorrectMessageLengthOrInvalidFormat"]),
      (Sw.sfns.name, ["subFunctionNotSupportedInActiveSession", "subFunctionNotSupported"]),
      (Sw.format.name, ["incorrectMessageLengthOrInvalidFormat"]),
      (Sw.sessChange.name, []), (Sw.sessRead.name, []), (Sw.testerPresent.name, []),
      (Sw.none_.name, ["generalReject"]), (Sw.suppress.name, [])] := by decide

/-- the NRCs of the specification's priority list are the ones of the code's enum -/
theorem iso_rule_codes :
    isoRules.map (·.nrc) = [nrcSNS, nrcSNSIAS, nrcLength, nrcSFNS, nrcSFNSIAS, nrcLength] := by decide

/-! ### the headline: with every default behaviour on, the code model is the ISO priority list -/

/-- for every ECU model (a dict whose sub-function services carry lists), every handler, every state whose session
    the ECU offers and every non-empty request: answer, state afterwards and silence are those of the standard -/
theorem respond_default_iso (m : Model) (h : Handler) (st : SrvState) (r : Req) (hr : Ready m st)
    (hne : r.pdu ≠ []) :
    respond allOn m h st r = .ok (isoDefault m h st r).1 (isoDefault m h st r).2 := by
  have ha := answer_allOn m h st r hr hne
  unfold respond respondWith
  unfold respondNoState at ha
  rw [ha]
  simp only [isoDefault, updateState_eq_isoState, suppressed, allOn, Bool.true_and]
  congr 1
  cases hraw : r.raw with
  | true =>
    have := isoAnswer_neg_of_raw m h st r hraw
    simp [this]
  | false => simp [Req.suppressBit, Req.isSubFnReq, isoSuppressBit, hraw]

/-- in particular the two `assert`s and the `pdu[1]` access are never hit with the defaults on -/
theorem respond_never_crashes_allOn (m : Model) (h : Handler) (st : SrvState) (r : Req) (hr : Ready m st)
    (hne : r.pdu ≠ []) (c : Crash) : respond allOn m h st r ≠ .crash c := by
  rw [respond_default_iso m h st r hr hne]; simp

/-! ### priority: each rule wins over all later ones (replies as sent, state afterwards included) -/

/-- a negative reply is sent as it is and only clears the seed memory -/
theorem iso_negative_outcome (m : Model) (h : Handler) (st : SrvState) (r : Req) (n : Nat)
    (hx : isoNegative m st r = some n) :
    isoDefault m h st r = ({ st with lastSA := none }, some (.neg r.sid n)) := by
  simp [isoDefault, isoAnswer, hx, Resp.isNeg, isoState, isoSession, isoLevel, isoSeedMemory]

/-- 1. unknown in every session: serviceNotSupported - whatever length, sub-function, parse result -/
theorem priority_sns (m : Model) (h : Handler) (st : SrvState) (r : Req) (hr : Ready m st) (hne : r.pdu ≠ [])
    (h1 : svcAnywhere m r.sid = false) :
    respond allOn m h st r = .ok { st with lastSA := none } (some (.neg r.sid nrcSNS)) := by
  rw [respond_default_iso m h st r hr hne, iso_negative_outcome m h st r nrcSNS]
  simp [isoNegative, isoRules, h1, nrcSNS]

/-- 2. known, but not in the active session: serviceNotSupportedInActiveSession - before any length or
    sub-function consideration -/
theorem priority_snsias (m : Model) (h : Handler) (st : SrvState) (r : Req) (hr : Ready m st) (hne : r.pdu ≠ [])
    (h1 : svcAnywhere m r.sid = true) (h2 : svcIn m st.session r.sid = false) :
    respond allOn m h st r = .ok { st with lastSA := none } (some (.neg r.sid nrcSNSIAS)) := by
  rw [respond_default_iso m h st r hr hne, iso_negative_outcome m h st r nrcSNSIAS]
  simp [isoNegative, isoRules, List.find?, h1, h2, nrcSNSIAS]

/-- 3. offered here, has a sub-function, the byte is missing: incorrectMessageLengthOrInvalidFormat - before the
    sub-function rules -/
theorem priority_missing_sub (m : Model) (h : Handler) (st : SrvState) (r : Req) (hr : Ready m st) (hne : r.pdu ≠ [])
    (h2 : svcIn m st.session r.sid = true) (h3 : r.hasSubFn = true) (h4 : r.pdu.length < 2) :
    respond allOn m h st r = .ok { st with lastSA := none } (some (.neg r.sid nrcLength)) := by
  have h1 := svcIn_anywhere hr.sess h2
  rw [respond_default_iso m h st r hr hne, iso_negative_outcome m h st r nrcLength]
  simp [isoNegative, isoRules, List.find?, h1, h2, h3, h4, nrcLength]

/-- 4. sub-function listed in no session: subFunctionNotSupported - even if the request does not parse -/
theorem priority_sfns (m : Model) (h : Handler) (st : SrvState) (r : Req) (hr : Ready m st) (hne : r.pdu ≠ [])
    (h2 : svcIn m st.session r.sid = true) (h3 : subFnChecked r = true) (h4 : ¬ r.pdu.length < 2)
    (h5 : subAnywhere m r.sid r.subFn = false) :
    respond allOn m h st r = .ok { st with lastSA := none } (some (.neg r.sid nrcSFNS)) := by
  have h1 := svcIn_anywhere hr.sess h2
  rw [respond_default_iso m h st r hr hne, iso_negative_outcome m h st r nrcSFNS]
  simp [isoNegative, isoRules, List.find?, h1, h2, h3, h4, h5, nrcSFNS]

/-- 5. sub-function listed elsewhere only: subFunctionNotSupportedInActiveSession - even if the request does not parse -/
theorem priority_sfnsias (m : Model) (h : Handler) (st : SrvState) (r : Req) (hr : Ready m st) (hne : r.pdu ≠ [])
    (h2 : svcIn m st.session r.sid = true) (h3 : subFnChecked r = true) (h4 : ¬ r.pdu.length < 2)
    (h5 : subAnywhere m r.sid r.subFn = true) (h6 : subIn m st.session r.sid r.subFn = false) :
    respond allOn m h st r = .ok { st with lastSA := none } (some (.neg r.sid nrcSFNSIAS)) := by
  have h1 := svcIn_anywhere hr.sess h2
  rw [respond_default_iso m h st r hr hne, iso_negative_outcome m h st r nrcSFNSIAS]
  simp [isoNegative, isoRules, List.find?, h1, h2, h3, h4, h5, h6, nrcSFNSIAS]

/-- 6. service and sub-function fine, request does not parse: incorrectMessageLengthOrInvalidFormat - before any
    service handling -/
theorem priority_format (m : Model) (h : Handler) (st : SrvState) (r : Req) (hr : Ready m st) (hne : r.pdu ≠ [])
    (h2 : svcIn m st.session r.sid = true) (h3 : r.hasSubFn = true → ¬ r.pdu.length < 2)
    (h5 : subFnChecked r = true → subIn m st.session r.sid r.subFn = true) (hraw : r.raw = true) :
    respond allOn m h st r = .ok { st with lastSA := none } (some (.neg r.sid nrcLength)) := by
  have h1 := svcIn_anywhere hr.sess h2
  rw [respond_default_iso m h st r hr hne, iso_negative_outcome m h st r nrcLength]
  cases hs : r.hasSubFn with
  | false => simp [isoNegative, isoRules, List.find?, h1, h2, hs, subFnChecked, hraw, nrcLength]
  | true =>
    have h4 := h3 hs
    cases hc : subFnChecked r with
    | false => simp [isoNegative, isoRules, List.find?, h1, h2, h4, hc, hraw, nrcLength]
    | true =>
      have h6 := h5 hc
      have h7 := subIn_anywhere hr.sess h6
      simp [isoNegative, isoRules, List.find?, h1, h2, h4, hc, h6, h7, hraw, nrcLength]

/-- 7. only when no general rule applies does the service stage (session control, session read, tester present,
    handler, generalReject) answer -/
theorem service_stage (m : Model) (h : Handler) (st : SrvState) (r : Req) (hr : Ready m st) (hne : r.pdu ≠ [])
    (h2 : svcIn m st.session r.sid = true) (h3 : r.hasSubFn = true → ¬ r.pdu.length < 2)
    (h5 : subFnChecked r = true → subIn m st.session r.sid r.subFn = true) (hraw : r.raw = false) :
    respondNoState allOn m h st r = .resp (isoService h st r) := by
  have h1 := svcIn_anywhere hr.sess h2
  rw [answer_allOn m h st r hr hne]
  congr 1
  cases hs : r.hasSubFn with
  | false => simp [isoAnswer, isoNegative, isoRules, List.find?, h1, h2, hs, subFnChecked, hraw]
  | true =>
    have h4 := h3 hs
    cases hc : subFnChecked r with
    | false => simp [isoAnswer, isoNegative, isoRules, List.find?, h1, h2, h4, hc, hraw]
    | true =>
      have h6 := h5 hc
      have h7 := subIn_anywhere hr.sess h6
      simp [isoAnswer, isoNegative, isoRules, List.find?, h1, h2, h4, hc, h6, h7, hraw]

/-- RoutineControl is exempt from the sub-function rules: a parsable request for an offered RoutineControl reaches
    the service stage whatever the model lists as its sub-functions -/
theorem routine_control_exempt (m : Model) (h : Handler) (st : SrvState) (r : Req) (hr : Ready m st)
    (hsid : r.sid = sidRoutine) (h2 : svcIn m st.session r.sid = true) (h4 : ¬ r.pdu.length < 2)
    (hraw : r.raw = false) :
    respondNoState allOn m h st r = .resp ((h st r).getD (.neg r.sid nrcGeneralReject)) := by
  have hne : r.pdu ≠ [] := by intro h0; simp [h0] at h4
  rw [service_stage m h st r hr hne h2 (fun _ => h4) (by simp [subFnChecked, hsid]) hraw]
  simp [isoService, hsid, sidRoutine, sidDSC, sidRDBI, sidTP, nrcGeneralReject]

/-! ### suppression -/

/-- defaults on: the reply is omitted iff the answer is positive and the request carries the suppress bit -/
theorem suppress_iff (m : Model) (h : Handler) (st : SrvState) (r : Req) (hr : Ready m st) (hne : r.pdu ≠ []) :
    (∃ st', respond allOn m h st r = .ok st' none) ↔
      ((isoAnswer m h st r).isNeg = false ∧ isoSuppressBit r = true) := by
  rw [respond_default_iso m h st r hr hne]
  simp only [isoDefault]
  cases h1 : (isoAnswer m h st r).isNeg <;> cases h2 : isoSuppressBit r <;> simp

/-- every switch subset: what `respond` does with an answer `x` of the chain - the state update always happens,
    the reply is dropped iff the suppress switch is on, `x` is positive and the parsed request carries the bit -/
theorem respond_of_answer (b : Behavior) (m : Model) (h : Handler) (st : SrvState) (r : Req) (x : Resp)
    (hx : respondNoState b m h st r = .resp x) :
    respond b m h st r =
      .ok (updateState st x) (if b .suppress = true ∧ x.isNeg = false ∧ r.suppressBit = true then none else some x) := by
  unfold respondNoState at hx
  unfold respond respondWith
  rw [hx]
  simp [suppressed, and_assoc]

/-- negative replies are never suppressed, under any switch subset -/
theorem neg_never_suppressed (b : Behavior) (m : Model) (h : Handler) (st : SrvState) (r : Req) (s n : Nat)
    (hx : respondNoState b m h st r = .resp (.neg s n)) :
    respond b m h st r = .ok { st with lastSA := none } (some (.neg s n)) := by
  rw [respond_of_answer b m h st r _ hx]
  simp [Resp.isNeg, updateState]

/-- the reply to a request that did not parse is never suppressed (it is not a sub-function request) -/
theorem raw_never_suppressed (b : Behavior) (m : Model) (h : Handler) (st : SrvState) (r : Req) (x : Resp)
    (hraw : r.raw = true) (hx : respondNoState b m h st r = .resp x) :
    respond b m h st r = .ok (updateState st x) (some x) := by
  rw [respond_of_answer b m h st r _ hx]
  simp [Req.suppressBit, Req.isSubFnReq, hraw]

/-- with the suppress switch off every answer is sent -/
theorem disable_suppress (b : Behavior) (m : Model) (h : Handler) (st : SrvState) (r : Req) (x : Resp)
    (hx : respondNoState b m h st r = .resp x) :
    respond (b.off .suppress) m h st r = .ok (updateState st x) (some x) := by
  have hx' : respondNoState (b.off .suppress) m h st r = .resp x := by
    have e : runChain (b.off .suppress) m st r chain = runChain b m st r chain := by
      rw [runChain_off]; rfl
    unfold respondNoState respondNoStateWith at hx ⊢
    rw [e]
    cases hp : r.pdu.isEmpty with
    | true => simp [hp] at hx
    | false =>
      simp only [hp, Bool.false_eq_true, if_false] at hx ⊢
      cases hc : runChain b m st r chain <;> simp [hc, finish, Behavior.off] at hx ⊢ <;> exact hx
  rw [respond_of_answer _ m h st r _ hx']
  simp [Behavior.off]

/-! ### state changes -/

/-- the session changes only with a positive DiagnosticSessionControl reply (to its session) or a positive
    ECUReset reply (to the default session) - sent or suppressed, under any switch subset -/
theorem session_changes_only_on_positive_dsc (b : Behavior) (m : Model) (h : Handler) (st st' : SrvState) (r : Req)
    (reply : Option Resp) (hok : respond b m h st r = .ok st' reply) (hch : st'.session ≠ st.session) :
    ∃ x, respondNoState b m h st r = .resp x ∧
      ((∃ t rec, x = .dsc t rec ∧ st'.session = t) ∨ (∃ p, x = .reset p ∧ st'.session = 1)) := by
  unfold respond respondWith at hok
  unfold respondNoState
  cases hp : respondNoStateWith chain b m h st r with
  | crash c => simp [hp] at hok
  | silent => simp [hp] at hok; exact absurd (by rw [← hok.1]) hch
  | resp x =>
    simp only [hp, Outcome.ok.injEq] at hok
    refine ⟨x, rfl, ?_⟩
    obtain ⟨hst, _⟩ := hok
    subst hst
    cases x with
    | dsc t rec => left; exact ⟨t, rec, rfl, by simp [updateState]⟩
    | reset p => right; exact ⟨p, rfl, by simp [updateState, SrvState.reset]⟩
    | sa t seed => exfalso; apply hch; by_cases ht : t % 2 = 0 <;> simp [updateState, ht]
    | _ => exfalso; apply hch; simp [updateState]

/-- the security level is unlocked only by a positive sendKey reply (even type `t`, level `t - 1`) and re-locked
    only by a positive session-control or reset reply -/
theorem security_only_on_positive_even_sa (b : Behavior) (m : Model) (h : Handler) (st st' : SrvState) (r : Req)
    (reply : Option Resp) (hok : respond b m h st r = .ok st' reply) (hch : st'.level ≠ st.level) :
    ∃ x, respondNoState b m h st r = .resp x ∧
      ((∃ t seed, x = .sa t seed ∧ t % 2 = 0 ∧ st'.level = some ((t : Int) - 1)) ∨
       (((∃ t rec, x = .dsc t rec) ∨ (∃ p, x = .reset p)) ∧ st'.level = none)) := by
  unfold respond respondWith at hok
  unfold respondNoState
  cases hp : respondNoStateWith chain b m h st r with
  | crash c => simp [hp] at hok
  | silent => simp [hp] at hok; exact absurd (by rw [← hok.1]) hch
  | resp x =>
    simp only [hp, Outcome.ok.injEq] at hok
    refine ⟨x, rfl, ?_⟩
    obtain ⟨hst, _⟩ := hok
    subst hst
    cases x with
    | dsc t rec => right; exact ⟨Or.inl ⟨t, rec, rfl⟩, by simp [updateState, SrvState.reset]⟩
    | reset p => right; exact ⟨Or.inr ⟨p, rfl⟩, by simp [updateState, SrvState.reset]⟩
    | sa t seed =>
      by_cases ht : t % 2 = 0
      · left; exact ⟨t, seed, rfl, ht, by simp [updateState, ht]⟩
      · exfalso; apply hch; simp [updateState, ht]
    | _ => exfalso; apply hch; simp [updateState]

/-- a positive session-control reply (sent or suppressed) activates that session, locked, seed forgotten -/
theorem session_on_positive_dsc (b : Behavior) (m : Model) (h : Handler) (st : SrvState) (r : Req) (t : Nat)
    (rec : Bytes) (hx : respondNoState b m h st r = .resp (.dsc t rec)) :
    ∃ reply, respond b m h st r = .ok ⟨t, none, none⟩ reply := by
  rw [respond_of_answer b m h st r _ hx]
  have e : updateState st (.dsc t rec) = ⟨t, none, none⟩ := by simp [updateState, SrvState.reset]
  rw [e]; exact ⟨_, rfl⟩

/-- a positive ECUReset reply returns to the default session, locked -/
theorem reset_on_positive_reset (b : Behavior) (m : Model) (h : Handler) (st : SrvState) (r : Req) (p : Bytes)
    (hx : respondNoState b m h st r = .resp (.reset p)) :
    ∃ reply, respond b m h st r = .ok ⟨1, none, none⟩ reply := by
  rw [respond_of_answer b m h st r _ hx]
  have e : updateState st (.reset p) = ⟨1, none, none⟩ := by simp [updateState, SrvState.reset]
  rw [e]; exact ⟨_, rfl⟩

/-- a positive sendKey reply unlocks exactly its level and keeps the session -/
theorem unlock_on_positive_sendkey (b : Behavior) (m : Model) (h : Handler) (st : SrvState) (r : Req) (t : Nat)
    (seed : Bytes) (ht : t % 2 = 0) (hx : respondNoState b m h st r = .resp (.sa t seed)) :
    ∃ reply, respond b m h st r = .ok ⟨st.session, some ((t : Int) - 1), some (t, seed)⟩ reply := by
  rw [respond_of_answer b m h st r _ hx]
  have e : updateState st (.sa t seed) = ⟨st.session, some ((t : Int) - 1), some (t, seed)⟩ := by
    simp [updateState, ht]
  rw [e]; exact ⟨_, rfl⟩

/-- TesterPresent leaves the whole state alone, the seed memory included -/
theorem tester_present_keeps_state (b : Behavior) (m : Model) (h : Handler) (st : SrvState) (r : Req)
    (hx : respondNoState b m h st r = .resp .tp) : ∃ reply, respond b m h st r = .ok st reply := by
  rw [respond_of_answer b m h st r _ hx]
  have e : updateState st .tp = st := by simp [updateState]
  rw [e]; exact ⟨_, rfl⟩

/-! ### disabling one behaviour only removes that rule -/

/-- switching rule `i` of the chain off is the same server with that rule deleted from the chain - for every
    setting of the other eight switches, every model, state and request -/
theorem disable_one (b : Behavior) (m : Model) (h : Handler) (st : SrvState) (r : Req) (i : Sw) (hi : i ∈ chain) :
    respond (b.off i) m h st r = respondWith (chain.filter (· ≠ i)) b m h st r := by
  have hn : (b.off i) .none_ = b .none_ := by
    simp only [Behavior.off]; split
    · next e => subst e; simp [chain] at hi
    · rfl
  have hsup : (b.off i) .suppress = b .suppress := by
    simp only [Behavior.off]; split
    · next e => subst e; simp [chain] at hi
    · rfl
  have hf : ∀ o, finish (b.off i) h st r o = finish b h st r o := by
    intro o; cases o <;> simp [finish, hn]
  unfold respond respondWith respondNoStateWith
  rw [runChain_off, hf]
  simp only [suppressed, hsup]
  rfl

/-- ... and if rule `i` would not have fired on this request (or was off already) nothing changes at all -/
theorem off_i_only_affects_rule_i (b : Behavior) (m : Model) (h : Handler) (st : SrvState) (r : Req) (i : Sw)
    (hi : i ∈ chain) (hp : b i = false ∨ evalRule i m st r = .pass) :
    respond (b.off i) m h st r = respond b m h st r := by
  rw [disable_one b m h st r i hi]
  unfold respond respondWith respondNoStateWith
  rw [runChain_drop_pass b m st r i chain hp]

/-- the rules in front of `i` are unaffected: if one of them fires, it fires with `i` off just the same -/
theorem off_i_keeps_earlier (b : Behavior) (m : Model) (st : SrvState) (r : Req) (i : Sw) (pre post : List Sw)
    (hpre : i ∉ pre) (x : RuleOut) (hx : runChain b m st r pre = x) (hfire : x ≠ .pass) :
    runChain (b.off i) m st r (pre ++ post) = x := by
  induction pre with
  | nil => simp [runChain] at hx; exact absurd hx.symm hfire
  | cons j rest ih =>
    have hj : j ≠ i := fun e => hpre (by simp [e])
    have hrest : i ∉ rest := fun e => hpre (by simp [e])
    simp only [List.cons_append, runChain, Behavior.off, hj, if_false] at hx ⊢
    cases hb : b j with
    | false => simp only [hb, Bool.false_eq_true, if_false] at hx ⊢; exact ih hrest hx
    | true =>
      simp only [hb, if_true] at hx ⊢
      cases he : evalRule j m st r with
      | pass => simp only [he] at hx ⊢; exact ih hrest hx
      | fire y => simpa [he] using hx
      | crash c => simpa [he] using hx

/-- `default_response_if_none` off: where the chain and the handler have no answer the server stays silent and
    keeps its state; every other request is answered as before -/
theorem disable_none (b : Behavior) (m : Model) (h : Handler) (st : SrvState) (r : Req) :
    respond (b.off .none_) m h st r =
      if r.pdu.isEmpty = false ∧ runChain b m st r chain = .pass ∧ h st r = none then .ok st none
      else respond b m h st r := by
  have e : runChain (b.off .none_) m st r chain = runChain b m st r chain := by rw [runChain_off]; rfl
  have hsup : (b.off .none_) .suppress = b .suppress := by simp [Behavior.off]
  unfold respond respondWith respondNoStateWith
  rw [e]
  cases hp : r.pdu.isEmpty with
  | true => simp
  | false =>
    cases hc : runChain b m st r chain with
    | fire x => simp [finish, suppressed, hsup]
    | crash c => simp [finish]
    | pass =>
      cases hh : h st r with
      | some x => simp [finish, hh, suppressed, hsup]
      | none => simp [finish, hh, Behavior.off]

/-! ### which requests change the session when the defaults are on -/

/-- defaults on, a handler that (like `RandomUDSServer`'s) never fabricates session-control replies: the session
    changes only through a parsed DiagnosticSessionControl request whose sub-function is listed for the active
    session - to exactly that sub-function - or through a positive ECUReset reply of the handler - to session 1 -/
theorem session_change_needs_listed_dsc (m : Model) (h : Handler) (st st' : SrvState) (r : Req) (reply : Option Resp)
    (hr : Ready m st) (hne : r.pdu ≠ [])
    (hh : ∀ x, h st r = some x → ∀ t rec, x ≠ .dsc t rec)
    (hok : respond allOn m h st r = .ok st' reply) (hch : st'.session ≠ st.session) :
    (r.sid = sidDSC ∧ r.raw = false ∧ st'.session = r.subFn ∧ subIn m st.session sidDSC r.subFn = true) ∨
    (st'.session = 1 ∧ ∃ p, h st r = some (.reset p)) := by
  obtain ⟨x, hx, hcase⟩ := session_changes_only_on_positive_dsc allOn m h st st' r reply hok hch
  rw [answer_allOn m h st r hr hne] at hx
  have hx : isoAnswer m h st r = x := by simpa using hx
  -- the answer is positive, so no negative rule applied
  unfold isoAnswer at hx
  cases hn : isoNegative m st r with
  | some n => rw [hn] at hx; subst hx; rcases hcase with ⟨t, rec, e, _⟩ | ⟨p, e, _⟩ <;> simp at e
  | none =>
    rw [hn] at hx
    simp only at hx
    have hnone := hn
    unfold isoNegative at hnone
    have hall := List.find?_eq_none.mp (by simpa using hnone)
    have hraw : r.raw = false := by
      have := hall ⟨"incorrectMessageLengthOrInvalidFormat (request does not parse)", 0x13, fun _ _ r => r.raw⟩
        (by simp [isoRules])
      simpa using this
    have h5 : ¬ (subFnChecked r && !subIn m st.session r.sid r.subFn) = true := by
      have := hall ⟨"subFunctionNotSupportedInActiveSession", 0x7E,
        fun m st r => subFnChecked r && !subIn m st.session r.sid r.subFn⟩ (by simp [isoRules])
      simpa using this
    unfold isoService at hx
    by_cases g1 : (r.sid == sidDSC) = true
    · have hsid : r.sid = sidDSC := by simpa using g1
      simp only [g1, if_true] at hx
      subst hx
      rcases hcase with ⟨t, rec, e, hs'⟩ | ⟨p, e, _⟩
      · have : r.subFn = t := by
          have e' := e; simp at e'; exact e'.1
        have hck : subFnChecked r = true := by simp [subFnChecked, Req.hasSubFn, hsid, subFnServices, sidDSC, sidRoutine]
        refine Or.inl ⟨hsid, hraw, by rw [hs', this], ?_⟩
        rw [hck] at h5
        rw [← hsid]
        simpa using h5
      · simp at e
    · simp only [g1, Bool.false_eq_true, if_false] at hx
      split at hx
      · subst hx; rcases hcase with ⟨t, rec, e, _⟩ | ⟨p, e, _⟩ <;> simp at e
      · split at hx
        · subst hx; rcases hcase with ⟨t, rec, e, _⟩ | ⟨p, e, _⟩ <;> simp at e
        · cases hhr : h st r with
          | none => rw [hhr] at hx; simp at hx; subst hx; rcases hcase with ⟨t, rec, e, _⟩ | ⟨p, e, _⟩ <;> simp at e
          | some y =>
            rw [hhr] at hx; simp at hx; subst hx
            rcases hcase with ⟨t, rec, e, _⟩ | ⟨p, e, h1⟩
            · exact absurd e (hh y hhr t rec)
            · exact Or.inr ⟨h1, p, by rw [e]⟩

/-- an ECU model is closed when the default session is offered and session control only ever lists offered sessions
    (what `RandomUDSServer.randomize` builds) -/
structure Closed (m : Model) : Prop where
  dflt : 1 ∈ m.sessions
  dsc : ∀ s ∈ m.sessions, ∀ t, subIn m s sidDSC t = true → t ∈ m.sessions

/-- defaults on: the server never leaves the sessions its model offers - also across the inactivity reset -/
theorem session_stays_offered (m : Model) (h : Handler) (ts : TState) (now : Nat) (r : Req)
    (hr : Ready m ts.st) (hc : Closed m) (hne : r.pdu ≠ [])
    (hh : ∀ st x, h st r = some x → ∀ t rec, x ≠ .dsc t rec) :
    Ready m (handleAt allOn m h ts now r).1.st := by
  have hr0 : Ready m (if now - ts.lastActive > idleLimit then ts.st.reset else ts.st) := by
    split
    · exact ⟨hr.wf, hc.dflt, hr.listed⟩
    · exact hr
  unfold handleAt
  simp only
  generalize (if now - ts.lastActive > idleLimit then ts.st.reset else ts.st) = st0 at hr0
  cases hres : respond allOn m h st0 r with
  | crash c => exact absurd hres (respond_never_crashes_allOn m h st0 r hr0 hne c)
  | ok st' reply =>
    simp only
    by_cases hch : st'.session = st0.session
    · exact ⟨hr0.wf, by rw [hch]; exact hr0.sess, hr0.listed⟩
    · rcases session_change_needs_listed_dsc m h st0 st' r reply hr0 hne (hh st0) hres hch with
        ⟨_, _, hs, hl⟩ | ⟨h1, _⟩
      · exact ⟨hr0.wf, by rw [hs]; exact hc.dsc _ hr0.sess _ hl, hr0.listed⟩
      · exact ⟨hr0.wf, by rw [h1]; exact hc.dflt, hr0.listed⟩

/-- hence for every history of non-empty requests, at any times: the state stays in the model ... -/
theorem history_stays_offered (m : Model) (h : Handler) (hc : Closed m)
    (hh : ∀ st r x, h st r = some x → ∀ t rec, x ≠ .dsc t rec) :
    ∀ (reqs : List (Nat × Req)) (ts : TState), Ready m ts.st → (∀ p ∈ reqs, p.2.pdu ≠ []) →
      Ready m (run allOn m h ts reqs).st := by
  intro reqs
  induction reqs with
  | nil => intro ts hr _; exact hr
  | cons p rest ih =>
    intro ts hr hall
    obtain ⟨now, r⟩ := p
    simp only [run]
    apply ih
    · exact session_stays_offered m h ts now r hr hc (hall (now, r) (by simp)) (fun st x => hh st r x)
    · intro q hq; exact hall q (by simp [hq])

/-- ... and no request of the history (nor the next one) hits an `assert` or an index error -/
theorem history_never_crashes (m : Model) (h : Handler) (hc : Closed m)
    (hh : ∀ st r x, h st r = some x → ∀ t rec, x ≠ .dsc t rec)
    (reqs : List (Nat × Req)) (ts : TState) (hr : Ready m ts.st) (hall : ∀ p ∈ reqs, p.2.pdu ≠ [])
    (now : Nat) (r : Req) (hne : r.pdu ≠ []) (c : Crash) :
    (handleAt allOn m h (run allOn m h ts reqs) now r).2 ≠ .crash c := by
  have hr' := history_stays_offered m h hc hh reqs ts hr hall
  generalize run allOn m h ts reqs = ts' at hr'
  have hr0 : Ready m (if now - ts'.lastActive > idleLimit then ts'.st.reset else ts'.st) := by
    split
    · exact ⟨hr'.wf, hc.dflt, hr'.listed⟩
    · exact hr'
  unfold handleAt
  simp only
  generalize (if now - ts'.lastActive > idleLimit then ts'.st.reset else ts'.st) = st0 at hr0
  cases hres : respond allOn m h st0 r with
  | crash c' => exact absurd hres (respond_never_crashes_allOn m h st0 r hr0 hne c')
  | ok st' reply => simp

/-! ### seed / key sequencing of `RandomUDSServer.security_access` -/

/-- defaults on, the handler of `RandomUDSServer` (its random parts an oracle that never fabricates SecurityAccess
    replies): a level is unlocked only by a parsed sendKey request whose type follows the type of the last
    SecurityAccess reply and whose key equals the seed of that reply; the level unlocked is that reply's type -/
theorem unlock_requires_seed_then_key (m : Model) (orc : Handler) (seedOf : SrvState → Req → Bytes)
    (st st' : SrvState) (r : Req) (reply : Option Resp) (l : Int)
    (hr : Ready m st) (hne : r.pdu ≠ [])
    (horc : ∀ x, orc st r = some x → ∀ t sd, x ≠ .sa t sd)
    (hok : respond allOn m (rndHandler orc seedOf) st r = .ok st' reply)
    (hch : st'.level ≠ st.level) (hl : st'.level = some l) :
    r.sid = sidSA ∧ r.raw = false ∧
      ∃ t0 seed, st.lastSA = some (t0, seed) ∧ r.subFn = t0 + 1 ∧ r.pdu.drop 2 = seed ∧ l = t0 := by
  obtain ⟨x, hx, hcase⟩ := security_only_on_positive_even_sa allOn m _ st st' r reply hok hch
  rw [answer_allOn m _ st r hr hne] at hx
  have hx : isoAnswer m (rndHandler orc seedOf) st r = x := by simpa using hx
  rcases hcase with ⟨t, sd, e, ht, hlv⟩ | ⟨_, hnone⟩
  · subst e
    unfold isoAnswer at hx
    cases hn : isoNegative m st r with
    | some n => rw [hn] at hx; simp at hx
    | none =>
      rw [hn] at hx
      simp only at hx
      unfold isoService at hx
      split at hx
      · simp at hx
      · split at hx
        · simp at hx
        · split at hx
          · simp at hx
          · unfold rndHandler at hx
            by_cases g : (!r.raw && r.sid == sidSA) = true
            · have hraw : r.raw = false := by
                cases hh : r.raw <;> simp [hh] at g ⊢
              have hsid : r.sid = sidSA := by
                rw [hraw] at g; simpa using g
              simp only [g, if_true] at hx
              by_cases hodd : r.subFn % 2 = 1
              · simp only [hodd] at hx
                simp at hx
                omega
              · have hb : (r.subFn % 2 == 1) = false := by simpa using hodd
                simp only [hb, Bool.false_eq_true, if_false] at hx
                cases hsa : st.lastSA with
                | none => rw [hsa] at hx; simp at hx
                | some p =>
                  obtain ⟨t0, seed⟩ := p
                  rw [hsa] at hx
                  simp only at hx
                  by_cases h1 : r.subFn ≠ t0 + 1
                  · simp [h1] at hx
                  · have h1' : r.subFn = t0 + 1 := by omega
                    by_cases h2 : (r.pdu.drop 2 == seed) = true
                    · simp only [h1', h2, if_true] at hx
                      have ht' : t0 + 1 = t := by
                        have hx' := hx; simp at hx'; exact hx'.1
                      refine ⟨hsid, hraw, t0, seed, rfl, h1', by simpa using h2, ?_⟩
                      rw [hl] at hlv
                      have : l = (t : Int) - 1 := by simpa using hlv
                      omega
                    · simp [h1', h2] at hx
            · simp only [g, Bool.false_eq_true, if_false] at hx
              cases ho : orc st r with
              | none => rw [ho] at hx; simp at hx
              | some y => rw [ho] at hx; simp at hx; exact absurd hx (horc y ho t sd)
  · rw [hl] at hnone; simp at hnone

/-! ### the hypotheses are satisfiable: a concrete ECU -/

/-- two sessions; session control, tester present, an identifier service in the default session; security access and
    routine control in session 3 -/
def exModel : Model := Model.ofAssoc
  [(1, [(0x10, some [1, 3]), (0x3E, some [0]), (0x22, none)]),
   (3, [(0x10, some [1]), (0x27, some [1, 2]), (0x31, some [1, 2, 3])])]

example : Ready exModel ⟨3, none, none⟩ :=
  ⟨ofAssoc_wf _, by decide, ofAssoc_listed _ (by decide)⟩

example : Closed exModel := by
  refine ⟨by decide, ?_⟩
  intro s hs t ht
  have hs' : s = 1 ∨ s = 3 := by simpa [exModel, Model.ofAssoc] using hs
  rcases hs' with rfl | rfl <;>
    simp [subIn, exModel, Model.ofAssoc, List.lookup, sidDSC] at ht ⊢ <;> first | exact ht | exact Or.inl ht

/-- `10 83` in the default session: session 3 is activated, the positive reply suppressed -/
example : respond allOn exModel (fun _ _ => none) ⟨1, none, none⟩ ⟨[0x10, 0x83], false⟩ = .ok ⟨3, none, none⟩ none := by
  decide

/-- `27 02 AA` in session 3 after seed `AA` for level 1: unlocked; the same in session 1: SNSIAS wins -/
example : respond allOn exModel (rndHandler (fun _ _ => none) (fun _ _ => [])) ⟨3, none, some (1, [0xAA])⟩
    ⟨[0x27, 0x02, 0xAA], false⟩ = .ok ⟨3, some 1, some (2, [])⟩ (some (.sa 2 [])) := by decide

example : respond allOn exModel (rndHandler (fun _ _ => none) (fun _ _ => [])) ⟨1, none, some (1, [0xAA])⟩
    ⟨[0x27, 0x02, 0xAA], false⟩ = .ok ⟨1, none, none⟩ (some (.neg 0x27 0x7F)) := by decide

/-- sub-function rule off, `10 05`: the ECU enters a session it does not offer and the next request hits the assert -/
example : respond (allOn.off .sfns) exModel (fun _ _ => none) ⟨1, none, none⟩ ⟨[0x10, 0x05], false⟩ =
    .ok ⟨5, none, none⟩ (some (.dsc 5 [])) ∧
    respond (allOn.off .sfns) exModel (fun _ _ => none) ⟨5, none, none⟩ ⟨[0x3E, 0x00], false⟩ = .crash .assertion := by
  decide

end Gallia.C13
