import Gallia.Proofs.Lemmas.Server
import Gallia.Gen.C13Chain
/-
  C13 - the virtual ECU answers by the ISO 14229-1 default response rules.
  `respond` (Model/Server.lean) follows `UDSServer.respond` statement by statement; `isoDefault`
  (Spec/IsoDefault.lean) is the priority list of the standard. Property theorems only.
-/
namespace Gallia.C13
open Gallia Gallia.Server Gallia.IsoDefault

/-! ### (T) regenerated tables -/

/-- the model's rule order is the order of the `if` statements of `respond_without_state_change`, each guarded
    by the switch of the same name; then the handler, then `default_response_if_none` -/
theorem chain_order_agrees :
    Gen.C13Chain.chain = chain.map (fun i => (i.name, i.name)) ++
      [("", "respond_after_default"), (Sw.none_.name, Sw.none_.name)] := by decide

/-- `respond` = chain, then `update_state`, then the (guarded) suppression -/
theorem respond_order_agrees :
    Gen.C13Chain.respondCalls = ["respond_without_state_change", "update_state", Sw.suppress.name] := by decide

/-- the nine switches, all on by default -/
theorem switches_agree : Gen.C13Chain.behaviorFields = Sw.all.map (fun i => (i.name, allOn i)) := by decide

/-- sub-function services, NRC values, service ids and the session identifier used by the model -/
theorem tables_agree :
    Gen.C13Chain.subFnServices = subFnServices ∧
    Gen.C13Chain.nrc = [("generalReject", nrcGeneralReject), ("serviceNotSupported", nrcSNS),
      ("subFunctionNotSupported", nrcSFNS), ("incorrectMessageLengthOrInvalidFormat", nrcLength),
      ("requestSequenceError", nrcSequence), ("invalidKey", nrcInvalidKey),
      ("subFunctionNotSupportedInActiveSession", nrcSFNSIAS), ("serviceNotSupportedInActiveSession", nrcSNSIAS)] ∧
    Gen.C13Chain.sid = [("DiagnosticSessionControl", sidDSC), ("EcuReset", sidReset), ("ReadDataByIdentifier", sidRDBI),
      ("SecurityAccess", sidSA), ("RoutineControl", sidRoutine), ("TesterPresent", sidTP)] ∧
    Gen.C13Chain.activeSessionDid = 0xF186 := by decide

/-- which NRCs each rule method mentions (in source order) -/
theorem rule_nrcs_agree :
    Gen.C13Chain.ruleNrcs = [
      (Sw.sns.name, ["serviceNotSupportedInActiveSession", "serviceNotSupported"]),
      (Sw.missingSub.name, ["incorrectMessageLengthOrInvalidFormat"]),
      (Sw.sfns.name, ["subFunctionNotSupportedInActiveSession", "subFunctionNotSupported"]),
      (Sw.format.name, ["incorrectMessageLengthOrInvalidFormat"]),
      (Sw.sessChange.name, []), (Sw.sessRead.name, []), (Sw.testerPresent.name, []),
      (Sw.none_.name, ["generalReject"]), (Sw.suppress.name, [])] := by decide

/-- the NRCs of the specification's priority list are the ones of the code's enum -/
theorem iso_rule_codes :
    isoRules.map (·.nrc) = [nrcSNS, nrcSNSIAS, nrcLength, nrcSFNS, nrcSFNSIAS, nrcLength] := by decide

/-! ### the headline: with every default behaviour on, the code model is the ISO priority list -/

/-- for every ECU model (a dict whose sub-function services carry lists), every handler, every state whose session
    the ECU offers and every non-empty request: answer, state afterwards and silence are those of the standard -/
theorem respond_default_iso (m : Model) (h : Handler) (st : SrvState) (r : Req) (hr : Ready m st)
    (hne : r.pdu ≠ []) :
    respond allOn m h st r = .ok (isoDefault m h st r).1 (isoDefault m h st r).2 := by
  have ha := answer_allOn m h st r hr hne
  unfold respond respondWith
  unfold respondNoState at ha
  rw [ha]
  simp only [isoDefault, updateState_eq_isoState, suppressed, allOn, Bool.true_and]
  congr 1
  cases hraw : r.raw with
  | true =>
    have := isoAnswer_neg_of_raw m h st r hraw
    simp [this]
  | false => simp [Req.suppressBit, Req.isSubFnReq, isoSuppressBit, hraw]

/-- in particular the two `assert`s and the `pdu[1]` access are never hit with the defaults on -/
theorem respond_never_crashes_allOn (m : Model) (h : Handler) (st : SrvState) (r : Req) (hr : Ready m st)
    (hne : r.pdu ≠ []) (c : Crash) : respond allOn m h st r ≠ .crash c := by
  rw [respond_default_iso m h st r hr hne]; simp

/-! ### priority: each rule wins over all later ones (replies as sent, state afterwards included) -/

/-- a negative reply is sent as it is and only clears the seed memory -/
theorem iso_negative_outcome (m : Model) (h : Handler) (st : SrvState) (r : Req) (n : Nat)
    (hx : isoNegative m st r = some n) :
    isoDefault m h st r = ({ st with lastSA := none }, some (.neg r.sid n)) := by
  simp [isoDefault, isoAnswer, hx, Resp.isNeg, isoState, isoSession, isoLevel, isoSeedMemory]

/-- 1. unknown in every session: serviceNotSupported - whatever length, sub-function, parse result -/
theorem priority_sns (m : Model) (h : Handler) (st : SrvState) (r : Req) (hr : Ready m st) (hne : r.pdu ≠ [])
    (h1 : svcAnywhere m r.sid = false) :
    respond allOn m h st r = .ok { st with lastSA := none } (some (.neg r.sid nrcSNS)) := by
  rw [respond_default_iso m h st r hr hne, iso_negative_outcome m h st r nrcSNS]
  simp [isoNegative, isoRules, h1, nrcSNS]

/-- 2. known, but not in the active session: serviceNotSupportedInActiveSession - before any length or
    sub-function consideration -/
theorem priority_snsias (m : Model) (h : Handler) (st : SrvState) (r : Req) (hr : Ready m st) (hne : r.pdu ≠ [])
    (h1 : svcAnywhere m r.sid = true) (h2 : svcIn m st.session r.sid = false) :
    respond allOn m h st r = .ok { st with lastSA := none } (some (.neg r.sid nrcSNSIAS)) := by
  rw [respond_default_iso m h st r hr hne, iso_negative_outcome m h st r nrcSNSIAS]
  simp [isoNegative, isoRules, List.find?, h1, h2, nrcSNSIAS]

/-- 3. offered here, has a sub-function, the byte is missing: incorrectMessageLengthOrInvalidFormat - before the
    sub-function rules -/
theorem priority_missing_sub (m : Model) (h : Handler) (st : SrvState) (r : Req) (hr : Ready m st) (hne : r.pdu ≠ [])
    (h2 : svcIn m st.session r.sid = true) (h3 : r.hasSubFn = true) (h4 : r.pdu.length < 2) :
    respond allOn m h st r = .ok { st with lastSA := none } (some (.neg r.sid nrcLength)) := by
  have h1 := svcIn_anywhere hr.sess h2
  rw [respond_default_iso m h st r hr hne, iso_negative_outcome m h st r nrcLength]
  simp [isoNegative, isoRules, List.find?, h1, h2, h3, h4, nrcLength]

/-- 4. sub-function listed in no session: subFunctionNotSupported - even if the request does not parse -/
theorem priority_sfns (m : Model) (h : Handler) (st : SrvState) (r : Req) (hr : Ready m st) (hne : r.pdu ≠ [])
    (h2 : svcIn m st.session r.sid = true) (h3 : subFnChecked r = true) (h4 : ¬ r.pdu.length < 2)
    (h5 : subAnywhere m r.sid r.subFn = false) :
    respond allOn m h st r = .ok { st with lastSA := none } (some (.neg r.sid nrcSFNS)) := by
  have h1 := svcIn_anywhere hr.sess h2
  rw [respond_default_iso m h st r hr hne, iso_negative_outcome m h st r nrcSFNS]
  simp [isoNegative, isoRules, List.find?, h1, h2, h3, h4, h5, nrcSFNS]

/-- 5. sub-function listed elsewhere only: subFunctionNotSupportedInActiveSession - even if the request does not parse -/
theorem priority_sfnsias (m : Model) (h : Handler) (st : SrvState) (r : Req) (hr : Ready m st) (hne : r.pdu ≠ [])
    (h2 : svcIn m st.session r.sid = true) (h3 : subFnChecked r = true) (h4 : ¬ r.pdu.length < 2)
    (h5 : subAnywhere m r.sid r.subFn = true) (h6 : subIn m st.session r.sid r.subFn = false) :
    respond allOn m h st r = .ok { st with lastSA := none } (some (.neg r.sid nrcSFNSIAS)) := by
  have h1 := svcIn_anywhere hr.sess h2
  rw [respond_default_iso m h st r hr hne, iso_negative_outcome m h st r nrcSFNSIAS]
  simp [isoNegative, isoRules, List.find?, h1, h2, h3, h4, h5, h6, nrcSFNSIAS]

/-- 6. service and sub-function fine, request does not parse: incorrectMessageLengthOrInvalidFormat - before any
    service handling -/
theorem priority_format (m : Model) (h : Handler) (st : SrvState) (r : Req) (hr : Ready m st) (hne : r.pdu ≠ [])
    (h2 : svcIn m st.session r.sid = true) (h3 : r.hasSubFn = true → ¬ r.pdu.length < 2)
    (h5 : subFnChecked r = true → subIn m st.session r.sid r.subFn = true) (hraw : r.raw = true) :
    respond allOn m h st r = .ok { st with lastSA := none } (some (.neg r.sid nrcLength)) := by
  have h1 := svcIn_anywhere hr.sess h2
  rw [respond_default_iso m h st r hr hne, iso_negative_outcome m h st r nrcLength]
  cases hs : r.hasSubFn with
  | false => simp [isoNegative, isoRules, List.find?, h1, h2, hs, subFnChecked, hraw, nrcLength]
  | true =>
    have h4 := h3 hs
    cases hc : subFnChecked r with
    | false => simp [isoNegative, isoRules, List.find?, h1, h2, h4, hc, hraw, nrcLength]
    | true =>
      have h6 := h5 hc
      have h7 := subIn_anywhere hr.sess h6
      simp [isoNegative, isoRules, List.find?, h1, h2, h4, hc, h6, h7, hraw, nrcLength]

/-- 7. only when no general rule applies does the service stage (session control, session read, tester present,
    handler, generalReject) answer -/
theorem service_stage (m : Model) (h : Handler) (st : SrvState) (r : Req) (hr : Ready m st) (hne : r.pdu ≠ [])
    (h2 : svcIn m st.session r.sid = true) (h3 : r.hasSubFn = true → ¬ r.pdu.length < 2)
    (h5 : subFnChecked r = true → subIn m st.session r.sid r.subFn = true) (hraw : r.raw = false) :
    respondNoState allOn m h st r = .resp (isoService h st r) := by
  have h1 := svcIn_anywhere hr.sess h2
  rw [answer_allOn m h st r hr hne]
  congr 1
  cases hs : r.hasSubFn with
  | false => simp [isoAnswer, isoNegative, isoRules, List.find?, h1, h2, hs, subFnChecked, hraw]
  | true =>
    have h4 := h3 hs
    cases hc : subFnChecked r with
    | false => simp [isoAnswer, isoNegative, isoRules, List.find?, h1, h2, h4, hc, hraw]
    | true =>
      have h6 := h5 hc
      have h7 := subIn_anywhere hr.sess h6
      simp [isoAnswer, isoNegative, isoRules, List.find?, h1, h2, h4, hc, h6, h7, hraw]

/-- RoutineControl is exempt from the sub-function rules: a parsable request for an offered RoutineControl reaches
    the service stage whatever the model lists as its sub-functions -/
theorem routine_control_exempt (m : Model) (h : Handler) (st : SrvState) (r : Req) (hr : Ready m st)
    (hsid : r.sid = sidRoutine) (h2 : svcIn m st.session r.sid = true) (h4 : ¬ r.pdu.length < 2)
    (hraw : r.raw = false) :
    respondNoState allOn m h st r = .resp ((h st r).getD (.neg r.sid nrcGeneralReject)) := by
  have hne : r.pdu ≠ [] := by intro h0; simp [h0] at h4
  rw [service_stage m h st r hr hne h2 (fun _ => h4) (by simp [subFnChecked, hsid]) hraw]
  simp [isoService, hsid, sidRoutine, sidDSC, sidRDBI, sidTP, nrcGeneralReject]

/-! ### suppression -/

/-- defaults on: the reply is omitted iff the answer is positive and the request carries the suppress bit -/
theorem suppress_iff (m : Model) (h : Handler) (st : SrvState) (r : Req) (hr : Ready m st) (hne : r.pdu ≠ []) :
    (∃ st', respond allOn m h st r = .ok st' none) ↔
      ((isoAnswer m h st r).isNeg = false ∧ isoSuppressBit r = true) := by
  rw [respond_default_iso m h st r hr hne]
  simp only [isoDefault]
  cases h1 : (isoAnswer m h st r).isNeg <;> cases h2 : isoSuppressBit r <;> simp

/-- every switch subset: what `respond` does with an answer `x` of the chain - the state update always happens,
    the reply is dropped iff the suppress switch is on, `x` is positive and the parsed request carries the bit -/
theorem respond_of_answer (b : Behavior) (m : Model) (h : Handler) (st : SrvState) (r : Req) (x : Resp)
    (hx : respondNoState b m h st r = .resp x) :
    respond b m h st r =
      .ok (updateState st x) (if b .suppress = true ∧ x.isNeg = false ∧ r.suppressBit = true then none else some x) := by
  unfold respondNoState at hx
  unfold respond respondWith
  rw [hx]
  simp [suppressed, and_assoc]

/-- negative replies are never suppressed, under any switch subset -/
theorem neg_never_suppressed (b : Behavior) (m : Model) (h : Handler) (st : SrvState) (r : Req) (s n : Nat)
    (hx : respondNoState b m h st r = .resp (.neg s n)) :
    respond b m h st r = .ok { st with lastSA := none } (some (.neg s n)) := by
  rw [respond_of_answer b m h st r _ hx]
  simp [Resp.isNeg, updateState]

/-- the reply to a request that did not parse is never suppressed (it is not a sub-function request) -/
theorem raw_never_suppressed (b : Behavior) (m : Model) (h : Handler) (st : SrvState) (r : Req) (x : Resp)
    (hraw : r.raw = true) (hx : respondNoState b m h st r = .resp x) :
    respond b m h st r = .ok (updateState st x) (some x) := by
  rw [respond_of_answer b m h st r _ hx]
  simp [Req.suppressBit, Req.isSubFnReq, hraw]

/-- with the suppress switch off every answer is sent -/
theorem disable_suppress (b : Behavior) (m : Model) (h : Handler) (st : SrvState) (r : Req) (x : Resp)
    (hx : respondNoState b m h st r = .resp x) :
    respond (b.off .suppress) m h st r = .ok (updateState st x) (some x) := by
  have hx' : respondNoState (b.off .suppress) m h st r = .resp x := by
    have e : runChain (b.off .suppress) m st r chain = runChain b m st r chain := by
      rw [runChain_off]; rfl
    unfold respondNoState respondNoStateWith at hx ⊢
    rw [e]
    cases hp : r.pdu.isEmpty with
    | true => simp [hp] at hx
    | false =>
      simp only [hp, Bool.false_eq_true, if_false] at hx ⊢
      cases hc : runChain b m st r chain <;> simp [hc, finish, Behavior.off] at hx ⊢ <;> exact hx
  rw [respond_of_answer _ m h st r _ hx']
  simp [Behavior.off]

/-! ### state changes -/

/-- the session changes only with a positive DiagnosticSessionControl reply (to its session) or a positive
    ECUReset reply (to the default session) - sent or suppressed, under any switch subset -/
theorem session_changes_only_on_positive_dsc (b : Behavior) (m : Model) (h : Handler) (st st' : SrvState) (r : Req)
    (reply : Option Resp) (hok : respond b m h st r = .ok st' reply) (hch : st'.session ≠ st.session) :
    ∃ x, respondNoState b m h st r = .resp x ∧
      ((∃ t rec, x = .dsc t rec ∧ st'.session = t) ∨ (∃ p, x = .reset p ∧ st'.session = 1)) := by
  unfold respond respondWith at hok
  unfold respondNoState
  cases hp : respondNoStateWith chain b m h st r with
  | crash c => simp [hp] at hok
  | silent => simp [hp] at hok; exact absurd (by rw [← hok.1]) hch
  | resp x =>
    simp only [hp, Outcome.ok.injEq] at hok
    refine ⟨x, rfl, ?_⟩
    obtain ⟨hst, _⟩ := hok
    subst hst
    cases x with
    | dsc t rec => left; exact ⟨t, rec, rfl, by simp [updateState]⟩
    | reset p => right; exact ⟨p, rfl, by simp [updateState, SrvState.reset]⟩
    | sa t seed => exfalso; apply hch; by_cases ht : t % 2 = 0 <;> simp [updateState, ht]
    | _ => exfalso; apply hch; simp [updateState]

/-- the security level is unlocked only by a positive sendKey reply (even type `t`, level `t - 1`) and re-locked
    only by a positive session-control or reset reply -/
theorem security_only_on_positive_even_sa (b : Behavior) (m : Model) (h : Handler) (st st' : SrvState) (r : Req)
    (reply : Option Resp) (hok : respond b m h st r = .ok st' reply) (hch : st'.level ≠ st.level) :
    ∃ x, respondNoState b m h st r = .resp x ∧
      ((∃ t seed, x = .sa t seed ∧ t % 2 = 0 ∧ st'.level = some ((t : Int) - 1)) ∨
       (((∃ t rec, x = .dsc t rec) ∨ (∃ p, x = .reset p)) ∧ st'.level = none)) := by
  unfold respond respondWith at hok
  unfold respondNoState
  cases hp : respondNoStateWith chain b m h st r with
  | crash c => simp [hp] at hok
  | silent => simp [hp] at hok; exact absurd (by rw [← hok.1]) hch
  | resp x =>
    simp only [hp, Outcome.ok.injEq] at hok
    refine ⟨x, rfl, ?_⟩
    obtain ⟨hst, _⟩ := hok
    subst hst
    cases x with
    | dsc t rec => right; exact ⟨Or.inl ⟨t, rec, rfl⟩, by simp [updateState, SrvState.reset]⟩
    | reset p => right; exact ⟨Or.inr ⟨p, rfl⟩, by simp [updateState, SrvState.reset]⟩
    | sa t seed =>
      by_cases ht : t % 2 = 0
      · left; exact ⟨t, seed, rfl, ht, by simp [updateState, ht]⟩
      · exfalso; apply hch; simp [updateState, ht]
    | _ => exfalso; apply hch; simp [updateState]

/-- a positive session-control reply (sent or suppressed) activates that session, locked, seed forgotten -/
theorem session_on_positive_dsc (b : Behavior) (m : Model) (h : Handler) (st : SrvState) (r : Req) (t : Nat)
    (rec : Bytes) (hx : respondNoState b m h st r = .resp (.dsc t rec)) :
    ∃ reply, respond b m h st r = .ok ⟨t, none, none⟩ reply := by
  rw [respond_of_answer b m h st r _ hx]
  have e : updateState st (.dsc t rec) = ⟨t, none, none⟩ := by simp [updateState, SrvState.reset]
  rw [e]; exact ⟨_, rfl⟩

/-- a positive ECUReset reply returns to the default session, locked -/
theorem reset_on_positive_reset (b : Behavior) (m : Model) (h : Handler) (st : SrvState) (r : Req) (p : Bytes)
    (hx : respondNoState b m h st r = .resp (.reset p)) :
    ∃ reply, respond b m h st r = .ok ⟨1, none, none⟩ reply := by
  rw [respond_of_answer b m h st r _ hx]
  have e : updateState st (.reset p) = ⟨1, none, none⟩ := by simp [updateState, SrvState.reset]
  rw [e]; exact ⟨_, rfl⟩

/-- a positive sendKey reply unlocks exactly its level and keeps the session -/
theorem unlock_on_positive_sendkey (b : Behavior) (m : Model) (h : Handler) (st : SrvState) (r : Req) (t : Nat)
    (seed : Bytes) (ht : t % 2 = 0) (hx : respondNoState b m h st r = .resp (.sa t seed)) :
    ∃ reply, respond b m h st r = .ok ⟨st.session, some ((t : Int) - 1), some (t, seed)⟩ reply := by
  rw [respond_of_answer b m h st r _ hx]
  have e : updateState st (.sa t seed) = ⟨st.session, some ((t : Int) - 1), some (t, seed)⟩ := by
    simp [updateState, ht]
  rw [e]; exact ⟨_, rfl⟩

/-- TesterPresent leaves the whole state alone, the seed memory included -/
theorem tester_present_keeps_state (b : Behavior) (m : Model) (h : Handler) (st : SrvState) (r : Req)
    (hx : respondNoState b m h st r = .resp .tp) : ∃ reply, respond b m h st r = .ok st reply := by
  rw [respond_of_answer b m h st r _ hx]
  have e : updateState st .tp = st := by simp [updateState]
  rw [e]; exact ⟨_, rfl⟩

/-! ### disabling one behaviour only removes that rule -/

/-- switching rule `i` of the chain off is the same server with that rule deleted from the chain - for every
    setting of the other eight switches, every model, state and request -/
theorem disable_one (b : Behavior) (m : Model) (h : Handler) (st : SrvState) (r : Req) (i : Sw) (hi : i ∈ chain) :
    respond (b.off i) m h st r = respondWith (chain.filter (· ≠ i)) b m h st r := by
  have hn : (b.off i) .none_ = b .none_ := by
    simp only [Behavior.off]; split
    · next e => subst e; simp [chain] at hi
    · rfl
  have hsup : (b.off i) .suppress = b .suppress := by
    simp only [Behavior.off]; split
    · next e => subst e; simp [chain] at hi
    · rfl
  have hf : ∀ o, finish (b.off i) h st r o = finish b h st r o := by
    intro o; cases o <;> simp [finish, hn]
  unfold respond respondWith respondNoStateWith
  rw [runChain_off, hf]
  simp only [suppressed, hsup]
  rfl

/-- ... and if rule `i` would not have fired on this request (or was off already) nothing changes at all -/
theorem off_i_only_affects_rule_i (b : Behavior) (m : Model) (h : Handler) (st : SrvState) (r : Req) (i : Sw)
    (hi : i ∈ chain) (hp : b i = false ∨ evalRule i m st r = .pass) :
    respond (b.off i) m h st r = respond b m h st r := by
  rw [disable_one b m h st r i hi]
  unfold respond respondWith respondNoStateWith
  rw [runChain_drop_pass b m st r i chain hp]

/-- the rules in front of `i` are unaffected: if one of them fires, it fires with `i` off just the same -/
theorem off_i_keeps_earlier (b : Behavior) (m : Model) (st : SrvState) (r : Req) (i : Sw) (pre post : List Sw)
    (hpre : i ∉ pre) (x : RuleOut) (hx : runChain b m st r pre = x) (hfire : x ≠ .pass) :
    runChain (b.off i) m st r (pre ++ post) = x := by
  induction pre with
  | nil => simp [runChain] at hx; exact absurd hx.symm hfire
  | cons j rest ih =>
    have hj : j ≠ i := fun e => hpre (by simp [e])
    have hrest : i ∉ rest := fun e => hpre (by simp [e])
    simp only [List.cons_append, runChain, Behavior.off, hj, if_false] at hx ⊢
    cases hb : b j with
    | false => simp only [hb, Bool.false_eq_true, if_false] at hx ⊢; exact ih hrest hx
    | true =>
      simp only [hb, if_true] at hx ⊢
      cases he : evalRule j m st r with
      | pass => simp only [he] at hx ⊢; exact ih hrest hx
      | fire y => simpa [he] using hx
      | crash c => simpa [he] using hx

/-- `default_response_if_none` off: where the chain and the handler have no answer the server stays silent and
    keeps its state; every other request is answered as before -/
theorem disable_none (b : Behavior) (m : Model) (h : Handler) (st : SrvState) (r : Req) :
    respond (b.off .none_) m h st r =
      if r.pdu.isEmpty = false ∧ runChain b m st r chain = .pass ∧ h st r = none then .ok st none
      else respond b m h st r := by
  have e : runChain (b.off .none_) m st r chain = runChain b m st r chain := by rw [runChain_off]; rfl
  have hsup : (b.off .none_) .suppress = b .suppress := by simp [Behavior.off]
  unfold respond respondWith respondNoStateWith
  rw [e]
  cases hp : r.pdu.isEmpty with
  | true => simp
  | false =>
    cases hc : runChain b m st r chain with
    | fire x => simp [finish, suppressed, hsup]
    | crash c => simp [finish]
    | pass =>
      cases hh : h st r with
      | some x => simp [finish, hh, suppressed, hsup]
      | none => simp [finish, hh, Behavior.off]

/-! ### which requests change the session when the defaults are on -/

/-- defaults on, a handler that (like `RandomUDSServer`'s) never fabricates session-control or reset replies:
    the session changes only through a parsed DiagnosticSessionControl request whose sub-function is listed
    for the active session, and it changes to exactly that sub-function -/
theorem session_change_needs_listed_dsc (m : Model) (h : Handler) (st st' : SrvState) (r : Req) (reply : Option Resp)
    (hr : Ready m st) (hne : r.pdu ≠ [])
    (hh : ∀ x, h st r = some x → (∀ t rec, x ≠ .dsc t rec) ∧ (∀ p, x ≠ .reset p))
    (hok : respond allOn m h st r = .ok st' reply) (hch : st'.session ≠ st.session) :
    r.sid = sidDSC ∧ r.raw = false ∧ st'.session = r.subFn ∧ subIn m st.session sidDSC r.subFn = true := by
  obtain ⟨x, hx, hcase⟩ := session_changes_only_on_positive_dsc allOn m h st st' r reply hok hch
  rw [answer_allOn m h st r hr hne] at hx
  have hx : isoAnswer m h st r = x := by simpa using hx
  -- the answer is positive, so no negative rule applied
  unfold isoAnswer at hx
  cases hn : isoNegative m st r with
  | some n => rw [hn] at hx; subst hx; rcases hcase with ⟨t, rec, e, _⟩ | ⟨p, e, _⟩ <;> simp at e
  | none =>
    rw [hn] at hx
    simp only at hx
    have hnone := hn
    unfold isoNegative at hnone
    have hall := List.find?_eq_none.mp (by simpa using hnone)
    have hraw : r.raw = false := by
      have := hall ⟨"incorrectMessageLengthOrInvalidFormat (request does not parse)", 0x13, fun _ _ r => r.raw⟩
        (by simp [isoRules])
      simpa using this
    have h5 : ¬ (subFnChecked r && !subIn m st.session r.sid r.subFn) = true := by
      have := hall ⟨"subFunctionNotSupportedInActiveSession", 0x7E,
        fun m st r => subFnChecked r && !subIn m st.session r.sid r.subFn⟩ (by simp [isoRules])
      simpa using this
    unfold isoService at hx
    by_cases g1 : (r.sid == sidDSC) = true
    · have hsid : r.sid = sidDSC := by simpa using g1
      simp only [g1, if_true] at hx
      subst hx
      rcases hcase with ⟨t, rec, e, hs'⟩ | ⟨p, e, _⟩
      · have : r.subFn = t := by
          have e' := e; simp at e'; exact e'.1
        have hck : subFnChecked r = true := by simp [subFnChecked, Req.hasSubFn, hsid, subFnServices, sidDSC, sidRoutine]
        refine ⟨hsid, hraw, by rw [hs', this], ?_⟩
        rw [hck] at h5
        rw [← hsid]
        simpa using h5
      · simp at e
    · simp only [g1, Bool.false_eq_true, if_false] at hx
      exfalso
      split at hx
      · subst hx; rcases hcase with ⟨t, rec, e, _⟩ | ⟨p, e, _⟩ <;> simp at e
      · split at hx
        · subst hx; rcases hcase with ⟨t, rec, e, _⟩ | ⟨p, e, _⟩ <;> simp at e
        · cases hhr : h st r with
          | none => rw [hhr] at hx; simp at hx; subst hx; rcases hcase with ⟨t, rec, e, _⟩ | ⟨p, e, _⟩ <;> simp at e
          | some y =>
            rw [hhr] at hx; simp at hx; subst hx
            have := hh y hhr
            rcases hcase with ⟨t, rec, e, _⟩ | ⟨p, e, _⟩
            · exact this.1 t rec e
            · exact this.2 p e

end Gallia.C13
