import Gallia.Model.Server
import Gallia.Spec.IsoDefault
import Gallia.Gen.C13Chain
namespace Gallia.C13
open Gallia Gallia.Server Gallia.IsoDefault

/-- (T) the model's rule order is the order of the `if` statements of `respond_without_state_change` -/
theorem chain_order_agrees :
    Gen.C13Chain.chain = chain.map (fun i => (i.name, i.name)) ++
      [("", "respond_after_default"), (Sw.none_.name, Sw.none_.name)] := by decide

end Gallia.C13
