import Gallia.Proofs.Lemmas.Server
import Gallia.Proofs.Lemmas.ServerHist
import Gallia.Gen.C13Chain
/-
  C13 - the virtual ECU answers by the ISO 14229-1 default response rules.
  `respond` (Model/Server.lean) follows `UDSServer.respond` statement by statement; `isoDefault`
  (Spec/IsoDefault.lean) is the priority list of the standard. Property theorems only.
-/
namespace Gallia.C13
open Gallia Gallia.Server Gallia.IsoDefault

/-! ### (T) regenerated tables -/

/-- the model's rule order is the order of the `if` statements of `respond_without_state_change`, each guarded
    by the switch of the same name; then the handler, then `default_response_if_none` -/
theorem chain_order_agrees :
    Gen.C13Chain.chain = chain.map (fun i => (i.name, i.name)) ++
      [("", "respond_after_default"), (Sw.none_.name, Sw.none_.name)] := by decide

/-- `respond` = chain, then `update_state`, then the (guarded) suppression -/
theorem respond_order_agrees :
    Gen.C13Chain.respondCalls = ["respond_without_state_change", "update_state", Sw.suppress.name] := by decide

/-- the nine switches, all on by default -/
theorem switches_agree : Gen.C13Chain.behaviorFields = Sw.all.map (fun i => (i.name, allOn i)) := by decide

/-- sub-function services, NRC values, service ids and the session identifier used by the model -/
theorem tables_agree :
    Gen.C13Chain.subFnServices = subFnServices ∧
    Gen.C13Chain.nrc = [("generalReject", nrcGeneralReject), ("serviceNotSupported", nrcSNS),
      ("subFunctionNotSupported", nrcSFNS), ("incorrectMessageLengthOrInvalidFormat", nrcLength),
      ("requestSequenceError", nrcSequence), ("invalidKey", nrcInvalidKey),
      ("subFunctionNotSupportedInActiveSession", nrcSFNSIAS), ("serviceNotSupportedInActiveSession", nrcSNSIAS)] ∧
    Gen.C13Chain.sid = [("DiagnosticSessionControl", sidDSC), ("EcuReset", sidReset), ("ReadDataByIdentifier", sidRDBI),
      ("SecurityAccess", sidSA), ("RoutineControl", sidRoutine), ("TesterPresent", sidTP)] ∧
    Gen.C13Chain.activeSessionDid = 0xF186 := by decide

/-- which NRCs each rule method mentions (in source order) -/
theorem rule_nrcs_agree :
    Gen.C13Chain.ruleNrcs = [
      (Sw.sns.name, ["serviceNotSupportedInActiveSession", "serviceNotSupported"]),
      (Sw.missingSub.name, ["incorrectMessageLengthOrInvalidFormat"]),
      (Sw.sfns.name, ["subFunctionNotSupportedInActiveSession", "subFunctionNotSupported"]),
      (Sw.format.name, ["incorrectMessageLengthOrInvalidFormat"]),
      (Sw.sessChange.name, []), (Sw.sessRead.name, []), (Sw.testerPresent.name, []),
      (Sw.none_.name, ["generalReject"]), (Sw.suppress.name, [])] := by decide

/-- the NRCs of the specification's priority list are the ones of the code's enum -/
theorem iso_rule_codes :
    isoRules.map (·.nrc) = [nrcSNS, nrcSNSIAS, nrcLength, nrcSFNS, nrcSFNSIAS, nrcLength] := by decide

/-! ### the headline: with every default behaviour on, the code model is the ISO priority list -/

/-- for every ECU model (a dict whose sub-function services carry lists), every handler, every state whose session
    the ECU offers and every non-empty request: answer, state afterwards and silence are those of the standard -/
theorem respond_default_iso (m : Model) (h : Handler) (st : SrvState) (r : Req) (hr : Ready m st)
    (hne : r.pdu ≠ []) :
    respond allOn m h st r = .ok (isoDefault m h st r).1 (isoDefault m h st r).2 := by
  have ha := answer_allOn m h st r hr hne
  unfold respond respondWith
  unfold respondNoState at ha
  rw [ha]
  simp only [isoDefault, updateState_eq_isoState, suppressed, allOn, Bool.true_and]
  congr 1
  cases hraw : r.raw with
  | true =>
    have := isoAnswer_neg_of_raw m h st r hraw
    simp [this]
  | false => simp [Req.suppressBit, Req.isSubFnReq, isoSuppressBit, hraw]

/-- in particular the two `assert`s and the `pdu[1]` access are never hit with the defaults on -/
theorem respond_never_crashes_allOn (m : Model) (h : Handler) (st : SrvState) (r : Req) (hr : Ready m st)
    (hne : r.pdu ≠ []) (c : Crash) : respond allOn m h st r ≠ .crash c := by
  rw [respond_default_iso m h st r hr hne]; simp

/-! ### priority: each rule wins over all later ones (replies as sent, state afterwards included) -/

/-- a negative reply is sent as it is and only clears the seed memory -/
theorem iso_negative_outcome (m : Model) (h : Handler) (st : SrvState) (r : Req) (n : Nat)
    (hx : isoNegative m st r = some n) :
    isoDefault m h st r = ({ st with lastSA := none }, some (.neg r.sid n)) := by
  simp [isoDefault, isoAnswer, hx, Resp.isNeg, isoState, isoSession, isoLevel, isoSeedMemory]

/-- 1. unknown in every session: serviceNotSupported - whatever length, sub-function, parse result -/
theorem priority_sns (m : Model) (h : Handler) (st : SrvState) (r : Req) (hr : Ready m st) (hne : r.pdu ≠ [])
    (h1 : svcAnywhere m r.sid = false) :
    respond allOn m h st r = .ok { st with lastSA := none } (some (.neg r.sid nrcSNS)) := by
  rw [respond_default_iso m h st r hr hne, iso_negative_outcome m h st r nrcSNS]
  simp [isoNegative, isoRules, h1, nrcSNS]

/-- 2. known, but not in the active session: serviceNotSupportedInActiveSession - before any length or
    sub-function consideration -/
theorem priority_snsias (m : Model) (h : Handler) (st : SrvState) (r : Req) (hr : Ready m st) (hne : r.pdu ≠ [])
    (h1 : svcAnywhere m r.sid = true) (h2 : svcIn m st.session r.sid = false) :
    respond allOn m h st r = .ok { st with lastSA := none } (some (.neg r.sid nrcSNSIAS)) := by
  rw [respond_default_iso m h st r hr hne, iso_negative_outcome m h st r nrcSNSIAS]
  simp [isoNegative, isoRules, List.find?, h1, h2, nrcSNSIAS]

/-- 3. offered here, has a sub-function, the byte is missing: incorrectMessageLengthOrInvalidFormat - before the
    sub-function rules -/
theorem priority_missing_sub (m : Model) (h : Handler) (st : SrvState) (r : Req) (hr : Ready m st) (hne : r.pdu ≠ [])
    (h2 : svcIn m st.session r.sid = true) (h3 : r.hasSubFn = true) (h4 : r.pdu.length < 2) :
    respond allOn m h st r = .ok { st with lastSA := none } (some (.neg r.sid nrcLength)) := by
  have h1 := svcIn_anywhere hr.sess h2
  rw [respond_default_iso m h st r hr hne, iso_negative_outcome m h st r nrcLength]
  simp [isoNegative, isoRules, List.find?, h1, h2, h3, h4, nrcLength]

/-- 4. sub-function listed in no session: subFunctionNotSupported - even if the request does not parse -/
theorem priority_sfns (m : Model) (h : Handler) (st : SrvState) (r : Req) (hr : Ready m st) (hne : r.pdu ≠ [])
    (h2 : svcIn m st.session r.sid = true) (h3 : subFnChecked r = true) (h4 : ¬ r.pdu.length < 2)
    (h5 : subAnywhere m r.sid r.subFn = false) :
    respond allOn m h st r = .ok { st with lastSA := none } (some (.neg r.sid nrcSFNS)) := by
  have h1 := svcIn_anywhere hr.sess h2
  rw [respond_default_iso m h st r hr hne, iso_negative_outcome m h st r nrcSFNS]
  simp [isoNegative, isoRules, List.find?, h1, h2, h3, h4, h5, nrcSFNS]

/-- 5. sub-function listed elsewhere only: subFunctionNotSupportedInActiveSession - even if the request does not parse -/
theorem priority_sfnsias (m : Model) (h : Handler) (st : SrvState) (r : Req) (hr : Ready m st) (hne : r.pdu ≠ [])
    (h2 : svcIn m st.session r.sid = true) (h3 : subFnChecked r = true) (h4 : ¬ r.pdu.length < 2)
    (h5 : subAnywhere m r.sid r.subFn = true) (h6 : subIn m st.session r.sid r.subFn = false) :
    respond allOn m h st r = .ok { st with lastSA := none } (some (.neg r.sid nrcSFNSIAS)) := by
  have h1 := svcIn_anywhere hr.sess h2
  rw [respond_default_iso m h st r hr hne, iso_negative_outcome m h st r nrcSFNSIAS]
  simp [isoNegative, isoRules, List.find?, h1, h2, h3, h4, h5, h6, nrcSFNSIAS]

/-- 6. service and sub-function fine, request does not parse: incorrectMessageLengthOrInvalidFormat - before any
    service handling -/
theorem priority_format (m : Model) (h : Handler) (st : SrvState) (r : Req) (hr : Ready m st) (hne : r.pdu ≠ [])
    (h2 : svcIn m st.session r.sid = true) (h3 : r.hasSubFn = true → ¬ r.pdu.length < 2)
    (h5 : subFnChecked r = true → subIn m st.session r.sid r.subFn = true) (hraw : r.raw = true) :
    respond allOn m h st r = .ok { st with lastSA := none } (some (.neg r.sid nrcLength)) := by
  have h1 := svcIn_anywhere hr.sess h2
  rw [respond_default_iso m h st r hr hne, iso_negative_outcome m h st r nrcLength]
  cases hs : r.hasSubFn with
  | false => simp [isoNegative, isoRules, List.find?, h1, h2, hs, subFnChecked, hraw, nrcLength]
  | true =>
    have h4 := h3 hs
    cases hc : subFnChecked r with
    | false => simp [isoNegative, isoRules, List.find?, h1, h2, h4, hc, hraw, nrcLength]
    | true =>
      have h6 := h5 hc
      have h7 := subIn_anywhere hr.sess h6
      simp [isoNegative, isoRules, List.find?, h1, h2, h4, hc, h6, h7, hraw, nrcLength]

/-- 7. only when no general rule applies does the service stage (session control, session read, tester present,
    handler, generalReject) answer -/
theorem service_stage (m : Model) (h : Handler) (st : SrvState) (r : Req) (hr : Ready m st) (hne : r.pdu ≠ [])
    (h2 : svcIn m st.session r.sid = true) (h3 : r.hasSubFn = true → ¬ r.pdu.length < 2)
    (h5 : subFnChecked r = true → subIn m st.session r.sid r.subFn = true) (hraw : r.raw = false) :
    respondNoState allOn m h st r = .resp (isoService h st r) := by
  have h1 := svcIn_anywhere hr.sess h2
  rw [answer_allOn m h st r hr hne]
  congr 1
  cases hs : r.hasSubFn with
  | false => simp [isoAnswer, isoNegative, isoRules, List.find?, h1, h2, hs, subFnChecked, hraw]
  | true =>
    have h4 := h3 hs
    cases hc : subFnChecked r with
    | false => simp [isoAnswer, isoNegative, isoRules, List.find?, h1, h2, h4, hc, hraw]
    | true =>
      have h6 := h5 hc
      have h7 := subIn_anywhere hr.sess h6
      simp [isoAnswer, isoNegative, isoRules, List.find?, h1, h2, h4, hc, h6, h7, hraw]

/-- RoutineControl is exempt from the sub-function rules: a parsable request for an offered RoutineControl reaches
    the service stage whatever the model lists as its sub-functions -/
theorem routine_control_exempt (m : Model) (h : Handler) (st : SrvState) (r : Req) (hr : Ready m st)
    (hsid : r.sid = sidRoutine) (h2 : svcIn m st.session r.sid = true) (h4 : ¬ r.pdu.length < 2)
    (hraw : r.raw = false) :
    respondNoState allOn m h st r = .resp ((h st r).getD (.neg r.sid nrcGeneralReject)) := by
  have hne : r.pdu ≠ [] := by intro h0; simp [h0] at h4
  rw [service_stage m h st r hr hne h2 (fun _ => h4) (by simp [subFnChecked, hsid]) hraw]
  simp [isoService, hsid, sidRoutine, sidDSC, sidRDBI, sidTP, nrcGeneralReject]

/-! ### suppression -/

/-- defaults on: the reply is omitted iff the answer is positive and the request carries the suppress bit -/
theorem suppress_iff (m : Model) (h : Handler) (st : SrvState) (r : Req) (hr : Ready m st) (hne : r.pdu ≠ []) :
    (∃ st', respond allOn m h st r = .ok st' none) ↔
      ((isoAnswer m h st r).isNeg = false ∧ isoSuppressBit r = true) := by
  rw [respond_default_iso m h st r hr hne]
  simp only [isoDefault]
  cases h1 : (isoAnswer m h st r).isNeg <;> cases h2 : isoSuppressBit r <;> simp

/-- every switch subset: what `respond` does with an answer `x` of the chain - the state update always happens,
    the reply is dropped iff the suppress switch is on, `x` is positive and the parsed request carries the bit -/
theorem respond_of_answer (b : Behavior) (m : Model) (h : Handler) (st : SrvState) (r : Req) (x : Resp)
    (hx : respondNoState b m h st r = .resp x) :
    respond b m h st r =
      .ok (updateState st x) (if b .suppress = true ∧ x.isNeg = false ∧ r.suppressBit = true then none else some x) := by
  unfold respondNoState at hx
  unfold respond respondWith
  rw [hx]
  simp [suppressed, and_assoc]

/-- negative replies are never suppressed, under any switch subset -/
theorem neg_never_suppressed (b : Behavior) (m : Model) (h : Handler) (st : SrvState) (r : Req) (s n : Nat)
    (hx : respondNoState b m h st r = .resp (.neg s n)) :
    respond b m h st r = .ok { st with lastSA := none } (some (.neg s n)) := by
  rw [respond_of_answer b m h st r _ hx]
  simp [Resp.isNeg, updateState]

/-- the reply to a request that did not parse is never suppressed (it is not a sub-function request) -/
theorem raw_never_suppressed (b : Behavior) (m : Model) (h : Handler) (st : SrvState) (r : Req) (x : Resp)
    (hraw : r.raw = true) (hx : respondNoState b m h st r = .resp x) :
    respond b m h st r = .ok (updateState st x) (some x) := by
  rw [respond_of_answer b m h st r _ hx]
  simp [Req.suppressBit, Req.isSubFnReq, hraw]

/-- with the suppress switch off every answer is sent -/
theorem disable_suppress (b : Behavior) (m : Model) (h : Handler) (st : SrvState) (r : Req) (x : Resp)
    (hx : respondNoState b m h st r = .resp x) :
    respond (b.off .suppress) m h st r = .ok (updateState st x) (some x) := by
  have hx' : respondNoState (b.off .suppress) m h st r = .resp x := by
    have e : runChain (b.off .suppress) m st r chain = runChain b m st r chain := by
      rw [runChain_off]; rfl
    unfold respondNoState respondNoStateWith at hx ⊢
    rw [e]
    cases hp : r.pdu.isEmpty with
    | true => simp [hp] at hx
    | false =>
      simp only [hp, Bool.false_eq_true, if_false] at hx ⊢
      cases hc : runChain b m st r chain <;> simp [hc, finish, Behavior.off] at hx ⊢ <;> exact hx
  rw [respond_of_answer _ m h st r _ hx']
  simp [Behavior.off]

/-! ### state changes -/

/-- the session changes only with a positive DiagnosticSessionControl reply (to its session) or a positive
    ECUReset reply (to the default session) - sent or suppressed, under any switch subset -/
theorem session_changes_only_on_positive_dsc (b : Behavior) (m : Model) (h : Handler) (st st' : SrvState) (r : Req)
    (reply : Option Resp) (hok : respond b m h st r = .ok st' reply) (hch : st'.session ≠ st.session) :
    ∃ x, respondNoState b m h st r = .resp x ∧
      ((∃ t rec, x = .dsc t rec ∧ st'.session = t) ∨ (∃ p, x = .reset p ∧ st'.session = 1)) := by
  unfold respond respondWith at hok
  unfold respondNoState
  cases hp : respondNoStateWith chain b m h st r with
  | crash c => simp [hp] at hok
  | silent => simp [hp] at hok; exact absurd (by rw [← hok.1]) hch
  | resp x =>
    simp only [hp, Outcome.ok.injEq] at hok
    refine ⟨x, rfl, ?_⟩
    obtain ⟨hst, _⟩ := hok
    subst hst
    cases x with
    | dsc t rec => left; exact ⟨t, rec, rfl, by simp [updateState]⟩
    | reset p => right; exact ⟨p, rfl, by simp [updateState, SrvState.reset]⟩
    | sa t seed => exfalso; apply hch; by_cases ht : t % 2 = 0 <;> simp [updateState, ht]
    | _ => exfalso; apply hch; simp [updateState]

/-- the security level is unlocked only by a positive sendKey reply (even type `t`, level `t - 1`) and re-locked
    only by a positive session-control or reset reply -/
theorem security_only_on_positive_even_sa (b : Behavior) (m : Model) (h : Handler) (st st' : SrvState) (r : Req)
    (reply : Option Resp) (hok : respond b m h st r = .ok st' reply) (hch : st'.level ≠ st.level) :
    ∃ x, respondNoState b m h st r = .resp x ∧
      ((∃ t seed, x = .sa t seed ∧ t % 2 = 0 ∧ st'.level = some ((t : Int) - 1)) ∨
       (((∃ t rec, x = .dsc t rec) ∨ (∃ p, x = .reset p)) ∧ st'.level = none)) := by
  unfold respond respondWith at hok
  unfold respondNoState
  cases hp : respondNoStateWith chain b m h st r with
  | crash c => simp [hp] at hok
  | silent => simp [hp] at hok; exact absurd (by rw [← hok.1]) hch
  | resp x =>
    simp only [hp, Outcome.ok.injEq] at hok
    refine ⟨x, rfl, ?_⟩
    obtain ⟨hst, _⟩ := hok
    subst hst
    cases x with
    | dsc t rec => right; exact ⟨Or.inl ⟨t, rec, rfl⟩, by simp [updateState, SrvState.reset]⟩
    | reset p => right; exact ⟨Or.inr ⟨p, rfl⟩, by simp [updateState, SrvState.reset]⟩
    | sa t seed =>
      by_cases ht : t % 2 = 0
      · left; exact ⟨t, seed, rfl, ht, by simp [updateState, ht]⟩
      · exfalso; apply hch; simp [updateState, ht]
    | _ => exfalso; apply hch; simp [updateState]

/-- a positive session-control reply (sent or suppressed) activates that session, locked, seed forgotten -/
theorem session_on_positive_dsc (b : Behavior) (m : Model) (h : Handler) (st : SrvState) (r : Req) (t : Nat)
    (rec : Bytes) (hx : respondNoState b m h st r = .resp (.dsc t rec)) :
    ∃ reply, respond b m h st r = .ok ⟨t, none, none⟩ reply := by
  rw [respond_of_answer b m h st r _ hx]
  have e : updateState st (.dsc t rec) = ⟨t, none, none⟩ := by simp [updateState, SrvState.reset]
  rw [e]; exact ⟨_, rfl⟩

/-- a positive ECUReset reply returns to the default session, locked -/
theorem reset_on_positive_reset (b : Behavior) (m : Model) (h : Handler) (st : SrvState) (r : Req) (p : Bytes)
    (hx : respondNoState b m h st r = .resp (.reset p)) :
    ∃ reply, respond b m h st r = .ok ⟨1, none, none⟩ reply := by
  rw [respond_of_answer b m h st r _ hx]
  have e : updateState st (.reset p) = ⟨1, none, none⟩ := by simp [updateState, SrvState.reset]
  rw [e]; exact ⟨_, rfl⟩

/-- a positive sendKey reply unlocks exactly its level and keeps the session -/
theorem unlock_on_positive_sendkey (b : Behavior) (m : Model) (h : Handler) (st : SrvState) (r : Req) (t : Nat)
    (seed : Bytes) (ht : t % 2 = 0) (hx : respondNoState b m h st r = .resp (.sa t seed)) :
    ∃ reply, respond b m h st r = .ok ⟨st.session, some ((t : Int) - 1), some (t, seed)⟩ reply := by
  rw [respond_of_answer b m h st r _ hx]
  have e : updateState st (.sa t seed) = ⟨st.session, some ((t : Int) - 1), some (t, seed)⟩ := by
    simp [updateState, ht]
  rw [e]; exact ⟨_, rfl⟩

/-- TesterPresent leaves the whole state alone, the seed memory included -/
theorem tester_present_keeps_state (b : Behavior) (m : Model) (h : Handler) (st : SrvState) (r : Req)
    (hx : respondNoState b m h st r = .resp .tp) : ∃ reply, respond b m h st r = .ok st reply := by
  rw [respond_of_answer b m h st r _ hx]
  have e : updateState st .tp = st := by simp [updateState]
  rw [e]; exact ⟨_, rfl⟩

/-! ### disabling one behaviour only removes that rule -/

/-- switching rule `i` of the chain off is the same server with that rule deleted from the chain - for every
    setting of the other eight switches, every model, state and request -/
theorem disable_one (b : Behavior) (m : Model) (h : Handler) (st : SrvState) (r : Req) (i : Sw) (hi : i ∈ chain) :
    respond (b.off i) m h st r = respondWith (chain.filter (· ≠ i)) b m h st r := by
  have hn : (b.off i) .none_ = b .none_ := by
    simp only [Behavior.off]; split
    · next e => subst e; simp [chain] at hi
    · rfl
  have hsup : (b.off i) .suppress = b .suppress := by
    simp only [Behavior.off]; split
    · next e => subst e; simp [chain] at hi
    · rfl
  have hf : ∀ o, finish (b.off i) h st r o = finish b h st r o := by
    intro o; cases o <;> simp [finish, hn]
  unfold respond respondWith respondNoStateWith
  rw [runChain_off, hf]
  simp only [suppressed, hsup]
  rfl

/-- ... and if rule `i` would not have fired on this request (or was off already) nothing changes at all -/
theorem off_i_only_affects_rule_i (b : Behavior) (m : Model) (h : Handler) (st : SrvState) (r : Req) (i : Sw)
    (hi : i ∈ chain) (hp : b i = false ∨ evalRule i m st r = .pass) :
    respond (b.off i) m h st r = respond b m h st r := by
  rw [disable_one b m h st r i hi]
  unfold respond respondWith respondNoStateWith
  rw [runChain_drop_pass b m st r i chain hp]

/-- the rules in front of `i` are unaffected: if one of them fires, it fires with `i` off just the same -/
theorem off_i_keeps_earlier (b : Behavior) (m : Model) (st : SrvState) (r : Req) (i : Sw) (pre post : List Sw)
    (hpre : i ∉ pre) (x : RuleOut) (hx : runChain b m st r pre = x) (hfire : x ≠ .pass) :
    runChain (b.off i) m st r (pre ++ post) = x := by
  induction pre with
  | nil => simp [runChain] at hx; exact absurd hx.symm hfire
  | cons j rest ih =>
    have hj : j ≠ i := fun e => hpre (by simp [e])
    have hrest : i ∉ rest := fun e => hpre (by simp [e])
    simp only [List.cons_append, runChain, Behavior.off, hj, if_false] at hx ⊢
    cases hb : b j with
    | false => simp only [hb, Bool.false_eq_true, if_false] at hx ⊢; exact ih hrest hx
    | true =>
      simp only [hb, if_true] at hx ⊢
      cases he : evalRule j m st r with
      | pass => simp only [he] at hx ⊢; exact ih hrest hx
      | fire y => simpa [he] using hx
      | crash c => simpa [he] using hx

/-- `default_response_if_none` off: where the chain and the handler have no answer the server stays silent and
    keeps its state; every other request is answered as before -/
theorem disable_none (b : Behavior) (m : Model) (h : Handler) (st : SrvState) (r : Req) :
    respond (b.off .none_) m h st r =
      if r.pdu.isEmpty = false ∧ runChain b m st r chain = .pass ∧ h st r = none then .ok st none
      else respond b m h st r := by
  have e : runChain (b.off .none_) m st r chain = runChain b m st r chain := by rw [runChain_off]; rfl
  have hsup : (b.off .none_) .suppress = b .suppress := by simp [Behavior.off]
  unfold respond respondWith respondNoStateWith
  rw [e]
  cases hp : r.pdu.isEmpty with
  | true => simp
  | false =>
    cases hc : runChain b m st r chain with
    | fire x => simp [finish, suppressed, hsup]
    | crash c => simp [finish]
    | pass =>
      cases hh : h st r with
      | some x => simp [finish, hh, suppressed, hsup]
      | none => simp [finish, hh, Behavior.off]

/-! ### which requests change the session when the defaults are on -/

/-- defaults on, a handler that (like `RandomUDSServer`'s) never fabricates session-control replies: the session
    changes only through a parsed DiagnosticSessionControl request whose sub-function is listed for the active
    session - to exactly that sub-function - or through a positive ECUReset reply of the handler - to session 1 -/
theorem session_change_needs_listed_dsc (m : Model) (h : Handler) (st st' : SrvState) (r : Req) (reply : Option Resp)
    (hr : Ready m st) (hne : r.pdu ≠ [])
    (hh : ∀ x, h st r = some x → ∀ t rec, x ≠ .dsc t rec)
    (hok : respond allOn m h st r = .ok st' reply) (hch : st'.session ≠ st.session) :
    (r.sid = sidDSC ∧ r.raw = false ∧ st'.session = r.subFn ∧ subIn m st.session sidDSC r.subFn = true) ∨
    (st'.session = 1 ∧ ∃ p, h st r = some (.reset p)) := by
  obtain ⟨x, hx, hcase⟩ := session_changes_only_on_positive_dsc allOn m h st st' r reply hok hch
  rw [answer_allOn m h st r hr hne] at hx
  have hx : isoAnswer m h st r = x := by simpa using hx
  -- the answer is positive, so no negative rule applied
  unfold isoAnswer at hx
  cases hn : isoNegative m st r with
  | some n => rw [hn] at hx; subst hx; rcases hcase with ⟨t, rec, e, _⟩ | ⟨p, e, _⟩ <;> simp at e
  | none =>
    rw [hn] at hx
    simp only at hx
    have hnone := hn
    unfold isoNegative at hnone
    have hall := List.find?_eq_none.mp (by simpa using hnone)
    have hraw : r.raw = false := by
      have := hall ⟨"incorrectMessageLengthOrInvalidFormat (request does not parse)", 0x13, fun _ _ r => r.raw⟩
        (by simp [isoRules])
      simpa using this
    have h5 : ¬ (subFnChecked r && !subIn m st.session r.sid r.subFn) = true := by
      have := hall ⟨"subFunctionNotSupportedInActiveSession", 0x7E,
        fun m st r => subFnChecked r && !subIn m st.session r.sid r.subFn⟩ (by simp [isoRules])
      simpa using this
    unfold isoService at hx
    by_cases g1 : (r.sid == sidDSC) = true
    · have hsid : r.sid = sidDSC := by simpa using g1
      simp only [g1, if_true] at hx
      subst hx
      rcases hcase with ⟨t, rec, e, hs'⟩ | ⟨p, e, _⟩
      · have : r.subFn = t := by
          have e' := e; simp at e'; exact e'.1
        have hck : subFnChecked r = true := by simp [subFnChecked, Req.hasSubFn, hsid, subFnServices, sidDSC, sidRoutine]
        refine Or.inl ⟨hsid, hraw, by rw [hs', this], ?_⟩
        rw [hck] at h5
        rw [← hsid]
        simpa using h5
      · simp at e
    · simp only [g1, Bool.false_eq_true, if_false] at hx
      split at hx
      · subst hx; rcases hcase with ⟨t, rec, e, _⟩ | ⟨p, e, _⟩ <;> simp at e
      · split at hx
        · subst hx; rcases hcase with ⟨t, rec, e, _⟩ | ⟨p, e, _⟩ <;> simp at e
        · cases hhr : h st r with
          | none => rw [hhr] at hx; simp at hx; subst hx; rcases hcase with ⟨t, rec, e, _⟩ | ⟨p, e, _⟩ <;> simp at e
          | some y =>
            rw [hhr] at hx; simp at hx; subst hx
            rcases hcase with ⟨t, rec, e, _⟩ | ⟨p, e, h1⟩
            · exact absurd e (hh y hhr t rec)
            · exact Or.inr ⟨h1, p, by rw [e]⟩

/-- an ECU model is closed when the default session is offered and session control only ever lists offered sessions
    (what `RandomUDSServer.randomize` builds) -/
structure Closed (m : Model) : Prop where
  dflt : 1 ∈ m.sessions
  dsc : ∀ s ∈ m.sessions, ∀ t, subIn m s sidDSC t = true → t ∈ m.sessions

/-- defaults on: the server never leaves the sessions its model offers - also across the inactivity reset -/
theorem session_stays_offered (m : Model) (h : Handler) (ts : TState) (now : Nat) (r : Req)
    (hr : Ready m ts.st) (hc : Closed m) (hne : r.pdu ≠ [])
    (hh : ∀ st x, h st r = some x → ∀ t rec, x ≠ .dsc t rec) :
    Ready m (handleAt allOn m h ts now r).1.st := by
  have hr0 : Ready m (if now - ts.lastActive > idleLimit then ts.st.reset else ts.st) := by
    split
    · exact ⟨hr.wf, hc.dflt, hr.listed⟩
    · exact hr
  unfold handleAt
  simp only
  generalize (if now - ts.lastActive > idleLimit then ts.st.reset else ts.st) = st0 at hr0
  cases hres : respond allOn m h st0 r with
  | crash c => exact absurd hres (respond_never_crashes_allOn m h st0 r hr0 hne c)
  | ok st' reply =>
    simp only
    by_cases hch : st'.session = st0.session
    · exact ⟨hr0.wf, by rw [hch]; exact hr0.sess, hr0.listed⟩
    · rcases session_change_needs_listed_dsc m h st0 st' r reply hr0 hne (hh st0) hres hch with
        ⟨_, _, hs, hl⟩ | ⟨h1, _⟩
      · exact ⟨hr0.wf, by rw [hs]; exact hc.dsc _ hr0.sess _ hl, hr0.listed⟩
      · exact ⟨hr0.wf, by rw [h1]; exact hc.dflt, hr0.listed⟩

/-- hence for every history of non-empty requests, at any times: the state stays in the model ... -/
theorem history_stays_offered (m : Model) (h : Handler) (hc : Closed m)
    (hh : ∀ st r x, h st r = some x → ∀ t rec, x ≠ .dsc t rec) :
    ∀ (reqs : List (Nat × Req)) (ts : TState), Ready m ts.st → (∀ p ∈ reqs, p.2.pdu ≠ []) →
      Ready m (run allOn m h ts reqs).st := by
  intro reqs
  induction reqs with
  | nil => intro ts hr _; exact hr
  | cons p rest ih =>
    intro ts hr hall
    obtain ⟨now, r⟩ := p
    simp only [run]
    apply ih
    · exact session_stays_offered m h ts now r hr hc (hall (now, r) (by simp)) (fun st x => hh st r x)
    · intro q hq; exact hall q (by simp [hq])

/-- ... and no request of the history (nor the next one) hits an `assert` or an index error -/
theorem history_never_crashes (m : Model) (h : Handler) (hc : Closed m)
    (hh : ∀ st r x, h st r = some x → ∀ t rec, x ≠ .dsc t rec)
    (reqs : List (Nat × Req)) (ts : TState) (hr : Ready m ts.st) (hall : ∀ p ∈ reqs, p.2.pdu ≠ [])
    (now : Nat) (r : Req) (hne : r.pdu ≠ []) (c : Crash) :
    (handleAt allOn m h (run allOn m h ts reqs) now r).2 ≠ .crash c := by
  have hr' := history_stays_offered m h hc hh reqs ts hr hall
  generalize run allOn m h ts reqs = ts' at hr'
  have hr0 : Ready m (if now - ts'.lastActive > idleLimit then ts'.st.reset else ts'.st) := by
    split
    · exact ⟨hr'.wf, hc.dflt, hr'.listed⟩
    · exact hr'
  unfold handleAt
  simp only
  generalize (if now - ts'.lastActive > idleLimit then ts'.st.reset else ts'.st) = st0 at hr0
  cases hres : respond allOn m h st0 r with
  | crash c' => exact absurd hres (respond_never_crashes_allOn m h st0 r hr0 hne c')
  | ok st' reply => simp

/-! ### seed / key sequencing of `RandomUDSServer.security_access` -/

/-- defaults on, the handler of `RandomUDSServer` (its random parts an oracle that never fabricates SecurityAccess
    replies): a level is unlocked only by a parsed sendKey request whose type follows the type of the last
    SecurityAccess reply and whose key equals the seed of that reply; the level unlocked is that reply's type -/
theorem unlock_requires_seed_then_key (m : Model) (orc : Handler) (seedOf : SrvState → Req → Bytes)
    (st st' : SrvState) (r : Req) (reply : Option Resp) (l : Int)
    (hr : Ready m st) (hne : r.pdu ≠ [])
    (horc : ∀ x, orc st r = some x → ∀ t sd, x ≠ .sa t sd)
    (hok : respond allOn m (rndHandler orc seedOf) st r = .ok st' reply)
    (hch : st'.level ≠ st.level) (hl : st'.level = some l) :
    r.sid = sidSA ∧ r.raw = false ∧
      ∃ t0 seed, st.lastSA = some (t0, seed) ∧ r.subFn = t0 + 1 ∧ r.pdu.drop 2 = seed ∧ l = t0 := by
  obtain ⟨x, hx, hcase⟩ := security_only_on_positive_even_sa allOn m _ st st' r reply hok hch
  rw [answer_allOn m _ st r hr hne] at hx
  have hx : isoAnswer m (rndHandler orc seedOf) st r = x := by simpa using hx
  rcases hcase with ⟨t, sd, e, ht, hlv⟩ | ⟨_, hnone⟩
  · subst e
    unfold isoAnswer at hx
    cases hn : isoNegative m st r with
    | some n => rw [hn] at hx; simp at hx
    | none =>
      rw [hn] at hx
      simp only at hx
      unfold isoService at hx
      split at hx
      · simp at hx
      · split at hx
        · simp at hx
        · split at hx
          · simp at hx
          · unfold rndHandler at hx
            by_cases g : (!r.raw && r.sid == sidSA) = true
            · have hraw : r.raw = false := by
                cases hh : r.raw <;> simp [hh] at g ⊢
              have hsid : r.sid = sidSA := by
                rw [hraw] at g; simpa using g
              simp only [g, if_true] at hx
              by_cases hodd : r.subFn % 2 = 1
              · simp only [hodd] at hx
                simp at hx
                omega
              · have hb : (r.subFn % 2 == 1) = false := by simpa using hodd
                simp only [hb, Bool.false_eq_true, if_false] at hx
                cases hsa : st.lastSA with
                | none => rw [hsa] at hx; simp at hx
                | some p =>
                  obtain ⟨t0, seed⟩ := p
                  rw [hsa] at hx
                  simp only at hx
                  by_cases h1 : r.subFn ≠ t0 + 1
                  · simp [h1] at hx
                  · have h1' : r.subFn = t0 + 1 := by omega
                    by_cases h2 : (r.pdu.drop 2 == seed) = true
                    · simp only [h1', h2, if_true] at hx
                      have ht' : t0 + 1 = t := by
                        have hx' := hx; simp at hx'; exact hx'.1
                      refine ⟨hsid, hraw, t0, seed, rfl, h1', by simpa using h2, ?_⟩
                      rw [hl] at hlv
                      have : l = (t : Int) - 1 := by simpa using hlv
                      omega
                    · simp [h1', h2] at hx
            · simp only [g, Bool.false_eq_true, if_false] at hx
              cases ho : orc st r with
              | none => rw [ho] at hx; simp at hx
              | some y => rw [ho] at hx; simp at hx; exact absurd hx (horc y ho t sd)
  · rw [hl] at hnone; simp at hnone

/-! ### the hypotheses are satisfiable: a concrete ECU -/

/-- two sessions; session control, tester present, an identifier service in the default session; security access and
    routine control in session 3 -/
def exModel : Model := Model.ofAssoc
  [(1, [(0x10, some [1, 3]), (0x3E, some [0]), (0x22, none)]),
   (3, [(0x10, some [1]), (0x27, some [1, 2]), (0x31, some [1, 2, 3])])]

example : Ready exModel ⟨3, none, none⟩ :=
  ⟨ofAssoc_wf _, by decide, ofAssoc_listed _ (by decide)⟩

example : Closed exModel := by
  refine ⟨by decide, ?_⟩
  intro s hs t ht
  have hs' : s = 1 ∨ s = 3 := by simpa [exModel, Model.ofAssoc] using hs
  rcases hs' with rfl | rfl <;>
    simp [subIn, exModel, Model.ofAssoc, List.lookup, sidDSC] at ht ⊢ <;> first | exact ht | exact Or.inl ht

/-- `10 83` in the default session: session 3 is activated, the positive reply suppressed -/
example : respond allOn exModel (fun _ _ => none) ⟨1, none, none⟩ ⟨[0x10, 0x83], false⟩ = .ok ⟨3, none, none⟩ none := by
  decide

/-- `27 02 AA` in session 3 after seed `AA` for level 1: unlocked; the same in session 1: SNSIAS wins -/
example : respond allOn exModel (rndHandler (fun _ _ => none) (fun _ _ => [])) ⟨3, none, some (1, [0xAA])⟩
    ⟨[0x27, 0x02, 0xAA], false⟩ = .ok ⟨3, some 1, some (2, [])⟩ (some (.sa 2 [])) := by decide

example : respond allOn exModel (rndHandler (fun _ _ => none) (fun _ _ => [])) ⟨1, none, some (1, [0xAA])⟩
    ⟨[0x27, 0x02, 0xAA], false⟩ = .ok ⟨1, none, none⟩ (some (.neg 0x27 0x7F)) := by decide

/-- sub-function rule off, `10 05`: the ECU enters a session it does not offer and the next request hits the assert -/
example : respond (allOn.off .sfns) exModel (fun _ _ => none) ⟨1, none, none⟩ ⟨[0x10, 0x05], false⟩ =
    .ok ⟨5, none, none⟩ (some (.dsc 5 [])) ∧
    respond (allOn.off .sfns) exModel (fun _ _ => none) ⟨5, none, none⟩ ⟨[0x3E, 0x00], false⟩ = .crash .assertion := by
  decide

/-! ## the concrete server: rule chain + the typed handlers of `RandomUDSServer` + `update_state`, whole histories -/

open Gallia.VEcu in
/-- (T) the statements of the five service-stage rules, of both `update_state`s, of the state reset and of
    `handle_request` (docstrings and logger calls dropped), regenerated from the AST on every run: the guards the
    lemmas below state, the clock reads (`start` before the inactivity test, `end` stored) and the literal 10 -/
theorem shapes_agree : Gen.C13Chain.shapes = [
    ("UDSServer.default_response_if_session_change", ["if isinstance(request, service.DiagnosticSessionControlRequest) {",
      "return service.DiagnosticSessionControlResponse(request.diagnostic_session_type)", "}", "return None"]),
    ("UDSServer.default_response_if_session_read", ["if isinstance(request, service.ReadDataByIdentifierRequest) {",
      "if request.data_identifier == DataIdentifier.ActiveDiagnosticSessionDataIdentifier {",
      "return service.ReadDataByIdentifierResponse(request.data_identifier, to_bytes(self.state.session, 1))", "}", "}",
      "return None"]),
    ("UDSServer.default_response_if_tester_present", ["if isinstance(request, service.TesterPresentRequest) {",
      "return service.TesterPresentResponse()", "}", "return None"]),
    ("UDSServer.default_response_if_none", ["return service.NegativeResponse(request.service_id, UDSErrorCodes.generalReject)"]),
    ("UDSServer.default_response_if_suppress", [
      "if isinstance(response, service.NegativeResponse) or not isinstance(request, service.SubFunctionRequest) or (not request.suppress_response) {",
      "return response", "}", "return None"]),
    ("UDSServer.update_state", ["if isinstance(response, service.DiagnosticSessionControlResponse) {", "self.state.reset()",
      "self.state.session = response.diagnostic_session_type", "}",
      "if isinstance(response, service.SecurityAccessResponse) and response.security_access_type % 2 == 0 {",
      "self.state.security_access_level = response.security_access_type - 1", "}",
      "if isinstance(response, service.ECUResetResponse) {", "self.state.reset()", "}"]),
    ("RandomUDSServer.update_state", ["await super().update_state(request, response)",
      "if not isinstance(response, service.TesterPresentResponse) {",
      "self.state.last_sa_response = response if isinstance(response, service.SecurityAccessResponse) else None", "}"]),
    ("RNGEcuState.reset", ["super().reset()", "self.last_sa_response = None"]),
    ("UDSServerTransport.handle_request", ["start = time()", "if start - self.last_time_active > 10 {",
      "self.server.state.reset()", "}", "request = service.UDSRequest.parse_dynamic(request_pdu)",
      "response = await self.server.respond(request)", "end = time()", "self.last_time_active = end",
      "if response is not None {", "return (response.pdu, end - start)", "}", "return (None, end - start)"]),
    ("UDSServerTransport.__init__", ["self.server = server", "self.target = target", "self.last_time_active = time()"]),
    ("ECUState.__init__", ["self.session = 1", "self.security_access_level: int | None = None"]),
    ("ECUState.reset", ["self.session = 1", "self.security_access_level = None"])] := by rfl

/-- **the headline for the concrete server**: no handler oracle, no raw bit as input - for every ECU model, every oracle
    of the random draws, every state whose session is offered and every non-empty byte string, `UDSServer.respond` of
    `RandomUDSServer` (chain + typed handlers + update_state + suppression) is the ISO priority list with the typed
    handlers as service stage -/
theorem respond_default_iso_concrete (m : Model) (o : VEcu.Orc) (st : SrvState) (bytes : Bytes) (hr : Ready m st)
    (hne : bytes ≠ []) :
    respond allOn m (VEcu.vecuHandler o) st (VEcu.mkReq bytes) =
      .ok (isoDefault m (VEcu.vecuHandler o) st (VEcu.mkReq bytes)).1 (isoDefault m (VEcu.vecuHandler o) st (VEcu.mkReq bytes)).2 :=
  respond_default_iso m _ st _ hr hne

/-! ### the service-stage rules, each with its guard as coded -/

/-- `default_response_if_session_change`: exactly the parsed DiagnosticSessionControl requests, answered with the
    requested session type (suppress bit stripped) and no parameter record -/
theorem rule_session_change_exact (r : Req) (x : Resp) :
    ruleSessChange r = .fire x ↔ (r.raw = false ∧ r.sid = sidDSC ∧ x = .dsc r.subFn []) := by
  unfold ruleSessChange
  split
  · rename_i hg
    simp only [Bool.and_eq_true, Bool.not_eq_true', beq_iff_eq] at hg
    constructor
    · intro h; cases h; exact ⟨hg.1, hg.2, rfl⟩
    · rintro ⟨_, _, rfl⟩; rfl
  · rename_i hg
    simp only [Bool.and_eq_true, Bool.not_eq_true', beq_iff_eq, not_and] at hg
    constructor
    · intro h; cases h
    · rintro ⟨h1, h2, _⟩; exact absurd h2 (hg h1)

/-- `default_response_if_session_read`: exactly the parsed ReadDataByIdentifier requests whose FIRST identifier is
    0xF186, answered with the active session in one byte -/
theorem rule_session_read_exact (st : SrvState) (r : Req) (x : Resp) :
    ruleSessRead st r = .fire x ↔
      (r.raw = false ∧ r.sid = sidRDBI ∧ r.pdu.getD 1 0 = 0xF1 ∧ r.pdu.getD 2 0 = 0x86 ∧
        x = .other [0x62, 0xF1, 0x86, UInt8.ofNat st.session]) := by
  unfold ruleSessRead
  split
  · rename_i hg
    simp only [Bool.and_eq_true, Bool.not_eq_true', beq_iff_eq] at hg
    constructor
    · intro h; cases h; exact ⟨hg.1.1.1, hg.1.1.2, hg.1.2, hg.2, rfl⟩
    · rintro ⟨_, _, _, _, rfl⟩; rfl
  · rename_i hg
    simp only [Bool.and_eq_true, Bool.not_eq_true', beq_iff_eq, not_and] at hg
    constructor
    · intro h; cases h
    · rintro ⟨h1, h2, h3, h4, _⟩; exact absurd h4 (hg ⟨⟨h1, h2⟩, h3⟩)

/-- ... on the typed request: a ReadDataByIdentifier request `d :: more` is answered by the rule iff `d = 0xF186` - an
    0xF186 further back does not count -/
theorem rule_session_read_first_identifier (st : SrvState) (bytes : Bytes) (d : Nat) (more : List Nat)
    (h : UdsReq.decode bytes = .rdbi (d :: more)) :
    ruleSessRead st (VEcu.mkReq bytes) =
      if d = 0xF186 then .fire (.other [0x62, 0xF1, 0x86, UInt8.ofNat st.session]) else .pass := by
  have he := UdsMatch.enc_dec bytes
  have hwf := UdsMatch.dec_wf bytes
  rw [h] at he hwf
  have hd : d < 65536 := hwf.2 d (by simp)
  have hb : bytes = 0x22 :: UInt8.ofNat (d / 256 % 256) :: UInt8.ofNat (d % 256) :: (more.map (toBE · 2)).flatten := by
    rw [← he]; simp [UdsReq.encode, UdsReq.toBE_two]
  have hiff : (UInt8.ofNat (d / 256 % 256) = 0xF1 ∧ UInt8.ofNat (d % 256) = 0x86) ↔ d = 0xF186 := by
    constructor
    · rintro ⟨h1, h2⟩
      have h1' := congrArg UInt8.toNat h1
      have h2' := congrArg UInt8.toNat h2
      simp at h1' h2'
      omega
    · intro hd'; subst hd'; decide
  have hc : (!(VEcu.mkReq bytes).raw && (VEcu.mkReq bytes).sid == sidRDBI && (VEcu.mkReq bytes).pdu.getD 1 0 == 0xF1 &&
      (VEcu.mkReq bytes).pdu.getD 2 0 == 0x86) = decide (d = 0xF186) := by
    rw [Bool.eq_iff_iff]
    simp only [VEcu.mkReq, h, UdsReq.Req.isRaw, Req.sid, Bool.and_eq_true, Bool.not_eq_true', beq_iff_eq, decide_eq_true_eq]
    rw [hb]
    simp only [List.headD_cons, List.getD_cons_succ, List.getD_cons_zero]
    constructor
    · rintro ⟨⟨_, h1⟩, h2⟩; exact hiff.1 ⟨h1, h2⟩
    · intro hd'; exact ⟨⟨⟨trivial, by decide⟩, (hiff.2 hd').1⟩, (hiff.2 hd').2⟩
  unfold ruleSessRead
  rw [hc]
  by_cases hdd : d = 0xF186 <;> simp [hdd]

/-- ... and it is reached only when the service is offered: with the defaults on, an 0xF186-first request in a session
    that does not offer ReadDataByIdentifier gets the service-not-supported answer, not the session -/
theorem session_read_needs_service (m : Model) (h : Handler) (st : SrvState) (r : Req) (hr : Ready m st) (hne : r.pdu ≠ [])
    (hsid : r.sid = sidRDBI) (hraw : r.raw = false) (h1 : r.pdu.getD 1 0 = 0xF1) (h2 : r.pdu.getD 2 0 = 0x86) :
    respondNoState allOn m h st r =
      if svcIn m st.session sidRDBI = true then .resp (.other [0x62, 0xF1, 0x86, UInt8.ofNat st.session])
      else .resp (.neg sidRDBI (if svcAnywhere m sidRDBI = true then nrcSNSIAS else nrcSNS)) := by
  by_cases hs : svcIn m st.session sidRDBI = true
  · have hsf : r.hasSubFn = false := by simp [Req.hasSubFn, hsid, subFnServices, sidRDBI]
    rw [service_stage m h st r hr hne (by rw [hsid]; exact hs) (by simp [hsf]) (by simp [subFnChecked, hsf]) hraw]
    rw [List.getD_eq_getElem?_getD] at h1 h2
    have hs2 : svcIn m st.session 34 = true := hs
    simp [isoService, hsid, sidRDBI, sidDSC, h1, h2, hs2]
  · have hs' : svcIn m st.session sidRDBI = false := by simpa using hs
    rw [answer_allOn m h st r hr hne]
    by_cases ha : svcAnywhere m sidRDBI = true
    · simp [isoAnswer, isoNegative, isoRules, List.find?, hsid, hs', ha, nrcSNSIAS]
    · have ha' : svcAnywhere m sidRDBI = false := by simpa using ha
      simp [isoAnswer, isoNegative, isoRules, List.find?, hsid, hs', ha', nrcSNS]

/-- `default_response_if_tester_present`: exactly the parsed TesterPresent requests -/
theorem rule_tester_present_exact (r : Req) (x : Resp) :
    ruleTP r = .fire x ↔ (r.raw = false ∧ r.sid = sidTP ∧ x = .tp) := by
  unfold ruleTP
  split
  · rename_i hg
    simp only [Bool.and_eq_true, Bool.not_eq_true', beq_iff_eq] at hg
    constructor
    · intro h; cases h; exact ⟨hg.1, hg.2, rfl⟩
    · rintro ⟨_, _, rfl⟩; rfl
  · rename_i hg
    simp only [Bool.and_eq_true, Bool.not_eq_true', beq_iff_eq, not_and] at hg
    constructor
    · intro h; cases h
    · rintro ⟨h1, h2, _⟩; exact absurd h2 (hg h1)

/-- `default_response_if_none`: generalReject naming the request's service, exactly when every enabled rule passed, the
    handler has no answer and the switch is on; with the switch off the server stays silent and keeps its state -/
theorem rule_none_exact (b : Behavior) (m : Model) (h : Handler) (st : SrvState) (r : Req) (hne : r.pdu ≠ [])
    (hp : runChain b m st r chain = .pass) (hh : h st r = none) :
    respond b m h st r =
      if b .none_ = true then .ok { st with lastSA := none } (some (.neg r.sid nrcGeneralReject)) else .ok st none := by
  have he : r.pdu.isEmpty = false := by cases hr : r.pdu <;> simp_all
  unfold respond respondWith respondNoStateWith
  by_cases hn : b .none_ = true
  · simp [he, hp, finish, hh, hn, suppressed, Resp.isNeg, updateState]
  · simp [he, hp, finish, hh, hn]

/-- `default_response_if_suppress`: the answer `x` of the chain is withheld exactly when the switch is on, `x` is not a
    negative response, the request parsed into a sub-function request and its suppress bit (bit 7 of byte 1) is set -/
theorem rule_suppress_exact (b : Behavior) (m : Model) (h : Handler) (st : SrvState) (r : Req) (x : Resp)
    (hx : respondNoState b m h st r = .resp x) :
    (∃ st', respond b m h st r = .ok st' none) ↔
      (b .suppress = true ∧ x.isNeg = false ∧ r.raw = false ∧ r.hasSubFn = true ∧ 128 ≤ (r.pdu.getD 1 0).toNat) := by
  rw [respond_of_answer b m h st r x hx]
  simp only [Req.suppressBit, Req.isSubFnReq, Bool.and_eq_true, Bool.not_eq_true', decide_eq_true_eq]
  constructor
  · rintro ⟨st', h1⟩
    split at h1
    · rename_i hg; exact ⟨hg.1, hg.2.1, hg.2.2.1.1, hg.2.2.1.2, hg.2.2.2⟩
    · simp at h1
  · rintro ⟨h1, h2, h3, h4, h5⟩
    exact ⟨_, by rw [if_pos ⟨h1, h2, ⟨h3, h4⟩, h5⟩]⟩

/-! ### the inactivity rule of `UDSServerTransport.handle_request` -/

/-- exact boundary and extent: the request is answered in the state the server was left in iff `start` (the first clock
    read) is at most 10 s (40 ticks) after `last_time_active`; strictly later it is answered in the initial state -
    default session, locked, no pending seed; after an answer `last_time_active` is `stop` (the second clock read),
    whatever `start` was; an exception keeps `last_time_active` -/
theorem idle_reset_exact (b : Behavior) (m : Model) (h : Handler) (ts : TState) (start stop : Nat) (r : Req) :
    (start ≤ ts.lastActive + idleLimit →
      handleSE b m h ts start stop r = match respond b m h ts.st r with
        | .ok st' reply => (⟨st', stop⟩, .ok st' reply)
        | .crash c => (ts, .crash c)) ∧
    (ts.lastActive + idleLimit < start →
      handleSE b m h ts start stop r = match respond b m h ⟨1, none, none⟩ r with
        | .ok st' reply => (⟨st', stop⟩, .ok st' reply)
        | .crash c => (⟨⟨1, none, none⟩, ts.lastActive⟩, .crash c)) := by
  constructor
  · intro hle
    have : ¬ (start - ts.lastActive > idleLimit) := by omega
    unfold handleSE
    simp only [this, if_false]
    cases respond b m h ts.st r <;> rfl
  · intro hlt
    have : start - ts.lastActive > idleLimit := by omega
    unfold handleSE
    simp only [this, if_true, SrvState.reset]
    rfl

/-- the gap is measured from the END of the previous request: after an answered request that ended at `stop1`, the next
    one is answered in the initial state iff its `start` is more than 40 ticks after `stop1` - however long the first
    one took -/
theorem idle_measured_from_end (b : Behavior) (m : Model) (h h2 : Handler) (ts : TState) (s1 e1 s2 e2 : Nat) (r r2 : Req)
    (st' : SrvState) (reply : Option Resp) (hok : (handleSE b m h ts s1 e1 r).2 = .ok st' reply) :
    handleSE b m h2 (handleSE b m h ts s1 e1 r).1 s2 e2 r2 =
      (match respond b m h2 (if e1 + idleLimit < s2 then ⟨1, none, none⟩ else st') r2 with
        | .ok st'' reply' => (⟨st'', e2⟩, .ok st'' reply')
        | .crash c => (⟨if e1 + idleLimit < s2 then ⟨1, none, none⟩ else st', e1⟩, .crash c)) := by
  have h1 : (handleSE b m h ts s1 e1 r).1 = ⟨st', e1⟩ := by
    unfold handleSE at hok ⊢
    simp only at hok ⊢
    cases hres : respond b m h (if s1 - ts.lastActive > idleLimit then ts.st.reset else ts.st) r with
    | crash c => rw [hres] at hok; simp at hok
    | ok s rep => rw [hres] at hok; simp at hok; simp [hok.1]
  rw [h1]
  by_cases hg : e1 + idleLimit < s2
  · rw [(idle_reset_exact b m h2 ⟨st', e1⟩ s2 e2 r2).2 hg]; simp [hg]
  · rw [(idle_reset_exact b m h2 ⟨st', e1⟩ s2 e2 r2).1 (by simp; omega)]; simp [hg]

/-! ### session and security state over whole histories (every switch subset, every model, every handler) -/

/-- after any history, whatever the switches: the state is what the history's events say - for session, security level
    and pending seed independently "the last event that has an effect decides" (`sessEff`, `levelEff`, `seedEff`) -/
theorem state_after_history (b : Behavior) (m : Model) (hist : List HItem) (ts : TState) :
    (runH b m ts hist).st = specState ts.st ((traceH b m ts hist).flatMap Step.events) :=
  runH_state b m hist ts

/-- **session_state_machine**: the session after any history is the target of the last positive
    DiagnosticSessionControl answer (sent or suppressed) since the last reset (positive ECUReset answer or inactivity),
    the default session if there was a reset and no session change after it, the initial one if neither happened -/
theorem session_state_machine (b : Behavior) (m : Model) (hist : List HItem) (ts : TState) (s : Sess) :
    (runH b m ts hist).st.session = s ↔
      ((∃ pre e post, (traceH b m ts hist).flatMap Step.events = pre ++ e :: post ∧
          ((∃ rec, e = .ans (.dsc s rec)) ∨ (s = 1 ∧ (e = .idle ∨ ∃ p, e = .ans (.reset p)))) ∧
          ∀ x ∈ post, sessEff x = none) ∨
       ((∀ x ∈ (traceH b m ts hist).flatMap Step.events, sessEff x = none) ∧ ts.st.session = s)) := by
  rw [state_after_history]
  simp only [specState]
  rw [lastEff_eq_iff]
  have key : ∀ e : Ev, sessEff e = some s ↔
      ((∃ rec, e = .ans (.dsc s rec)) ∨ (s = 1 ∧ (e = .idle ∨ ∃ p, e = .ans (.reset p)))) := by
    intro e
    cases e with
    | idle => simp [sessEff, eq_comm]
    | ans x => cases x <;> simp [sessEff, eq_comm]
  constructor
  · rintro (⟨pre, e, post, h1, h2, h3⟩ | h)
    · exact Or.inl ⟨pre, e, post, h1, (key e).1 h2, h3⟩
    · exact Or.inr h
  · rintro (⟨pre, e, post, h1, h2, h3⟩ | h)
    · exact Or.inl ⟨pre, e, post, h1, (key e).2 h2, h3⟩
    · exact Or.inr h

/-- for the concrete server a positive DiagnosticSessionControl answer is always the session-change rule's: the switch
    is on, the request parsed, its service is 0x10 and the session entered is its sub-function (suppress bit stripped) -/
theorem session_change_source (b : Behavior) (m : Model) (o : VEcu.Orc) (st : SrvState) (bytes : Bytes) (t : Nat)
    (rec : Bytes) (hx : respondNoState b m (VEcu.vecuHandler o) st (VEcu.mkReq bytes) = .resp (.dsc t rec)) :
    b .sessChange = true ∧ (UdsReq.decode bytes).isRaw = false ∧ (VEcu.mkReq bytes).sid = sidDSC ∧
      t = (VEcu.mkReq bytes).subFn ∧ rec = [] := by
  rcases dsc_answer_cases b m _ st _ t rec hx with h | h
  · exact h
  · exact absurd h (VEcu.vecuHandler_no_dsc o st _ t rec)

/-- **the SecurityAccess answers of the concrete server, exactly** (every switch subset): the answer to `bytes` is a
    positive SecurityAccess reply `(t, seed)` iff every enabled default rule passed and either the request parses as a
    seed request for `t` (then `seed` is the fresh `random_payload()`), or it parses as a key request for `t = t0 + 1`
    while the pending SecurityAccess reply is `(t0, key)` - the level below, and the key equals that reply's seed.
    A key for another level, a wrong key or a key without pending seed is never answered positively. -/
theorem sa_reply_exact (b : Behavior) (m : Model) (o : VEcu.Orc) (st : SrvState) (bytes : Bytes) (t : Nat) (seed : Bytes) :
    respondNoState b m (VEcu.vecuHandler o) st (VEcu.mkReq bytes) = .resp (.sa t seed) ↔
      (bytes ≠ [] ∧ runChain b m st (VEcu.mkReq bytes) chain = .pass ∧
        ((∃ lvl rec sup, UdsReq.decode bytes = .requestSeed lvl rec sup ∧ t = lvl ∧ seed = o.randomPayload 0) ∨
         (∃ key sup t0, UdsReq.decode bytes = .sendKey (t0 + 1) key sup ∧ st.lastSA = some (t0, key) ∧ t = t0 + 1 ∧
            seed = []))) := by
  rw [sa_answer_iff, VEcu.vecuHandler_sa]
  rfl

/-- **security_state_machine**: after any history of the concrete server, under any switch subset, the security level
    is `L` iff the last event with an effect on the level is a positive SecurityAccess answer of even type `L + 1` (by
    `sa_reply_exact`: a key request answering the pending seed of level `L` with the right key) - no inactivity reset,
    positive session change or positive ECUReset after it - or nothing touched the level and it was `L` before; and
    the pending seed is the last SecurityAccess answer unless anything but TesterPresent came after it -/
theorem security_state_machine (b : Behavior) (m : Model) (hist : List VEcu.CItem) (ts : TState) (L : Int) :
    ((VEcu.vecuRunSE b m ts hist).st.level = some L ↔
      ((∃ pre, ∃ t : Nat, ∃ seed post, (VEcu.vecuTrace b m ts hist).flatMap Step.events = pre ++ .ans (.sa t seed) :: post ∧
          t % 2 = 0 ∧ L = (t : Int) - 1 ∧ ∀ x ∈ post, levelEff x = none) ∨
       ((∀ x ∈ (VEcu.vecuTrace b m ts hist).flatMap Step.events, levelEff x = none) ∧ ts.st.level = some L))) ∧
    (VEcu.vecuRunSE b m ts hist).st.lastSA =
      lastEff seedEff ts.st.lastSA ((VEcu.vecuTrace b m ts hist).flatMap Step.events) := by
  unfold VEcu.vecuRunSE VEcu.vecuTrace
  rw [state_after_history]
  refine ⟨?_, rfl⟩
  simp only [specState]
  rw [lastEff_eq_iff]
  have key : ∀ e : Ev, levelEff e = some (some L) ↔ ∃ t : Nat, ∃ seed, e = .ans (.sa t seed) ∧ t % 2 = 0 ∧ L = (t : Int) - 1 := by
    intro e
    cases e with
    | idle => simp [levelEff]
    | ans x =>
      cases x with
      | sa t sd =>
        constructor
        · intro h
          simp only [levelEff] at h
          split at h
          · rename_i ht
            refine ⟨t, sd, rfl, ht, ?_⟩
            simp at h; omega
          · cases h
        · rintro ⟨t', sd', he, ht, hl⟩
          cases he
          simp [levelEff, ht, hl]
      | _ => simp [levelEff]
  constructor
  · rintro (⟨pre, e, post, h1, h2, h3⟩ | h)
    · obtain ⟨t, sd, rfl, ht, hl⟩ := (key e).1 h2
      exact Or.inl ⟨pre, t, sd, post, h1, ht, hl, h3⟩
    · exact Or.inr h
  · rintro (⟨pre, t, sd, post, h1, ht, hl, h3⟩ | h)
    · exact Or.inl ⟨pre, _, post, h1, (key _).2 ⟨t, sd, rfl, ht, hl⟩, h3⟩
    · exact Or.inr h

/-- ... and the level is cleared exactly by the inactivity rule, a positive session change or a positive ECUReset with
    no unlocking after it (or never set) -/
theorem security_cleared_exact (b : Behavior) (m : Model) (hist : List VEcu.CItem) (ts : TState) :
    (VEcu.vecuRunSE b m ts hist).st.level = none ↔
      ((∃ pre e post, (VEcu.vecuTrace b m ts hist).flatMap Step.events = pre ++ e :: post ∧
          (e = .idle ∨ (∃ t rec, e = .ans (.dsc t rec)) ∨ ∃ p, e = .ans (.reset p)) ∧ ∀ x ∈ post, levelEff x = none) ∨
       ((∀ x ∈ (VEcu.vecuTrace b m ts hist).flatMap Step.events, levelEff x = none) ∧ ts.st.level = none)) := by
  unfold VEcu.vecuRunSE VEcu.vecuTrace
  rw [state_after_history]
  simp only [specState]
  rw [lastEff_eq_iff]
  have key : ∀ e : Ev, levelEff e = some none ↔ (e = .idle ∨ (∃ t rec, e = .ans (.dsc t rec)) ∨ ∃ p, e = .ans (.reset p)) := by
    intro e
    cases e with
    | idle => simp [levelEff]
    | ans x =>
      cases x with
      | sa t sd => by_cases ht : t % 2 = 0 <;> simp [levelEff, ht]
      | _ => simp [levelEff]
  constructor
  · rintro (⟨pre, e, post, h1, h2, h3⟩ | h)
    · exact Or.inl ⟨pre, e, post, h1, (key e).1 h2, h3⟩
    · exact Or.inr h
  · rintro (⟨pre, e, post, h1, h2, h3⟩ | h)
    · exact Or.inl ⟨pre, e, post, h1, (key e).2 h2, h3⟩
    · exact Or.inr h

/-- a concrete history on `exModel`: enter session 3, seed for level 1 (`AA`), right key - unlocked; a wrong
    key after a new seed ends the sequence (level kept, seed gone); a request 10.25 s after the END of the last one
    (which took 1 s) is answered in the initial state, one 10 s after is not -/
example : (VEcu.vecuRunSE allOn exModel ⟨SrvState.init, 0⟩
    [⟨1, 2, [0x10, 0x03], {}⟩, ⟨3, 4, [0x27, 0x01], { payLen := 1, payload := [0xAA] }⟩,
     ⟨7, 8, [0x27, 0x02, 0xAA], {}⟩]).st = ⟨3, some 1, some (2, [])⟩ := by decide +kernel
example : (VEcu.vecuRunSE allOn exModel ⟨⟨3, some 1, none⟩, 0⟩
    [⟨1, 2, [0x27, 0x01], { payLen := 1, payload := [0xAA] }⟩, ⟨3, 4, [0x27, 0x02, 0xAB], {}⟩]).st = ⟨3, some 1, none⟩ := by
  decide +kernel
example : (VEcu.vecuRunSE allOn exModel ⟨⟨3, some 1, none⟩, 0⟩ [⟨1, 5, [0x3E, 0x00], {}⟩, ⟨45, 46, [0x3E, 0x00], {}⟩]).st =
      ⟨3, some 1, none⟩ ∧
    (VEcu.vecuRunSE allOn exModel ⟨⟨3, some 1, none⟩, 0⟩ [⟨1, 5, [0x3E, 0x00], {}⟩, ⟨46, 47, [0x3E, 0x00], {}⟩]).st =
      ⟨1, none, none⟩ := by decide +kernel

end Gallia.C13
