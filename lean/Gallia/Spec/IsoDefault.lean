import Gallia.Model.Server
/-
  C13 - specification: the general server response behaviour of ISO 14229-1 (figures 5 and 6 of the
  standard, as far as the virtual ECU has the notions: no security checks per service), written as a
  priority list of negative response codes over a *relational* view of the ECU model, followed by the service
  stage, the state changes the standard attaches to positive replies, and the suppressPosRspMsgIndicationBit.

  Nothing here follows the code: no loops, no flags, no switches.
-/
namespace Gallia.IsoDefault
open Gallia Gallia.Server

/-- the service is offered in session `s` -/
def svcIn (m : Model) (s : Sess) (sid : Sid) : Bool :=
  match m.get s with
  | some sm => (sm sid).isSome
  | none => false

/-- the service is offered in some session of the ECU -/
def svcAnywhere (m : Model) (sid : Sid) : Bool := m.sessions.any (svcIn m · sid)

/-- the sub-function of the service is offered in session `s` -/
def subIn (m : Model) (s : Sess) (sid : Sid) (sf : SubFn) : Bool :=
  match m.get s with
  | some sm =>
    match sm sid with
    | some (some l) => l.contains sf
    | _ => false
  | none => false

def subAnywhere (m : Model) (sid : Sid) (sf : SubFn) : Bool := m.sessions.any (subIn m · sid sf)

structure IsoRule where
  name : String
  nrc : Nat
  applies : Model → SrvState → Req → Bool

/-- service has a sub-function parameter and its availability does not depend on further parameters
    (RoutineControl: availability of the routineControlType depends on the routineIdentifier) -/
def subFnChecked (r : Req) : Bool := r.hasSubFn && r.sid != sidRoutine

/-- the negative response codes of the general server response behaviour, highest priority first -/
def isoRules : List IsoRule := [
  ⟨"serviceNotSupported", 0x11, fun m _ r => !svcAnywhere m r.sid⟩,
  ⟨"serviceNotSupportedInActiveSession", 0x7F, fun m st r => !svcIn m st.session r.sid⟩,
  ⟨"incorrectMessageLengthOrInvalidFormat (no sub-function byte)", 0x13,
    fun _ _ r => r.hasSubFn && decide (r.pdu.length < 2)⟩,
  ⟨"subFunctionNotSupported", 0x12, fun m _ r => subFnChecked r && !subAnywhere m r.sid r.subFn⟩,
  ⟨"subFunctionNotSupportedInActiveSession", 0x7E,
    fun m st r => subFnChecked r && !subIn m st.session r.sid r.subFn⟩,
  ⟨"incorrectMessageLengthOrInvalidFormat (request does not parse)", 0x13, fun _ _ r => r.raw⟩ ]

/-- the first applicable rule decides -/
def isoNegative (m : Model) (st : SrvState) (r : Req) : Option Nat :=
  (isoRules.find? (fun ru => ru.applies m st r)).map (·.nrc)

/-- service stage of the virtual ECU once the general checks passed: session control, reading the active
    session, tester present are answered by the ECU core, the rest by the server specific handler,
    generalReject when that has no answer -/
def isoService (h : Handler) (st : SrvState) (r : Req) : Resp :=
  if r.sid == sidDSC then .dsc r.subFn []
  else if r.sid == sidRDBI && r.pdu.getD 1 0 == 0xF1 && r.pdu.getD 2 0 == 0x86 then
    .other [0x62, 0xF1, 0x86, UInt8.ofNat st.session]
  else if r.sid == sidTP then .tp
  else (h st r).getD (.neg r.sid 0x10)

/-- the answer before suppression -/
def isoAnswer (m : Model) (h : Handler) (st : SrvState) (r : Req) : Resp :=
  match isoNegative m st r with
  | some nrc => .neg r.sid nrc
  | none => isoService h st r

/-- state effects ISO attaches to replies: a positive DiagnosticSessionControl reply activates the session and
    re-locks the ECU, a positive ECUReset reply returns to the default session locked, a positive sendKey
    reply (even securityAccessType) unlocks the level belonging to it. Nothing else changes session or
    security. The seed memory holds the last SecurityAccess reply; TesterPresent does not disturb it. -/
def isoSession (st : SrvState) : Resp → Sess
  | .dsc t _ => t
  | .reset _ => 1
  | _ => st.session

def isoLevel (st : SrvState) : Resp → Option Int
  | .dsc .. => none
  | .reset _ => none
  | .sa t _ => if t % 2 = 0 then some ((t : Int) - 1) else st.level
  | _ => st.level

def isoSeedMemory (st : SrvState) : Resp → Option (Nat × Bytes)
  | .sa t seed => some (t, seed)
  | .tp => st.lastSA
  | _ => none

def isoState (st : SrvState) (x : Resp) : SrvState := ⟨isoSession st x, isoLevel st x, isoSeedMemory st x⟩

/-- suppressPosRspMsgIndicationBit: bit 7 of the sub-function byte of a service with sub-function -/
def isoSuppressBit (r : Req) : Bool := r.hasSubFn && decide (128 ≤ (r.pdu.getD 1 0).toNat)

def isoDefault (m : Model) (h : Handler) (st : SrvState) (r : Req) : SrvState × Option Resp :=
  let x := isoAnswer m h st r
  (isoState st x, if !x.isNeg && isoSuppressBit r then none else some x)

end Gallia.IsoDefault
