import Gallia.Model.ClientIO
import Gallia.Spec.ClientSpec
/-
  C04 (widened) — specification of one client request when the transport's `write()` and the client's
  `reconnect_unsafe()` can fail too.  Written from the property's sentence like `Spec/ClientSpec.lean`, and
  independently of the model of the code (`Model/ClientIO.lean`): no traces, sleeps or time.

  Reading used here (the property's alphabet lists faults of reads only; this is its extension):
  * a transmission that fails (`write()` raises TimeoutError / ConnectionError) is a retry-worthy event of the same kind
    as the corresponding read fault: it costs one of the `b` retransmissions still allowed, and with none left the
    request ends with missing-response (carrying the cause for a ConnectionError).  Nothing is read for a transmission
    that failed;
  * a lost connection (in a write or in a read, in either phase) is followed by a reconnect before the retransmission.
    The property does not say what a failing reconnect implies; the request cannot go on without a connection, and
    the specification simply names that outcome `reconnectFailed m e` (the exception of reconnect #m is what ends the
    request).  With no retransmission left there is no reconnect;
  * everything else as in `ClientSpec.Implied`.
  Core Lean only.
-/
namespace Gallia.ClientIOSpec
open Gallia.Client Gallia.ClientIO Gallia.ClientSpec

/-- where a request stands: about to transmit, waiting for the first reply to a transmission, or prolonged by `np`
    responsePending replies the last `nt` polls of which were silent -/
inductive PhaseX
  | send
  | wait
  | pend (np nt : Nat)
deriving Repr, DecidableEq

/-- the request has been transmitted and listens for a reply -/
def PhaseX.listening : PhaseX → Bool
  | .send => false
  | _ => true

/-- `ImpliedX B io ph b j k m o`: in phase `ph`, with `b` retransmissions still allowed, write `j`, read `k` and
    reconnect `m` next, the event script `io` implies that the request ends with `o` -/
inductive ImpliedX (B : Bounds) (io : Script) : PhaseX → Nat → Nat → Nat → Nat → OutX → Prop
  /-- the request goes on the wire -/
  | sent {b j k m o} : io.wr j = .ok → ImpliedX B io .wait b (j+1) k m o → ImpliedX B io .send b j k m o
  /-- the transmission times out: retransmit, or missing-response -/
  | sendSilentRetry {b j k m o} : io.wr j = .timeout → ImpliedX B io .send b (j+1) k m o → ImpliedX B io .send (b+1) j k m o
  | sendSilentLast {j k m} : io.wr j = .timeout → ImpliedX B io .send 0 j k m (.base (.missing false))
  /-- the connection is lost in the transmission: reconnect and retransmit, or missing-response with the cause -/
  | sendLostRetry {b j k m o} : io.wr j = .connErr → io.rc m = .ok →
      ImpliedX B io .send b (j+1) k (m+1) o → ImpliedX B io .send (b+1) j k m o
  | sendLostNoReconnect {b j k m e} : io.wr j = .connErr → io.rc m = .fail e →
      ImpliedX B io .send (b+1) j k m (.reconnectFailed m e)
  | sendLostLast {j k m} : io.wr j = .connErr → ImpliedX B io .send 0 j k m (.base (.missing true))
  /-- the first final matching reply is returned, in whatever phase it arrives -/
  | final {ph b j k m} : ph.listening = true → (io.rd k).final = true → ImpliedX B io ph b j k m (.base (.reply k))
  /-- a mismatching / malformed reply ends the request with the illegal-response error -/
  | illegal {ph b j k m} : ph.listening = true → (io.rd k).illegal = true → ImpliedX B io ph b j k m (.base (.illegal k))
  /-- busy as first reply: retransmit, or with no retransmission left return it; busy after a responsePending is final -/
  | busyRetry {b j k m o} : io.rd k = .busy → ImpliedX B io .send b j (k+1) m o → ImpliedX B io .wait (b+1) j k m o
  | busyLast {j k m} : io.rd k = .busy → ImpliedX B io .wait 0 j k m (.base (.reply k))
  | busyAfterPending {np nt b j k m} : io.rd k = .busy → ImpliedX B io (.pend np nt) b j k m (.base (.reply k))
  /-- no reply to a transmission: retransmit, or missing-response -/
  | silentRetry {b j k m o} : io.rd k = .timeout → ImpliedX B io .send b j (k+1) m o → ImpliedX B io .wait (b+1) j k m o
  | silentLast {j k m} : io.rd k = .timeout → ImpliedX B io .wait 0 j k m (.base (.missing false))
  /-- connection lost while listening, in either phase: reconnect and retransmit, or missing-response with the cause -/
  | lostRetry {ph b j k m o} : ph.listening = true → (io.rd k).lost = true → io.rc m = .ok →
      ImpliedX B io .send b j (k+1) (m+1) o → ImpliedX B io ph (b+1) j k m o
  | lostNoReconnect {ph b j k m e} : ph.listening = true → (io.rd k).lost = true → io.rc m = .fail e →
      ImpliedX B io ph (b+1) j k m (.reconnectFailed m e)
  | lostLast {ph j k m} : ph.listening = true → (io.rd k).lost = true → ImpliedX B io ph 0 j k m (.base (.missing true))
  /-- responsePending prolongs waiting, without retransmission, but not indefinitely -/
  | pendFirst {b j k m o} : io.rd k = .pending → ImpliedX B io (.pend 1 0) b j (k+1) m o → ImpliedX B io .wait b j k m o
  | pendAgain {np nt b j k m o} : io.rd k = .pending → np + 1 < B.maxPending →
      ImpliedX B io (.pend (np+1) 0) b j (k+1) m o → ImpliedX B io (.pend np nt) b j k m o
  | pendStuck {np nt b j k m} : io.rd k = .pending → B.maxPending ≤ np + 1 →
      ImpliedX B io (.pend np nt) b j k m (.base .stuck)
  /-- a silent poll after a responsePending: keep polling until the silence limit; that is one retry-worthy event -/
  | quiet {np nt b j k m o} : io.rd k = .timeout → nt + 1 < B.maxSilent →
      ImpliedX B io (.pend np (nt+1)) b j (k+1) m o → ImpliedX B io (.pend np nt) b j k m o
  | silenceRetry {np nt b j k m o} : io.rd k = .timeout → B.maxSilent ≤ nt + 1 →
      ImpliedX B io .send b j (k+1) m o → ImpliedX B io (.pend np nt) (b+1) j k m o
  | silenceLast {np nt j k m} : io.rd k = .timeout → B.maxSilent ≤ nt + 1 →
      ImpliedX B io (.pend np nt) 0 j k m (.base (.missing false))

/-- the outcome implied for a whole request: `maxRetry` retransmissions allowed, nothing written, read or reconnected yet -/
def ImpliedReqX (B : Bounds) (maxRetry : Nat) (io : Script) (o : OutX) : Prop :=
  ImpliedX B io .send maxRetry 0 0 0 o

/-- retry-worthy events of a request that performed the writes `0 … nw-1` and the reads `0 … nr-1`: the failed
    writes plus the retry-worthy read events as `ClientSpec.retryEvents` counts them (a failed write happens between
    attempts, where the read phase is `wait`, and leaves it there) -/
def retryEventsX (B : Bounds) (io : Script) (nw nr : Nat) : Nat :=
  wrFaultsFrom io 0 nw + retryEvents B io.rd nr

end Gallia.ClientIOSpec
