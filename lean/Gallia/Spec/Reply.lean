import Gallia.Model.UdsReq
import Gallia.Model.UdsResp
/-
  C03 — the vocabulary of the property, written on the *bytes* of the reply and the fields of the outstanding
  request, without reference to the matcher (`Model/UdsMatch.lean`):

    * `Genuine r b`  — `b` is a negative response naming the service of `r` with a listed response code, or the
                       positive response of that service (id + 0x40) that decodes and echoes the primary identifier of
                       `r` (sub-function without suppress bit / data identifier / routine identifier + control type /
                       block sequence counter / memory fields);
    * `Foreign r b`  — `b` belongs to another service, is a negative response naming another service, or is a decodable
                       positive reply of the right service whose echoed primary identifier differs;
    * `UndecodableSameService r b` — `b` is of the right service (or a negative response naming it / too short to name
                       any) but has no typed reading.

  "Decodes" is the C02 oracle (`decodeResp`), the request layout the C01 oracle (`encode` / `decode`).
  Core Lean only (linked into the `c03` driver, which prints the class of every case).
-/
namespace Gallia.Reply
open Gallia Gallia.UdsReq Gallia.UdsResp

/-- a raw request that carries the bytes of a well-formed typed request *is* that request -/
def view : Req → Req
  | .raw bs => decode bs
  | r => r

/-- the request's service id: first byte of its PDU -/
def reqSid (r : Req) : Option UInt8 := (encode r).head?

/-- the reply has a typed (or, for unknown services / sub-functions, an opaque positive) reading -/
def Decodable (b : Bytes) : Bool :=
  match decodeResp b with
  | .ok _ => true
  | .error _ => false

def isNegative (b : Bytes) : Bool := b.head? == some 0x7F

/-- first byte is `s + 0x40` (and not the negative-response marker) -/
def positiveOf (s : UInt8) (b : Bytes) : Bool :=
  match b with
  | b0 :: _ => b0 != 0x7F && b0.toNat == s.toNat + 0x40
  | [] => false

def byteAt (b : Bytes) (i : Nat) : Option Nat := b[i]?.map (·.toNat)

/-- big-endian 16-bit identifier at offset `i` -/
def wordAt (b : Bytes) (i : Nat) : Option Nat :=
  if i + 2 ≤ b.length then some (fromBE ((b.drop i).take 2)) else none

/-- an optional identifier agrees unless both sides carry one and they differ -/
def optAgree : Option Nat → Option Nat → Bool
  | some a, some b => a == b
  | _, _ => true

/-- the reply `b` echoes the primary identifier of request `r` at the position ISO 14229-1 gives it -/
def echoOK : Req → Bytes → Bool
  | .dsc ty _, b => byteAt b 1 == some ty
  | .ecuReset ty _, b => byteAt b 1 == some ty
  | .requestSeed lvl _ _, b => byteAt b 1 == some lvl
  | .sendKey lvl _ _, b => byteAt b 1 == some lvl
  | .commCtrl ct _ _, b => byteAt b 1 == some ct
  | .testerPresent _, b => byteAt b 1 == some 0
  | .controlDTC ty _ _, b => byteAt b 1 == some ty
  | .rdbi dids, b => (match dids.head? with | some d => wordAt b 1 == some d | none => false)
  | .rmba _ size _, b => b.length == size + 1                       -- exactly the requested number of bytes
  | .defineById ddid _ _, b => byteAt b 1 == some 1 && optAgree (wordAt b 2) (some ddid)
  | .defineByMem ddid _ _ _, b => byteAt b 1 == some 2 && optAgree (wordAt b 2) (some ddid)
  | .clearDDDI od _, b => byteAt b 1 == some 3 && optAgree (wordAt b 2) od
  | .wdbi did _, b => wordAt b 1 == some did
  | .wmba addr size alfid _, b => b.drop 1 == u8 alfid :: encAddrSize alfid (addr, size)
  | .clearDTC _, _ => true                                          -- no echo
  | .dtcByMask sf _ _, b => byteAt b 1 == some sf
  | .dtcPlain sf _, b => byteAt b 1 == some sf
  | .dtcExtByNumber _ _ _, b => byteAt b 1 == some 6
  | .iocbi did _ _, b => wordAt b 1 == some did
  | .routine sf rid _ _, b => byteAt b 1 == some sf && wordAt b 2 == some rid
  | .reqDownload .., _ => true                                      -- no echo
  | .reqUpload .., _ => true
  | .transferData ctr _, b => byteAt b 1 == some ctr
  | .transferExit _, _ => true
  | .raw _, _ => true                                               -- opaque request: the service id is all there is

def genuineB (r : Req) (b : Bytes) : Bool :=
  match reqSid r with
  | none => false
  | some s => Decodable b && ((isNegative b && b[1]? == some s) || (positiveOf s b && echoOK (view r) b))

def foreignB (r : Req) (b : Bytes) : Bool :=
  match reqSid r with
  | none => false
  | some s =>
    (isNegative b && (match b[1]? with | some n => n != s | none => false))                 -- names another service
    || (!b.isEmpty && !isNegative b && !positiveOf s b)                                     -- another service
    || (positiveOf s b && Decodable b && !echoOK (view r) b)                                -- echo differs

def undecodableB (r : Req) (b : Bytes) : Bool :=
  match reqSid r with
  | none => false
  | some s =>
    !Decodable b && ((isNegative b && (match b[1]? with | some n => n == s | none => true)) || positiveOf s b)

/-- negative response naming the request's service with a listed code, or decodable positive response of the request's
    service echoing its primary identifier -/
def Genuine (r : Req) (b : Bytes) : Prop := genuineB r b = true

/-- reply of another service, negative response naming another service, or echoed primary identifier differs -/
def Foreign (r : Req) (b : Bytes) : Prop := foreignB r b = true

/-- reply of the right service without a typed reading -/
def UndecodableSameService (r : Req) (b : Bytes) : Prop := undecodableB r b = true

instance (r : Req) (b : Bytes) : Decidable (Genuine r b) := by unfold Genuine; infer_instance
instance (r : Req) (b : Bytes) : Decidable (Foreign r b) := by unfold Foreign; infer_instance
instance (r : Req) (b : Bytes) : Decidable (UndecodableSameService r b) := by unfold UndecodableSameService; infer_instance

/-- set / clear the suppressPosRspMsgIndicationBit of a request that has one -/
def withSuppress (v : Bool) : Req → Req
  | .dsc ty _ => .dsc ty v
  | .ecuReset ty _ => .ecuReset ty v
  | .requestSeed l rec _ => .requestSeed l rec v
  | .sendKey l k _ => .sendKey l k v
  | .commCtrl c m _ => .commCtrl c m v
  | .testerPresent _ => .testerPresent v
  | .controlDTC t rec _ => .controlDTC t rec v
  | .defineById d g _ => .defineById d g v
  | .defineByMem d f g _ => .defineByMem d f g v
  | .clearDDDI d _ => .clearDDDI d v
  | .dtcByMask sf m _ => .dtcByMask sf m v
  | .dtcPlain sf _ => .dtcPlain sf v
  | .dtcExtByNumber d n _ => .dtcExtByNumber d n v
  | .routine sf rid rec _ => .routine sf rid rec v
  | r => r

end Gallia.Reply
