import Gallia.Model.Lifecycle
/-
  C15 — what the property demands of a run, written without looking at how `entry_point` is built:
  the exception that ends the run by Python's `try/finally` rules, the documented exit-code mapping, and the
  clauses a finished run has to satisfy.  `violationsW` is executable: the harness evaluates it on the behaviour
  observed from the real code, `Proofs/C15.lean` proves it empty for the model.

  What the property says about the ways a run can end, or be held up, before it has started (`startOf`):
    * the lock file cannot be opened / locked: `entry_point()` returns 72 (`exitcodes.OSFILE`, outside the documented
      mapping 0 / n / 74 / 70 / 130 of runs that did start).  The property demands agreement between the exit code
      and the records of the run; with no run there must be no record that could disagree: no artifacts directory,
      no META.json, no run_meta row, no hook executed, no lifecycle point reached, no lock held afterwards, and the
      directories of earlier runs untouched.
    * Ctrl-C while the run waits for a lock somebody else holds: the `CancelledError` leaves `entry_point()` (it is raised
      outside the `try`), `asyncio.run` turns it into KeyboardInterrupt: the documented 130, as a signal death.  Again no
      record of a run may exist.  (That the process cannot end before the lock is free - the blocked `flock` thread is
      joined - is a liveness matter the property does not speak about.)
    * the lock is held by somebody else: the run waits; nothing of the above may happen before the lock is ours
      (clause `lock-not-held-during-run`), afterwards the run is an ordinary run.
    * the artifacts directory cannot be created (base not writable, a directory of that name exists): the property
      does not say how such a run has to end - its list of endings is 'raised in setup, main or teardown' - so no
      exit code is demanded; what it does demand is that no META.json is written into / over another run's
      directory and that no record of a run appears.
-/
namespace Gallia.Lifecycle.Spec
open Gallia.Lifecycle

/-- the first of two awaited statements that raises -/
def orElse (a b : Option Exc) : Option Exc :=
  match a with
  | some e => some e
  | none => b

/-- the dumpcap block of `Scanner.setup` raises when the binary is missing or does not come up -/
def dumpcapFault (c : Cfg) (s : Script) : Option Exc :=
  if c.art && c.dumpcap && (s.dumpcap == .missing || s.dumpcap == .syncFails) then some (.err .other) else none

/-- `Scanner.setup` before it connects the transport: power supply, dumpcap -/
def beforeConnect (c : Cfg) (s : Script) : Option Exc :=
  orElse (if c.power then s.power else none) (dumpcapFault c s)

/-- `Scanner.setup`: power supply, dumpcap, transport -/
def scannerSetupFault (c : Cfg) (s : Script) : Option Exc := orElse (beforeConnect c s) s.connect

/-- `UDSScanner.setup` after `super().setup()`: `ecu.connect()`, tester present, properties -/
def udsSetupFault (c : Cfg) (s : Script) : Option Exc :=
  orElse s.ecuConnect (orElse (if c.tp then s.tpStart else none) (if c.props then s.propsPre else none))

/-- `setup()`: the framework's part, then the command's own code - the first statement that raises ends it -/
def setupFault (c : Cfg) (s : Script) : Option Exc :=
  orElse (if c.kind.isScanner then scannerSetupFault c s else none)
    (orElse (if c.kind.isUds then udsSetupFault c s else none) s.setup)

/-- `UDSScanner.teardown` before `super().teardown()`: properties, tester present, `ecu.transport.close()` -/
def udsTeardownFault (c : Cfg) (s : Script) : Option Exc :=
  orElse (if c.props then s.propsPost else none) (orElse (if c.tp then s.tpStop else none) s.ecuClose)

/-- `Scanner.teardown`: `transport.close()`, then `dumpcap.stop()` when a capture is running -/
def scannerTeardownFault (c : Cfg) (s : Script) : Option Exc :=
  orElse s.close (if dumpcapActive c s then s.dcStop else none)

/-- `teardown()`: the command's code, the framework's part, the command's code again -/
def teardownFault (c : Cfg) (s : Script) : Option Exc :=
  orElse s.tdPre
    (orElse (if c.kind.isUds then udsTeardownFault c s else none)
      (orElse (if c.kind.isScanner then scannerTeardownFault c s else none) s.tdPost))

/-! what a half-finished setup / teardown leaves behind - described (theorems `transport_closed_iff`, `tp_stopped_iff`,
    `dumpcap_stopped_iff`), not demanded by the property -/

/-- `teardown()` up to and including the first `transport.close()` -/
def uptoFirstClose (c : Cfg) (s : Script) : Option Exc :=
  orElse s.tdPre (if c.kind.isUds then udsTeardownFault c s else s.close)

def transportOpened (c : Cfg) (s : Script) : Bool := c.kind.isScanner && (scannerSetupFault c s).isNone

def transportClosedAgain (c : Cfg) (s : Script) : Bool := (setupFault c s).isNone && (uptoFirstClose c s).isNone

def tpStarted (c : Cfg) (s : Script) : Bool :=
  c.kind.isUds && c.tp && (scannerSetupFault c s).isNone && s.ecuConnect.isNone && s.tpStart.isNone

/-- `stop_cyclic_tester_present` is reached (the task is gone whether or not it raises) -/
def tpStopReached (c : Cfg) (s : Script) : Bool :=
  (setupFault c s).isNone && s.tdPre.isNone && (if c.props then s.propsPost else none).isNone

def dcStarted (c : Cfg) (s : Script) : Bool :=
  c.kind.isScanner && c.art && c.dumpcap && (if c.power then s.power else none).isNone &&
    (s.dumpcap == .started || s.dumpcap == .syncFails)

def dcStopDone (c : Cfg) (s : Script) : Bool :=
  (setupFault c s).isNone && s.tdPre.isNone && (if c.kind.isUds then udsTeardownFault c s else none).isNone &&
    s.close.isNone && s.dcStop.isNone

/-- the exception that leaves `setup(); try: main() finally: teardown()`:
    a failing setup ends the run at once; otherwise an exception of the teardown replaces the one of main -/
def raised (c : Cfg) (s : Script) : Option Exc :=
  match setupFault c s with
  | some e => some e
  | none =>
    match teardownFault c s with
    | some e => some e
    | none => s.main

/-- the documented mapping: 0, n, 74 for the errors the command declares as expected, 70, 130 -/
def exitOf (k : Kind) : Option Exc → Nat
  | none => 0
  | some (.sysExit n) => n
  | some .sysExitOther => 70
  | some (.err c) => if c ∈ catched k then 74 else 70
  | some .kbd => 130
  | some .cancelled => 130

/-- a database that cannot be opened is an unexpected error that ends the run before `setup()` -/
def ended (c : Cfg) (s : Script) : Option Exc :=
  if c.db && s.dbFails then some (.err .other) else raised c s

def code (c : Cfg) (s : Script) : Nat := exitOf c.kind (ended c s)

/-- the failing hooks the user has to be told about -/
def failing (c : Cfg) (s : Script) : List Hook :=
  if c.hooks then (if s.preFails then [.pre] else []) ++ (if s.postFails then [.post] else []) else []

/-- how far the prologue gets -/
inductive Start
  | noLock     -- the lock cannot be taken: exit code 72, nothing else
  | lockWaitInterrupted  -- Ctrl-C while waiting for the lock
  | noArtDir   -- the artifacts directory cannot be created
  | started    -- the run starts (pre-hook, database, setup ...)
  deriving DecidableEq, Repr, Inhabited

def nameTaken (w : World) : Bool := w.runs.any (·.name == w.now)

def startOf (w : World) (c : Cfg) : Start :=
  if c.lock && w.lock == .broken then .noLock
  else if c.lock && w.lock == .interrupted then .lockWaitInterrupted
  else if c.art && (!w.baseOk || nameTaken w) then .noArtDir
  else .started

def chk (ok : Bool) (name : String) : List String := if ok then [] else [name]

/-- every directory of an earlier run is still there with the META.json it had -/
def preserved (w : World) (f : Final) : Bool := w.runs.all fun r => f.runs.contains r

/-- the clauses of a run that started -/
def runClauses (w : World) (c : Cfg) (s : Script) (f : Final) : List String :=
  let x := code c s
  chk (f.exit == .ret x) "exit-code"
  ++ (if c.art then
        match f.metaFile with
        | some m =>
          chk (m.exit == x) "meta-exit-code" ++ chk (decide (m.start ≤ m.stop)) "meta-times"
          -- the artifacts directory is this run's own: a new name, and the META.json just written is in it
          ++ (match f.artDir with
              | some n => chk (!(w.runs.any (·.name == n))) "artifacts-dir-not-fresh"
                          ++ chk (f.runs.contains { name := n, metaTag := some m.exit }) "meta-not-in-own-directory"
              | none => ["artifacts-dir-missing"])
        | none => ["meta-missing"]
      else chk (f.metaFile == none && f.artDir == none && f.runs == w.runs) "meta-unexpected")
  ++ (if c.db && !s.dbFails then
        match f.dbRow with
        | .done a b y => chk (y == x) "db-exit-code" ++ chk (decide (a ≤ b)) "db-times"
        | .running _ => ["db-unfinished"]
        | .absent => ["db-missing"]
      else chk (f.dbRow == .absent) "db-unexpected")
  ++ chk f.dbClosed "db-left-open"
  ++ chk f.logClosed "log-left-open"
  ++ chk f.lockReleased "lock-held"
  ++ chk (f.trace.all fun o => o.lockHeld == c.lock) "lock-not-held-during-run"
  ++ (if c.hooks then
        chk f.preRan "pre-hook-skipped"
        ++ (match f.postEnv with
            | some e => chk (e.exitCode == x && e.metaExit == x) "post-hook-exit-code"
                        ++ chk (match f.metaFile with
                                | some m => e.metaStop == m.stop
                                | none => true) "post-hook-meta"
            | none => ["post-hook-skipped"])
      else chk (!f.preRan && f.postEnv == none) "hook-ran-though-disabled")
  ++ chk (f.reports == failing c s) "hook-failure-report"
  -- the directories of earlier runs are untouched
  ++ chk (preserved w f) "previous-run-overwritten"

/-- names of the clauses of the property that a finished run `f` breaks -/
def violationsW (w : World) (c : Cfg) (s : Script) (f : Final) : List String :=
  match startOf w c with
  | .noLock =>
    chk (f.exit == .ret 72) "exit-code"
    ++ chk (f.metaFile == none && f.artDir == none && f.runs == w.runs) "record-of-a-run-that-did-not-start"
    ++ chk (f.dbRow == .absent) "db-unexpected"
    ++ chk f.dbClosed "db-left-open"
    ++ chk f.logClosed "log-left-open"
    ++ chk f.lockReleased "lock-held"
    ++ chk (f.trace == [] && !f.preRan && f.postEnv == none && f.reports == []) "ran-without-lock"
  | .lockWaitInterrupted =>
    -- Ctrl-C: 130 - at this level either returned or as the CancelledError that `asyncio.run` turns into
    -- KeyboardInterrupt (the interpreter then dies by SIGINT); the run has not started, so no record of it may exist
    chk (f.exit == .escLockWait || f.exit == .ret 130) "exit-code"
    ++ chk (f.metaFile == none && f.artDir == none && f.runs == w.runs) "record-of-a-run-that-did-not-start"
    ++ chk (f.dbRow == .absent) "db-unexpected"
    ++ chk f.dbClosed "db-left-open"
    ++ chk f.logClosed "log-left-open"
    ++ chk (f.trace == [] && !f.preRan && f.postEnv == none && f.reports == []) "ran-without-lock"
  | .noArtDir =>
    chk (f.metaFile == none && f.runs == w.runs) "previous-run-overwritten"
    ++ chk (f.dbRow == .absent) "db-unexpected"
    ++ chk (f.trace.all fun o => o.lockHeld == c.lock) "lock-not-held-during-run"
  | .started => runClauses w c s f

/-- the clauses in a benign world (lock free, artifacts base empty and writable) -/
def violations (c : Cfg) (s : Script) (f : Final) : List String := violationsW {} c s f

end Gallia.Lifecycle.Spec
