import Gallia.Model.Lifecycle
/-
  C15 — what the property demands of a run, written without looking at how `entry_point` is built:
  the exception that ends the run by Python's `try/finally` rules, the documented exit-code mapping, and the
  clauses a finished run has to satisfy.  `violations` is executable: the harness evaluates it on the behaviour
  observed from the real code, `Proofs/C15.lean` proves it empty for the model.
-/
namespace Gallia.Lifecycle.Spec
open Gallia.Lifecycle

/-- the exception that leaves `setup(); try: main() finally: teardown()`:
    a failing setup ends the run at once; otherwise an exception of the teardown replaces the one of main -/
def raised (s : Script) : Option Exc :=
  match s.setup with
  | some e => some e
  | none =>
    match s.tdPre with
    | some e => some e
    | none =>
      match s.tdPost with
      | some e => some e
      | none => s.main

/-- the documented mapping: 0, n, 74 for the errors the command declares as expected, 70, 130 -/
def exitOf (k : Kind) : Option Exc → Nat
  | none => 0
  | some (.sysExit n) => n
  | some .sysExitOther => 70
  | some (.err c) => if c ∈ catched k then 74 else 70
  | some .kbd => 130
  | some .cancelled => 130

/-- a database that cannot be opened is an unexpected error that ends the run before `setup()` -/
def ended (c : Cfg) (s : Script) : Option Exc :=
  if c.db && s.dbFails then some (.err .other) else raised s

def code (c : Cfg) (s : Script) : Nat := exitOf c.kind (ended c s)

/-- the failing hooks the user has to be told about -/
def failing (c : Cfg) (s : Script) : List Hook :=
  if c.hooks then (if s.preFails then [.pre] else []) ++ (if s.postFails then [.post] else []) else []

def chk (ok : Bool) (name : String) : List String := if ok then [] else [name]

/-- names of the clauses of the property that a finished run `f` breaks -/
def violations (c : Cfg) (s : Script) (f : Final) : List String :=
  let x := code c s
  chk (f.exit == .ret x) "exit-code"
  ++ (if c.art then
        match f.metaFile with
        | some m => chk (m.exit == x) "meta-exit-code" ++ chk (decide (m.start ≤ m.stop)) "meta-times"
        | none => ["meta-missing"]
      else chk (f.metaFile == none) "meta-unexpected")
  ++ (if c.db && !s.dbFails then
        match f.dbRow with
        | .done a b y => chk (y == x) "db-exit-code" ++ chk (decide (a ≤ b)) "db-times"
        | .running _ => ["db-unfinished"]
        | .absent => ["db-missing"]
      else chk (f.dbRow == .absent) "db-unexpected")
  ++ chk f.dbClosed "db-left-open"
  ++ chk f.logClosed "log-left-open"
  ++ chk f.lockReleased "lock-held"
  ++ chk (f.trace.all fun o => o.lockHeld == c.lock) "lock-not-held-during-run"
  ++ (if c.hooks then
        chk f.preRan "pre-hook-skipped"
        ++ (match f.postEnv with
            | some e => chk (e.exitCode == x && e.metaExit == x) "post-hook-exit-code"
                        ++ chk (match f.metaFile with
                                | some m => e.metaStop == m.stop
                                | none => true) "post-hook-meta"
            | none => ["post-hook-skipped"])
      else chk (!f.preRan && f.postEnv == none) "hook-ran-though-disabled")
  ++ chk (f.reports == failing c s) "hook-failure-report"

end Gallia.Lifecycle.Spec
