import Gallia.Model.ClientAlphabet
/-
  C04 — specification of one client request, written from the property's sentence and independently of the
  model of the code (`Model/Client.lean`).  It knows nothing about traces, sleeps, reconnects or time; it only
  says which outcome an event sequence implies and which reads are retry-worthy events.

  "… puts the request on the wire once plus once per retry-worthy event and never more than max_retry+1
   times, and returns the first final matching reply or raises the missing-response / illegal-response error
   that sequence implies.  ResponsePending prolongs waiting without retransmission but not indefinitely (an
   endless stream of pendings, or silence after a pending, ends the request with an error after a bounded
   number of polls), and a reply received in time is never dropped."

  Reading of the sentence used here:
  * retry-worthy events: a read timeout, a lost connection (ConnectionError / empty read) in either phase,
    busyRepeatRequest as the first reply to a transmission, and a *silence episode* (`maxSilent` consecutive
    silent polls after a responsePending);
  * each retry-worthy event costs one of the `b` retransmissions still allowed; with none left the request ends:
    busy is returned as the reply, silence gives missing-response, a lost connection gives missing-response
    carrying the connection error as cause;
  * busyRepeatRequest *after* a responsePending is a final reply (the ECU acknowledged the request);
  * `maxPending` responsePending replies to one transmission end the request with the stuck error.
  Core Lean only.
-/
namespace Gallia.ClientSpec
open Gallia.Client

structure Bounds where
  maxPending : Nat   -- responsePending replies tolerated per transmission
  maxSilent : Nat    -- consecutive silent polls tolerated after a responsePending
deriving Repr, DecidableEq

/-- where a request stands: waiting for the first reply to a transmission, or prolonged by `np`
    responsePending replies, the last `nt` polls of which were silent -/
inductive Phase
  | wait
  | pend (np nt : Nat)
deriving Repr, DecidableEq

/-- `Implied B s ph b k o`: in phase `ph`, with `b` retransmissions still allowed and read `k` next, the event
    sequence `s` implies that the request ends with `o` -/
inductive Implied (B : Bounds) (s : Nat → Ev) : Phase → Nat → Nat → Out → Prop
  /-- the first final matching reply is returned, in whatever phase it arrives -/
  | final {ph b k} : (s k).final = true → Implied B s ph b k (.reply k)
  /-- a mismatching / malformed reply ends the request with the illegal-response error -/
  | illegal {ph b k} : (s k).illegal = true → Implied B s ph b k (.illegal k)
  /-- busy as first reply: retransmit … -/
  | busyRetry {b k o} : s k = .busy → Implied B s .wait b (k+1) o → Implied B s .wait (b+1) k o
  /-- … or, with no retransmission left, return it -/
  | busyLast {k} : s k = .busy → Implied B s .wait 0 k (.reply k)
  /-- busy after a responsePending is final -/
  | busyAfterPending {np nt b k} : s k = .busy → Implied B s (.pend np nt) b k (.reply k)
  /-- no reply to a transmission: retransmit, or missing-response -/
  | silentRetry {b k o} : s k = .timeout → Implied B s .wait b (k+1) o → Implied B s .wait (b+1) k o
  | silentLast {k} : s k = .timeout → Implied B s .wait 0 k (.missing false)
  /-- connection lost, in either phase: retransmit, or missing-response with the cause attached -/
  | lostRetry {ph b k o} : (s k).lost = true → Implied B s .wait b (k+1) o → Implied B s ph (b+1) k o
  | lostLast {ph k} : (s k).lost = true → Implied B s ph 0 k (.missing true)
  /-- responsePending prolongs waiting, without retransmission … -/
  | pendFirst {b k o} : s k = .pending → Implied B s (.pend 1 0) b (k+1) o → Implied B s .wait b k o
  | pendAgain {np nt b k o} : s k = .pending → np + 1 < B.maxPending →
      Implied B s (.pend (np+1) 0) b (k+1) o → Implied B s (.pend np nt) b k o
  /-- … but not indefinitely -/
  | pendStuck {np nt b k} : s k = .pending → B.maxPending ≤ np + 1 → Implied B s (.pend np nt) b k .stuck
  /-- a silent poll after a responsePending: keep polling … -/
  | quiet {np nt b k o} : s k = .timeout → nt + 1 < B.maxSilent →
      Implied B s (.pend np (nt+1)) b (k+1) o → Implied B s (.pend np nt) b k o
  /-- … until the silence limit: that is one retry-worthy event -/
  | silenceRetry {np nt b k o} : s k = .timeout → B.maxSilent ≤ nt + 1 →
      Implied B s .wait b (k+1) o → Implied B s (.pend np nt) (b+1) k o
  | silenceLast {np nt k} : s k = .timeout → B.maxSilent ≤ nt + 1 →
      Implied B s (.pend np nt) 0 k (.missing false)

/-- the outcome implied for a whole request: first transmission done, `maxRetry` more allowed, read 0 next -/
def ImpliedReq (B : Bounds) (maxRetry : Nat) (s : Nat → Ev) (o : Out) : Prop :=
  Implied B s .wait maxRetry 0 o

/-! ### retry-worthy events among the reads consumed -/

/-- phase after one read, and whether that read completed a retry-worthy event.  (After a final / illegal
    reply the request is over; the phase returned then is irrelevant.) -/
def stepPhase (B : Bounds) : Phase → Ev → Phase × Bool
  | .wait, .timeout => (.wait, true)
  | .wait, .connErr => (.wait, true)
  | .wait, .empty => (.wait, true)
  | .wait, .busy => (.wait, true)
  | .wait, .pending => (.pend 1 0, false)
  | .pend np nt, .timeout => if B.maxSilent ≤ nt + 1 then (.wait, true) else (.pend np (nt+1), false)
  | .pend _ _, .connErr => (.wait, true)
  | .pend _ _, .empty => (.wait, true)
  | .pend np _, .pending => (.pend (np+1) 0, false)
  | ph, _ => (ph, false)

/-- number of retry-worthy events among the `n` reads `k, k+1, …, k+n-1`, starting in phase `ph` -/
def retryEventsFrom (B : Bounds) (s : Nat → Ev) : Phase → Nat → Nat → Nat
  | _, _, 0 => 0
  | ph, k, n+1 =>
    let r := stepPhase B ph (s k)
    (if r.2 then 1 else 0) + retryEventsFrom B s r.1 (k+1) n

/-- retry-worthy events among the first `n` reads of a request -/
def retryEvents (B : Bounds) (s : Nat → Ev) (n : Nat) : Nat := retryEventsFrom B s .wait 0 n

end Gallia.ClientSpec
