/-
  C06 — the "skip until the awaited frame shows up, then put the skipped ones back" discipline that the DoIP
  consumers (`read_diag_request_raw`, `_read_ack`, `_read_routing_activation_response`) apply to the read queue.

  `findSplit p q` is the consumer's scan: the frames skipped (in order), the first frame accepted by `p`, and
  what is still queued behind it.  Two ways of putting the skipped frames back are defined:

  * `requeueFront` - in front of the frames that arrived later (arrival order is kept): what the code does
    after `fix: DoIP re-queues skipped frames in arrival order`;
  * `requeueTail`  - behind them (`for item in unexpected_packets: await self._read_queue.put(item)`): what the
    pinned tree did; kept so that the reordering it causes is characterised by theorems (C06 `tail_*`).
-/
namespace Gallia.DoipFifo

variable {α : Type}

/-- scan: skipped prefix, first element accepted by `p`, remainder -/
def findSplit (p : α → Bool) : List α → Option (List α × α × List α)
  | [] => none
  | x :: xs =>
    if p x then some ([], x, xs)
    else match findSplit p xs with
      | none => none
      | some (pre, y, post) => some (x :: pre, y, post)

def requeueFront (skipped rest : List α) : List α := skipped ++ rest

def requeueTail (skipped rest : List α) : List α := rest ++ skipped

/-- one consumer call on a queue that already holds the awaited frame: result and queue afterwards -/
def takeFront (p : α → Bool) (q : List α) : Option (α × List α) :=
  match findSplit p q with
  | none => none
  | some (pre, x, post) => some (x, requeueFront pre post)

def takeTail (p : α → Bool) (q : List α) : Option (α × List α) :=
  match findSplit p q with
  | none => none
  | some (pre, x, post) => some (x, requeueTail pre post)

/-- `n` successive consumer calls (stop at the first that finds nothing) -/
def takeN (take : List α → Option (α × List α)) : Nat → List α → List α × List α
  | 0, q => ([], q)
  | n+1, q =>
    match take q with
    | none => ([], q)
    | some (x, q') => let r := takeN take n q'; (x :: r.1, r.2)

end Gallia.DoipFifo
