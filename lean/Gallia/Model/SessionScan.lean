/-
  C09 — the UDS session scanner (`gallia.commands.scan.uds.sessions.SessionsScanner`).

  ECU side: a session graph `g : Sess → Sess → Ans` (answer to DiagnosticSessionControl `u` while in session `p`)
  plus the current session; only a positive answer changes the session.  An ECUReset answered positively puts the
  ECU back into session 1.

  Scanner side: `scan` follows `SessionsScanner.main` statement by statement:
    * the `while current_depth < depth and len(found[current_depth]) > 0` loop  -> `scanLoop` (structural on the
      remaining depth),
    * `for stack in found[current_depth-1]`                                      -> `List.foldl processStack`,
    * `for session in range(1, 0x80)`                                            -> `List.foldl probeOne` carrying the
      `recover_stack` flag,
    * `_recover_stack`                                                           -> `recoverStack`,
    * `set_session_with_hooks_handling` (conditionsNotCorrect + `--with-hooks`) -> `dsc`: a second attempt through
      `ECU.set_session(skip_hooks=False)`, i.e. the requests of `set_session_pre`, `10 s`, and after a positive reply
      the requests of `set_session_post` (`dscHooked`); the ECU may answer the hooked attempt differently (`Ecu.gh`),
    * `--reset`: ECUReset, `wait_for_ecu` with the ECU's boot phase of unanswered pings (`doReset`),
    * the retransmissions of `UDSClient.request_unsafe` on silence / busyRepeatRequest -> `repeats`,
    * `sys.exit(1)` when the stack cannot be recovered                           -> `aborted`,
    * the final classification (sorted, one line per distinct session, negative results filtered) -> `result`,
      `transitions`, `negReported`.
  Core Lean only (linked into the `c09` driver).
-/
namespace Gallia.SessionScan

abbrev Sess := Nat

/-- what the ECU does with a request -/
inductive Ans where
  | pos                -- positive response
  | nrc (c : Nat)      -- negative response with code `c`
  | silent             -- no answer at all
  /-- a reply the client REFUSES (`helpers.parse_pdu` raises `IllegalResponse`): a negative response whose code is not
      in `UDSErrorCodes` (`7f 10 80`), a truncated positive reply (`50`), a reply of another service (`7f 22 31`,
      `62 f1 86 03`), a positive reply echoing another sub-function.  The ECU may or may not have acted on the request
      when it sends such a reply: `switched`. -/
  | illegal (switched : Bool)
  deriving DecidableEq, Repr, Inhabited

structure Ecu where
  /-- answer to `10 u` while in session `p` -/
  g : Sess → Sess → Ans
  /-- answer to ECUReset while in session `p` -/
  rst : Sess → Ans
  /-- answer to `10 u` while in session `p` when the requests of the `set_session_pre` hook came right before it
      (an OEM hook that establishes the conditions for the session change) -/
  gh : Sess → Sess → Ans := g
  /-- pings that stay unanswered after an accepted ECUReset in session `p` (boot phase; shorter than the wait) -/
  boot : Sess → Nat := fun _ => 0

structure Cfg where
  depth : Nat
  skip : List Sess := []
  thorough : Bool := false
  /-- `--reset [level]`; `some 0` behaves like `none` (`if self.config.reset:`) -/
  reset : Option Nat := none
  hooks : Bool := false
  /-- `max_retry` of the UDS client -/
  maxRetry : Nat := 0
  /-- the requests `ECU.set_session_pre` / `set_session_post` of the ECU class send (2-byte PDUs as numbers;
      the base class sends none) -/
  preHook : List Nat := []
  postHook : List Nat := []

/-- `list(range(1, 0x80))` -/
def sessions : List Sess := (List.range 0x7F).map (· + 1)

inductive Kind where
  | recover | probe | reset | ping | hook
  deriving DecidableEq, Repr

/-- one request as seen by the ECU -/
structure Req where
  kind : Kind
  /-- session id (recover / probe), reset level (reset), 0 (ping) -/
  target : Nat
  /-- the ECU's session when the request arrived -/
  cur : Sess
  /-- top of the stack the scanner is working on -/
  top : Sess
  deriving DecidableEq, Repr

structure St where
  /-- ECU: current session (ground truth) -/
  cur : Sess := 1
  /-- requests seen by the ECU, newest first -/
  reqs : List Req := []
  /-- `found[current_depth]` -/
  found : List (List Sess) := []
  /-- `positive_results` as (session, stack) -/
  pos : List (Sess × List Sess) := []
  /-- `negative_results` as (session, stack, nrc) -/
  neg : List (Sess × List Sess × Nat) := []
  /-- `searched_sessions` -/
  searched : List Sess := []
  /-- `main` did not run to its end: `sys.exit(1)` was reached, or (with `crashed`) an exception left it -/
  aborted : Bool := false
  /-- an `IllegalResponse` raised by `ecu_reset` left `main` (the reset block catches TimeoutError / ConnectionError only) -/
  crashed : Bool := false

/-- `parse_pdu` raised: the reply never becomes a response object -/
def Ans.refused : Ans → Bool
  | .illegal _ => true
  | _ => false

/-- the ECU is in the requested session afterwards -/
def Ans.moves : Ans → Bool
  | .pos => true
  | .illegal sw => sw
  | _ => false

def NRC_SFNS : Nat := 0x12      -- subFunctionNotSupported
def NRC_BUSY : Nat := 0x21      -- busyRepeatRequest
def NRC_CNC : Nat := 0x22       -- conditionsNotCorrect
def NRC_SFNSIAS : Nat := 0x7E   -- subFunctionNotSupportedInActiveSession

/-- how often `request_unsafe` puts the request on the wire for this answer -/
def repeats (c : Cfg) : Ans → Nat
  | .silent => c.maxRetry + 1
  | .nrc n => if n = NRC_BUSY then c.maxRetry + 1 else 1
  | .pos => 1
  | .illegal _ => 1     -- `parse_pdu` raises out of the retry loop at once

/-- one logical request: the ECU sees it `repeats` times in the same state -/
def exchange (c : Cfg) (k : Kind) (top target : Nat) (a : Ans) (st : St) : St :=
  { st with reqs := List.replicate (repeats c a) ⟨k, target, st.cur, top⟩ ++ st.reqs }

/-- `ecu.set_session(s, skip_hooks=..., use_db=False)` against the graph ECU -/
def dscOnce (c : Cfg) (E : Ecu) (k : Kind) (top : Nat) (s : Sess) (st : St) : St × Ans :=
  let a := E.g st.cur s
  let st := exchange c k top s a st
  match a with
  | .pos => ({ st with cur := s }, a)
  | .illegal true => ({ st with cur := s }, a)   -- the ECU switched and sent a reply the client refuses
  | _ => (st, a)

/-- the requests of one session hook (answered, reply ignored) -/
def hookReqs (tp : Nat) (codes : List Nat) (st : St) : St :=
  { st with reqs := (codes.map fun x => (⟨.hook, x, st.cur, tp⟩ : Req)).reverse ++ st.reqs }

/-- the ECU's answer to the hooked attempt: with a pre hook that sends something it is `gh`, otherwise (base class)
    the ECU cannot tell the attempt from the first one -/
def hookedAns (c : Cfg) (E : Ecu) (p u : Sess) : Ans := if c.preHook.isEmpty then E.g p u else E.gh p u

/-- `ecu.set_session(s, skip_hooks=False, use_db=False)`: pre hook, `10 s`, post hook after a positive reply -/
def dscHooked (c : Cfg) (E : Ecu) (k : Kind) (top : Nat) (s : Sess) (st : St) : St × Ans :=
  let a := hookedAns c E st.cur s
  let st1 := exchange c k top s a (hookReqs top c.preHook st)
  match a with
  | .pos => (hookReqs top c.postHook { st1 with cur := s }, a)
  | .illegal true => ({ st1 with cur := s }, a)   -- `IllegalResponse` leaves `set_session` before the post hook
  | _ => (st1, a)

/-- how `set_session_with_hooks_handling` calls `ECU.set_session`: (skip_hooks, use_db) of the first (plain) and of the
    second (hooked) attempt, and these are the only `set_session` calls of the scanner.  `use_db = false`: a negative
    answer is taken as it is - the `session_transition` rows that earlier scans of the same target left in the database
    are never replayed.  That is why `dscOnce` / `dscHooked` are one exchange each and the model has no database. -/
def setSessionCalls : List (Bool × Bool) := [(true, false), (false, false)]

/-- `set_session_with_hooks_handling` -/
def dsc (c : Cfg) (E : Ecu) (k : Kind) (top : Nat) (s : Sess) (st : St) : St × Ans :=
  let r1 := dscOnce c E k top s st
  if r1.2 = .nrc NRC_CNC ∧ c.hooks = true then
    let r2 := dscHooked c E k top s r1.1
    -- a positive reply replaces the first one, a negative one is dropped, a missing one raises `MissingResponse`,
    -- a refused one raises `IllegalResponse`
    if r2.2 = .pos then r2 else if r2.2 = .silent then r2 else if r2.2.refused = true then r2 else (r2.1, r1.2)
  else r1

/-- the session graph as `set_session_with_hooks_handling` sees it: an edge refused with conditionsNotCorrect
    counts as positive when `--with-hooks` is given and the hooked attempt succeeds (and as unanswered when the hooked
    attempt gets no reply) -/
def edge (c : Cfg) (E : Ecu) (p u : Sess) : Ans :=
  if c.hooks = true ∧ E.g p u = .nrc NRC_CNC then
    match hookedAns c E p u with
    | .pos => .pos
    | .silent => .silent
    | .illegal sw => .illegal sw
    | .nrc _ => .nrc NRC_CNC
  else E.g p u

/-- `stack[-1]` -/
def top (stack : List Sess) : Sess := stack.getLastD 1

/-- `_recover_stack`: re-enter every session of the stack; `false` when one of them is refused or times out -/
def recoverStack (c : Cfg) (E : Ecu) (tp : Nat) : List Sess → St → St × Bool
  | [], st => (st, true)
  | s :: rest, st =>
    let r := dsc c E .recover tp s st
    if r.2 = .pos then recoverStack c E tp rest r.1 else (r.1, false)

/-- the pings of `wait_for_ecu` (`max_retry=0`: one transmission each) -/
def pingReqs (n tp : Nat) (st : St) : St :=
  { st with reqs := List.replicate n (⟨.ping, 0, st.cur, tp⟩ : Req) ++ st.reqs }

/-- `ecu_reset(level)` + `wait_for_ecu` when the reset was accepted: the pings of the boot phase stay unanswered,
    the next one is answered.  A refused reply raises `IllegalResponse`, which the reset block does not catch
    (`except (TimeoutError, ConnectionError)`): it leaves `main` - nothing is reported, nothing is written. -/
def doReset (c : Cfg) (E : Ecu) (tp lvl : Nat) (st : St) : St :=
  let a := E.rst st.cur
  let st' := exchange c .reset tp lvl a st
  match a with
  | .pos => pingReqs (E.boot st.cur + 1) tp { st' with cur := 1 }
  | .illegal sw => { st' with cur := if sw = true then 1 else st'.cur, crashed := true }
  | _ => st'

def wantsReset (c : Cfg) : Option Nat :=
  match c.reset with
  | some (l + 1) => some (l + 1)
  | _ => none

/-- the part of the loop body before the probe: optional ECUReset (which forces a recovery), then
    `_recover_stack` when `recover_stack` is set.  Result: state and "stack recovered / still valid". -/
def prepare (c : Cfg) (E : Ecu) (stack : List Sess) (acc : St × Bool) : St × Bool :=
  match wantsReset c with
  | some l =>
    -- a refused reply to the ECUReset: the exception of the reset block leaves `main`
    if (E.rst acc.1.cur).refused = true then (doReset c E (top stack) l acc.1, false)
    else recoverStack c E (top stack) stack (doReset c E (top stack) l acc.1)
  | none => if acc.2 = true then recoverStack c E (top stack) stack acc.1 else (acc.1, true)

/-- what the loop body does with the answer to the probe `10 s`; the `Bool` is the new `recover_stack` -/
def classify (c : Cfg) (stack : List Sess) (s : Sess) (r : St × Ans) : St × Bool :=
  match r.2 with
  | .silent => (r.1, false)                       -- TimeoutError: `continue`
  | .illegal _ => (r.1, true)                     -- `except Exception` ("Mamma mia"): nothing recorded, recover_stack = True
  | .nrc code =>
    if code = NRC_SFNS then (r.1, false)          -- not available: `continue`
    else ({ r.1 with neg := r.1.neg ++ [(s, stack, code)] }, false)
  | .pos =>
    let st := if c.thorough = true ∨ s ∉ stack then { r.1 with found := r.1.found ++ [stack ++ [s]] } else r.1
    ({ st with pos := st.pos ++ [(s, stack)] }, true)

/-- body of `for session in sessions` for one session; the `Bool` is `recover_stack` -/
def probeOne (c : Cfg) (E : Ecu) (stack : List Sess) (acc : St × Bool) (s : Sess) : St × Bool :=
  if acc.1.aborted = true then acc else
  if s ∈ c.skip then acc else
  let a2 := prepare c E stack acc
  if a2.2 = false then ({ a2.1 with aborted := true }, false) else   -- sys.exit(1)
  classify c stack s (dsc c E .probe (top stack) s a2.1)

/-- body of `for stack in found[current_depth - 1]` -/
def processStack (c : Cfg) (E : Ecu) (st : St) (stack : List Sess) : St :=
  if st.aborted = true then st else
  if c.thorough = false ∧ top stack ∈ st.searched then st else
  (sessions.foldl (probeOne c E stack) ({ st with searched := st.searched ++ [top stack] }, true)).1

/-- one level: `found[current_depth] = []`, then all stacks of the previous level -/
def level (c : Cfg) (E : Ecu) (st : St) : St :=
  st.found.foldl (processStack c E) { st with found := [] }

/-- the `while` loop; the first argument is `depth - current_depth` -/
def scanLoop (c : Cfg) (E : Ecu) : Nat → St → St
  | 0, st => st
  | n + 1, st => if st.found.isEmpty then st else scanLoop c E n (level c E st)

def initSt : St := { found := [[1]] }

def scan (c : Cfg) (E : Ecu) : St := scanLoop c E c.depth initSt

/-! ### final classification -/

/-- stable insertion by key (`sorted(..., key=lambda x: x["session"])`) -/
def insertBy {α} (key : α → Nat) (x : α) : List α → List α
  | [] => [x]
  | y :: ys => if key y < key x then y :: insertBy key x ys else x :: y :: ys

def sortBy {α} (key : α → Nat) (l : List α) : List α := l.reverse.foldl (fun acc x => insertBy key x acc) []
  -- inserting from the back keeps equal keys in their original order

/-- keep the first entry of every run of equal keys (`previous_session`) -/
def firstOfRuns {α} (key : α → Nat) : Option Nat → List α → List α
  | _, [] => []
  | prev, x :: xs => if prev = some (key x) then firstOfRuns key prev xs else x :: firstOfRuns key (some (key x)) xs

/-- rows written for positive results: one per distinct session, with the first stack found -/
def transitions (st : St) : List (Sess × List Sess) :=
  if st.aborted then [] else firstOfRuns (·.1) none (sortBy (·.1) st.pos)

/-- `SessionsScanner.result` -/
def result (st : St) : List Sess := (transitions st).map (·.1)

/-- "identified but could not be activated": sessions never entered, NRC other than 0x7E; one row per session.
    `previous_session` only advances on entries that pass the filter. -/
def negReported (st : St) : List (Sess × List Sess × Nat) :=
  if st.aborted then [] else
  firstOfRuns (·.1) none
    ((sortBy (·.1) st.neg).filter (fun r => !(st.pos.any (·.1 == r.1)) && r.2.2 != NRC_SFNSIAS))

/-- process exit status of the scan -/
def exitCode (st : St) : Nat := if st.aborted then 1 else 0

/-- how `main` ended: 0 = ran to its end, 1 = `sys.exit(1)`, 2 = an `IllegalResponse` left it -/
def ending (st : St) : Nat := if st.crashed then 2 else exitCode st

/-! ### specification -/

/-- `u` is entered from the default session by exactly `k` positive session changes, none of them to a skipped
    session -/
inductive ReachIn (g : Sess → Sess → Ans) (skip : List Sess) : Nat → Sess → Prop where
  | zero : ReachIn g skip 0 1
  | step {k p u} : ReachIn g skip k p → g p u = .pos → u ∉ skip → u ∈ sessions → ReachIn g skip (k + 1) u

/-- the property's "can be entered from the default session by at most `d` successive session changes" -/
def ReachWithin (g : Sess → Sess → Ans) (skip : List Sess) (s : Sess) (d : Nat) : Prop :=
  ∃ k, 1 ≤ k ∧ k ≤ d ∧ ReachIn g skip k s

/-- a list of sessions in which every step is answered positively -/
def ValidPath (g : Sess → Sess → Ans) : List Sess → Prop
  | [] => True
  | [_] => True
  | a :: b :: rest => g a b = .pos ∧ ValidPath g (b :: rest)

instance (g : Sess → Sess → Ans) : (l : List Sess) → Decidable (ValidPath g l)
  | [] => isTrue trivial
  | [_] => isTrue trivial
  | a :: b :: rest =>
    match (inferInstance : Decidable (g a b = .pos)), instDecidableValidPath g (b :: rest) with
    | isTrue h1, isTrue h2 => isTrue ⟨h1, h2⟩
    | isFalse h1, _ => isFalse (fun h => h1 h.1)
    | _, isFalse h2 => isFalse (fun h => h2 h.2)

/-- executable specification: the sessions entered by exactly `k` changes -/
def reachLevel (g : Sess → Sess → Ans) (skip : List Sess) : Nat → List Sess
  | 0 => [1]
  | k + 1 =>
    let prev := reachLevel g skip k
    sessions.filter (fun u => decide (u ∉ skip) && prev.any (fun p => g p u == .pos))

/-- executable specification: sessions entered by 1..d changes (ascending, distinct) -/
def reachSet (g : Sess → Sess → Ans) (skip : List Sess) (d : Nat) : List Sess :=
  let levels := (List.range d).map (fun k => reachLevel g skip (k + 1))
  sessions.filter (fun u => levels.any (fun l => l.contains u))

/-- executable specification of the second report ("identified but could not be activated"): not skipped, not
    entered within the depth limit, and answered with an NRC other than subFunctionNotSupported /
    subFunctionNotSupportedInActiveSession from some session entered by 0..d-1 changes -/
def identSet (g : Sess → Sess → Ans) (skip : List Sess) (d : Nat) : List Sess :=
  let froms := (List.range d).map (fun k => reachLevel g skip k)
  let entered := reachSet g skip d
  sessions.filter (fun u => decide (u ∉ skip) && !entered.contains u &&
    froms.any (fun l => l.any (fun p => match g p u with
      | .nrc c => c != NRC_SFNS && c != NRC_SFNSIAS
      | _ => false)))

end Gallia.SessionScan
