import Gallia.Lib.Bytes
/-
  C18 — configuration resolution.

  Code side (what is modelled):
    cli/gallia.py   `_create_parser_from_command`: `attributes_from_config(config)` then `.update(attributes_from_env())`
                    -> `extra_defaults[model]`                                                   (`extraDefault`)
    pydantic_argparse `_add_model` / `PydanticField.arg_default`: the extra default becomes the argparse `default=`,
                    an explicit argument replaces it                                             (`argValue`)
    pydantic        a key missing from the namespace takes the field default, a required field without any
                    provider is an error                                                         (`resolve`, `effective`)
    command/config.py  the before-validators / serialisers of the special field types            (`parse`, `dump`, `load`)
    argparse/parser.py `_validation_error`: the message names the provider of the rejected value (`effective` error side)

  Strings are `List Char` in the model (the driver converts), bytes are `List UInt8`.
-/
namespace Gallia.Config
open Gallia

abbrev Str := List Char

inductive Source | cli | env | file | dflt
  deriving DecidableEq, Repr

/-! ### precedence, in the three stages the code has -/

/-- stage 1 (`_create_parser_from_command`): dict of file values, `.update()`d with the environment values -/
def extraDefault {α} (env file : Option α) : Option (Source × α) :=
  match env with
  | some v => some (.env, v)
  | none => file.map (fun v => (.file, v))

/-- stage 2 (argparse): the extra default is the argparse `default=`; an explicit argument replaces it -/
def argValue {α} (cli : Option α) (extra : Option (Source × α)) : Option (Source × α) :=
  match cli with
  | some v => some (.cli, v)
  | none => extra

/-- stage 3 (pydantic): a key missing from the namespace takes the field default; `none` = required and missing -/
def resolve {α} (cli env file dflt : Option α) : Option (Source × α) :=
  match argValue cli (extraDefault env file) with
  | some r => some r
  | none => dflt.map (fun v => (.dflt, v))

/-! ### values -/

/-- one element of a list-valued provider (argparse `nargs=*` token, TOML array element) -/
inductive Atom
  | str (s : Str)
  | int (i : Int)
  deriving DecidableEq, Repr

/-- what a provider hands to the validators -/
inductive Raw
  | atom (a : Atom)                 -- CLI token / environment string / TOML string or integer
  | bool (b : Bool)                 -- `--x` / `--no-x`, TOML boolean
  | list (xs : List Atom)           -- `nargs=*` tokens, TOML array
  | flag                            -- bare `--x` of an option with a `const`
  | opq (s : Str) (ok : Bool)       -- value of a type whose own constructor decides validity (URI, float, OEM name)
  deriving DecidableEq, Repr

inductive Val
  | none
  | int (i : Int)
  | bool (b : Bool)
  | text (s : Str)
  | bytes (b : Bytes)
  | ints (l : List Int)
  | map (m : List (Int × Option (List Int)))
  deriving DecidableEq, Repr

inductive Kind
  | bool
  | int            -- plain pydantic int
  | autoInt        -- AutoInt: `int(x, 0)`
  | text           -- str / Path
  | opaque         -- TargetURI / PowerSupplyURI / float / validated names
  | hexBytes       -- HexBytes
  | ranges         -- Ranges
  | ranges2d       -- Ranges2D
  | enum (members : List (Str × Int))    -- EnumArg[E] / AutoLiteral[Literal[E.a, ...]]: (name, value) of the admitted members
  | choice (cs : List Str)               -- Literal["a", "b", ...]
  | autoInts       -- list[AutoInt]
  deriving DecidableEq, Repr

structure Field where
  kind : Kind
  optional : Bool := false
  const : Option Val := none
  deriving DecidableEq, Repr

inductive Msg
  | notInt | notBool | notHex | notRange | notMember | notText | wrongShape | rejected | noConst
  deriving DecidableEq, Repr

/-! ### scalar codecs -/

def isWs (c : Char) : Bool :=
  c == ' ' || c == '\t' || c == '\n' || c == '\r' || c.toNat == 11 || c.toNat == 12

def strip (s : Str) : Str := ((s.dropWhile isWs).reverse.dropWhile isWs).reverse

/-- digits of `base`, single underscores allowed between digits (and in front, which only a base prefix permits) -/
def parseDigits (base : Nat) (acc : Nat) (prevUs : Bool) : Str → Option Nat
  | [] => if prevUs then none else some acc
  | c :: rest =>
    if c == '_' then (if prevUs then none else parseDigits base acc true rest)
    else match unhexDigit c with
      | some d => if d < base then parseDigits base (acc * base + d) false rest else none
      | none => none

/-- magnitude accepted by Python's `int(x, 0)`: `0x` / `0o` / `0b` prefix, else decimal where a leading zero is
    only allowed when the whole number is zero -/
def parseMag0 (s : Str) : Option Nat :=
  match s with
  | [] => none
  | c :: t =>
    if c == '0' then
      match t with
      | [] => some 0
      | p :: rest =>
        if p == 'x' || p == 'X' then (if rest.isEmpty then none else parseDigits 16 0 false rest)
        else if p == 'o' || p == 'O' then (if rest.isEmpty then none else parseDigits 8 0 false rest)
        else if p == 'b' || p == 'B' then (if rest.isEmpty then none else parseDigits 2 0 false rest)
        else match parseDigits 10 0 false s with
          | some 0 => some 0
          | _ => none
    else if c == '_' then none
    else parseDigits 10 0 false s

def withSign (f : Str → Option Nat) (s : Str) : Option Int :=
  match s with
  | [] => (f []).map Int.ofNat
  | c :: r =>
    if c == '-' then (f r).map (fun n => - (Int.ofNat n))
    else if c == '+' then (f r).map Int.ofNat
    else (f (c :: r)).map Int.ofNat

/-- `int(x, 0)` on a string -/
def parseAutoInt (s : Str) : Option Int := withSign parseMag0 (strip s)

def parseDecMag (s : Str) : Option Nat :=
  if s.isEmpty || !s.all Char.isDigit then none else parseDigits 10 0 false s

/-- pydantic's lax str -> int on plain decimal text (the only text the harness offers as valid) -/
def parseDecInt (s : Str) : Option Int := withSign parseDecMag s

def lower (s : Str) : Str := s.map Char.toLower

def parseBoolStr (s : Str) : Option Bool :=
  let l := String.ofList (lower s)
  if l ∈ ["1", "on", "t", "true", "y", "yes"] then some true
  else if l ∈ ["0", "off", "f", "false", "n", "no"] then some false
  else none

/-! ### ranges (`gallia.utils.unravel`, `unravel_2d`) -/

def splitOn (sep : Char) (s : Str) : List Str :=
  let (cur, acc) := s.foldr (fun c (p : Str × List Str) => if c == sep then ([], p.1 :: p.2) else (c :: p.1, p.2)) ([], [])
  cur :: acc

def intercalate (sep : Char) : List Str → Str
  | [] => []
  | [x] => x
  | x :: xs => x ++ sep :: intercalate sep xs

def insertSorted (x : Int) : List Int → List Int
  | [] => [x]
  | y :: ys => if x < y then x :: y :: ys else if x == y then y :: ys else y :: insertSorted x ys

def sortDedup (l : List Int) : List Int := l.foldr insertSorted []

def rangeInts (a b : Int) : List Int := (List.range (b + 1 - a).toNat).map (fun k => a + Int.ofNat k)

def allSome {α} : List (Option α) → Option (List α)
  | [] => some []
  | none :: _ => none
  | some x :: r => (allSome r).map (x :: ·)

/-- one comma-separated element: `a` or `a-b` -/
def unravelElem (e : Str) : Option (List Int) :=
  if e.contains '-' then
    match splitOn '-' e with
    | [a, b] => match parseAutoInt a, parseAutoInt b with
      | some x, some y => some (rangeInts x y)
      | _, _ => none
    | _ => none
  else (parseAutoInt e).map ([·])

def unravel (s : Str) : Option (List Int) :=
  if s.all isWs then some []
  else (allSome ((splitOn ',' s).map unravelElem)).map (fun ls => sortDedup ls.flatten)

def mapInsert (k : Int) (v : Option (List Int)) : List (Int × Option (List Int)) → List (Int × Option (List Int))
  | [] => [(k, v)]
  | (k', v') :: r => if k < k' then (k, v) :: (k', v') :: r else if k == k' then (k, v) :: r else (k', v') :: mapInsert k v r

def mapGet (k : Int) : List (Int × Option (List Int)) → Option (Option (List Int))
  | [] => none
  | (k', v) :: r => if k == k' then some v else mapGet k r

/-- `unsorted_result` update of one space-separated element of `unravel_2d` -/
def unravel2dElem (m : List (Int × Option (List Int))) (e : Str) : Option (List (Int × Option (List Int))) :=
  if e.contains ':' then
    match splitOn ':' e with
    | [a, b] => match unravel a, unravel b with
      | some xs, some ys =>
        some (xs.foldl (fun m x =>
          match mapGet x m with
          | some none => m                                     -- already "everything": stays None
          | some (some cur) => mapInsert x (some (sortDedup (cur ++ ys))) m
          | none => mapInsert x (some (sortDedup ys)) m) m)
      | _, _ => none
    | _ => none
  else (unravel e).map (fun xs => xs.foldl (fun m x => mapInsert x none m) m)

def unravel2d (s : Str) : Option (List (Int × Option (List Int))) :=
  (splitOn ' ' s).foldl (fun acc e => acc.bind (fun m => unravel2dElem m e)) (some [])

/-! ### `parse`: what the validators make of a provider's value -/

def atomStr? : Atom → Option Str
  | .str s => some s
  | .int _ => none

def atomInt? : Atom → Option Int
  | .int i => some i
  | .str _ => none

def atomAutoInt : Atom → Option Int
  | .int i => some i
  | .str s => parseAutoInt s

def enumLookup (members : List (Str × Int)) (a : Atom) : Option Int :=
  match a with
  | .int i => if members.any (·.2 == i) then some i else none
  | .str s =>
    match members.find? (·.1 == s) with
    | some (_, v) => some v
    | none => match parseAutoInt s with
      | some i => if members.any (·.2 == i) then some i else none
      | none => none

def parse (k : Kind) (r : Raw) : Except Msg Val :=
  match k, r with
  | .bool, .bool b => .ok (.bool b)
  | .bool, .atom (.str s) => match parseBoolStr s with | some b => .ok (.bool b) | none => .error .notBool
  | .bool, .atom (.int i) => if i == 0 then .ok (.bool false) else if i == 1 then .ok (.bool true) else .error .notBool
  | .int, .atom (.int i) => .ok (.int i)
  | .int, .atom (.str s) => match parseDecInt s with | some i => .ok (.int i) | none => .error .notInt
  | .autoInt, .atom (.int i) => .ok (.int i)
  | .autoInt, .atom (.str s) => match parseAutoInt s with | some i => .ok (.int i) | none => .error .notInt
  | .text, .atom (.str s) => .ok (.text s)
  | .text, .atom (.int _) => .error .notText
  | .opaque, .opq s ok => if ok then .ok (.text s) else .error .rejected
  | .hexBytes, .atom (.str s) => match unhexChars s with | some b => .ok (.bytes b) | none => .error .notHex
  | .ranges, .atom (.str s) =>
    -- `unravel(",".join(value.split()))`: whitespace separated pieces are joined with commas
    match unravel (intercalate ',' ((splitOn ' ' s).filter (fun p => !p.isEmpty))) with
    | some l => .ok (.ints l) | none => .error .notRange
  | .ranges, .list xs =>
    match allSome (xs.map atomStr?) with
    | some ss => match unravel (intercalate ',' ss) with | some l => .ok (.ints l) | none => .error .notRange
    | none => match allSome (xs.map atomInt?) with
      | some is => .ok (.ints is)      -- a list of integers is taken as it is (not sorted, not merged)
      | none => .error .wrongShape
  | .ranges2d, .atom (.str s) => match unravel2d s with | some m => .ok (.map m) | none => .error .notRange
  | .ranges2d, .list xs =>
    match allSome (xs.map atomStr?) with
    | some ss => match unravel2d (intercalate ' ' ss) with | some m => .ok (.map m) | none => .error .notRange
    | none => .error .wrongShape
  | .enum ms, .atom a => match enumLookup ms a with | some v => .ok (.int v) | none => .error .notMember
  | .choice cs, .atom (.str s) => if cs.contains s then .ok (.text s) else .error .notMember
  | .autoInts, .list xs =>
    match allSome (xs.map atomAutoInt) with
    | some is => .ok (.ints is) | none => .error .notInt
  | _, _ => .error .wrongShape

/-! ### effective value of one option -/

inductive Outcome
  | ok (src : Source) (v : Val)
  | rejected (src : Source) (m : Msg)      -- the parser refuses to start and names `src`
  | missing                                -- required, nobody provides a value
  deriving DecidableEq, Repr

/-- value a provider contributes, `flag` resolved through the option's `const` (CLI only) -/
def provided (f : Field) (r : Raw) : Except Msg Val :=
  match r with
  | .flag => match f.const with | some c => .ok c | none => .error .noConst
  | r => parse f.kind r

/-- only the winning provider's value reaches the validators; a value that does not validate is an error that
    names that provider - it never falls through to the next provider -/
def effective (f : Field) (cli env file : Option Raw) (dflt : Option Val) : Outcome :=
  match argValue cli (extraDefault env file) with
  | some (src, r) => match provided f r with
    | .ok v => .ok src v
    | .error m => .rejected src m
  | none => match dflt with
    | some v => .ok .dflt v
    | none => .missing

/-! ### stored configuration: `model_dump_json()` and `CONFIG_TYPE(**json.loads(...))` -/

inductive J
  | null
  | num (i : Int)
  | bool (b : Bool)
  | str (s : Str)
  | arr (l : List Int)
  | obj (m : List (Str × Option (List Int)))
  deriving DecidableEq, Repr

def showNat (n : Nat) : Str := (Nat.toDigits 10 n)

def showInt (i : Int) : Str :=
  match i with
  | .ofNat n => showNat n
  | .negSucc n => '-' :: showNat (n + 1)

def hexOf (b : Bytes) : Str := b.flatMap hexByte

def dumpEntry (kv : Int × Option (List Int)) : Str × Option (List Int) := (showInt kv.1, kv.2)

def dump : Val → J
  | .none => .null
  | .int i => .num i
  | .bool b => .bool b
  | .text s => .str s
  | .bytes b => .str (hexOf b)
  | .ints l => .arr l
  | .map m => .obj (m.map dumpEntry)

def loadKey (s : Str) : Option Int := parseDecInt s

def loadEntry (kv : Str × Option (List Int)) : Option (Int × Option (List Int)) := (loadKey kv.1).map (fun i => (i, kv.2))

def load (f : Field) (j : J) : Except Msg Val :=
  match j, f.kind with
  | .null, _ => if f.optional then .ok .none else .error .wrongShape
  | .num i, k => parse k (.atom (.int i))
  | .bool b, k => parse k (.bool b)
  | .str s, .opaque => .ok (.text s)          -- the stored text of a URI / float was produced from a valid value
  | .str s, k => parse k (.atom (.str s))
  | .arr l, k => parse k (.list (l.map Atom.int))
  | .obj m, .ranges2d =>
    match allSome (m.map loadEntry) with
    | some kv => .ok (.map kv)
    | none => .error .wrongShape
  | .obj _, _ => .error .wrongShape

/-- values a field of kind `k` can hold (the image of the validators) -/
def WellTyped (f : Field) : Val → Prop
  | .none => f.optional = true
  | .int i => f.kind = .int ∨ f.kind = .autoInt ∨ ∃ ms, f.kind = .enum ms ∧ ms.any (·.2 == i) = true
  | .bool _ => f.kind = .bool
  | .text s => f.kind = .text ∨ f.kind = .opaque ∨ ∃ cs, f.kind = .choice cs ∧ cs.contains s = true
  | .bytes _ => f.kind = .hexBytes
  | .ints _ => f.kind = .ranges ∨ f.kind = .autoInts
  | .map _ => f.kind = .ranges2d

end Gallia.Config
