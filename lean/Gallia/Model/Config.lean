import Gallia.Lib.Bytes
import Gallia.Model.ConfigFile
/-
  C18 — configuration resolution.

  Code side (what is modelled):
    cli/gallia.py   `_create_parser_from_command`: `attributes_from_config(config)` then `.update(attributes_from_env())`
                    -> `extra_defaults[model]`                                                   (`extraDefault`)
    pydantic_argparse `_add_model` / `PydanticField.arg_default`: the extra default becomes the argparse `default=`,
                    an explicit argument replaces it                                             (`argValue`)
    pydantic        a key missing from the namespace takes the field default, a required field without any
                    provider is an error                                                         (`resolve`, `effective`)
    command/config.py  the before-validators / serialisers of the special field types            (`parse`, `dump`, `load`)
    pydantic-core      lax `str -> int` of plain `int` fields (`clean_int_str` + JSON integer syntax)  (`parseLaxInt`)
    argparse/parser.py `_validation_error`: the message names the provider whose value equals the rejected
                    input, the command line otherwise                                            (`blame`, `reported`)
    pydantic_argparse `PydanticField.arg_default`: a positional argument gets no argparse default (`effective`)
    command/base.py, db/handler.py, commands/script/rerun.py: `model_dump_json()` into META.json / run_meta and
                    `CONFIG_TYPE(**json.loads(...))`                                              (`store`, `reload`)
  The file layer (documents, key lookup, discovery, template) is in `Model/ConfigFile.lean`.

  Strings are `List Char` in the model (the driver converts), bytes are `List UInt8`.
-/
namespace Gallia.Config
open Gallia

inductive Source | cli | env | file | dflt
  deriving DecidableEq, Repr

/-! ### precedence, in the three stages the code has -/

/-- stage 1 (`_create_parser_from_command`): dict of file values, `.update()`d with the environment values -/
def extraDefault {α} (env file : Option α) : Option (Source × α) :=
  match env with
  | some v => some (.env, v)
  | none => file.map (fun v => (.file, v))

/-- stage 2 (argparse): the extra default is the argparse `default=`; an explicit argument replaces it -/
def argValue {α} (cli : Option α) (extra : Option (Source × α)) : Option (Source × α) :=
  match cli with
  | some v => some (.cli, v)
  | none => extra

/-- stage 3 (pydantic): a key missing from the namespace takes the field default; `none` = required and missing -/
def resolve {α} (cli env file dflt : Option α) : Option (Source × α) :=
  match argValue cli (extraDefault env file) with
  | some r => some r
  | none => dflt.map (fun v => (.dflt, v))

/-! ### values -/

/-- what a provider hands to the validators -/
inductive Raw
  | atom (a : Atom)                 -- CLI token / environment string / TOML string or integer
  | bool (b : Bool)                 -- `--x` / `--no-x`, TOML boolean
  | list (xs : List Atom)           -- `nargs=*` tokens, TOML array
  | flag                            -- bare `--x` of an option with a `const`
  | opq (s : Str) (ok : Bool)       -- value of a type whose own constructor decides validity (URI, float, OEM name)
  deriving DecidableEq, Repr

inductive Val
  | none
  | int (i : Int)
  | bool (b : Bool)
  | text (s : Str)
  | bytes (b : Bytes)
  | ints (l : List Int)
  | map (m : List (Int × Option (List Int)))
  | tuples (l : List (List Int))          -- list[tuple[int, ...]]
  | dict (t : Tree)                       -- dict[str, Any]
  deriving DecidableEq, Repr

inductive Kind
  | bool
  | int            -- plain pydantic int
  | autoInt        -- AutoInt: `int(x, 0)`
  | text           -- str / Path
  | opaque         -- TargetURI / PowerSupplyURI / float / validated names
  | hexBytes       -- HexBytes
  | ranges         -- Ranges
  | ranges2d       -- Ranges2D
  | enum (members : List (Str × Int))    -- EnumArg[E] / AutoLiteral[Literal[E.a, ...]]: (name, value) of the admitted members
  | choice (cs : List Str)               -- Literal["a", "b", ...]
  | autoInts       -- list[AutoInt]
  | hexInt         -- HexInt: `int(x, 16)`
  | tuples (n : Nat)                     -- list[Annotated[tuple[int, ... n times], BeforeValidator(parse_definitions n)]]
  | enums (members : List (Str × Int))   -- list[EnumArg[E]]
  | dict           -- dict[str, Any]
  deriving DecidableEq, Repr

/-- the field kinds without their parameters (what the regenerated option table says about an option) -/
inductive KindTag
  | bool | int | autoInt | hexInt | text | opaque | hexBytes | ranges | ranges2d | enum | choice | autoInts
  | tuples | enums | dict
  | unmodelled        -- an annotation the model has no kind for
  deriving DecidableEq, Repr

def Kind.tag : Kind → KindTag
  | .bool => .bool | .int => .int | .autoInt => .autoInt | .hexInt => .hexInt | .text => .text | .opaque => .opaque
  | .hexBytes => .hexBytes | .ranges => .ranges | .ranges2d => .ranges2d | .enum _ => .enum | .choice _ => .choice
  | .autoInts => .autoInts | .tuples _ => .tuples | .enums _ => .enums | .dict => .dict

structure Field where
  kind : Kind
  optional : Bool := false
  const : Option Val := none
  positional : Bool := false
  deriving DecidableEq, Repr

inductive Msg
  | notInt | notBool | notHex | notRange | notMember | notText | wrongShape | rejected | noConst | wrongCount
  deriving DecidableEq, Repr

/-! ### scalar codecs -/

def isWs (c : Char) : Bool :=
  c == ' ' || c == '\t' || c == '\n' || c == '\r' || c.toNat == 11 || c.toNat == 12

def strip (s : Str) : Str := ((s.dropWhile isWs).reverse.dropWhile isWs).reverse

/-- digits of `base`, single underscores allowed between digits (and in front, which only a base prefix permits) -/
def parseDigits (base : Nat) (acc : Nat) (prevUs : Bool) : Str → Option Nat
  | [] => if prevUs then none else some acc
  | c :: rest =>
    if c == '_' then (if prevUs then none else parseDigits base acc true rest)
    else match unhexDigit c with
      | some d => if d < base then parseDigits base (acc * base + d) false rest else none
      | none => none

/-- magnitude accepted by Python's `int(x, 0)`: `0x` / `0o` / `0b` prefix, else decimal where a leading zero is
    only allowed when the whole number is zero -/
def parseMag0 (s : Str) : Option Nat :=
  match s with
  | [] => none
  | c :: t =>
    if c == '0' then
      match t with
      | [] => some 0
      | p :: rest =>
        if p == 'x' || p == 'X' then (if rest.isEmpty then none else parseDigits 16 0 false rest)
        else if p == 'o' || p == 'O' then (if rest.isEmpty then none else parseDigits 8 0 false rest)
        else if p == 'b' || p == 'B' then (if rest.isEmpty then none else parseDigits 2 0 false rest)
        else match parseDigits 10 0 false s with
          | some 0 => some 0
          | _ => none
    else if c == '_' then none
    else parseDigits 10 0 false s

def withSign (f : Str → Option Nat) (s : Str) : Option Int :=
  match s with
  | [] => (f []).map Int.ofNat
  | c :: r =>
    if c == '-' then (f r).map (fun n => - (Int.ofNat n))
    else if c == '+' then (f r).map Int.ofNat
    else (f (c :: r)).map Int.ofNat

/-- `int(x, 0)` on a string -/
def parseAutoInt (s : Str) : Option Int := withSign parseMag0 (strip s)

def parseDecMag (s : Str) : Option Nat :=
  if s.isEmpty || !s.all Char.isDigit then none else parseDigits 10 0 false s

/-- pydantic's lax str -> int on plain decimal text (the only text the harness offers as valid) -/
def parseDecInt (s : Str) : Option Int := withSign parseDecMag s

/-! #### pydantic's lax `str -> int` (plain `int` fields): pydantic-core `clean_int_str`, then JSON integer syntax -/

def isNzDigit (c : Char) : Bool := c.isDigit && c != '0'

/-- `strip_leading_zeros` after the first `0`: `prev` is the character just skipped -/
def skipZeros (prev : Char) : Str → Option Str
  | [] => some [prev]                           -- all zeros (or underscores): the last character stays
  | c :: t =>
    if c == '0' || c == '_' then skipZeros c t
    else if isNzDigit c || c == '-' then some (c :: t)
    else if c == '.' then some (prev :: c :: t)
    else none

def stripLeadingZeros : Str → Option Str
  | [] => none
  | c :: t =>
    if c == '0' then skipZeros c t
    else if isNzDigit c || c == '-' then some (c :: t)
    else none

/-- `strip_decimal_zeros`: `.0`, `.00`, ... after the number is dropped (a bare `.` is not) -/
def stripDecimalZeros (s : Str) : Str :=
  let a := s.takeWhile (· != '.')
  match s.dropWhile (· != '.') with
  | _ :: frac => if !frac.isEmpty && frac.all (· == '0') then a else s
  | [] => s

def hasDoubleUs : Str → Bool
  | a :: b :: t => (a == '_' && b == '_') || hasDoubleUs (b :: t)
  | _ => false

/-- `strip_underscores`: single underscores inside are removed; in any other arrangement the text stays as it is -/
def stripUnderscores (s : Str) : Str :=
  if s.head? == some '_' || s.getLast? == some '_' || !s.contains '_' || hasDoubleUs s then s
  else s.filter (· != '_')

/-- JSON integer without sign: `0` or a non-zero digit followed by digits -/
def jsonNat (s : Str) : Option Nat :=
  match s with
  | [] => none
  | c :: t =>
    if !(c :: t).all Char.isDigit then none
    else if c == '0' && !t.isEmpty then none
    else parseDigits 10 0 false (c :: t)

def jsonInt (s : Str) : Option Int :=
  match s with
  | '-' :: t => (jsonNat t).map (fun n => - Int.ofNat n)
  | _ => (jsonNat s).map Int.ofNat

/-- pydantic (lax mode) `str -> int` -/
def parseLaxInt (s0 : Str) : Option Int :=
  let s := strip s0
  let plus := s.head? == some '+'
  let s := if plus then s.drop 1 else s
  if plus && s.head? == some '-' then none else
  let neg := s.head? == some '-'
  let s := if neg then s.drop 1 else s
  if neg && (s.head? == some '-' || s.head? == some '+') then none else
  match stripLeadingZeros s with
  | none => none
  | some s =>
    let s := stripUnderscores (stripDecimalZeros s)
    jsonInt (if neg then '-' :: s else s)

/-! #### `int(x, 16)` (HexInt) -/

def parseMag16 (s : Str) : Option Nat :=
  let plain (s : Str) : Option Nat :=
    match s with
    | [] => none
    | c :: _ => if c == '_' then none else parseDigits 16 0 false s
  match s with
  | '0' :: p :: rest =>
    if p == 'x' || p == 'X' then (if rest.isEmpty then none else parseDigits 16 0 false rest) else plain s
  | _ => plain s

def parseHexInt (s : Str) : Option Int := withSign parseMag16 (strip s)

def lower (s : Str) : Str := s.map Char.toLower

def parseBoolStr (s : Str) : Option Bool :=
  let l := String.ofList (lower s)
  if l ∈ ["1", "on", "t", "true", "y", "yes"] then some true
  else if l ∈ ["0", "off", "f", "false", "n", "no"] then some false
  else none

/-! ### ranges (`gallia.utils.unravel`, `unravel_2d`) -/

def insertSorted (x : Int) : List Int → List Int
  | [] => [x]
  | y :: ys => if x < y then x :: y :: ys else if x == y then y :: ys else y :: insertSorted x ys

def sortDedup (l : List Int) : List Int := l.foldr insertSorted []

def rangeInts (a b : Int) : List Int := (List.range (b + 1 - a).toNat).map (fun k => a + Int.ofNat k)

def allSome {α} : List (Option α) → Option (List α)
  | [] => some []
  | none :: _ => none
  | some x :: r => (allSome r).map (x :: ·)

/-- one comma-separated element: `a` or `a-b` -/
def unravelElem (e : Str) : Option (List Int) :=
  if e.contains '-' then
    match splitOn '-' e with
    | [a, b] => match parseAutoInt a, parseAutoInt b with
      | some x, some y => some (rangeInts x y)
      | _, _ => none
    | _ => none
  else (parseAutoInt e).map ([·])

def unravel (s : Str) : Option (List Int) :=
  if s.all isWs then some []
  else (allSome ((splitOn ',' s).map unravelElem)).map (fun ls => sortDedup ls.flatten)

def mapInsert (k : Int) (v : Option (List Int)) : List (Int × Option (List Int)) → List (Int × Option (List Int))
  | [] => [(k, v)]
  | (k', v') :: r => if k < k' then (k, v) :: (k', v') :: r else if k == k' then (k, v) :: r else (k', v') :: mapInsert k v r

def mapGet (k : Int) : List (Int × Option (List Int)) → Option (Option (List Int))
  | [] => none
  | (k', v) :: r => if k == k' then some v else mapGet k r

/-- `unsorted_result` update of one space-separated element of `unravel_2d` -/
def unravel2dElem (m : List (Int × Option (List Int))) (e : Str) : Option (List (Int × Option (List Int))) :=
  if e.contains ':' then
    match splitOn ':' e with
    | [a, b] => match unravel a, unravel b with
      | some xs, some ys =>
        some (xs.foldl (fun m x =>
          match mapGet x m with
          | some none => m                                     -- already "everything": stays None
          | some (some cur) => mapInsert x (some (sortDedup (cur ++ ys))) m
          | none => mapInsert x (some (sortDedup ys)) m) m)
      | _, _ => none
    | _ => none
  else (unravel e).map (fun xs => xs.foldl (fun m x => mapInsert x none m) m)

def unravel2d (s : Str) : Option (List (Int × Option (List Int))) :=
  (splitOn ' ' s).foldl (fun acc e => acc.bind (fun m => unravel2dElem m e)) (some [])

/-! ### `parse`: what the validators make of a provider's value -/

def atomStr? : Atom → Option Str
  | .str s => some s
  | .int _ => none

def atomInt? : Atom → Option Int
  | .int i => some i
  | .str _ => none

def atomAutoInt : Atom → Option Int
  | .int i => some i
  | .str s => parseAutoInt s

def enumLookup (members : List (Str × Int)) (a : Atom) : Option Int :=
  match a with
  | .int i => if members.any (·.2 == i) then some i else none
  | .str s =>
    match members.find? (·.1 == s) with
    | some (_, v) => some v
    | none => match parseAutoInt s with
      | some i => if members.any (·.2 == i) then some i else none
      | none => none

/-- one `ID:START:LENGTH` / `ADDRESS:LENGTH` definition (`parse_definitions`): exactly `n` integers in `int(x, 0)`
    notation separated by colons -/
def parseTuple (n : Nat) (a : Atom) : Except Msg (List Int) :=
  match a with
  | .int _ => .error .wrongShape
  | .str s =>
    let parts := splitOn ':' s
    if parts.length != n then .error .wrongCount
    else match allSome (parts.map parseAutoInt) with
      | some is => .ok is
      | none => .error .notInt

/-- validate the elements one after the other; the first one that fails decides the message -/
def parseEach {α} (f : Atom → Except Msg α) : List Atom → Except Msg (List α)
  | [] => .ok []
  | a :: r => match f a with
    | .error m => .error m
    | .ok v => match parseEach f r with
      | .error m => .error m
      | .ok vs => .ok (v :: vs)

def enumElem (ms : List (Str × Int)) (a : Atom) : Except Msg Int :=
  match enumLookup ms a with | some v => .ok v | none => .error .notMember

def boolInt (b : Bool) : Int := if b then 1 else 0

def parse (k : Kind) (r : Raw) : Except Msg Val :=
  match k, r with
  | .bool, .bool b => .ok (.bool b)
  | .bool, .atom (.str s) => match parseBoolStr s with | some b => .ok (.bool b) | none => .error .notBool
  | .bool, .atom (.int i) => if i == 0 then .ok (.bool false) else if i == 1 then .ok (.bool true) else .error .notBool
  | .int, .atom (.int i) => .ok (.int i)
  | .int, .atom (.str s) => match parseLaxInt s with | some i => .ok (.int i) | none => .error .notInt
  | .int, .bool b => .ok (.int (boolInt b))          -- `bool` is an `int` for pydantic's lax mode (TOML `true`)
  | .autoInt, .atom (.int i) => .ok (.int i)
  | .autoInt, .bool b => .ok (.int (boolInt b))      -- `isinstance(True, int)`
  | .hexInt, .atom (.int i) => .ok (.int i)
  | .hexInt, .bool b => .ok (.int (boolInt b))
  | .hexInt, .atom (.str s) => match parseHexInt s with | some i => .ok (.int i) | none => .error .notInt
  | .autoInt, .atom (.str s) => match parseAutoInt s with | some i => .ok (.int i) | none => .error .notInt
  | .text, .atom (.str s) => .ok (.text s)
  | .text, .atom (.int _) => .error .notText
  | .opaque, .opq s ok => if ok then .ok (.text s) else .error .rejected
  | .hexBytes, .atom (.str s) => match unhexChars s with | some b => .ok (.bytes b) | none => .error .notHex
  | .ranges, .atom (.str s) =>
    -- `unravel(",".join(value.split()))`: whitespace separated pieces are joined with commas
    match unravel (intercalate ',' ((splitOn ' ' s).filter (fun p => !p.isEmpty))) with
    | some l => .ok (.ints l) | none => .error .notRange
  | .ranges, .list xs =>
    match allSome (xs.map atomStr?) with
    | some ss => match unravel (intercalate ',' ss) with | some l => .ok (.ints l) | none => .error .notRange
    | none => match allSome (xs.map atomInt?) with
      | some is => .ok (.ints is)      -- a list of integers is taken as it is (not sorted, not merged)
      | none => .error .wrongShape
  | .ranges2d, .atom (.str s) => match unravel2d s with | some m => .ok (.map m) | none => .error .notRange
  | .ranges2d, .list xs =>
    match allSome (xs.map atomStr?) with
    | some ss => match unravel2d (intercalate ' ' ss) with | some m => .ok (.map m) | none => .error .notRange
    | none => .error .wrongShape
  | .enum ms, .atom a => match enumLookup ms a with | some v => .ok (.int v) | none => .error .notMember
  | .choice cs, .atom (.str s) => if cs.contains s then .ok (.text s) else .error .notMember
  | .autoInts, .list xs =>
    match allSome (xs.map atomAutoInt) with
    | some is => .ok (.ints is) | none => .error .notInt
  | .tuples n, .list xs => match parseEach (parseTuple n) xs with | .ok ts => .ok (.tuples ts) | .error m => .error m
  | .enums ms, .list xs =>
    match parseEach (enumElem ms) xs with
    | .ok is => .ok (.ints is) | .error m => .error m
  | _, _ => .error .wrongShape      -- e.g. a string for a list field, a list for `dict[str, Any]`

/-! ### effective value of one option -/

inductive Outcome
  | ok (src : Source) (v : Val)
  | rejected (src : Source) (m : Msg)      -- the parser refuses to start and names `src`
  | missing                                -- required, nobody provides a value
  deriving DecidableEq, Repr

/-- value a provider contributes, `flag` resolved through the option's `const` (CLI only) -/
def provided (f : Field) (r : Raw) : Except Msg Val :=
  match r with
  | .flag => match f.const with | some c => .ok c | none => .error .noConst
  | r => parse f.kind r

/-- the input a validation error reports (`e["input"]`): the whole value, except for the kinds that are validated
    element by element, where it is the first element that fails -/
def reported (k : Kind) (r : Raw) : Raw :=
  let firstBad (bad : Atom → Bool) (xs : List Atom) : Raw :=
    match xs.find? bad with
    | some a => .atom a
    | none => r
  match k, r with
  | .autoInts, .list xs => firstBad (fun a => (atomAutoInt a).isNone) xs
  | .enums ms, .list xs => firstBad (fun a => (enumLookup ms a).isNone) xs
  | .tuples n, .list xs => firstBad (fun a => match parseTuple n a with | .ok _ => false | .error _ => true) xs
  | _, _ => r

/-- pydantic validates every element and lists every failure: all the inputs a rejection reports, in order -/
def reportedAll (k : Kind) (r : Raw) : List Raw :=
  let allBad (bad : Atom → Bool) (xs : List Atom) : List Raw :=
    match xs.filter bad with
    | [] => [r]
    | bs => bs.map Raw.atom
  match k, r with
  | .autoInts, .list xs => allBad (fun a => (atomAutoInt a).isNone) xs
  | .enums ms, .list xs => allBad (fun a => (enumLookup ms a).isNone) xs
  | .tuples n, .list xs => allBad (fun a => match parseTuple n a with | .ok _ => false | .error _ => true) xs
  | _, _ => [r]

/-- `_validation_error`: the message says "default of <name> from <environment variable | config file>" when the
    reported input *equals* the value taken from there, "argument --<name>" otherwise -/
def blame (inp : Raw) (extra : Option (Source × Raw)) : Source :=
  match extra with
  | some (s, r) => if r == inp then s else .cli
  | none => .cli

/-- the providers named by the lines of one rejection message -/
def blamedAll (k : Kind) (r : Raw) (extra : Option (Source × Raw)) : List Source :=
  (reportedAll k r).map (fun i => blame i extra)

/-- the argparse default of an option: positional arguments get none (`PydanticField.arg_default`) -/
def offered (f : Field) (extra : Option (Source × Raw)) : Option (Source × Raw) :=
  if f.positional then none else extra

/-- only the winning provider's value reaches the validators; a value that does not validate is an error - it
    never falls through to the next provider. The error names the provider `blame` finds -/
def effective (f : Field) (cli env file : Option Raw) (dflt : Option Val) : Outcome :=
  let extra := extraDefault env file
  match argValue cli (offered f extra) with
  | some (src, r) => match provided f r with
    | .ok v => .ok src v
    | .error m => .rejected (blame (reported f.kind r) extra) m
  | none => match dflt with
    | some v => .ok .dflt v
    | none => .missing

/-! ### one option through all layers: argv, environment, gallia.toml, default -/

/-- what a value read from gallia.toml looks like to the validators -/
def rawOfTree : Tree → Raw
  | .leaf (.bool b) => .bool b
  | .leaf (.int i) => .atom (.int i)
  | .leaf (.str s) => .atom (.str s)
  | .leaf (.arr l) => .list l
  | .leaf (.flt t) => .opq t true            -- a TOML float is a float
  | _ => .opq [] false                       -- tables, dates, nested arrays: no scalar or list field takes them

structure OptDecl where
  name : Str
  field : Field
  sect : Option Str            -- config section (of the field, else of its class); `none`: not file-configurable
  configurable : Bool          -- declared with gallia's `Field()`: looked up in the environment and the file
  deriving DecidableEq, Repr

/-- `create_parser` + `parse_typed_args` for one option: the environment variable `GALLIA_<NAME>`, the key
    `<section>.<name>` of the document, the command line and the default -/
def resolveOption (o : OptDecl) (cli : Option Raw) (environ : Str → Option Str) (doc : Tree) (dflt : Option Val) : Outcome :=
  let env := if o.configurable then (environ (envName o.name)).map (fun s => Raw.atom (.str s)) else none
  let file := if o.configurable then (fileValue doc o.sect o.name).map rawOfTree else none
  effective o.field cli env file dflt

/-! ### stored configuration: `model_dump_json()` and `CONFIG_TYPE(**json.loads(...))` -/

inductive J
  | null
  | num (i : Int)
  | bool (b : Bool)
  | str (s : Str)
  | arr (l : List Int)
  | obj (m : List (Str × Option (List Int)))
  | arrs (l : List (List Int))
  | tree (t : Tree)                    -- an arbitrary JSON object (`dict[str, Any]`)
  deriving DecidableEq, Repr

def showNat (n : Nat) : Str := (Nat.toDigits 10 n)

def showInt (i : Int) : Str :=
  match i with
  | .ofNat n => showNat n
  | .negSucc n => '-' :: showNat (n + 1)

def hexOf (b : Bytes) : Str := b.flatMap hexByte

def dumpEntry (kv : Int × Option (List Int)) : Str × Option (List Int) := (showInt kv.1, kv.2)

def dump : Val → J
  | .none => .null
  | .int i => .num i
  | .bool b => .bool b
  | .text s => .str s
  | .bytes b => .str (hexOf b)
  | .ints l => .arr l
  | .map m => .obj (m.map dumpEntry)
  | .tuples l => .arrs l
  | .dict t => .tree t

def loadKey (s : Str) : Option Int := parseDecInt s

def loadEntry (kv : Str × Option (List Int)) : Option (Int × Option (List Int)) := (loadKey kv.1).map (fun i => (i, kv.2))

def load (f : Field) (j : J) : Except Msg Val :=
  match j, f.kind with
  | .null, _ => if f.optional then .ok .none else .error .wrongShape
  | .num i, k => parse k (.atom (.int i))
  | .bool b, k => parse k (.bool b)
  | .str s, .opaque => .ok (.text s)          -- the stored text of a URI / float was produced from a valid value
  | .str s, k => parse k (.atom (.str s))
  | .arr l, k => parse k (.list (l.map Atom.int))
  | .obj m, .ranges2d =>
    match allSome (m.map loadEntry) with
    | some kv => .ok (.map kv)
    | none => .error .wrongShape
  | .obj _, _ => .error .wrongShape
  | .arrs l, .tuples n =>                   -- `parse_definitions` on a list: the length is checked, the items are taken
    if l.all (fun t => t.length == n) then .ok (.tuples l) else .error .wrongCount
  | .arrs _, _ => .error .wrongShape
  | .tree t, .dict => if t.isTbl then .ok (.dict t) else .error .wrongShape
  | .tree _, _ => .error .wrongShape

/-- values a field of kind `k` can hold (the image of the validators) -/
def WellTyped (f : Field) : Val → Prop
  | .none => f.optional = true
  | .int i => f.kind = .int ∨ f.kind = .autoInt ∨ f.kind = .hexInt ∨ ∃ ms, f.kind = .enum ms ∧ ms.any (·.2 == i) = true
  | .bool _ => f.kind = .bool
  | .text s => f.kind = .text ∨ f.kind = .opaque ∨ ∃ cs, f.kind = .choice cs ∧ cs.contains s = true
  | .bytes _ => f.kind = .hexBytes
  | .ints l => f.kind = .ranges ∨ f.kind = .autoInts ∨ ∃ ms, f.kind = .enums ms ∧ l.all (fun i => ms.any (·.2 == i)) = true
  | .map _ => f.kind = .ranges2d
  | .tuples l => ∃ n, f.kind = .tuples n ∧ l.all (fun t => t.length == n) = true
  | .dict t => f.kind = .dict ∧ t.isTbl = true

/-! ### a whole stored configuration -/

/-- `model_dump_json()`: every field under its name -/
def store (cfg : List (Str × Val)) : List (Str × J) := cfg.map (fun nv => (nv.1, dump nv.2))

def lookupJ (n : Str) : List (Str × J) → Option J
  | [] => none
  | (k, j) :: r => if k == n then some j else lookupJ n r

/-- `CONFIG_TYPE(**json.loads(stored))`: every field of the schema is validated from the stored value of its name; a
    field the stored object lacks takes its default (`none`: required, so the reload fails) -/
def reload (schema : List (Str × Field × Option Val)) (stored : List (Str × J)) : Except (Str × Msg) (List (Str × Val)) :=
  match schema with
  | [] => .ok []
  | (n, f, d) :: rest =>
    let v : Except (Str × Msg) Val :=
      match lookupJ n stored with
      | some j => (match load f j with | .ok v => .ok v | .error m => .error (n, m))
      | none => (match d with | some v => .ok v | none => .error (n, .wrongShape))
    match v with
    | .error e => .error e
    | .ok v => match reload rest stored with
      | .error e => .error e
      | .ok vs => .ok ((n, v) :: vs)

end Gallia.Config
