import Gallia.Model.Parse
/-
  C20 — what every transport's `connect()` makes of a target URI.

  The table `transportTable` is a hand copy of the live registry (`gallia.plugins.plugin.load_transports()`), regenerated on
  every run into `Gen/C20Tables.lean` and compared (`all_schemes_modelled`): per scheme whether `connect` calls
  `check_scheme`, whether a missing host is refused, the default port, whether `.hostname` / `.path` / `.port` is used, and the fields of
  the pydantic model built by `Config(**target.qs_flat)` with the kind of reader each field has:

    autoInt   a `field_validator(..., mode="before")` that returns `auto_int(v)` (`int(v, 0)`: all bases)
    laxInt    a plain `int` field: pydantic's lax `str -> int`
    bool      a plain `bool` field: pydantic's lax `str -> bool`

  Unknown parameters are ignored (`extra="ignore"`, pydantic's default), a missing required field or an unreadable value
  refuses the URI.
-/
namespace Gallia.Parse

inductive VKind | autoInt | laxInt | bool
  deriving DecidableEq, Repr

structure FieldSpec where
  name : Str
  kind : VKind
  required : Bool
  deriving DecidableEq, Repr

inductive FVal
  | int (z : Int)
  | bool (b : Bool)
  deriving DecidableEq, Repr

structure Transport where
  scheme : Str
  checksScheme : Bool
  needsHost : Bool
  defaultPort : Option Nat
  usesHost : Bool
  usesPath : Bool
  usesPort : Bool
  fields : List FieldSpec
  deriving DecidableEq, Repr

def kIsExtendedId : Str := "is_extended".toList
def kDstId : Str := "dst_id".toList

/-- `TransportScheme` -/
def schemeList : List Str :=
  ["tcp".toList, "tcp-lines".toList, "doip".toList, "hsfz".toList, "unix".toList, "unix-lines".toList, "isotp".toList,
   "can-raw".toList]

def canRawT : Transport := ⟨"can-raw".toList, true, true, none, true, false, false,
  [⟨kIsExtended, .bool, false⟩, ⟨kIsFd, .bool, false⟩, ⟨kDstId, .autoInt, false⟩]⟩

def doipT : Transport := ⟨"doip".toList, true, true, some 13400, true, false, true,
  [⟨kSrcAddr, .autoInt, true⟩, ⟨kTargetAddr, .autoInt, true⟩, ⟨kActivationType, .autoInt, false⟩,
   ⟨kProtocolVersion, .autoInt, false⟩]⟩

/-- `HSFZTransport.connect` does not call `check_scheme` -/
def hsfzT : Transport := ⟨"hsfz".toList, false, true, some 6801, true, false, true,
  [⟨kSrcAddr, .autoInt, true⟩, ⟨kDstAddr, .autoInt, true⟩, ⟨kAckTimeout, .laxInt, false⟩]⟩

def isotpT : Transport := ⟨"isotp".toList, true, true, none, true, false, false,
  [⟨kSrcAddr, .autoInt, true⟩, ⟨kDstAddr, .autoInt, true⟩, ⟨kIsExtended, .bool, false⟩, ⟨kIsFd, .bool, false⟩,
   ⟨kFrameTxtime, .laxInt, false⟩, ⟨kExtAddress, .autoInt, false⟩, ⟨kRxExtAddress, .autoInt, false⟩,
   ⟨kTxPadding, .autoInt, false⟩, ⟨kRxPadding, .autoInt, false⟩, ⟨kTxDl, .laxInt, false⟩]⟩

def tcpT : Transport := ⟨"tcp".toList, true, false, none, true, false, true, []⟩
def tcpLinesT : Transport := ⟨"tcp-lines".toList, true, false, none, true, false, true, []⟩
def unixT : Transport := ⟨"unix".toList, true, false, none, false, true, false, []⟩
def unixLinesT : Transport := ⟨"unix-lines".toList, true, false, none, false, true, false, []⟩

/-- the registry, ordered by scheme -/
def transportTable : List Transport := [canRawT, doipT, hsfzT, isotpT, tcpT, tcpLinesT, unixT, unixLinesT]

def transportOf (scheme : Str) : Option Transport := transportTable.find? (·.scheme = scheme)

/-- one setting as the field's reader sees it -/
def readField (k : VKind) (v : Str) : Option FVal :=
  match k with
  | .autoInt => (autoIntL v).map .int
  | .laxInt => (plainInt v).map .int
  | .bool => (boolVal v).map .bool

/-- one field of `Config(**qs_flat)`: outer `none` = the URI is refused, inner `none` = the default applies -/
def fieldOf (f : FieldSpec) (args : Args) : Option (Option FVal) :=
  match lookupS f.name args with
  | none => if f.required then none else some none
  | some v => (readField f.kind v).map some

/-- `Config(**qs_flat)`: every field by name (parameters that are not fields are ignored) -/
def cfgOf (fields : List FieldSpec) (args : Args) : Option (List (Str × Option FVal)) :=
  mapOpt (fun f => (fieldOf f args).map fun v => (f.name, v)) fields

inductive ConnErr | unknownScheme | wrongScheme | noHost | badPort | badConfig
  deriving DecidableEq, Repr

/-- what `connect()` goes on to use -/
structure Plan where
  host : Option Str
  port : Option Nat
  path : Option Str
  cfg : List (Str × Option FVal)
  deriving DecidableEq, Repr

/-- `BaseTransport.check_scheme`: `TransportScheme(url.scheme)` must exist and equal the class's scheme -/
def checkScheme (t : Transport) (u : Uri) : Except ConnErr Unit :=
  if u.scheme ∉ schemeList then .error .unknownScheme
  else if u.scheme ≠ t.scheme then .error .wrongScheme
  else .ok ()

/-- `Transport.connect(target)` up to the point where the network is touched, in the order of the code: scheme, host,
    port (explicit, else the transport's default), path, settings -/
def connectPlan (t : Transport) (u : Uri) : Except ConnErr Plan := do
  if t.checksScheme then checkScheme t u
  if t.needsHost ∧ u.host = none then throw .noHost
  let port ← if t.usesPort then
      (match u.port with
       | none => throw ConnErr.badPort
       | some (some p) => pure (some p)
       | some none => pure t.defaultPort)
    else pure none
  match cfgOf t.fields u.args with
  | none => throw .badConfig
  | some cfg => pure ⟨if t.usesHost then u.host else none, port, if t.usesPath then some u.path else none, cfg⟩

end Gallia.Parse
