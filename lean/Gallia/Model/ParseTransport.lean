import Gallia.Model.Parse
/-
  C20 — what every transport's `connect()` makes of a target URI.

  The table `transportTable` is a hand copy of the live registry (`gallia.plugins.plugin.load_transports()`), regenerated on
  every run into `Gen/C20Tables.lean` and compared (`all_schemes_modelled`): per scheme whether `connect` calls
  `check_scheme`, whether a missing host is refused, the default port, whether `.hostname` / `.path` / `.port` is used, and the fields of
  the pydantic model built by `Config(**target.qs_flat)` with the kind of reader each field has:

    autoInt   a `field_validator(..., mode="before")` that returns `auto_int(v)` (`int(v, 0)`: all bases)
    laxInt    a plain `int` field: pydantic's lax `str -> int`
    bool      a plain `bool` field: pydantic's lax `str -> bool`

  Unknown parameters are ignored (`extra="ignore"`, pydantic's default), a missing required field or an unreadable value
  refuses the URI.
-/
namespace Gallia.Parse

inductive VKind | autoInt | laxInt | bool
  deriving DecidableEq, Repr

structure FieldSpec where
  name : Str
  kind : VKind
  required : Bool
  deriving DecidableEq, Repr

inductive FVal
  | int (z : Int)
  | bool (b : Bool)
  deriving DecidableEq, Repr

structure Transport where
  scheme : Str
  checksScheme : Bool
  needsHost : Bool
  defaultPort : Option Nat
  usesHost : Bool
  usesPath : Bool
  usesPort : Bool
  fields : List FieldSpec
  deriving DecidableEq, Repr

def kIsExtendedId : Str := "is_extended".toList
def kDstId : Str := "dst_id".toList

/-- `TransportScheme` -/
def schemeList : List Str :=
  ["tcp".toList, "tcp-lines".toList, "doip".toList, "hsfz".toList, "unix".toList, "unix-lines".toList, "isotp".toList,
   "can-raw".toList]

def canRawT : Transport := ⟨"can-raw".toList, true, true, none, true, false, false,
  [⟨kIsExtended, .bool, false⟩, ⟨kIsFd, .bool, false⟩, ⟨kDstId, .autoInt, false⟩]⟩

def doipT : Transport := ⟨"doip".toList, true, true, some 13400, true, false, true,
  [⟨kSrcAddr, .autoInt, true⟩, ⟨kTargetAddr, .autoInt, true⟩, ⟨kActivationType, .autoInt, false⟩,
   ⟨kProtocolVersion, .autoInt, false⟩]⟩

/-- `HSFZTransport.connect` does not call `check_scheme` -/
def hsfzT : Transport := ⟨"hsfz".toList, false, true, some 6801, true, false, true,
  [⟨kSrcAddr, .autoInt, true⟩, ⟨kDstAddr, .autoInt, true⟩, ⟨kAckTimeout, .laxInt, false⟩]⟩

def isotpT : Transport := ⟨"isotp".toList, true, true, none, true, false, false,
  [⟨kSrcAddr, .autoInt, true⟩, ⟨kDstAddr, .autoInt, true⟩, ⟨kIsExtended, .bool, false⟩, ⟨kIsFd, .bool, false⟩,
   ⟨kFrameTxtime, .laxInt, false⟩, ⟨kExtAddress, .autoInt, false⟩, ⟨kRxExtAddress, .autoInt, false⟩,
   ⟨kTxPadding, .autoInt, false⟩, ⟨kRxPadding, .autoInt, false⟩, ⟨kTxDl, .laxInt, false⟩]⟩

def tcpT : Transport := ⟨"tcp".toList, true, false, none, true, false, true, []⟩
def tcpLinesT : Transport := ⟨"tcp-lines".toList, true, false, none, true, false, true, []⟩
def unixT : Transport := ⟨"unix".toList, true, false, none, false, true, false, []⟩
def unixLinesT : Transport := ⟨"unix-lines".toList, true, false, none, false, true, false, []⟩

/-- the registry, ordered by scheme -/
def transportTable : List Transport := [canRawT, doipT, hsfzT, isotpT, tcpT, tcpLinesT, unixT, unixLinesT]

def transportOf (scheme : Str) : Option Transport := transportTable.find? (·.scheme = scheme)

/-- one setting as the field's reader sees it -/
def readField (k : VKind) (v : Str) : Option FVal :=
  match k with
  | .autoInt => (autoIntL v).map .int
  | .laxInt => (plainInt v).map .int
  | .bool => (boolVal v).map .bool

/-- one field of `Config(**qs_flat)`: outer `none` = the URI is refused, inner `none` = the default applies -/
def fieldOf (f : FieldSpec) (args : Args) : Option (Option FVal) :=
  match lookupS f.name args with
  | none => if f.required then none else some none
  | some v => (readField f.kind v).map some

/-- `Config(**qs_flat)`: every field by name (parameters that are not fields are ignored) -/
def cfgOf (fields : List FieldSpec) (args : Args) : Option (List (Str × Option FVal)) :=
  mapOpt (fun f => (fieldOf f args).map fun v => (f.name, v)) fields

inductive ConnErr | unknownScheme | wrongScheme | noHost | badPort | badConfig
  deriving DecidableEq, Repr

/-- what `connect()` goes on to use -/
structure Plan where
  host : Option Str
  port : Option Nat
  path : Option Str
  cfg : List (Str × Option FVal)
  deriving DecidableEq, Repr

/-- `BaseTransport.check_scheme`: `TransportScheme(url.scheme)` must exist and equal the class's scheme -/
def checkScheme (t : Transport) (u : Uri) : Except ConnErr Unit :=
  if u.scheme ∉ schemeList then .error .unknownScheme
  else if u.scheme ≠ t.scheme then .error .wrongScheme
  else .ok ()

/-- `Transport.connect(target)` up to the point where the network is touched, in the order of the code: scheme, host,
    port (explicit, else the transport's default), path, settings -/
def connectPlan (t : Transport) (u : Uri) : Except ConnErr Plan := do
  if t.checksScheme then checkScheme t u
  if t.needsHost ∧ u.host = none then throw .noHost
  let port ← if t.usesPort then
      (match u.port with
       | none => throw ConnErr.badPort
       | some (some p) => pure (some p)
       | some none => pure t.defaultPort)
    else pure none
  match cfgOf t.fields u.args with
  | none => throw .badConfig
  | some cfg => pure ⟨if t.usesHost then u.host else none, port, if t.usesPath then some u.path else none, cfg⟩

/-! ## what `connect()` programs into the socket

  Trusted base, written down from the kernel headers (not from gallia):

    linux/can.h        CAN_EFF_FLAG 0x80000000, CAN_SFF_MASK 0x7FF, CAN_EFF_MASK 0x1FFFFFFF
                       SOL_CAN_BASE 100, CAN_RAW 1, CAN_ISOTP 6
    linux/can/raw.h    SOL_CAN_RAW = SOL_CAN_BASE + CAN_RAW, CAN_RAW_FD_FRAMES 5
    linux/can/isotp.h  SOL_CAN_ISOTP = SOL_CAN_BASE + CAN_ISOTP; CAN_ISOTP_OPTS 1, CAN_ISOTP_RECV_FC 2, CAN_ISOTP_LL_OPTS 5
                       CAN_ISOTP_EXTEND_ADDR 0x002, CAN_ISOTP_TX_PADDING 0x004, CAN_ISOTP_RX_PADDING 0x008, CAN_ISOTP_RX_EXT_ADDR 0x200
                       struct can_isotp_options    { __u32 flags; __u32 frame_txtime; __u8 ext_address; __u8 txpad_content;
                                                     __u8 rxpad_content; __u8 rx_ext_address; }
                       struct can_isotp_fc_options { __u8 bs; __u8 stmin; __u8 wftmax; }
                       struct can_isotp_ll_options { __u8 mtu; __u8 tx_dl; __u8 tx_flags; }
                       CAN_ISOTP_DEFAULT_FRAME_TXTIME is the kernel's; gallia's `ISOTPConfig.frame_txtime` defaults to 10, `tx_dl` to 64,
                       CANFD_MTU 72

  `__u32` in host byte order: little endian (stated assumption of the check).
-/

def solCanRaw : Nat := 101
def canRawFdFrames : Nat := 5
def solCanIsotp : Nat := 106
def canIsotpOpts : Nat := 1
def canIsotpRecvFc : Nat := 2
def canIsotpLlOpts : Nat := 5
def fExtendAddr : Nat := 0x002
def fTxPadding : Nat := 0x004
def fRxPadding : Nat := 0x008
def fRxExtAddr : Nat := 0x200
def canEffFlag : Nat := 0x80000000

/-- `struct can_isotp_options`, field by field in the kernel's order -/
structure IsotpOpts where
  flags : Nat
  frameTxtime : Nat
  extAddress : Nat
  txpadContent : Nat
  rxpadContent : Nat
  rxExtAddress : Nat
  deriving DecidableEq, Repr

def IsotpOpts.WF (o : IsotpOpts) : Prop :=
  o.flags < 4294967296 ∧ o.frameTxtime < 4294967296 ∧ o.extAddress < 256 ∧ o.txpadContent < 256 ∧ o.rxpadContent < 256 ∧
  o.rxExtAddress < 256

def le32 (n : Nat) : List UInt8 :=
  [UInt8.ofNat n, UInt8.ofNat (n / 256), UInt8.ofNat (n / 65536), UInt8.ofNat (n / 16777216)]

def unLe32 (a b c d : UInt8) : Nat := a.toNat + 256 * b.toNat + 65536 * c.toNat + 16777216 * d.toNat

/-- the 12 bytes handed to `setsockopt(SOL_CAN_ISOTP, CAN_ISOTP_OPTS)` -/
def isotpOptsBlock (o : IsotpOpts) : List UInt8 :=
  le32 o.flags ++ le32 o.frameTxtime ++
  [UInt8.ofNat o.extAddress, UInt8.ofNat o.txpadContent, UInt8.ofNat o.rxpadContent, UInt8.ofNat o.rxExtAddress]

/-- how the kernel reads the block -/
def decodeIsotpOpts : List UInt8 → Option IsotpOpts
  | [f0, f1, f2, f3, t0, t1, t2, t3, ea, tp, rp, ra] =>
    some ⟨unLe32 f0 f1 f2 f3, unLe32 t0 t1 t2 t3, ea.toNat, tp.toNat, rp.toNat, ra.toNat⟩
  | _ => none

/-- `struct can_isotp_fc_options` / `struct can_isotp_ll_options`: three bytes in the kernel's order -/
def tripleBlock (a b c : Nat) : List UInt8 := [UInt8.ofNat a, UInt8.ofNat b, UInt8.ofNat c]

def decodeTriple : List UInt8 → Option (Nat × Nat × Nat)
  | [a, b, c] => some (a.toNat, b.toNat, c.toNat)
  | _ => none

/-- `struct.pack("B", v)` of an optional setting: absent = 0, out of range = `struct.error` -/
def optByte : Option Int → Option Nat
  | none => some 0
  | some z => if 0 ≤ z ∧ z < 256 then some z.toNat else none

def flagIf (v : Option Int) (f : Nat) : Nat := if v.isSome then f else 0

/-- the option block of an ISO-TP target: every optional setting goes to the field of its name and switches its flag on -/
def isotpOptsOf (c : ISOTPCfg) : Option IsotpOpts :=
  let ft := c.frameTxtime.getD 10
  if ¬ (0 ≤ ft ∧ ft < 4294967296) then none else
  match optByte c.extAddress, optByte c.txPadding, optByte c.rxPadding, optByte c.rxExtAddress with
  | some ea, some tp, some rp, some ra =>
    some ⟨flagIf c.extAddress fExtendAddr + flagIf c.txPadding fTxPadding + flagIf c.rxPadding fRxPadding +
          flagIf c.rxExtAddress fRxExtAddr, ft.toNat, ea, tp, rp, ra⟩
  | _, _, _, _ => none

/-- `_calc_flags`: the CAN id as bound (11 bit, or 29 bit with the EFF flag) -/
def calcFlags (id : Int) (ext : Bool) : Nat :=
  if ext then (id % 536870912).toNat + canEffFlag else (id % 2048).toNat

inductive SoVal
  | block (bs : List UInt8)
  | int (n : Nat)
  deriving DecidableEq, Repr

/-- socket level effects of `connect()`: the `setsockopt` calls in order, then the bind (`none` = a `struct.pack` range error
    stopped `connect()` before; `some none` = the interface only) -/
structure SockPlan where
  opts : List (Nat × Nat × SoVal)
  bind : Option (Option (Nat × Nat))
  deriving DecidableEq, Repr

def isotpSock (c : ISOTPCfg) : SockPlan :=
  match isotpOptsOf c with
  | none => ⟨[], none⟩
  | some o =>
    let first := [(solCanIsotp, canIsotpOpts, SoVal.block (isotpOptsBlock o))]
    let ext := c.isExtended.getD false
    let addr := some (some (calcFlags c.dst ext, calcFlags c.src ext))
    if c.isFd.getD false then
      match optByte (some (c.txDl.getD 64)) with
      | none => ⟨first, none⟩
      | some dl => ⟨first ++ [(solCanIsotp, canIsotpLlOpts, SoVal.block (tripleBlock 72 dl 0))], addr⟩
    else ⟨first, addr⟩

def canRawSock (isFd : Option Bool) : SockPlan :=
  ⟨if isFd.getD false then [(solCanRaw, canRawFdFrames, SoVal.int 1)] else [], some none⟩

end Gallia.Parse
