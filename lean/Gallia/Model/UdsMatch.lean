import Gallia.Model.UdsReq
import Gallia.Model.UdsResp
/-
  C03 — the request/response matcher (gallia `services/uds/helpers.py: parse_pdu`, the `matches()` predicates of the
  response classes in `core/service.py`, the echo-length heuristic of `RawPositiveResponse`).

    * `matches x q`   — `x.matches(q)` for a decoded response `x` (C02 `Resp`) and a parsed request `q` (C01 `Req`),
                        one clause per response class;
    * `parsePdu b r`  — `helpers.parse_pdu(b, r)`: the request is re-parsed from its bytes (`decode (encode r)`), the
                        reply is decoded (`decodeResp`), an undecodable reply is refused as *mismatch* when it names /
                        belongs to another service and as *malformed* otherwise (mismatch has priority), a raw request
                        compares service ids only for positive replies, everything else goes through `matches`.
    * `convMatches`   — the `matches()` of the InputOutputControlByIdentifier convenience responses
                        (ReturnControlToECU / ResetToDefault / FreezeCurrentState / ShortTermAdjustment), which
                        `parse_pdu` never reaches (the dynamic parser returns the generic class) but user code can.

  The model is the reading of the code under which the property holds (`Spec/Reply.lean`, `Proofs/C03.lean`); where the
  code deviates on an input that input is a violation.  Core Lean only (linked into the `c03` driver).
-/
namespace Gallia.UdsMatch
open Gallia Gallia.UdsReq Gallia.UdsResp

inductive Outcome
  | accepted (x : Resp)
  | mismatch
  | malformed
deriving DecidableEq, Repr

/-- `request.service_id`: the first byte of the request's PDU -/
def reqSid (r : Req) : Option UInt8 := (encode r).head?

/-- `UDSIsoServicesEchoLength` (request service id, number of echoed bytes); proved equal to the regenerated table -/
def echoLengthTable : List (Nat × Nat) := [
  (0x10, 1), (0x11, 1), (0x19, 1), (0x22, 2), (0x24, 2), (0x27, 1), (0x28, 1), (0x2A, 1), (0x2C, 3), (0x2E, 2),
  (0x2F, 2), (0x31, 3), (0x36, 1), (0x3E, 1), (0x83, 1), (0x85, 1), (0x86, 1), (0x87, 1)]

def echoLen (sid : Nat) : Option Nat := (echoLengthTable.find? (fun e => e.1 == sid)).map (·.2)

/-- `RawPositiveResponse.matches`: same service, and — for services of the echo table — the first `n` bytes after the
    service id are those of the request -/
def rawPosMatches (b : Bytes) (q : Req) : Bool :=
  match b, encode q with
  | b0 :: bt, s :: st =>
    if b0.toNat = s.toNat + 0x40 then
      match echoLen s.toNat with
      | some n => st.take n == bt.take n
      | none => true
    else false
  | _, _ => false

/-- sub-function of a ReadDTCInformation request (`_ReadDTCRequest.sub_function`) -/
def readDtcSub : Req → Option Nat
  | .dtcByMask sf _ _ => some sf
  | .dtcPlain sf _ => some sf
  | .dtcExtByNumber _ _ _ => some 6
  | _ => none

/-- the dynamicallyDefinedDataIdentifier is compared when both sides carry one -/
def didAgree : Option Nat → Option Nat → Bool
  | some a, some b => a == b
  | _, _ => true

/-- `x.matches(q)` -/
def «matches» (x : Resp) (q : Req) : Bool :=
  match x with
  | .neg sid _ => reqSid q == some sid
  | .dsc ty _ => (match q with | .dsc t _ => t == ty.toNat | _ => false)
  | .ecuReset ty _ => (match q with | .ecuReset t _ => t == ty.toNat | _ => false)
  | .secAccess ty _ =>
    (match q with | .requestSeed l _ _ => l == ty.toNat | .sendKey l _ _ => l == ty.toNat | _ => false)
  | .commCtrl ty => (match q with | .commCtrl c _ _ => c == ty.toNat | _ => false)
  | .testerPresent => (match q with | .testerPresent _ => true | _ => false)
  | .ctrlDTC ty => (match q with | .controlDTC t _ _ => t == ty.toNat | _ => false)
  | .rdbi did _ => (match q with | .rdbi dids => dids.head? == some did | _ => false)
  | .rmba rec => (match q with | .rmba _ size _ => rec.length == size | _ => false)
  | .dddi sub did =>
    (match q with
     | .defineById ddid _ _ => sub.toNat == 1 && didAgree did (some ddid)
     | .defineByMem ddid _ _ _ => sub.toNat == 2 && didAgree did (some ddid)
     | .clearDDDI od _ => sub.toNat == 3 && didAgree did od
     | _ => false)
  | .wdbi did => (match q with | .wdbi d _ => d == did | _ => false)
  | .wmba alfid addr size => (match q with | .wmba a s f _ => f == alfid.toNat && a == addr && s == size | _ => false)
  | .clearDTC => (match q with | .clearDTC _ => true | _ => false)
  | .dtcCount sub _ _ _ => readDtcSub q == some sub.toNat
  | .dtcList sub _ _ => readDtcSub q == some sub.toNat
  | .dtcExt _ _ _ _ => readDtcSub q == some 6
  | .iocbi did _ => (match q with | .iocbi d _ _ => d == did | _ => false)
  | .routine sub rid _ => (match q with | .routine sf r _ _ => sf == sub.toNat && r == rid | _ => false)
  | .upDownload rs _ _ =>
    (match q with | .reqDownload .. => rs.toNat == 0x74 | .reqUpload .. => rs.toNat == 0x75 | _ => false)
  | .transferData ctr _ => (match q with | .transferData c _ => c == ctr.toNat | _ => false)
  | .transferExit _ => (match q with | .transferExit _ => true | _ => false)
  | .rawPos b => rawPosMatches b q

def isNeg : Resp → Bool
  | .neg .. => true
  | _ => false

/-- `helpers.parse_pdu(b, r)`.  An empty reply or an empty (raw) request is outside the contract of the function
    (the transports never deliver an empty message; the code raises IndexError): reported as `malformed`. -/
def parsePdu (b : Bytes) (r : Req) : Outcome :=
  match b, encode r with
  | b0 :: bt, s :: _ =>
    match decodeResp b with
    | .error _ =>
      if b0 = 0x7F then
        match bt with
        | n :: _ => if n ≠ s then .mismatch else .malformed     -- mismatch has priority over malformed
        | [] => .malformed
      else if b0.toNat ≠ s.toNat + 0x40 then .mismatch
      else .malformed
    | .ok x =>
      let q := decode (encode r)
      if q.isRaw && !isNeg x then
        if b0.toNat ≠ s.toNat + 0x40 then .mismatch else .accepted x
      else if «matches» x q then .accepted x
      else .mismatch
  | _, _ => .malformed

/-- `matches()` of the InputOutputControlByIdentifier convenience response with inputOutputControlParameter `k`
    (0 returnControlToECU, 1 resetToDefault, 2 freezeCurrentState, 3 shortTermAdjustment) carrying identifier `rdid`,
    against a request with identifier `qdid` that is an instance of the convenience request class `qk` (`none`: the
    generic class).  The first three demand their own request class, ShortTermAdjustmentResponse inherits the generic rule. -/
def convMatches (k rdid : Nat) (qk : Option Nat) (qdid : Nat) : Bool :=
  rdid == qdid && (k == 3 || qk == some k)

end Gallia.UdsMatch
