/-
  C16 — CPython 3.12's `set` (Objects/setobject.c) for int elements, as an executable model.

  Scope: elements are ints `n` with `0 ≤ n < 2^61 - 1`, for which `hash(n) = n` (CPython's `long_hash` reduces
  modulo the Mersenne prime 2^61 - 1; this also covers `IntEnum` members, whose `__hash__` is `int.__hash__`).
  An entry of the C table is `(key, hash)`; with `hash = key` one `Slot` suffices:

      `empty`  key == NULL, hash == 0          (never used)
      `dummy`  key == dummy, hash == -1        (left behind by discard / remove / difference_update)
      `key n`  active entry

  What is transcribed (names of the C functions in brackets):
    * the probe sequence shared by `set_lookkey`, `set_add_entry` and `set_insert_clean`:
      `i = hash & mask`; at every `i` the entry itself and, when `i + LINEAR_PROBES <= mask`, the next
      `LINEAR_PROBES = 9` entries; then `perturb >>= PERTURB_SHIFT (5); i = (i * 5 + 1 + perturb) & mask`   [`probe`]
    * `set_add_entry` incl. the `freeslot` rule (the *last* dummy seen before the unused entry is reused, `fill`
      unchanged) and the growth rule `fill*5 >= mask*3 -> set_table_resize(used > 50000 ? used*2 : used*4)`   [`add`]
    * `set_table_resize`: smallest power of two `> minused` starting from `PySet_MINSIZE = 8`, early return for a
      small table without dummies, rebuild by `set_insert_clean` in table order, dummies dropped           [`resize`]
    * `set_discard_entry` (key -> dummy, `used--`, `fill` unchanged), `set_contains_entry`     [`discard`, `contains`]
    * `set_merge` (`update` / `|=` / `set(s)` / `copy()` with a set argument) with its three cases: pre-resize
      `(fill + other.used)*5 >= mask*3 -> resize((used + other.used)*2)`, pointer copy for an empty target of the same
      size and no dummies in the source, `set_insert_clean` for an empty target, `set_add_entry` otherwise  [`merge`]
    * `set_update_internal` over a non-set iterable (list, range, generator, the operands of a set display or a
      comprehension: `BUILD_SET` / `SET_ADD` are `PySet_Add`s on a fresh set)                     [`update`, `ofList`]
    * `set_difference` (`a - b`, both sets): `copy + difference_update` when `len(a) >> 2 > len(b)`, else a new set
      filled with the non-members in `a`'s table order; `set_difference_update_internal` with the final
      "more than 1/4 dummies -> resize" rule                                        [`difference`, `differenceUpdate`]
    * `set_or` (`a | b`) = copy + merge                                                                     [`union`]
    * `set_next`: iteration walks the table by ascending index over the active entries                    [`toList`]

  `&` with `mask = 2^k - 1` is written `% size` (`Nat.and_two_pow_sub_one_eq_mod`); `size_t` wrap-around of
  `i * 5 + 1 + perturb` is invisible after the reduction since `size` divides `2^64`.

  The probe loop of the C code has no bound (it relies on an unused entry being reachable); the model gives it
  `size + 16` rounds, which is never exhausted on a table with an unused entry (`Proofs/Lemmas/PySetProbe.lean`:
  `perturb` is 0 after 13 rounds and `i -> 5 i + 1` walks through all residues of a power of two).

  Core Lean only (linked into the `c16` driver).
-/
namespace Gallia.PySet

inductive Slot where
  | empty
  | dummy
  | key (n : Nat)
deriving DecidableEq, Repr, Inhabited

def LINEAR_PROBES : Nat := 9
def PERTURB_SHIFT : Nat := 5
/-- `PySet_MINSIZE` -/
def MINSIZE : Nat := 8
/-- largest element + 1 for which `hash(n) = n` (`_PyHASH_MODULUS`) -/
def hashModulus : Nat := 2 ^ 61 - 1

structure PySet where
  /-- `so->table`, `so->mask + 1` entries -/
  table : Array Slot
  /-- `so->fill`: active + dummy entries -/
  fill : Nat
  /-- `so->used`: active entries (`len(s)`) -/
  used : Nat
deriving Repr

def PySet.size (s : PySet) : Nat := s.table.size
def PySet.mask (s : PySet) : Nat := s.table.size - 1

@[inline] def slotAt (t : Array Slot) (j : Nat) : Slot := t.getD j .empty

/-! ### the probe sequence -/

/-- where a probe stopped, and the last dummy passed on the way (`freeslot`) -/
structure Hit where
  idx : Nat
  free : Option Nat
deriving Repr, DecidableEq

/-- the inner `do { … entry++; } while (probes--)`: entries `i, i+1, …, i+n-1`; stops at the first one that
    satisfies `stop`, remembers the last dummy passed -/
def runProbe (stop : Slot → Bool) (t : Array Slot) (i : Nat) (free : Option Nat) : Nat → Sum Hit (Option Nat)
  | 0 => .inr free
  | n + 1 =>
    let s := slotAt t i
    if stop s then .inl ⟨i, free⟩
    else runProbe stop t (i + 1) (if s = .dummy then some i else free) n

/-- `probes = (i + LINEAR_PROBES <= mask) ? LINEAR_PROBES : 0`, plus the entry at `i` itself -/
def nProbes (size i : Nat) : Nat := if i + LINEAR_PROBES ≤ size - 1 then LINEAR_PROBES + 1 else 1

/-- the outer `while (1)` with `fuel` rounds -/
def probeLoop (stop : Slot → Bool) (t : Array Slot) : Nat → Nat → Nat → Option Nat → Option Hit
  | 0, _, _, _ => none
  | fuel + 1, i, perturb, free =>
    match runProbe stop t i free (nProbes t.size i) with
    | .inl h => some h
    | .inr free' =>
      let p := perturb >>> PERTURB_SHIFT
      probeLoop stop t fuel ((i * 5 + 1 + p) % t.size) p free'

def probeFuel (t : Array Slot) : Nat := t.size + 16

/-- first entry on the probe sequence of hash `h` that satisfies `stop` -/
def probe (stop : Slot → Bool) (t : Array Slot) (h : Nat) : Option Hit :=
  probeLoop stop t (probeFuel t) (h % t.size) h none

/-- `set_lookkey` / the scan of `set_add_entry` stop at an unused entry or at the key -/
def stopLook (h : Nat) : Slot → Bool
  | .empty => true
  | .key k => k == h
  | .dummy => false

/-- `set_insert_clean` stops at the first entry with `key == NULL` -/
def stopClean : Slot → Bool
  | .empty => true
  | _ => false

/-! ### construction, lookup, insertion, removal -/

/-- `set()` : the embedded small table -/
def empty : PySet := ⟨Array.replicate MINSIZE .empty, 0, 0⟩

/-- `set_contains_entry` -/
def contains (s : PySet) (h : Nat) : Bool :=
  match probe (stopLook h) s.table h with
  | some hit => slotAt s.table hit.idx == .key h
  | none => false

/-- `set_insert_clean(table, mask, key, hash)` -/
def insertClean (t : Array Slot) (h : Nat) : Array Slot :=
  match probe stopClean t h with
  | some hit => t.setIfInBounds hit.idx (.key h)
  | none => t

/-- active entries in table order (`set_next`) -/
def keysOf (t : Array Slot) : List Nat :=
  t.toList.filterMap fun | .key n => some n | _ => none

/-- `list(s)`, `for x in s` -/
def toList (s : PySet) : List Nat := keysOf s.table

def growTo (minused : Nat) : Nat → Nat → Nat
  | 0, n => n
  | fuel + 1, n => if n ≤ minused then growTo minused fuel (2 * n) else n

/-- `newsize = PySet_MINSIZE; while (newsize <= minused) newsize <<= 1;` -/
def newSize (minused : Nat) : Nat := growTo minused (minused + 1) MINSIZE

/-- `set_table_resize(so, minused)`.  (In the branch `fill == used` the C code copies every non-NULL entry; without
    dummies these are the active ones.) -/
def resize (s : PySet) (minused : Nat) : PySet :=
  let n := newSize minused
  if n = MINSIZE ∧ s.table.size = MINSIZE ∧ s.fill = s.used then s
  else ⟨(keysOf s.table).foldl insertClean (Array.replicate n .empty), s.used, s.used⟩

/-- `so->used > 50000 ? so->used*2 : so->used*4` -/
def growTarget (used : Nat) : Nat := if used > 50000 then used * 2 else used * 4

/-- `set_add_entry` (`s.add(x)`) -/
def add (s : PySet) (h : Nat) : PySet :=
  match probe (stopLook h) s.table h with
  | none => s
  | some hit =>
    match slotAt s.table hit.idx with
    | .empty =>
      match hit.free with
      | some f => ⟨s.table.setIfInBounds f (.key h), s.fill, s.used + 1⟩
      | none =>
        let s' : PySet := ⟨s.table.setIfInBounds hit.idx (.key h), s.fill + 1, s.used + 1⟩
        if s'.fill * 5 < s.mask * 3 then s' else resize s' (growTarget s'.used)
    | _ => s

/-- `set_discard_entry` (`s.discard(x)`; `remove` differs only in raising KeyError) -/
def discard (s : PySet) (h : Nat) : PySet :=
  match probe (stopLook h) s.table h with
  | none => s
  | some hit =>
    match slotAt s.table hit.idx with
    | .key _ => ⟨s.table.setIfInBounds hit.idx .dummy, s.fill, s.used - 1⟩
    | _ => s

/-- `set_update_internal(so, iterable)` for an iterable that is neither a set nor a dict: `s.update(list)` -/
def update (s : PySet) (xs : List Nat) : PySet := xs.foldl add s

/-- `set(list)`, `set(range(..))`, a set display `{a, b, …}`, a set comprehension -/
def ofList (xs : List Nat) : PySet := update empty xs

/-- `set_merge(so, other)` for two distinct objects: `so.update(other)`, `so |= other` -/
def merge (so other : PySet) : PySet :=
  if other.used = 0 then so
  else
    let so := if (so.fill + other.used) * 5 ≥ so.mask * 3 then resize so ((so.used + other.used) * 2) else so
    if so.fill = 0 ∧ so.mask = other.mask ∧ other.fill = other.used then ⟨other.table, other.fill, other.used⟩
    else if so.fill = 0 then ⟨(keysOf other.table).foldl insertClean so.table, other.used, other.used⟩
    else (keysOf other.table).foldl add so

/-- `set_copy`: `s.copy()`, `set(s)` -/
def copy (s : PySet) : PySet := merge empty s

/-- `set_difference_update_internal(so, other)` for a set `other` distinct from `so`: `so -= other` -/
def differenceUpdate (so other : PySet) : PySet :=
  let r := (toList other).foldl discard so
  if r.fill - r.used ≤ r.mask / 4 then r else resize r (growTarget r.used)

/-- `set_difference(so, other)` for a set `other`: `so - other` -/
def difference (so other : PySet) : PySet :=
  if so.used >>> 2 > other.used then differenceUpdate (copy so) other
  else (toList so).foldl (fun r k => if contains other k then r else add r k) empty

/-- `set_or(so, other)` for two distinct objects: `so | other` -/
def union (so other : PySet) : PySet := merge (copy so) other

end Gallia.PySet
