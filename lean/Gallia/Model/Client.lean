import Gallia.Model.ClientAlphabet
/-
  C04 — executable model of `UDSClient.request_unsafe` (src/gallia/services/uds/core/client.py).

  The model follows the code branch by branch.  An awaited `transport.read()` becomes the next event of a
  script `s : Nat → Ev` (an *infinite* stream, so that termination is a theorem and not a property of the
  input); every externally visible action is appended to a trace (`Op`): a write of the request PDU, a read
  (with the timeout that was passed and the virtual time it took), a backoff sleep, a reconnect.

      for i in range(max_retry + 1):                       attempts … i …          (recursion on max_retry + 1 - i)
          wait_time = self.retry_wait * 2**i               wait c i
          try: raw = transport.request_unsafe(pdu, timeout)   .wr, .rd k timeout _
          except TimeoutError:    last = Missing;            if i < max_retry: sleep          ; continue
          except ConnectionError: last = Missing(cause);     if i < max_retry: sleep, reconnect; continue
          resp = parse_pdu(raw)                            mismatch / malformed raise here
          if busy: if i >= max_retry: return resp; sleep; continue
          n_pending = 1; n_timeout = 0
          while resp is pending:                           pendingLoop … k np nt     (lexicographic measure)
              try: raw = self._read(timeout=waiting_time)
              except TimeoutError: n_timeout += 1; if n_timeout >= max_n_timeout: last = Missing; break; continue
              except ConnectionError: last = Missing(cause); if i < max_retry: sleep, reconnect; break
              resp = parse_pdu(raw); n_timeout = 0; n_pending += 1
              if n_pending >= MAX_N_PENDING and resp is pending: raise RuntimeError
          else: return resp
      raise last

  Time is counted in milliseconds.  Core Lean only (linked into the `c04` driver).
-/
namespace Gallia.Client

/-- the literal limits of the loop; the values used by the code are in `Limits.std`, and
    `Proofs/C04.lean` proves that they agree with the table regenerated from client.py -/
structure Limits where
  maxPending : Nat   -- MAX_N_PENDING
  waiting : Nat      -- waiting_time (ms)
  floor : Nat        -- the `20` of `max(timeout, 20)` (ms)
  retryWait : Nat    -- self.retry_wait (ms)
  base : Nat         -- the `2` of `2**i`
deriving Repr, DecidableEq

def Limits.std : Limits :=
  { maxPending := 120, waiting := 500, floor := 20000, retryWait := 200, base := 2 }

structure Cfg where
  maxRetry : Nat   -- effective max_retry of this request
  timeout : Nat    -- effective timeout of this request (ms)
  lat : Nat        -- environment: virtual time a read that does not time out takes (ms)
  lim : Limits
deriving Repr

/-- `config.x if config.x is not None else self.x` -/
def resolve (clientTimeout clientMaxRetry : Nat) (reqTimeout reqMaxRetry : Option Nat)
    (lat : Nat) (lim : Limits) : Cfg :=
  { maxRetry := reqMaxRetry.getD clientMaxRetry, timeout := reqTimeout.getD clientTimeout, lat, lim }

/-- `max_n_timeout = max(timeout if timeout else 0, 20) / waiting_time`, compared with `n_timeout >= …`
    for an integer `n_timeout`: the smallest integer that passes is the ceiling -/
def maxNT (c : Cfg) : Nat := (max c.timeout c.lim.floor + c.lim.waiting - 1) / c.lim.waiting

/-- `wait_time = self.retry_wait * 2**i` -/
def wait (c : Cfg) (i : Nat) : Nat := c.lim.retryWait * c.lim.base ^ i

/-- externally visible actions -/
inductive Op
  | wr                      -- transport.write(request.pdu)
  | rd (k tmo dur : Nat)    -- k-th transport.read(timeout = tmo), returned / raised after dur
  | sl (d : Nat)            -- asyncio.sleep(d)
  | rc                      -- reconnect_unsafe()
deriving DecidableEq, Repr

/-- how the responsePending loop is left -/
inductive PRes
  | done (o : Out)      -- `return resp` (while … else) or an exception that leaves request_unsafe
  | silence (k : Nat)   -- `break` after max_n_timeout consecutive silent polls; k = next read
  | lost (k : Nat)      -- `break` after a ConnectionError / empty read; k = next read
deriving DecidableEq, Repr

/-- prepend one action to the result of the rest of the loop -/
def consOp (o : Op) (r : PRes × List Op) : PRes × List Op := (r.1, o :: r.2)

/-- the `while resp is pending` loop: `k` next read, `np` = n_pending, `nt` = n_timeout -/
def pendingLoop (c : Cfg) (s : Nat → Ev) (k np nt : Nat) : PRes × List Op :=
  match s k with
  | .timeout =>
    if h : maxNT c ≤ nt + 1 then (.silence (k+1), [.rd k c.lim.waiting c.lim.waiting])
    else consOp (.rd k c.lim.waiting c.lim.waiting) (pendingLoop c s (k+1) np (nt+1))
  | .connErr | .empty => (.lost (k+1), [.rd k c.lim.waiting c.lat])
  | .mismatch | .malformed => (.done (.illegal k), [.rd k c.lim.waiting c.lat])
  | .pending =>
    if h : c.lim.maxPending ≤ np + 1 then (.done .stuck, [.rd k c.lim.waiting c.lat])
    else consOp (.rd k c.lim.waiting c.lat) (pendingLoop c s (k+1) (np+1) 0)
  | .busy | .negFinal | .posFinal => (.done (.reply k), [.rd k c.lim.waiting c.lat])
termination_by (c.lim.maxPending - np, maxNT c - nt)
decreasing_by
  · simp_wf; right; omega
  · simp_wf; left; omega

/-- the actions that follow a retry-worthy fault in attempt `i` -/
def afterFault (c : Cfg) (i : Nat) (reconnect : Bool) : List Op :=
  if i < c.maxRetry then (if reconnect then [.sl (wait c i), .rc] else [.sl (wait c i)]) else []

def pre (t : List Op) (r : Out × List Op) : Out × List Op := (r.1, t ++ r.2)

/-- the `for i in range(max_retry + 1)` loop from attempt `i` on; `k` next read, `last` = last_exception -/
def attempts (c : Cfg) (s : Nat → Ev) (i k : Nat) (last : Out) : Out × List Op :=
  if _h : c.maxRetry < i then (last, [])   -- loop exhausted: `raise last_exception`
  else
    match s k with
    | .timeout =>
      pre (.wr :: .rd k c.timeout c.timeout :: afterFault c i false) (attempts c s (i+1) (k+1) (.missing false))
    | .connErr | .empty =>
      pre (.wr :: .rd k c.timeout c.lat :: afterFault c i true) (attempts c s (i+1) (k+1) (.missing true))
    | .busy =>
      if c.maxRetry ≤ i then (.reply k, [.wr, .rd k c.timeout c.lat])
      else pre [.wr, .rd k c.timeout c.lat, .sl (wait c i)] (attempts c s (i+1) (k+1) last)
    | .mismatch | .malformed => (.illegal k, [.wr, .rd k c.timeout c.lat])
    | .negFinal | .posFinal => (.reply k, [.wr, .rd k c.timeout c.lat])
    | .pending =>
      match pendingLoop c s (k+1) 1 0 with
      | (.done o, t) => (o, .wr :: .rd k c.timeout c.lat :: t)
      | (.silence k', t) =>
        pre (.wr :: .rd k c.timeout c.lat :: t) (attempts c s (i+1) k' (.missing false))
      | (.lost k', t) =>
        pre (.wr :: .rd k c.timeout c.lat :: (t ++ afterFault c i true)) (attempts c s (i+1) k' (.missing true))
termination_by c.maxRetry + 1 - i
decreasing_by all_goals omega

structure Res where
  out : Out
  trace : List Op
deriving Repr

/-- one `request_unsafe` call: `last_exception = MissingResponse(request)`, attempt 0, read 0 -/
def run (c : Cfg) (s : Nat → Ev) : Res :=
  let r := attempts c s 0 0 (.missing false)
  ⟨r.1, r.2⟩

/-! ### observables derived from the trace -/

def Op.isWr : Op → Bool | .wr => true | _ => false
def Op.isRd : Op → Bool | .rd .. => true | _ => false
def Op.isRc : Op → Bool | .rc => true | _ => false
/-- virtual time an action takes -/
def Op.dur : Op → Nat | .rd _ _ d => d | .sl d => d | _ => 0
def Op.sleep? : Op → Option Nat | .sl d => some d | _ => none

def nWrites (t : List Op) : Nat := t.countP Op.isWr
def nReads (t : List Op) : Nat := t.countP Op.isRd
def nReconnects (t : List Op) : Nat := t.countP Op.isRc
def elapsedOf (t : List Op) : Nat := (t.map Op.dur).sum
def sleepsOf (t : List Op) : List Nat := t.filterMap Op.sleep?

def Res.writes (r : Res) : Nat := nWrites r.trace
def Res.reads (r : Res) : Nat := nReads r.trace
def Res.reconnects (r : Res) : Nat := nReconnects r.trace
def Res.elapsed (r : Res) : Nat := elapsedOf r.trace
def Res.sleeps (r : Res) : List Nat := sleepsOf r.trace

/-! ### explicit bounds (what "bounded" means in the theorems) -/

/-- reads of one responsePending loop entered with counters `np`, `nt` -/
def pendReadsBound (c : Cfg) (np nt : Nat) : Nat :=
  (c.lim.maxPending - np) * (maxNT c + 1) + (maxNT c - nt) + 1

/-- reads of one attempt: the first read plus one pending loop -/
def attemptReadsBound (c : Cfg) : Nat := 1 + pendReadsBound c 1 0

def readsBound (c : Cfg) : Nat := (c.maxRetry + 1) * attemptReadsBound c

/-- virtual time of one attempt including the backoff that may follow it -/
def attemptTimeBound (c : Cfg) (i : Nat) : Nat :=
  max c.timeout c.lat + pendReadsBound c 1 0 * max c.lim.waiting c.lat + wait c i

def timeBoundFrom (c : Cfg) : Nat → Nat → Nat
  | _, 0 => 0
  | i, n+1 => attemptTimeBound c i + timeBoundFrom c (i+1) n

def elapsedBound (c : Cfg) : Nat := timeBoundFrom c 0 (c.maxRetry + 1)

end Gallia.Client
