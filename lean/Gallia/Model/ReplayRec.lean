import Gallia.Model.Replay
import Gallia.Model.DbLog
/-
  C12 — the recording side is C11's recorder.  `Model/DbLog.lean` (read-only here) models `ECU._request` +
  `DBHandler` + the writer task and says which rows a run leaves (`specRows` for one producer, `callRows` for several
  producers behind the client mutex, under every schedule, fault and cancellation).  This file maps those rows to what the
  replay query reads of them; `Proofs/C12.lean` (`record_is_c11_rows`, `record_is_c11_calls`) shows they are `recordDb`.
-/
namespace Gallia.Replay
open Gallia

/-- C11's client-side state is this model's `St` -/
def stOf (s : DbLog.EcuState) : St := ⟨s.session, s.sec⟩

/-- an exchange as the replay sees it: the request and the reply bytes, if any - whatever the outcome was called
    (returned, `ResponseException`, other exception, cancelled call) -/
def exchOf (e : DbLog.Exchange) : Exch := ⟨e.req, e.out.response⟩

/-- the columns the replay query reads, with the `id INTEGER PRIMARY KEY AUTOINCREMENT` the single writer task gives the
    rows of one run: consecutive, in insertion order -/
def numberRows (ri : RunInfo) (id0 : Nat) : List DbLog.Row → List DbRow
  | [] => []
  | r :: rs => ⟨id0, ri, (stOf r.state).toJson, r.req, r.resp⟩ :: numberRows ri (id0 + 1) rs

end Gallia.Replay
