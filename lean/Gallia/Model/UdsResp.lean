import Gallia.Lib.Bytes
/-
  C02 — the UDS *response* codec (gallia `services/uds/core/service.py`, `UDSResponse.parse_dynamic`).

  This file is the oracle the property names: the ISO 14229-1 positive / negative response layouts, with the
  *lossless* reading of gallia's length and format rules: a typed parse exists only when every received byte is
  accounted for by a field of the typed object, so that re-serialising the object gives the received bytes.

    * `registry`   — the response side of `UDSService._SERVICES` (class, parser family, response service id,
                     sub-function dispatch, length gates); proved equal to the table regenerated from the live
                     classes (`Gen.C02Registry.responseRegistry`) in `Proofs/C02.lean`.
    * `gate`       — dispatch + length gate + sub-function gate, driven by `registry` (`parse_dynamic`, `_check_pdu`).
    * `parseKind`  — the field layout of each parser family (`_from_pdu`), lossless.
    * `encodeResp` — the ISO layout (`.pdu`).
    * `decodeResp` — `gate` then `parseKind`; unknown service / unknown sub-function → `rawPos`.

  Reading decisions (documented in `harness/props/C02.py` as well):
    * multi-identifier ReadDataByIdentifier answers are attributed to the first identifier (record lengths are
      unknowable); the bytes are kept, so this is not a normalisation;
    * DTC-and-status lists are exposed by gallia as a mapping DTC → status (insertion ordered): a list with a
      repeated DTC has no lossless typed view and is rejected;
    * reportDTCExtDataRecordByDTCNumber: everything after the first record number is attributed to that record
      (same reason as RDBI); an answer without any record number has no typed view in gallia (rejected).
-/
namespace Gallia.UdsResp
open Gallia

inductive Reject
  | empty | tooShort | tooLong | noSubFunction | subFunction | format | nrc
deriving DecidableEq, Repr

/-- parser families = the classes that define `_from_pdu` -/
inductive Kind
  | neg | dsc | ecuReset | secAccess | commCtrl | testerPresent | ctrlDTC | rdbi | rmba | dddi | wdbi | wmba
  | clearDTC | dtcCount | dtcList | dtcExt | iocbi | routine | upDownload | transferData | transferExit
deriving DecidableEq, Repr

/-- name of the gallia class that defines `_from_pdu` for the family -/
def Kind.family : Kind → String
  | .neg => "NegativeResponse"
  | .dsc => "DiagnosticSessionControlResponse"
  | .ecuReset => "ECUResetResponse"
  | .secAccess => "SecurityAccessResponse"
  | .commCtrl => "CommunicationControlResponse"
  | .testerPresent => "TesterPresentResponse"
  | .ctrlDTC => "ControlDTCSettingResponse"
  | .rdbi => "ReadDataByIdentifierResponse"
  | .rmba => "ReadMemoryByAddressResponse"
  | .dddi => "_DynamicallyDefineDataIdentifierResponse"
  | .wdbi => "WriteDataByIdentifierResponse"
  | .wmba => "WriteMemoryByAddressResponse"
  | .clearDTC => "ClearDiagnosticInformationResponse"
  | .dtcCount => "_ReadDTCType0Response"
  | .dtcList => "_ReadDTCType1Response"
  | .dtcExt => "ReportDTCExtDataRecordByDTCNumberResponse"
  | .iocbi => "InputOutputControlByIdentifierResponse"
  | .routine => "RoutineControlResponse"
  | .upDownload => "_RequestUpOrDownloadResponse"
  | .transferData => "TransferDataResponse"
  | .transferExit => "RequestTransferExitResponse"

structure Entry where
  cls : String          -- gallia class name
  kind : Kind           -- parser family
  rsid : Nat            -- first byte of the response
  bySub : Bool          -- the service dispatches on byte 1 (`SpecializedSubFunctionService`)
  sub : Option Nat      -- the class's `SUB_FUNCTION_ID` (byte 1 must equal it)
  subFn : Bool          -- `SubFunctionResponse`: byte 1 must be ≤ 0x7F
  minLen : Nat
  maxLen : Option Nat
deriving DecidableEq

/-- the response side of gallia's registry (checked against the regenerated table) -/
def registry : List Entry := [
  ⟨"NegativeResponse", .neg, 0x7F, false, none, false, 3, some 3⟩,
  ⟨"DiagnosticSessionControlResponse", .dsc, 0x50, false, none, true, 2, none⟩,
  ⟨"ECUResetResponse", .ecuReset, 0x51, false, none, true, 2, some 3⟩,
  ⟨"ClearDiagnosticInformationResponse", .clearDTC, 0x54, false, none, false, 1, some 1⟩,
  ⟨"ReportNumberOfDTCByStatusMaskResponse", .dtcCount, 0x59, true, some 0x01, true, 6, some 6⟩,
  ⟨"ReportDTCByStatusMaskResponse", .dtcList, 0x59, true, some 0x02, true, 3, none⟩,
  ⟨"ReportDTCExtDataRecordByDTCNumberResponse", .dtcExt, 0x59, true, some 0x06, true, 6, none⟩,
  ⟨"ReportSupportedDTCResponse", .dtcList, 0x59, true, some 0x0A, true, 3, none⟩,
  ⟨"ReportFirstTestFailedDTCResponse", .dtcList, 0x59, true, some 0x0B, true, 3, some 7⟩,
  ⟨"ReportFirstConfirmedDTCResponse", .dtcList, 0x59, true, some 0x0C, true, 3, some 7⟩,
  ⟨"ReportMostRecentTestFailedDTCResponse", .dtcList, 0x59, true, some 0x0D, true, 3, some 7⟩,
  ⟨"ReportMostrecentConfirmedDTCResponse", .dtcList, 0x59, true, some 0x0E, true, 3, some 7⟩,
  ⟨"ReportMirrorMemoryDTCByStatusMaskResponse", .dtcList, 0x59, true, some 0x0F, true, 3, none⟩,
  ⟨"ReportNumberOfMirrorMemoryDTCByStatusMaskResponse", .dtcCount, 0x59, true, some 0x11, true, 6, some 6⟩,
  ⟨"ReportNumberOfEmissionsRelatedOBDDTCByStatusMaskResponse", .dtcCount, 0x59, true, some 0x12, true, 6, some 6⟩,
  ⟨"ReportEmissionsRelatedOBDDTCByStatusMaskResponse", .dtcList, 0x59, true, some 0x13, true, 3, none⟩,
  ⟨"ReportDTCWithPermanentStatusResponse", .dtcList, 0x59, true, some 0x15, true, 3, none⟩,
  ⟨"ReadDataByIdentifierResponse", .rdbi, 0x62, false, none, false, 4, none⟩,
  ⟨"ReadMemoryByAddressResponse", .rmba, 0x63, false, none, false, 2, none⟩,
  ⟨"SecurityAccessResponse", .secAccess, 0x67, false, none, true, 2, none⟩,
  ⟨"CommunicationControlResponse", .commCtrl, 0x68, false, none, true, 2, some 2⟩,
  ⟨"DefineByIdentifierResponse", .dddi, 0x6C, true, some 0x01, true, 4, some 4⟩,
  ⟨"DefineByMemoryAddressResponse", .dddi, 0x6C, true, some 0x02, true, 4, some 4⟩,
  ⟨"ClearDynamicallyDefinedDataIdentifierResponse", .dddi, 0x6C, true, some 0x03, true, 2, some 4⟩,
  ⟨"WriteDataByIdentifierResponse", .wdbi, 0x6E, false, none, false, 3, some 3⟩,
  ⟨"InputOutputControlByIdentifierResponse", .iocbi, 0x6F, false, none, false, 4, none⟩,
  ⟨"StartRoutineResponse", .routine, 0x71, true, some 0x01, true, 4, none⟩,
  ⟨"StopRoutineResponse", .routine, 0x71, true, some 0x02, true, 4, none⟩,
  ⟨"RequestRoutineResultsResponse", .routine, 0x71, true, some 0x03, true, 4, none⟩,
  ⟨"RequestDownloadResponse", .upDownload, 0x74, false, none, false, 3, none⟩,
  ⟨"RequestUploadResponse", .upDownload, 0x75, false, none, false, 3, none⟩,
  ⟨"TransferDataResponse", .transferData, 0x76, false, none, false, 2, none⟩,
  ⟨"RequestTransferExitResponse", .transferExit, 0x77, false, none, false, 1, none⟩,
  ⟨"WriteMemoryByAddressResponse", .wmba, 0x7D, false, none, false, 4, some 32⟩,
  ⟨"TesterPresentResponse", .testerPresent, 0x7E, false, some 0x00, true, 2, some 2⟩,
  ⟨"ControlDTCSettingResponse", .ctrlDTC, 0xC5, false, none, true, 2, some 2⟩
]

/-- the registry in the shape the translator emits it -/
def registryRows : List (String × String × Nat × Bool × Option Nat × Bool × Nat × Option Nat) :=
  registry.map fun e => (e.cls, e.kind.family, e.rsid, e.bySub, e.sub, e.subFn, e.minLen, e.maxLen)

/-- `UDSErrorCodes`: the negative response codes gallia knows -/
def nrcTable : List Nat := [
  0x10, 0x11, 0x12, 0x13, 0x14, 0x21, 0x22, 0x24, 0x25, 0x26, 0x31, 0x33, 0x34, 0x35, 0x36, 0x37, 0x38, 0x39, 0x3A,
  0x50, 0x51, 0x52, 0x53, 0x54, 0x55, 0x56, 0x57, 0x58, 0x59, 0x5A, 0x5B, 0x5C, 0x5D,
  0x70, 0x71, 0x72, 0x73, 0x78, 0x7E, 0x7F,
  0x81, 0x82, 0x83, 0x84, 0x85, 0x86, 0x87, 0x88, 0x89, 0x8A, 0x8B, 0x8C, 0x8D, 0x8F, 0x90, 0x91, 0x92, 0x93, 0x94,
  0xF0, 0xF1, 0xF2, 0xF3, 0xF4, 0xF5, 0xF6, 0xF7, 0xF8, 0xF9, 0xFA, 0xFB, 0xFC, 0xFD, 0xFE]

/-- `DTCFormatIdentifier` -/
def dtcFormatTable : List Nat := [0, 1, 2, 3]

/-! ### decoded responses -/

inductive Resp
  | neg (sid nrc : UInt8)                                   -- 7F sid nrc
  | dsc (ty : UInt8) (rec : Bytes)                          -- 50 ty sessionParameterRecord
  | ecuReset (ty : UInt8) (pdt : Option UInt8)              -- 51 ty [powerDownTime]
  | secAccess (ty : UInt8) (seed : Bytes)                   -- 67 ty securitySeed
  | commCtrl (ty : UInt8)                                   -- 68 ty
  | testerPresent                                           -- 7E 00
  | ctrlDTC (ty : UInt8)                                    -- C5 ty
  | rdbi (did : Nat) (rec : Bytes)                          -- 62 did(2) dataRecord
  | rmba (rec : Bytes)                                      -- 63 dataRecord
  | dddi (sub : UInt8) (did : Option Nat)                   -- 6C sub [did(2)]
  | wdbi (did : Nat)                                        -- 6E did(2)
  | wmba (alfid : UInt8) (addr size : Nat)                  -- 7D alfid addr(alfid&0xF) size(alfid>>4)
  | clearDTC                                                -- 54
  | dtcCount (sub mask fmt : UInt8) (count : Nat)           -- 59 sub mask fmt count(2)
  | dtcList (sub mask : UInt8) (recs : List (Nat × UInt8))  -- 59 sub mask (dtc(3) status)*
  | dtcExt (dtc : Nat) (status recnum : UInt8) (data : Bytes) -- 59 06 dtc(3) status recnum data
  | iocbi (did : Nat) (rec : Bytes)                         -- 6F did(2) controlStatusRecord
  | routine (sub : UInt8) (rid : Nat) (rec : Bytes)         -- 71 sub rid(2) routineStatusRecord
  | upDownload (rs lfid : UInt8) (maxLen : Nat)             -- 74|75 lfid maxNumberOfBlockLength(lfid>>4)
  | transferData (ctr : UInt8) (rec : Bytes)                -- 76 ctr record
  | transferExit (rec : Bytes)                              -- 77 record
  | rawPos (b : Bytes)                                      -- anything of an unknown service / sub-function
deriving DecidableEq, Repr

def Resp.kind? : Resp → Option Kind
  | .neg .. => some .neg | .dsc .. => some .dsc | .ecuReset .. => some .ecuReset | .secAccess .. => some .secAccess
  | .commCtrl .. => some .commCtrl | .testerPresent => some .testerPresent | .ctrlDTC .. => some .ctrlDTC
  | .rdbi .. => some .rdbi | .rmba .. => some .rmba | .dddi .. => some .dddi | .wdbi .. => some .wdbi
  | .wmba .. => some .wmba | .clearDTC => some .clearDTC | .dtcCount .. => some .dtcCount
  | .dtcList .. => some .dtcList | .dtcExt .. => some .dtcExt | .iocbi .. => some .iocbi
  | .routine .. => some .routine | .upDownload .. => some .upDownload | .transferData .. => some .transferData
  | .transferExit .. => some .transferExit | .rawPos .. => none

/-- DTC-and-status records on the wire: 3 bytes DTC (big endian), 1 byte status, repeated -/
def encRecs : List (Nat × UInt8) → Bytes
  | [] => []
  | (d, s) :: rest => toBE d 3 ++ s :: encRecs rest

def parseRecs : Bytes → Option (List (Nat × UInt8))
  | [] => some []
  | a :: b :: c :: s :: rest =>
    match parseRecs rest with
    | some l => some ((fromBE [a, b, c], s) :: l)
    | none => none
  | _ => none

/-- no DTC occurs twice (the typed object exposes a mapping) -/
def distinctKeys : List (Nat × UInt8) → Bool
  | [] => true
  | (d, _) :: rest => !(rest.any (fun p => p.1 == d)) && distinctKeys rest

/-- `.pdu`: the ISO 14229-1 layout -/
def encodeResp : Resp → Bytes
  | .neg sid nrc => [0x7F, sid, nrc]
  | .dsc ty rec => 0x50 :: ty :: rec
  | .ecuReset ty none => [0x51, ty]
  | .ecuReset ty (some p) => [0x51, ty, p]
  | .secAccess ty seed => 0x67 :: ty :: seed
  | .commCtrl ty => [0x68, ty]
  | .testerPresent => [0x7E, 0x00]
  | .ctrlDTC ty => [0xC5, ty]
  | .rdbi did rec => 0x62 :: toBE did 2 ++ rec
  | .rmba rec => 0x63 :: rec
  | .dddi sub none => [0x6C, sub]
  | .dddi sub (some did) => 0x6C :: sub :: toBE did 2
  | .wdbi did => 0x6E :: toBE did 2
  | .wmba alfid addr size => 0x7D :: alfid :: (toBE addr (alfid.toNat % 16) ++ toBE size (alfid.toNat / 16))
  | .clearDTC => [0x54]
  | .dtcCount sub mask fmt count => 0x59 :: sub :: mask :: fmt :: toBE count 2
  | .dtcList sub mask recs => 0x59 :: sub :: mask :: encRecs recs
  | .dtcExt dtc status recnum data => 0x59 :: 0x06 :: (toBE dtc 3 ++ status :: recnum :: data)
  | .iocbi did rec => 0x6F :: toBE did 2 ++ rec
  | .routine sub rid rec => 0x71 :: sub :: (toBE rid 2 ++ rec)
  | .upDownload rs lfid maxLen => rs :: lfid :: toBE maxLen (lfid.toNat / 16)
  | .transferData ctr rec => 0x76 :: ctr :: rec
  | .transferExit rec => 0x77 :: rec
  | .rawPos b => b

/-! ### field layout of every parser family (`_from_pdu`), lossless reading -/

def pNeg : Bytes → Except Reject Resp
  | [s, sid, nrc] =>
    if s = 0x7F then (if nrc.toNat ∈ nrcTable then .ok (.neg sid nrc) else .error .nrc) else .error .format
  | _ => .error .format

def pDsc : Bytes → Except Reject Resp
  | s :: ty :: rec => if s = 0x50 then .ok (.dsc ty rec) else .error .format
  | _ => .error .format

def pEcuReset : Bytes → Except Reject Resp
  | [s, ty] => if s = 0x51 then .ok (.ecuReset ty none) else .error .format
  | [s, ty, p] => if s = 0x51 then .ok (.ecuReset ty (some p)) else .error .format
  | _ => .error .format

def pSecAccess : Bytes → Except Reject Resp
  | s :: ty :: seed => if s = 0x67 then .ok (.secAccess ty seed) else .error .format
  | _ => .error .format

def pCommCtrl : Bytes → Except Reject Resp
  | [s, ty] => if s = 0x68 then .ok (.commCtrl ty) else .error .format
  | _ => .error .format

def pTesterPresent : Bytes → Except Reject Resp
  | [s, z] => if s = 0x7E ∧ z = 0x00 then .ok .testerPresent else .error .format
  | _ => .error .format

def pCtrlDTC : Bytes → Except Reject Resp
  | [s, ty] => if s = 0xC5 then .ok (.ctrlDTC ty) else .error .format
  | _ => .error .format

def pRdbi : Bytes → Except Reject Resp
  | s :: a :: c :: r :: rest => if s = 0x62 then .ok (.rdbi (fromBE [a, c]) (r :: rest)) else .error .format
  | _ => .error .format

def pRmba : Bytes → Except Reject Resp
  | s :: r :: rest => if s = 0x63 then .ok (.rmba (r :: rest)) else .error .format
  | _ => .error .format

/-- optional 2-byte identifier: absent or exactly two bytes (a 1-byte tail has no lossless reading) -/
def pDddi : Bytes → Except Reject Resp
  | [s, sub] => if s = 0x6C then .ok (.dddi sub none) else .error .format
  | [s, sub, a, c] => if s = 0x6C then .ok (.dddi sub (some (fromBE [a, c]))) else .error .format
  | _ => .error .format

def pWdbi : Bytes → Except Reject Resp
  | [s, a, c] => if s = 0x6E then .ok (.wdbi (fromBE [a, c])) else .error .format
  | _ => .error .format

/-- address and size widths are the nibbles of the format byte and account for all remaining bytes -/
def pWmba : Bytes → Except Reject Resp
  | s :: alfid :: rest =>
    if s = 0x7D ∧ alfid.toNat % 16 ≠ 0 ∧ alfid.toNat / 16 ≠ 0 ∧ rest.length = alfid.toNat % 16 + alfid.toNat / 16 then
      .ok (.wmba alfid (fromBE (rest.take (alfid.toNat % 16))) (fromBE (rest.drop (alfid.toNat % 16))))
    else .error .format
  | _ => .error .format

def pClearDTC : Bytes → Except Reject Resp
  | [s] => if s = 0x54 then .ok .clearDTC else .error .format
  | _ => .error .format

def pDtcCount : Bytes → Except Reject Resp
  | [s, sub, mask, fmt, c1, c2] =>
    if s = 0x59 ∧ fmt.toNat ∈ dtcFormatTable then .ok (.dtcCount sub mask fmt (fromBE [c1, c2])) else .error .format
  | _ => .error .format

def pDtcList : Bytes → Except Reject Resp
  | s :: sub :: mask :: recs =>
    if s = 0x59 then
      match parseRecs recs with
      | some l => if distinctKeys l then .ok (.dtcList sub mask l) else .error .format
      | none => .error .format
    else .error .format
  | _ => .error .format

def pDtcExt : Bytes → Except Reject Resp
  | s :: sub :: d1 :: d2 :: d3 :: status :: recnum :: data =>
    if s = 0x59 ∧ sub = 0x06 ∧ recnum.toNat ≤ 0xFD then .ok (.dtcExt (fromBE [d1, d2, d3]) status recnum data)
    else .error .format
  | _ => .error .format

def pIocbi : Bytes → Except Reject Resp
  | s :: a :: c :: r :: rest => if s = 0x6F then .ok (.iocbi (fromBE [a, c]) (r :: rest)) else .error .format
  | _ => .error .format

def pRoutine : Bytes → Except Reject Resp
  | s :: sub :: a :: c :: rec => if s = 0x71 then .ok (.routine sub (fromBE [a, c]) rec) else .error .format
  | _ => .error .format

/-- the length-format nibble equals the number of length bytes that follow; the low nibble is reserved (0) -/
def pUpDownload : Bytes → Except Reject Resp
  | s :: lfid :: rest =>
    if (s = 0x74 ∨ s = 0x75) ∧ lfid.toNat % 16 = 0 ∧ lfid.toNat / 16 ≠ 0 ∧ rest.length = lfid.toNat / 16 then
      .ok (.upDownload s lfid (fromBE rest))
    else .error .format
  | _ => .error .format

def pTransferData : Bytes → Except Reject Resp
  | s :: ctr :: rec => if s = 0x76 then .ok (.transferData ctr rec) else .error .format
  | _ => .error .format

def pTransferExit : Bytes → Except Reject Resp
  | s :: rec => if s = 0x77 then .ok (.transferExit rec) else .error .format
  | _ => .error .format

def parseKind : Kind → Bytes → Except Reject Resp
  | .neg => pNeg | .dsc => pDsc | .ecuReset => pEcuReset | .secAccess => pSecAccess | .commCtrl => pCommCtrl
  | .testerPresent => pTesterPresent | .ctrlDTC => pCtrlDTC | .rdbi => pRdbi | .rmba => pRmba | .dddi => pDddi
  | .wdbi => pWdbi | .wmba => pWmba | .clearDTC => pClearDTC | .dtcCount => pDtcCount | .dtcList => pDtcList
  | .dtcExt => pDtcExt | .iocbi => pIocbi | .routine => pRoutine | .upDownload => pUpDownload
  | .transferData => pTransferData | .transferExit => pTransferExit

/-! ### dispatch and gates (`parse_dynamic`, `_check_pdu`) -/

inductive Gate
  | raw
  | typed (e : Entry)

/-- `check_length` against the class's minimal / maximal length -/
def lenGate (e : Entry) (b : Bytes) : Except Reject Unit :=
  if b.length < e.minLen then .error .tooShort
  else match e.maxLen with
    | some m => if b.length > m then .error .tooLong else .ok ()
    | none => .ok ()

/-- byte 1 of a `SubFunctionResponse` is ≤ 0x7F and equals the class's SUB_FUNCTION_ID when it has one -/
def subGate (e : Entry) (b : Bytes) : Except Reject Unit :=
  match b with
  | _ :: f :: _ =>
    if e.subFn ∧ f.toNat ≥ 0x80 then .error .subFunction
    else match e.sub with
      | some k => if f.toNat = k then .ok () else .error .subFunction
      | none => .ok ()
  | _ => .ok ()

def checkEntry (e : Entry) (b : Bytes) : Except Reject Gate :=
  match lenGate e b with
  | .error r => .error r
  | .ok () => match subGate e b with
    | .error r => .error r
    | .ok () => .ok (.typed e)

def entriesFor (s : Nat) : List Entry := registry.filter (fun e => e.rsid == s)

/-- which class `parse_dynamic` tries for `b` (`none` = fall back to `RawPositiveResponse`) -/
def dispatch (b : Bytes) : Except Reject (Option Entry) :=
  match b with
  | [] => .error .empty
  | s :: t =>
    match entriesFor s.toNat with
    | [] => .ok none                                    -- unknown service
    | e0 :: es =>
      if e0.bySub then
        match t with
        | [] => .error .noSubFunction
        | f :: _ => .ok ((e0 :: es).find? (fun e => e.sub == some (f.toNat % 0x80)))   -- none: unknown sub-function
      else .ok (some e0)

/-- dispatch, then the class's `_check_pdu` -/
def gate (b : Bytes) : Except Reject Gate :=
  match dispatch b with
  | .error r => .error r
  | .ok none => .ok .raw
  | .ok (some e) => checkEntry e b

/-- `UDSResponse.parse_dynamic` with the lossless reading of the length / format rules -/
def decodeResp (b : Bytes) : Except Reject Resp :=
  match gate b with
  | .error r => .error r
  | .ok .raw => .ok (.rawPos b)
  | .ok (.typed e) => parseKind e.kind b

/-- class name of the decoded object -/
def className (b : Bytes) : String :=
  match gate b with
  | .ok (.typed e) => e.cls
  | .ok .raw => "RawPositiveResponse"
  | .error _ => "-"

/-! ### well-formed typed objects (the image of the decoder) -/

def countSubs : List Nat := [0x01, 0x11, 0x12]
def listSubsOpen : List Nat := [0x02, 0x0A, 0x0F, 0x13, 0x15]
def listSubsSingle : List Nat := [0x0B, 0x0C, 0x0D, 0x0E]

def Resp.WF : Resp → Prop
  | .neg _ nrc => nrc.toNat ∈ nrcTable
  | .dsc ty _ => ty.toNat < 0x80
  | .ecuReset ty _ => ty.toNat < 0x80
  | .secAccess ty _ => ty.toNat < 0x80
  | .commCtrl ty => ty.toNat < 0x80
  | .testerPresent => True
  | .ctrlDTC ty => ty.toNat < 0x80
  | .rdbi did rec => did < 0x10000 ∧ rec ≠ []
  | .rmba rec => rec ≠ []
  | .dddi sub did => (sub.toNat = 1 ∨ sub.toNat = 2 ∨ sub.toNat = 3) ∧ (did = none → sub.toNat = 3) ∧
      (∀ d, did = some d → d < 0x10000)
  | .wdbi did => did < 0x10000
  | .wmba alfid addr size => alfid.toNat % 16 ≠ 0 ∧ alfid.toNat / 16 ≠ 0 ∧
      addr < 256 ^ (alfid.toNat % 16) ∧ size < 256 ^ (alfid.toNat / 16)
  | .clearDTC => True
  | .dtcCount sub _ fmt count => sub.toNat ∈ countSubs ∧ fmt.toNat ∈ dtcFormatTable ∧ count < 0x10000
  | .dtcList sub _ recs => (sub.toNat ∈ listSubsOpen ∨ (sub.toNat ∈ listSubsSingle ∧ recs.length ≤ 1)) ∧
      (∀ p ∈ recs, p.1 < 0x1000000) ∧ distinctKeys recs = true
  | .dtcExt dtc _ recnum _ => dtc < 0x1000000 ∧ recnum.toNat ≤ 0xFD
  | .iocbi did rec => did < 0x10000 ∧ rec ≠ []
  | .routine sub rid _ => (sub.toNat = 1 ∨ sub.toNat = 2 ∨ sub.toNat = 3) ∧ rid < 0x10000
  | .upDownload rs lfid maxLen => (rs = 0x74 ∨ rs = 0x75) ∧ lfid.toNat % 16 = 0 ∧ lfid.toNat / 16 ≠ 0 ∧
      maxLen < 256 ^ (lfid.toNat / 16)
  | .transferData _ _ => True
  | .transferExit _ => True
  | .rawPos b => gate b = .ok .raw

end Gallia.UdsResp
