import Gallia.Lib.Bytes
import Gallia.Lib.Framing
/-
  C07 — HSFZ transport (`src/gallia/transports/hsfz.py`), modelled after the code.

  * wire format   : 6-byte header (`!IH`: 4-byte length, 2-byte control word); when `Len >= 2` a 2-byte address
                    header (`!BB`: source, destination) and `Len - 2` payload bytes follow; when `Len < 2` exactly
                    `Len` bytes follow and there is no address header (`HSFZConnection._read_frame`).
  * reader task   : `HSFZConnection._read_worker` — alive check answered by the task itself (`send_alive_msg`),
                    data / ack frames with an address header are queued, data / ack frames without one are dropped,
                    every other control word is queued as a bare integer.
  * consumers     : `read_diag_request` and `_read_ack` scan the queue, collect what they do not want and put it
                    back when they have found their frame; a bare integer closes the connection (`_unpack_frame`).
  * timers        : the ack timeout (`write_diag_request_raw`) and the caller's timeout (`HSFZTransport.read/write`).

  Time is in milliseconds.  `settle` is the schedule of the asyncio loop between two external events: the reader
  task parses what is in the buffer and the blocked consumer runs whenever the reader yields (`yields`).
-/
namespace Gallia.Hsfz
open Gallia Gallia.Framing

/-! ### tables (agreement with the generated `Gallia.Gen.C07Hsfz` is proved in `Proofs/C07.lean`) -/

def cwData : Nat := 0x01
def cwAck : Nat := 0x02
def cwAlive : Nat := 0x12

/-- `HSFZStatus` (name, value) -/
def statusTable : List (String × Int) :=
  [("UNDEFINED", -1), ("Data", 1), ("Ack", 2), ("Klemme15", 16), ("Vin", 17), ("AliveCheck", 18),
   ("StatusDataInquiry", 19), ("IncorrectTesterAddressError", 64), ("IncorrectControlWordError", 65),
   ("IncorrectFormatError", 66), ("IncorrectDestinationAddressError", 67), ("MessageTooLarge", 68),
   ("ApplicationNotReady", 69), ("OutOfMemory", 255)]

def headerLen : Nat := 6      -- struct "!IH"
def addrLen : Nat := 2        -- struct "!BB"; also the threshold `hdr.Len < 2`
def echoLen : Nat := 5        -- `prev_data[:5]`
def aliveBodyLen : Nat := 2   -- struct "!H" (tester address in two bytes)

/-- size in bytes of a `struct` format string over the characters that occur in hsfz.py -/
def fmtSize (fmt : String) : Nat :=
  fmt.toList.foldl (fun n c => n + (if c = 'I' then 4 else if c = 'H' then 2 else if c = 'B' then 1 else 0)) 0

/-! ### wire frames and framing -/

inductive Wire
  | short (cw : Nat) (data : Bytes)                 -- Len < 2: no address header, `Len` raw bytes
  | full (cw : Nat) (src dst : UInt8) (data : Bytes) -- Len = data.length + 2
deriving DecidableEq, Repr

def Wire.cw : Wire → Nat
  | .short cw _ => cw
  | .full cw _ _ _ => cw

def header (len cw : Nat) : Bytes := toBE len 4 ++ toBE cw 2

def encodeWire : Wire → Bytes
  | .short cw d => header d.length cw ++ d
  | .full cw s t d => header (d.length + 2) cw ++ s :: t :: d

/-- a frame that `_read_frame` can produce and `struct.pack` can write -/
def Wire.ok : Wire → Prop
  | .short cw d => cw < 65536 ∧ d.length < 2
  | .full cw _ _ d => cw < 65536 ∧ d.length + 2 < 4294967296

def bodyToWire (cw : Nat) : Bytes → Wire
  | s :: t :: d => .full cw s t d
  | body => .short cw body

/-- `_read_frame` on a buffer: `none` = not yet complete (the task blocks in `readexactly`, nothing is lost) -/
def cutWire (buf : Bytes) : Option (Wire × Bytes) :=
  if buf.length < 6 then none else
  let len := fromBE (buf.take 4)
  let cw := fromBE ((buf.drop 4).take 2)
  let rest := buf.drop 6
  if rest.length < len then none else
  some (bodyToWire cw (rest.take len), rest.drop len)

theorem cutWire_shrinks {buf f rest} (h : cutWire buf = some (f, rest)) : rest.length < buf.length := by
  unfold cutWire at h
  split at h <;> try contradiction
  simp only at h
  split at h <;> try contradiction
  injection h with h; injection h with h1 h2
  subst h2; simp; omega

theorem cutWire_mono {a f rest} (b : Bytes) (h : cutWire a = some (f, rest)) :
    cutWire (a ++ b) = some (f, rest ++ b) := by
  unfold cutWire at h ⊢
  split at h <;> try contradiction
  simp only at h
  split at h <;> try contradiction
  rename_i h6 hl
  injection h with h; injection h with h1 h2
  have h6' : ¬ (a ++ b).length < 6 := by simp; omega
  simp only [h6', ite_false]
  have t4 : (a ++ b).take 4 = a.take 4 := by rw [List.take_append_of_le_length (by omega)]
  have d4 : ((a ++ b).drop 4).take 2 = (a.drop 4).take 2 := by
    rw [List.drop_append_of_le_length (by omega), List.take_append_of_le_length (by simp; omega)]
  have d6 : (a ++ b).drop 6 = a.drop 6 ++ b := by rw [List.drop_append_of_le_length (by omega)]
  rw [t4, d4, d6]
  have : ¬ (a.drop 6 ++ b).length < fromBE (a.take 4) := by simp at hl ⊢; omega
  simp only [this, ite_false]
  rw [List.take_append_of_le_length (by simp at hl ⊢; omega), List.drop_append_of_le_length (by simp at hl ⊢; omega)]
  subst h1 h2; rfl

def hsfzCutter : Cutter Wire := ⟨cutWire, cutWire_shrinks, cutWire_mono⟩

/-! ### reader task dispatch -/

/-- what the queue holds: a data / ack frame with its address header, or a bare control word -/
inductive Item
  | frame (cw : Nat) (src dst : UInt8) (data : Bytes)
  | word (cw : Nat)
deriving DecidableEq, Repr

inductive Disp
  | alive            -- answered by the reader task
  | enq (i : Item)   -- queued
  | drop             -- logged and dropped
deriving DecidableEq, Repr

/-- the `match hdr.CWord` of `_read_worker` -/
def dispatch (w : Wire) : Disp :=
  if w.cw = cwAlive then .alive
  else if w.cw = cwAck ∨ w.cw = cwData then
    match w with
    | .full cw s t d => .enq (.frame cw s t d)
    | .short _ _ => .drop
  else .enq (.word w.cw)

/-- the items a list of wire frames puts into the queue -/
def items (ws : List Wire) : List Item :=
  ws.filterMap (fun w => match dispatch w with | .enq i => some i | _ => none)

/-! ### configuration and the two consumers -/

structure Cfg where
  src : UInt8          -- tester address (`src_addr`)
  dst : UInt8          -- ECU address (`dst_addr`)
  ackTimeout : Nat     -- ms

/-- `send_alive_msg`: header(Len=2, AliveCheck) + tester address as `!H` -/
def aliveReply (cfg : Cfg) : Bytes := header 2 cwAlive ++ [0, cfg.src]

/-- `write_diag_request`: header(Len=len+2, Data) + (src, dst) + data -/
def requestBytes (cfg : Cfg) (data : Bytes) : Bytes := encodeWire (.full cwData cfg.src cfg.dst data)

/-- the test of `_read_ack`: control word Ack, the tester's pair, payload = first five request bytes -/
def ackMatches (cfg : Cfg) (prev : Bytes) : Item → Bool
  | .frame cw s t d => cw == cwAck && s == cfg.src && t == cfg.dst && d == prev.take echoLen
  | .word _ => false

/-- the test of `read_diag_request`: control word Data, from the ECU to the tester -/
def dataMatches (cfg : Cfg) : Item → Bool
  | .frame cw s t _ => cw == cwData && s == cfg.dst && t == cfg.src
  | .word _ => false

inductive Scan
  | more (skipped : List Item)                       -- queue exhausted: the consumer blocks holding `skipped`
  | hit (x : Item) (rest skipped : List Item)        -- found `x`; `rest` is what is still queued behind it
  | err (cw : Nat) (rest skipped : List Item)        -- a bare control word came first
deriving DecidableEq, Repr

/-- the `while True` loop of both consumers over what is queued, `m` being the acceptance test -/
def scan (m : Item → Bool) (sk : List Item) : List Item → Scan
  | [] => .more sk
  | .word cw :: q => .err cw q sk
  | .frame cw s t d :: q =>
    if m (.frame cw s t d) then .hit (.frame cw s t d) q sk else scan m (sk ++ [.frame cw s t d]) q

def Item.payload : Item → Bytes
  | .frame _ _ _ d => d
  | .word _ => []

/-! ### the connection as a state machine -/

inductive Res
  | wrote (n : Nat)      -- `write()` returned `len(data)`
  | data (d : Bytes)     -- `read()` returned `d`
  | noAck                -- BrokenPipeError("no ack by gateway"), connection closed
  | errWord (cw : Nat)   -- BrokenPipeError("I can't even: ..."), connection closed
  | timeout              -- the caller's TimeoutError (connection stays open)
  | badFd                -- OSError(EBADFD): read on a closed connection
  | connReset            -- ConnectionResetError: write on a closed connection
  | peerClosed           -- BrokenPipeError("connection closed by gateway"): the stream ended, nothing awaited is queued
  | busy                 -- (harness discipline) an operation is still pending
deriving DecidableEq, Repr

inductive Client
  | idle
  | ackWait (prev : Bytes) (skipped : List Item) (ackAt : Nat) (callerAt : Option Nat)
  | reading (skipped : List Item) (callerAt : Option Nat)
deriving DecidableEq, Repr

structure Sys where
  buf : Bytes := []                 -- received, not yet parsed
  queue : List Item := []           -- `_read_queue`
  closed : Bool := false            -- `_closed`
  eof : Bool := false               -- reader task ended by end-of-stream (`_closed` stays false; the task leaves an
                                    -- end-of-stream marker behind what is queued)
  out : List (Nat × Bytes) := []    -- writes to the TCP stream with their time
  now : Nat := 0
  client : Client := .idle
  done : List (Nat × Res) := []     -- completed client operations with their completion time
  behind : List Item := []          -- frames a successful read put back after the reader task had ended: they sit
                                    -- *behind* the end-of-stream marker until a consumer meets the marker
deriving Repr

def Sys.finish (s : Sys) (r : Res) : Sys := { s with client := .idle, done := s.done ++ [(s.now, r)] }

/-- the blocked consumer runs over what is queued (`Queue.get` does not yield while items are there) -/
def clientRun (cfg : Cfg) (s : Sys) : Sys :=
  match s.client with
  | .idle => s
  | .ackWait prev sk a c =>
    match scan (ackMatches cfg prev) sk s.queue with
    | .more sk' => { s with queue := [], client := .ackWait prev sk' a c }
    -- skipped frames go back *in front of* what arrived after the ack (arrival order is kept)
    | .hit _ rest sk' => { s with queue := sk' ++ rest }.finish (.wrote prev.length)
    -- (the `finally` of `_read_ack` requeues on every exit, also after `_unpack_frame` closed the connection)
    | .err cw rest sk' => { s with queue := sk' ++ rest, closed := true }.finish (.errWord cw)
  | .reading sk c =>
    match scan (dataMatches cfg) sk s.queue with
    | .more sk' => { s with queue := [], client := .reading sk' c }
    -- `read_diag_request` re-appends what it has skipped at the tail: behind the end-of-stream marker when the
    -- reader task has ended
    | .hit x rest sk' =>
      { s with queue := if s.eof then rest else rest ++ sk',
               behind := if s.eof then s.behind ++ sk' else s.behind }.finish (.data x.payload)
    -- `read_diag_request` drops what it has skipped when it ends by an exception
    | .err cw rest _ => { s with queue := rest, closed := true }.finish (.errWord cw)

/-- the reader task handles one parsed frame -/
def deliver (cfg : Cfg) (s : Sys) (w : Wire) : Sys :=
  match dispatch w with
  | .alive => { s with out := s.out ++ [(s.now, aliveReply cfg)] }
  | .enq i => { s with queue := s.queue ++ [i] }
  | .drop => s

theorem clientRun_buf (cfg : Cfg) (s : Sys) : (clientRun cfg s).buf = s.buf := by
  unfold clientRun
  split
  · rfl
  · split <;> rfl
  · split <;> rfl

theorem deliver_buf (cfg : Cfg) (s : Sys) (w : Wire) : (deliver cfg s w).buf = s.buf := by
  unfold deliver; split <;> rfl

/-- between two external events: the reader task parses every complete frame in its buffer; after a frame for
    which `yields` holds the blocked consumer gets to run before the next frame is parsed; at the end (reader
    blocked in `readexactly`) the consumer runs.  A closed connection (reader cancelled) does nothing. -/
def settle (cfg : Cfg) (yields : Wire → Bool) (s : Sys) : Sys :=
  if s.closed || s.eof then s else
  match h : cutWire s.buf with
  | none => clientRun cfg s
  | some (w, rest) =>
    have : rest.length < s.buf.length := cutWire_shrinks h
    let s1 := deliver cfg { s with buf := rest } w
    if yields w then
      have : (clientRun cfg s1).buf.length < s.buf.length := by
        rw [clientRun_buf, deliver_buf]; exact this
      settle cfg yields (clientRun cfg s1)
    else
      have : s1.buf.length < s.buf.length := by rw [deliver_buf]; exact this
      settle cfg yields s1
termination_by s.buf.length

/-- the same loop had the read queue a capacity `cap > 0` (`asyncio.Queue(cap)`), up to the point where the reader
    task suspends: `await put()` waits while `cap` items are queued, and nothing behind the frame it holds is read from
    the stream any more - in particular no alive check - until a consumer takes an item.  `settle` above uses that the
    queue of hsfz.py is unbounded (obligation `queues_unbounded` in `Proofs/C07.lean`, regenerated from the code on
    every run): the reader task never waits for a consumer, and the re-queue of the frames an ack wait skipped
    (`put_nowait`) never fails.  Kept to state the witness `bounded_queue_starves_alive_check`. -/
def settleBounded (cap : Nat) (cfg : Cfg) (yields : Wire → Bool) (s : Sys) : Sys :=
  if s.closed || s.eof then s else
  match h : cutWire s.buf with
  | none => clientRun cfg s
  | some (w, rest) =>
    have : rest.length < s.buf.length := cutWire_shrinks h
    let full := (match dispatch w with | .enq _ => true | _ => false) && decide (0 < cap ∧ cap ≤ s.queue.length)
    if full then clientRun cfg s
    else
      let s1 := deliver cfg { s with buf := rest } w
      if yields w then
        have : (clientRun cfg s1).buf.length < s.buf.length := by
          rw [clientRun_buf, deliver_buf]; exact this
        settleBounded cap cfg yields (clientRun cfg s1)
      else
        have : s1.buf.length < s.buf.length := by rw [deliver_buf]; exact this
        settleBounded cap cfg yields s1
termination_by s.buf.length

/-- fire the consumer's timers that are due up to `target` (the caller's timer wins a tie: it was armed first).
    A cancelled ack wait puts the frames it has skipped back in front of the queue (`finally` in `_read_ack`);
    a cancelled `read_diag_request` drops them. -/
def fire (s : Sys) (target : Nat) : Sys :=
  match s.client with
  | .idle => s
  | .ackWait _ sk a c =>
    match c with
    | some ct =>
      if ct ≤ a ∧ ct ≤ target then { s with now := ct, queue := sk ++ s.queue }.finish .timeout
      else if a ≤ target then { s with now := a, queue := sk ++ s.queue, closed := true }.finish .noAck
      else s
    | none => if a ≤ target then { s with now := a, queue := sk ++ s.queue, closed := true }.finish .noAck else s
  | .reading _ c =>
    match c with
    | some ct => if ct ≤ target then { s with now := ct }.finish .timeout else s
    | none => s

/-- the end-of-stream marker: once the reader task has ended, a consumer that finds nothing it awaits in the queue
    is not left blocked but ends with `BrokenPipeError`.  The ack wait puts the frames it skipped back (`finally`),
    `read_diag_request` drops them (it ends by an exception).  `read_frame` puts the marker back at the very end, so
    whatever sat behind it is in front of it from now on. -/
def wake (s : Sys) : Sys :=
  if s.eof then
    match s.client with
    | .idle => s
    | .ackWait _ sk _ _ => { s with queue := sk ++ s.queue ++ s.behind, behind := [] }.finish .peerClosed
    | .reading _ _ => { s with queue := s.queue ++ s.behind, behind := [] }.finish .peerClosed
  else s

inductive Op
  | feed (chunk : Bytes)
  | write (data : Bytes) (timeout : Option Nat)
  | read (timeout : Option Nat)
  | advance (dt : Nat)
  | eof
deriving DecidableEq, Repr

def isIdle : Client → Bool
  | .idle => true
  | _ => false

def execOp (cfg : Cfg) (yields : Wire → Bool) (s : Sys) : Op → Sys
  | .feed chunk => settle cfg yields { s with buf := s.buf ++ chunk }
  | .write data t =>
    if !isIdle s.client then { s with done := s.done ++ [(s.now, .busy)] }
    else if s.closed then { s with done := s.done ++ [(s.now, .connReset)] }
    else wake (clientRun cfg { s with out := s.out ++ [(s.now, requestBytes cfg data)],
                                      client := .ackWait data [] (s.now + cfg.ackTimeout) (t.map (s.now + ·)) })
  | .read t =>
    if !isIdle s.client then { s with done := s.done ++ [(s.now, .busy)] }
    else if s.closed then { s with done := s.done ++ [(s.now, .badFd)] }
    else wake (clientRun cfg { s with client := .reading [] (t.map (s.now + ·)) })
  | .advance dt => { fire s (s.now + dt) with now := s.now + dt }
  | .eof => wake { s with eof := true }

def exec (cfg : Cfg) (yields : Wire → Bool) (s : Sys) (ops : List Op) : Sys := ops.foldl (execOp cfg yields) s

/-- the two schedules of the real writer: `drain()` returns at once (plain socket) or yields once (back-pressure,
    in-memory writer of the harness) after the alive-check reply -/
def asyncioYields (drainYields : Bool) (w : Wire) : Bool := drainYields && decide (w.cw = cwAlive)

/-! ### specification side: what successive reads should deliver -/

/-- payloads of the data frames from the ECU to the tester, in queue order -/
def dataOf (cfg : Cfg) (q : List Item) : List Bytes := (q.filter (dataMatches cfg)).map Item.payload

/-- the requeue discipline of the unrepaired `_read_ack` (skipped frames appended at the tail), kept to state the
    reorder witness -/
def requeueTail (rest skipped : List Item) : List Item := rest ++ skipped

end Gallia.Hsfz
