import Gallia.Lib.Bytes
import Gallia.Lib.Framing
/-
  C19 — line transports (`tcp-lines`, `unix-lines`) and the virtual ECU's line server loop.

  Wire format: one message per line, `binascii.hexlify(data) + b"\n"`.
  This file is the *oracle* the property names ("exactly that sequence of byte strings, one message per read,
  a timed-out read consumes nothing, end-of-stream is distinguishable from a message"); the correspondence
  harness compares the real `LinesTransportMixin.read/write` and `TCPUDSServerTransport.handle_client` with it.
-/
namespace Gallia.Lines
open Gallia Gallia.Framing

/-- ASCII code of a lower-case hex digit -/
def hexDigitB (n : Nat) : UInt8 := if n < 10 then UInt8.ofNat (48 + n) else UInt8.ofNat (87 + n)

/-- `binascii.hexlify` as bytes -/
def hexB : Bytes → Bytes
  | [] => []
  | b :: rest => hexDigitB (b.toNat / 16) :: hexDigitB (b.toNat % 16) :: hexB rest

def unhexDigitB (c : UInt8) : Option Nat :=
  let n := c.toNat
  if 48 ≤ n ∧ n ≤ 57 then some (n - 48)
  else if 97 ≤ n ∧ n ≤ 102 then some (n - 87)
  else if 65 ≤ n ∧ n ≤ 70 then some (n - 55)
  else none

/-- `binascii.unhexlify` (either case accepted, odd length or foreign characters rejected) -/
def unhexB : Bytes → Option Bytes
  | [] => some []
  | [_] => none
  | a :: b :: rest =>
    match unhexDigitB a, unhexDigitB b, unhexB rest with
    | some x, some y, some r => some (UInt8.ofNat (x * 16 + y) :: r)
    | _, _, _ => none

def NL : UInt8 := 0x0A

/-- `data.hex() + "\n"` -/
def enc (m : Bytes) : Bytes := hexB m ++ [NL]

/-- ASCII whitespace as removed by `str.strip()` on decoded ASCII text:
    space, \t \n \v \f \r and the separators 0x1c..0x1f -/
def isWs (c : UInt8) : Bool :=
  c == 0x20 || (0x09 ≤ c && c ≤ 0x0D) || (0x1C ≤ c && c ≤ 0x1F)

def strip (l : Bytes) : Bytes := ((l.dropWhile isWs).reverse.dropWhile isWs).reverse

/-- first line of the buffer (without its terminator) and what follows it; `none` when no newline is there -/
def cutLine : Bytes → Option (Bytes × Bytes)
  | [] => none
  | b :: rest =>
    if b = NL then some ([], rest)
    else match cutLine rest with
      | none => none
      | some (l, r) => some (b :: l, r)

inductive ReadRes
  | msg (m : Bytes)      -- a complete line that decodes to `m`
  | eos                  -- end of stream (the Python API returns `b""`)
  | pending              -- no complete line yet: the read blocks (and times out, consuming nothing)
  | bad                  -- a complete line that is not hex text (`binascii.Error` / `UnicodeDecodeError`)
deriving DecidableEq, Repr

/-- what a line means: strip surrounding whitespace, unhexlify -/
def decodeLine (l : Bytes) : ReadRes :=
  match unhexB (strip l) with
  | some m => .msg m
  | none => .bad

/-- one `read()` on a reader holding `buf`, with `eof` telling whether the peer has closed.
    An unterminated tail at end-of-stream is *not* a message. -/
def readLine (buf : Bytes) (eof : Bool) : ReadRes × Bytes :=
  match cutLine buf with
  | some (l, rest) => (decodeLine l, rest)
  | none => if eof then (.eos, []) else (.pending, buf)

/-- what the Python API hands to its caller -/
def ReadRes.toApi : ReadRes → Option Bytes
  | .msg m => some m
  | .eos => some []
  | _ => none

/-! ### server loop (`TCPUDSServerTransport.handle_client`) -/

/-- consume complete lines; answer each through `h` (state `σ`); stop at a line that does not decode
    (the loop `break`s on the exception) -/
def serve {σ} (h : σ → Bytes → σ × Option Bytes) (fuel : Nat) (s : σ) (buf : Bytes) : σ × Bytes × Bool × Bytes :=
  -- returns (state, bytes written, stopped-by-error, leftover)
  match fuel with
  | 0 => (s, [], false, buf)
  | fuel+1 =>
    match cutLine buf with
    | none => (s, [], false, buf)
    | some (l, rest) =>
      match decodeLine l with
      | .msg m =>
        let (s', r) := h s m
        let (s'', out, err, left) := serve h fuel s' rest
        (s'', (match r with | some x => enc x | none => []) ++ out, err, left)
      | _ => (s, [], true, rest)

end Gallia.Lines
