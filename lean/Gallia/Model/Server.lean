import Gallia.Lib.Bytes
/-
  C13 - the virtual ECU's default response behaviour.
  Model of `src/gallia/services/uds/server.py`: `UDSServer.respond`, `respond_without_state_change` (the rule
  chain in code order, one behaviour switch per rule), the individual `default_response_if_*` rules,
  `update_state` (of `RandomUDSServer`, which extends the base one by the seed memory), the suppression of
  positive replies, the inactivity reset of `UDSServerTransport.handle_request`, and the seed / key
  sequencing of `RandomUDSServer.security_access`.

  Python exceptions that the rules can raise (the two `assert`s and `request.pdu[1]` on a one-byte PDU when
  the missing-sub-function rule is switched off) are outcomes of the model (`Outcome.crash`), because with
  some of the nine switches off they are reachable.

  Core Lean only (linked into the `c13` driver).
-/
namespace Gallia.Server
open Gallia

abbrev Sess := Nat
abbrev Sid := Nat
abbrev SubFn := Nat

/-- `dict[UDSIsoServices, list[int] | None]`: service -> (not offered | offered, no sub-function list | list) -/
abbrev SvcMap := Sid → Option (Option (List SubFn))

/-- `supported_services : dict[int, dict[...]]`: the keys in iteration order and the lookup.
    (The code iterates the keys and indexes the dict; it never iterates the inner dicts.) -/
structure Model where
  sessions : List Sess
  get : Sess → Option SvcMap

/-- a dict: a key is listed iff the lookup succeeds -/
def Model.WF (m : Model) : Prop := ∀ s, s ∈ m.sessions ↔ (m.get s).isSome

/-- `ECUState` / `RNGEcuState`: active session, unlocked security level, last SecurityAccess reply -/
structure SrvState where
  session : Sess
  level : Option Int
  lastSA : Option (Nat × Bytes)
deriving DecidableEq, Repr

/-- `RNGEcuState.reset` -/
def SrvState.reset (_ : SrvState) : SrvState := ⟨1, none, none⟩

def SrvState.init : SrvState := ⟨1, none, none⟩

/-- a parsed request as far as the rules look at it: the bytes and whether `UDSRequest.parse_dynamic`
    fell back to `RawRequest` (input bit supplied by the real parser; the request codec is C01's) -/
structure Req where
  pdu : Bytes
  raw : Bool
deriving DecidableEq, Repr

/-- responses by the classes `update_state` / `default_response_if_suppress` distinguish -/
inductive Resp
  | neg (sid : Nat) (nrc : Nat)          -- NegativeResponse
  | dsc (typ : Nat) (rec : Bytes)        -- DiagnosticSessionControlResponse
  | sa (typ : Nat) (seed : Bytes)        -- SecurityAccessResponse
  | reset (pdu : Bytes)                  -- ECUResetResponse
  | tp                                   -- TesterPresentResponse
  | other (pdu : Bytes)                  -- any other positive response
deriving DecidableEq, Repr

def Resp.isNeg : Resp → Bool
  | .neg .. => true
  | _ => false

def Resp.pdu : Resp → Bytes
  | .neg sid nrc => [0x7F, UInt8.ofNat sid, UInt8.ofNat nrc]
  | .dsc t rec => 0x50 :: UInt8.ofNat t :: rec
  | .sa t seed => 0x67 :: UInt8.ofNat t :: seed
  | .reset p => p
  | .tp => [0x7E, 0x00]
  | .other p => p

/-- the server specific part, `respond_after_default` -/
abbrev Handler := SrvState → Req → Option Resp

-- UDSErrorCodes used by the default rules
def nrcGeneralReject : Nat := 0x10
def nrcSNS : Nat := 0x11
def nrcSFNS : Nat := 0x12
def nrcLength : Nat := 0x13
def nrcSequence : Nat := 0x24
def nrcInvalidKey : Nat := 0x35
def nrcSFNSIAS : Nat := 0x7E
def nrcSNSIAS : Nat := 0x7F

def sidDSC : Nat := 0x10
def sidReset : Nat := 0x11
def sidRDBI : Nat := 0x22
def sidSA : Nat := 0x27
def sidRoutine : Nat := 0x31
def sidTP : Nat := 0x3E

/-- services for which `_is_sub_function_service` holds (regenerated and compared: `Gen.C13Chain`) -/
def subFnServices : List Nat := [0x10, 0x11, 0x19, 0x27, 0x28, 0x2C, 0x31, 0x3E, 0x85]

def Req.sid (r : Req) : Nat := (r.pdu.headD 0).toNat
def Req.hasSubFn (r : Req) : Bool := subFnServices.contains r.sid
/-- `request.pdu[1] % 0x80` (0 when absent; every use is guarded by a length check) -/
def Req.subFn (r : Req) : Nat := (r.pdu.getD 1 0).toNat % 128
/-- `isinstance(request, SubFunctionRequest)` -/
def Req.isSubFnReq (r : Req) : Bool := !r.raw && r.hasSubFn
/-- `request.suppress_response` of a parsed sub-function request -/
def Req.suppressBit (r : Req) : Bool := r.isSubFnReq && decide (128 ≤ (r.pdu.getD 1 0).toNat)

/-- the nine switches of `UDSServer.Behavior` -/
inductive Sw
  | sns | missingSub | sfns | format | sessChange | sessRead | testerPresent | none_ | suppress
deriving DecidableEq, Repr

abbrev Behavior := Sw → Bool
def allOn : Behavior := fun _ => true
def Behavior.off (b : Behavior) (i : Sw) : Behavior := fun j => if j = i then false else b j

def Sw.all : List Sw := [.sns, .missingSub, .sfns, .format, .sessChange, .sessRead, .testerPresent, .none_, .suppress]

/-- name of the switch / rule method in the code -/
def Sw.name : Sw → String
  | .sns => "default_response_if_service_not_supported"
  | .missingSub => "default_response_if_missing_sub_function"
  | .sfns => "default_response_if_sub_function_not_supported"
  | .format => "default_response_if_incorrect_format"
  | .sessChange => "default_response_if_session_change"
  | .sessRead => "default_response_if_session_read"
  | .testerPresent => "default_response_if_tester_present"
  | .none_ => "default_response_if_none"
  | .suppress => "default_response_if_suppress"

inductive Crash
  | assertion   -- AssertionError: "Virtual ECU in unsupported session" / sub-function list is None
  | index       -- IndexError: request.pdu[1] on a one-byte PDU, request.service_id on an empty one
deriving DecidableEq, Repr

inductive RuleOut
  | fire (r : Resp)
  | pass
  | crash (c : Crash)
deriving DecidableEq, Repr

/-- `default_response_if_service_not_supported` -/
def ruleSNS (m : Model) (st : SrvState) (r : Req) : RuleOut :=
  match m.get st.session with
  | none => .crash .assertion
  | some sm =>
    if (sm r.sid).isNone then
      if (m.sessions.filterMap m.get).any (fun s => (s r.sid).isSome) then .fire (.neg r.sid nrcSNSIAS)
      else .fire (.neg r.sid nrcSNS)
    else .pass

/-- `default_response_if_missing_sub_function` -/
def ruleMissingSub (r : Req) : RuleOut :=
  if r.hasSubFn && decide (r.pdu.length < 2) then .fire (.neg r.sid nrcLength) else .pass

/-- the `for session in self.supported_services` loop of `default_response_if_sub_function_not_supported`:
    returns the two flags, `other` being threaded through, stops at the `break` -/
def scanSessions (m : Model) (active : Sess) (r : Req) : List Sess → Bool → Except Crash (Bool × Bool)
  | [], other => .ok (false, other)
  | s :: rest, other =>
    match m.get s with
    | none => scanSessions m active r rest other          -- cannot happen for a dict (key without value)
    | some sm =>
      match sm r.sid with
      | none => scanSessions m active r rest other        -- `continue`
      | some none => .error .assertion                     -- assert supported_sub_functions is not None
      | some (some l) =>
        if r.pdu.length < 2 then .error .index             -- request.pdu[1]
        else if l.contains r.subFn then
          if s == active then .ok (true, other)            -- `break`
          else scanSessions m active r rest true
        else scanSessions m active r rest other

/-- `default_response_if_sub_function_not_supported` -/
def ruleSFNS (m : Model) (st : SrvState) (r : Req) : RuleOut :=
  match m.get st.session with
  | none => .crash .assertion
  | some _ =>
    if r.hasSubFn && r.sid != sidRoutine then
      match scanSessions m st.session r m.sessions false with
      | .error c => .crash c
      | .ok (active, other) =>
        if !active then
          if other then .fire (.neg r.sid nrcSFNSIAS) else .fire (.neg r.sid nrcSFNS)
        else .pass
    else .pass

/-- `default_response_if_incorrect_format` -/
def ruleFormat (r : Req) : RuleOut :=
  if r.raw then .fire (.neg r.sid nrcLength) else .pass

/-- `default_response_if_session_change` (`isinstance(request, DiagnosticSessionControlRequest)`) -/
def ruleSessChange (r : Req) : RuleOut :=
  if !r.raw && r.sid == sidDSC then .fire (.dsc r.subFn []) else .pass

/-- `default_response_if_session_read`: ReadDataByIdentifier whose first identifier is 0xF186 -/
def ruleSessRead (st : SrvState) (r : Req) : RuleOut :=
  if !r.raw && r.sid == sidRDBI && r.pdu.getD 1 0 == 0xF1 && r.pdu.getD 2 0 == 0x86 then
    .fire (.other [0x62, 0xF1, 0x86, UInt8.ofNat st.session])
  else .pass

/-- `default_response_if_tester_present` -/
def ruleTP (r : Req) : RuleOut :=
  if !r.raw && r.sid == sidTP then .fire .tp else .pass

def evalRule (i : Sw) (m : Model) (st : SrvState) (r : Req) : RuleOut :=
  match i with
  | .sns => ruleSNS m st r
  | .missingSub => ruleMissingSub r
  | .sfns => ruleSFNS m st r
  | .format => ruleFormat r
  | .sessChange => ruleSessChange r
  | .sessRead => ruleSessRead st r
  | .testerPresent => ruleTP r
  | .none_ => .pass
  | .suppress => .pass

/-- the rules tried before `respond_after_default`, in code order (compared with the AST: `chain_order_agrees`) -/
def chain : List Sw := [.sns, .missingSub, .sfns, .format, .sessChange, .sessRead, .testerPresent]

/-- `if self.behavior.X and (response := self.X(request)) is not None: return response`, repeated -/
def runChain (b : Behavior) (m : Model) (st : SrvState) (r : Req) : List Sw → RuleOut
  | [] => .pass
  | i :: rest =>
    if b i then
      match evalRule i m st r with
      | .pass => runChain b m st r rest
      | x => x
    else runChain b m st r rest

inductive Pre
  | resp (x : Resp)
  | silent
  | crash (c : Crash)
deriving DecidableEq, Repr

/-- after the default rules: `respond_after_default`, then `default_response_if_none` -/
def finish (b : Behavior) (h : Handler) (st : SrvState) (r : Req) : RuleOut → Pre
  | .fire x => .resp x
  | .crash c => .crash c
  | .pass =>
    match h st r with
    | some x => .resp x
    | none => if b .none_ then .resp (.neg r.sid nrcGeneralReject) else .silent

/-- `respond_without_state_change` over an arbitrary rule list (`request.service_id` of an empty PDU raises) -/
def respondNoStateWith (ch : List Sw) (b : Behavior) (m : Model) (h : Handler) (st : SrvState) (r : Req) : Pre :=
  if r.pdu.isEmpty then .crash .index else finish b h st r (runChain b m st r ch)

def respondNoState := respondNoStateWith chain

/-- `RandomUDSServer.update_state` (base `UDSServer.update_state`, then the seed memory), statement by statement -/
def updateState (st : SrvState) (x : Resp) : SrvState :=
  let st1 := match x with
    | .dsc t _ => { st.reset with session := t }
    | _ => st
  let st2 := match x with
    | .sa t _ => if t % 2 == 0 then { st1 with level := some ((t : Int) - 1) } else st1
    | _ => st1
  let st3 := match x with
    | .reset _ => st2.reset
    | _ => st2
  match x with
  | .tp => st3
  | .sa t seed => { st3 with lastSA := some (t, seed) }
  | _ => { st3 with lastSA := none }

/-- `default_response_if_suppress` returns `None` -/
def suppressed (b : Behavior) (r : Req) (x : Resp) : Bool :=
  b .suppress && !x.isNeg && r.suppressBit

inductive Outcome
  | ok (st : SrvState) (reply : Option Resp)
  | crash (c : Crash)
deriving DecidableEq, Repr

def respondWith (ch : List Sw) (b : Behavior) (m : Model) (h : Handler) (st : SrvState) (r : Req) : Outcome :=
  match respondNoStateWith ch b m h st r with
  | .crash c => .crash c
  | .silent => .ok st none
  | .resp x => .ok (updateState st x) (if suppressed b r x then none else some x)

/-- `UDSServer.respond` -/
def respond := respondWith chain

/-- `UDSServerTransport`: the server state and `last_time_active` (in ticks of 0.25 s) -/
structure TState where
  st : SrvState
  lastActive : Nat
deriving DecidableEq, Repr

/-- ten seconds in ticks -/
def idleLimit : Nat := 40

/-- `UDSServerTransport.handle_request` at time `now`: more than 10 s of inactivity reset the state first; an
    exception leaves the (possibly reset) state and `last_time_active` as they are -/
def handleAt (b : Behavior) (m : Model) (h : Handler) (ts : TState) (now : Nat) (r : Req) : TState × Outcome :=
  let st0 := if now - ts.lastActive > idleLimit then ts.st.reset else ts.st
  match respond b m h st0 r with
  | .ok st' reply => (⟨st', now⟩, .ok st' reply)
  | .crash c => (⟨st0, ts.lastActive⟩, .crash c)

/-- a request history: (time, request) pairs -/
def run (b : Behavior) (m : Model) (h : Handler) (ts : TState) : List (Nat × Req) → TState
  | [] => ts
  | (now, r) :: rest => run b m h (handleAt b m h ts now r).1 rest

/-- `RandomUDSServer.respond_after_default` as far as it is not random: SecurityAccess is modelled
    (`security_access`: requestSeed answers with a fresh seed, sendKey is checked against the last
    SecurityAccess reply, identity key); everything else and the seed bytes come from an oracle. -/
def rndHandler (orc : Handler) (seedOf : SrvState → Req → Bytes) : Handler := fun st r =>
  if !r.raw && r.sid == sidSA then
    let t := r.subFn
    if t % 2 == 1 then some (.sa t (seedOf st r))
    else match st.lastSA with
      | none => some (.neg sidSA nrcSequence)
      | some (t0, seed) =>
        if t != t0 + 1 then some (.neg sidSA nrcSequence)
        else if r.pdu.drop 2 == seed then some (.sa t [])
        else some (.neg sidSA nrcInvalidKey)
  else orc st r

/-- model from association lists (what the driver receives) -/
def Model.ofAssoc (a : List (Sess × List (Sid × Option (List SubFn)))) : Model where
  sessions := a.map (·.1)
  get := fun s => (a.lookup s).map (fun sm sid => sm.lookup sid)

end Gallia.Server
