import Gallia.Model.Client
/-
  C04 — a session: several requests issued one after the other by the same process.

  `UDSClient.request_unsafe` keeps nothing between two requests: attempt counter, `n_pending`, `n_timeout`,
  `last_exception` are locals of the call, and `parse_pdu` (helpers.py) classifies a reply from the request and the
  reply bytes alone (`UDSRequest.parse_dynamic` / `UDSResponse.parse_dynamic` walk the service classes anew on every
  call).  The model of a session is therefore the loop below: the requests are run in order, each on its own
  configuration and event stream, and the only thing that is accumulated is the list of results.

  A step is the pair (effective configuration, event stream) of one request; the request kind (service, sub-function)
  does not occur: it only determines which bytes stand for the events, which the harness varies (24 kinds).
-/
namespace Gallia.Client

abbrev Step := Cfg × (Nat → Ev)

/-- `for req in session: results.append(client.request(req))` -/
def sessionLoop : List Step → List Res → List Res
  | [], acc => acc.reverse
  | st :: rest, acc => sessionLoop rest (run st.1 st.2 :: acc)

def runSession (steps : List Step) : List Res := sessionLoop steps []

def sumBy {α} (f : α → Nat) (l : List α) : Nat := (l.map f).sum

end Gallia.Client
