import Gallia.Lib.Bytes
import Gallia.Lib.Framing
import Gallia.Model.DoipFifo
/-
  C06 — DoIP transport (`src/gallia/transports/doip.py`).

  (a) codec      : generic header (version, inverse version, payload type, payload length), routing activation
                   request / response, diagnostic message, positive / negative acknowledgement, alive check;
  (b) framing    : `cut` = 8-byte header + `PayloadLength` bytes as a `Framing.Cutter`; `classify` = what
                   `DoIPConnection._read_frame` / `_read_worker` do with a frame (queue it, answer it, drop it, die);
  (c) reader     : the reader task as a stream transducer `Reader.run : timed chunks -> timed events`; it answers
                   alive-check requests itself and never waits for the client;
  (d) consumers  : `wait` = a client call blocked on the read queue until a frame accepted by `p` shows up, a
                   deadline passes or the connection is closed; `opWrite`, `opRead`, `opConnect` on top of it.

  All times are virtual milliseconds.
-/
namespace Gallia.Doip
open Gallia Gallia.Framing Gallia.DoipFifo

/-! ### tables (agreement with the generated `Gen.C06Doip` is proved in `Proofs/C06.lean`) -/

def ptHdrNack : Nat := 0x0000
def ptRaReq : Nat := 0x0005
def ptRaRes : Nat := 0x0006
def ptAliveReq : Nat := 0x0007
def ptAliveRes : Nat := 0x0008
def ptDiag : Nat := 0x8001
def ptAckPos : Nat := 0x8002
def ptAckNeg : Nat := 0x8003

def ackTimeoutMs : Nat := 2000
def raTimeoutMs : Nat := 2000
def aliveCheckMs : Nat := 500
def raSuccess : UInt8 := 0x10
def nackTargetUnreachable : UInt8 := 0x06

/-- `DiagnosticMessageNegativeAckCodes(code)` with its `_missing_` -/
def nackName (code : UInt8) : UInt8 := if 2 ≤ code ∧ code ≤ 8 then code else 0xFF

/-- `RoutingActivationResponseCodes(code)` with its `_missing_` -/
def racName (code : UInt8) : UInt8 :=
  if code ≤ 7 ∨ code = 0x10 ∨ code = 0x11 ∨ code = 0xFF then code
  else if 0xE0 ≤ code then 0xFE else 0xFF

/-! ### codec -/

/-- `GenericHeader.pack`: `!BBHL` -/
def header (ver : UInt8) (ptype len : Nat) : Bytes := [ver, ver ^^^ 0xFF] ++ toBE ptype 2 ++ toBE len 4

/-- frames the reader task puts on the read queue -/
inductive Frame
  | hdrNack (code : UInt8)
  | rar (src tgt : Nat) (code : UInt8)
  | diag (src tgt : Nat) (data : Bytes)
  | ackPos (src tgt : Nat) (prev : Bytes)
  | ackNeg (src tgt : Nat) (code : UInt8) (prev : Bytes)
deriving DecidableEq, Repr

def Frame.ptype : Frame → Nat
  | .hdrNack _ => ptHdrNack
  | .rar .. => ptRaRes
  | .diag .. => ptDiag
  | .ackPos .. => ptAckPos
  | .ackNeg .. => ptAckNeg

def Frame.payload : Frame → Bytes
  | .hdrNack c => [c]
  | .rar s t c => toBE s 2 ++ toBE t 2 ++ [c, 0, 0, 0, 0]
  | .diag s t d => toBE s 2 ++ toBE t 2 ++ d
  | .ackPos s t p => toBE s 2 ++ toBE t 2 ++ 0 :: p
  | .ackNeg s t c p => toBE s 2 ++ toBE t 2 ++ c :: p

/-- addresses fit their 16-bit fields -/
def Frame.wf : Frame → Prop
  | .hdrNack _ => True
  | .rar s t _ => s < 65536 ∧ t < 65536
  | .diag s t _ => s < 65536 ∧ t < 65536
  | .ackPos s t _ => s < 65536 ∧ t < 65536
  | .ackNeg s t _ _ => s < 65536 ∧ t < 65536

/-- a frame as the gateway puts it on the wire -/
def encFrame (ver : UInt8) (f : Frame) : Bytes := header ver f.ptype f.payload.length ++ f.payload

structure Cfg where
  src : Nat
  tgt : Nat
  ver : UInt8
deriving Repr

/-- `write_routing_activation_request`: header + `!HBI` -/
def raReq (c : Cfg) (atype : UInt8) : Bytes :=
  header c.ver ptRaReq 7 ++ toBE c.src 2 ++ [atype] ++ [0, 0, 0, 0]

/-- `write_diag_request`: header + `!HH` + user data -/
def diagReq (c : Cfg) (data : Bytes) : Bytes :=
  header c.ver ptDiag (data.length + 4) ++ toBE c.src 2 ++ toBE c.tgt 2 ++ data

/-- `write_alive_check_response`: header + `!H` -/
def aliveResp (c : Cfg) : Bytes := header c.ver ptAliveRes 2 ++ toBE c.src 2

/-! ### framing -/

/-- what `readexactly(8)` + `GenericHeader.unpack` + `readexactly(PayloadLength)` yield -/
inductive Raw
  | bad                                                   -- inverse version check failed (`ValueError`)
  | frame (ver : UInt8) (ptype : Nat) (payload : Bytes)
deriving DecidableEq, Repr

def cut : Bytes → Option (Raw × Bytes)
  | v :: i :: t1 :: t0 :: l3 :: l2 :: l1 :: l0 :: rest =>
    if v ≠ i ^^^ 0xFF then some (.bad, rest)
    else if rest.length < fromBE [l3, l2, l1, l0] then none
    else some (.frame v (fromBE [t1, t0]) (rest.take (fromBE [l3, l2, l1, l0])),
               rest.drop (fromBE [l3, l2, l1, l0]))
  | _ => none

theorem cut_shrinks {buf f rest} (h : cut buf = some (f, rest)) : rest.length < buf.length := by
  unfold cut at h
  split at h
  · split at h
    · cases h; simp; omega
    · split at h
      · cases h
      · cases h; simp; omega
  · cases h

theorem cut_mono {a f rest} (b : Bytes) (h : cut a = some (f, rest)) : cut (a ++ b) = some (f, rest ++ b) := by
  unfold cut at h
  split at h
  · rename_i v i t1 t0 l3 l2 l1 l0 r
    simp only [List.cons_append, cut]
    split at h
    · cases h; simp_all
    · rename_i hv
      split at h
      · cases h
      · rename_i hl
        cases h
        have hl' : ¬ (r ++ b).length < fromBE [l3, l2, l1, l0] := by simp at hl ⊢; omega
        simp only [hv, if_false, hl']
        rw [List.take_append_of_le_length (by omega), List.drop_append_of_le_length (by omega)]
  · cases h

def doipCutter : Cutter Raw := ⟨cut, cut_shrinks, cut_mono⟩

/-- what the reader task does with a frame -/
inductive Item
  | fatal              -- unpack raises: the reader task ends and closes the connection
  | drop               -- unknown payload type: logged and dropped
  | alive              -- alive-check request: answered by the reader task
  | q (f : Frame)      -- put on the read queue
deriving DecidableEq, Repr

def classify : Raw → Item
  | .bad => .fatal
  | .frame _ pt pl =>
    if pt = ptHdrNack then
      match pl with
      | [c] => .q (.hdrNack c)
      | _ => .fatal
    else if pt = ptRaRes then
      match pl with
      | [s1, s0, t1, t0, c, r3, r2, r1, r0] =>
        if fromBE [r3, r2, r1, r0] = 0 then .q (.rar (fromBE [s1, s0]) (fromBE [t1, t0]) c) else .fatal
      | _ => .fatal
    else if pt = ptDiag then
      match pl with
      | s1 :: s0 :: t1 :: t0 :: d => .q (.diag (fromBE [s1, s0]) (fromBE [t1, t0]) d)
      | _ => .fatal
    else if pt = ptAckPos then
      match pl with
      | s1 :: s0 :: t1 :: t0 :: c :: p =>
        if c = 0 then .q (.ackPos (fromBE [s1, s0]) (fromBE [t1, t0]) p) else .fatal
      | _ => .fatal
    else if pt = ptAckNeg then
      match pl with
      | s1 :: s0 :: t1 :: t0 :: c :: p => .q (.ackNeg (fromBE [s1, s0]) (fromBE [t1, t0]) c p)
      | _ => .fatal
    else if pt = ptAliveReq then .alive
    else .drop

def Item.isFatal : Item → Bool
  | .fatal => true
  | _ => false

/-! ### matching rules of the consumers -/

/-- `read_diag_request_raw`: a diagnostic message from the configured target to the configured source -/
def isDiagFor (c : Cfg) : Frame → Bool
  | .diag s t _ => s == c.tgt && t == c.src
  | _ => false

/-- `_read_ack`: positive or negative acknowledgement with our address pair whose echoed data is empty or a
    prefix of the request -/
def ackMatch (c : Cfg) (data : Bytes) : Frame → Bool
  | .ackPos s t p => s == c.tgt && t == c.src && (p.isEmpty || p == data.take p.length)
  | .ackNeg s t _ p => s == c.tgt && t == c.src && (p.isEmpty || p == data.take p.length)
  | _ => false

/-- `_read_routing_activation_response`: any routing activation response (addresses are not compared) -/
def isRar : Frame → Bool
  | .rar .. => true
  | _ => false

/-- the user data `read()` hands out -/
def Frame.userData : Frame → Bytes
  | .diag _ _ d => d
  | _ => []

/-! ### reader task -/

/-- one observation point of the read queue: the frames queued since the previous point, whether the point is
    the alive-check reply written right after them (the reader yields in `drain()`), whether the reader died -/
structure Ev where
  t : Nat
  frames : List Frame
  reply : Bool
  died : Bool
deriving DecidableEq, Repr

def groups (t : Nat) : List Item → List Frame → List Ev
  | [], acc => if acc.isEmpty then [] else [⟨t, acc, false, false⟩]
  | .q f :: is, acc => groups t is (acc ++ [f])
  | .drop :: is, acc => groups t is acc
  | .alive :: is, acc => ⟨t, acc, true, false⟩ :: groups t is []
  | .fatal :: _, acc => [⟨t, acc, false, true⟩]

structure Reader where
  buf : Bytes := []
  dead : Bool := false
deriving DecidableEq, Repr

def Reader.feed (r : Reader) (t : Nat) (chunk : Bytes) : Reader × List Ev :=
  if r.dead then (r, [])
  else
    let p := parseAll doipCutter (r.buf ++ chunk)
    let items := p.1.map classify
    (⟨p.2, items.any Item.isFatal⟩, groups t items [])

def Reader.run (r : Reader) : List (Nat × Bytes) → Reader × List Ev
  | [] => (r, [])
  | (t, ch) :: rest =>
    let a := r.feed t ch
    let b := a.1.run rest
    (b.1, a.2 ++ b.2)

/-! ### connection state and blocked consumers -/

structure St where
  queue : List Frame := []
  rd : Reader := {}
  closed : Bool := false
  now : Nat := 0
  out : List (Nat × Bytes) := []
deriving Repr

def St.absorb (c : Cfg) (s : St) (e : Ev) : St :=
  { s with
    queue := s.queue ++ e.frames
    now := max s.now e.t
    out := if e.reply then s.out ++ [(e.t, aliveResp c)] else s.out
    closed := s.closed || e.died }

inductive WaitRes
  | got (f : Frame)
  | timeout
  | conn
deriving DecidableEq, Repr

/-- a consumer suspended in `queue.get()`: woken by an observation point that queued something - frames, or the
    end-of-stream marker `close()` leaves when the reader task dies; looks at what is queued; goes on waiting (after
    the `_is_closed` test) when the awaited frame is not there.  The caller's timer wins a tie with the protocol
    timer (it was armed first): `tmo ≤ ackTimeoutMs` below. -/
def block (c : Cfg) (p : Frame → Bool) (deadline : Nat) : St → List Ev → WaitRes × St × List Ev
  | s, [] => (.timeout, { s with now := max s.now deadline }, [])
  | s, e :: es =>
    if deadline ≤ e.t then (.timeout, { s with now := max s.now deadline }, e :: es)
    else
      let s1 := s.absorb c e
      if e.frames.isEmpty && !e.died then block c p deadline s1 es
      else
        match findSplit p s1.queue with
        | some (pre, f, post) =>
          -- a consumer woken on a connection that the reader task closed meanwhile still receives the frame it was
          -- woken with (the first one queued since it blocked), but `read_frame_unsafe` refuses to wait again
          if e.died && !(e.frames.head?.any p) then (.conn, s1, es)
          else (.got f, { s1 with queue := requeueFront pre post }, es)
        | none => if s1.closed then (.conn, s1, es) else block c p deadline s1 es

def wait (c : Cfg) (p : Frame → Bool) (deadline : Nat) (s : St) (evs : List Ev) : WaitRes × St × List Ev :=
  if s.closed then (.conn, s, evs)
  else
    match findSplit p s.queue with
    | some (pre, f, post) => (.got f, { s with queue := requeueFront pre post }, evs)
    | none => block c p deadline s evs

/-! ### client operations -/

inductive OpRes
  | ok
  | msg (d : Bytes)
  | nack (code : UInt8)       -- DoIPNegativeAckError, code after the enum's `_missing_`
  | denied (code : UInt8)     -- DoIPRoutingActivationDeniedError, ditto
  | timeout                   -- the caller's own timeout
  | conn                      -- ConnectionError / BrokenPipeError
deriving DecidableEq, Repr

def shift (now : Nat) (arr : List (Nat × Bytes)) : List (Nat × Bytes) := arr.map fun a => (now + a.1, a.2)

def lastT (now : Nat) (arr : List (Nat × Bytes)) : Nat := arr.foldl (fun m a => max m (now + a.1)) now

/-- after the client call returned: what arrives later is taken by the reader task while the client is idle
    (nothing is read any more once the connection is closed) -/
def St.finish (c : Cfg) (s : St) (rest : List Ev) (rd' : Reader) (tEnd : Nat) : St :=
  let s1 := if s.closed then s else rest.foldl (St.absorb c) s
  { s1 with rd := if s1.closed then ⟨[], true⟩ else rd', now := max s1.now tEnd }

/-- run a client call while `arr` (delays relative to the start of the call, increasing) arrives -/
def runOp (c : Cfg) (s : St) (arr : List (Nat × Bytes))
    (body : St → List Ev → OpRes × St × List Ev) : OpRes × Nat × St :=
  let r := s.rd.run (shift s.now arr)
  let b := body s r.2
  (b.1, b.2.1.now, b.2.1.finish c b.2.2 r.1 (lastT s.now arr))

def writeBody (c : Cfg) (data : Bytes) (tmo : Nat) (s : St) (evs : List Ev) : OpRes × St × List Ev :=
  if s.closed then (.conn, s, evs)
  else
    let s0 := { s with out := s.out ++ [(s.now, diagReq c data)] }
    match wait c (ackMatch c data) (s.now + min tmo ackTimeoutMs) s0 evs with
    | (.got (.ackNeg _ _ code _), s1, rest) =>
      (if code = nackTargetUnreachable then .ok else .nack (nackName code), s1, rest)
    | (.got _, s1, rest) => (.ok, s1, rest)
    | (.conn, s1, rest) => (.conn, s1, rest)
    | (.timeout, s1, rest) =>
      if tmo ≤ ackTimeoutMs then (.timeout, s1, rest) else (.conn, { s1 with closed := true }, rest)

def readBody (c : Cfg) (tmo : Nat) (s : St) (evs : List Ev) : OpRes × St × List Ev :=
  match wait c (isDiagFor c) (s.now + tmo) s evs with
  | (.got f, s1, rest) => (.msg f.userData, s1, rest)
  | (.conn, s1, rest) => (.conn, s1, rest)
  | (.timeout, s1, rest) => (.timeout, s1, rest)

def idleBody (s : St) (evs : List Ev) : OpRes × St × List Ev := (.ok, s, evs)

/-- `DoIPTransport.write(data, timeout)` -/
def opWrite (c : Cfg) (s : St) (data : Bytes) (tmo : Nat) (arr : List (Nat × Bytes)) : OpRes × Nat × St :=
  runOp c s arr (writeBody c data tmo)

/-- `DoIPTransport.read(timeout)` -/
def opRead (c : Cfg) (s : St) (tmo : Nat) (arr : List (Nat × Bytes)) : OpRes × Nat × St :=
  runOp c s arr (readBody c tmo)

/-- the client does nothing while `arr` arrives -/
def opIdle (c : Cfg) (s : St) (arr : List (Nat × Bytes)) : OpRes × Nat × St :=
  runOp c s arr idleBody

def connectBody (c : Cfg) (atype : UInt8) (tmo : Nat) (s : St) (evs : List Ev) : OpRes × St × List Ev :=
  let s0 := { s with out := s.out ++ [(s.now, raReq c atype)] }
  match wait c isRar (s.now + min tmo raTimeoutMs) s0 evs with
  | (.got (.rar _ _ code), s1, rest) => (if code = raSuccess then .ok else .denied (racName code), s1, rest)
  | (.got _, s1, rest) => (.conn, s1, rest)
  | (.conn, s1, rest) => (.conn, s1, rest)
  | (.timeout, s1, rest) =>
    if tmo ≤ raTimeoutMs then (.timeout, s1, rest) else (.conn, { s1 with closed := true }, rest)

/-- `DoIPTransport.connect(target, timeout)` on a fresh TCP connection: routing activation -/
def opConnect (c : Cfg) (atype : UInt8) (tmo : Nat) (arr : List (Nat × Bytes)) : OpRes × Nat × St :=
  runOp c {} arr (connectBody c atype tmo)

/-- the bytes a connection attempt sends -/
def connectBytes (c : Cfg) (atype : UInt8) : Bytes := raReq c atype

end Gallia.Doip
