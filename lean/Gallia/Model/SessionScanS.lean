import Gallia.Model.SessionScan
/-
  C09, generalised ECU side: the session scanner against an arbitrary STATEFUL ECU.

  `Oracle σ`: `step : σ → idle ms → Wire → σ × Reply` (any state, any dependence on the history and on the time that
  passed since the previous request was handled) with the abstraction `sessionOf : σ → Sess`.
  `Reply` = a number of ResponsePending frames followed by a final answer (positive / NRC / nothing).
  `linkOf` is what `UDSClient.request_unsafe` makes of one transmission (C04's subject): the pending frames are skipped,
  silence and busyRepeatRequest are retransmitted (`retry`) after the exponential back-off (`backoff`), silence after
  a ResponsePending costs the 20 s of the pending loop and is retransmitted without back-off, busyRepeatRequest after a
  ResponsePending is returned as it is.

  `scanS` is `SessionsScanner.main` over such a link, statement by statement like `SessionScan.scan` (same layers, same
  names + `S`), with every single transmission a step of the ECU: the retransmissions of `request_unsafe` (`requestN`), the
  requests of the session hooks (through `request_unsafe` as well; a hook request that stays unanswered raises), the pings of
  `wait_for_ecu` up to its budget, the client's own idea of the session (`client`).
  Core Lean only (linked into the `c09` driver).
-/
namespace Gallia.SessionScan

/-- a request on the wire -/
inductive Wire where
  | dsc (s : Nat)      -- `10 s`
  | reset (l : Nat)    -- `11 l`
  | ping               -- `3e 00`
  | hook (code : Nat)  -- 2-byte PDU of a session hook
  deriving DecidableEq, Repr

/-- what the ECU puts on the wire for one request: `pend` ResponsePending frames, then `fin` -/
structure Reply where
  pend : Nat := 0
  fin : Ans
  deriving DecidableEq, Repr

/-- an arbitrary stateful ECU -/
structure Oracle (σ : Type) where
  /-- state, ms since the previous request was handled, request -> new state, reply -/
  step : σ → Nat → Wire → σ × Reply
  sessionOf : σ → Sess

/-- outcome of one transmission as `request_unsafe` sees it -/
structure Out where
  ans : Ans
  /-- the request is sent again when attempts remain -/
  retry : Bool := false
  /-- ... after `retry_wait * 2**i` -/
  backoff : Bool := false
  /-- silence after a ResponsePending: the pending loop gives up after 40 reads of 0.5 s -/
  slow : Bool := false
  deriving DecidableEq, Repr

/-- the ECU as the scanner's UDS client sees it -/
structure Link (σ : Type) where
  send : σ → Nat → Wire → σ × Out
  sessionOf : σ → Sess

def outOf (r : Reply) : Out :=
  if r.pend = 0 then
    match r.fin with
    | .silent => { ans := .silent, retry := true, backoff := true }
    | .nrc n => if n = NRC_BUSY then { ans := .nrc n, retry := true, backoff := true } else { ans := .nrc n }
    | .pos => { ans := .pos }
    | .illegal sw => { ans := .illegal sw }     -- `parse_pdu` raises: no retransmission
  else
    match r.fin with
    | .silent => { ans := .silent, retry := true, slow := true }
    | a => { ans := a }

def linkOf {σ} (O : Oracle σ) : Link σ :=
  { send := fun s i w => ((O.step s i w).1, outOf (O.step s i w).2), sessionOf := O.sessionOf }

/-- the tester side: scanner configuration + timing of the client -/
structure CfgS extends Cfg where
  /-- pings `wait_for_ecu` sends before its timeout expires when none is answered -/
  pingBudget : Nat := 2
  /-- client timeout, ms -/
  timeoutMs : Nat := 2000
  /-- `retry_wait`, ms -/
  retryWaitMs : Nat := 200

structure StS (σ : Type) where
  ecu : σ
  /-- ms since the ECU handled the previous request (what the client spent waiting and sleeping) -/
  idle : Nat := 0
  /-- `ecu.state.session`: the session the client believes the ECU is in -/
  client : Sess := 1
  /-- requests seen by the ECU, newest first -/
  log : List Req := []
  found : List (List Sess) := []
  pos : List (Sess × List Sess) := []
  neg : List (Sess × List Sess × Nat) := []
  searched : List Sess := []
  aborted : Bool := false
  crashed : Bool := false

/-- forget the ECU's inner state -/
def StS.toSt {σ} (L : Link σ) (x : StS σ) : St :=
  { cur := L.sessionOf x.ecu, reqs := x.log, found := x.found, pos := x.pos, neg := x.neg, searched := x.searched,
    aborted := x.aborted, crashed := x.crashed }

def PING_TIMEOUT_MS : Nat := 500
def PENDING_GIVEUP_MS : Nat := 20000

/-- one transmission -/
def xmit {σ} (L : Link σ) (tmo : Nat) (k : Kind) (tp tgt : Nat) (w : Wire) (x : StS σ) : StS σ × Out :=
  let r := L.send x.ecu x.idle w
  ({ x with ecu := r.1
            idle := if r.2.ans = .silent then (if r.2.slow then PENDING_GIVEUP_MS else tmo) else 0
            log := ⟨k, tgt, L.sessionOf x.ecu, tp⟩ :: x.log }, r.2)

/-- `request_unsafe`: attempt `i`, `n` more attempts allowed -/
def requestN {σ} (c : CfgS) (L : Link σ) (k : Kind) (tp tgt : Nat) (w : Wire) : Nat → Nat → StS σ → StS σ × Ans
  | _, 0, x => let r := xmit L c.timeoutMs k tp tgt w x; (r.1, r.2.ans)
  | i, n + 1, x =>
    let r := xmit L c.timeoutMs k tp tgt w x
    if r.2.retry = true then
      requestN c L k tp tgt w (i + 1) n
        { r.1 with idle := r.1.idle + (if r.2.backoff = true then c.retryWaitMs * 2 ^ i else 0) }
    else (r.1, r.2.ans)

def request {σ} (c : CfgS) (L : Link σ) (k : Kind) (tp tgt : Nat) (w : Wire) (x : StS σ) : StS σ × Ans :=
  requestN c L k tp tgt w 0 c.maxRetry x

/-- `ecu.set_session(s, skip_hooks=True, use_db=False)` = `diagnostic_session_control(s)` + the client's state update -/
def dscOnceS {σ} (c : CfgS) (L : Link σ) (k : Kind) (tp : Nat) (s : Sess) (x : StS σ) : StS σ × Ans :=
  let r := request c L k tp s (.dsc s) x
  match r.2 with
  | .pos => ({ r.1 with client := s }, .pos)
  | a => (r.1, a)

/-- the requests of one session hook (`send_raw`, reply ignored).  Result `.pos`: all sent and answered; `.silent`: one
    stayed unanswered (`MissingResponse`); `.illegal _`: the reply to one was refused (`IllegalResponse`) - both leave the
    hook, and `set_session`, at once -/
def hookSeqS {σ} (c : CfgS) (L : Link σ) (tp : Nat) : List Nat → StS σ → StS σ × Ans
  | [], x => (x, .pos)
  | h :: t, x =>
    let r := request c L .hook tp h (.hook h) x
    if r.2 = .silent then (r.1, .silent) else if r.2.refused = true then (r.1, r.2) else hookSeqS c L tp t r.1

/-- `ecu.set_session(s, skip_hooks=False, use_db=False)` -/
def dscHookedS {σ} (c : CfgS) (L : Link σ) (k : Kind) (tp : Nat) (s : Sess) (x : StS σ) : StS σ × Ans :=
  let h := hookSeqS c L tp c.preHook x
  if h.2 ≠ .pos then h else
  let r := dscOnceS c L k tp s h.1
  match r.2 with
  | .pos => hookSeqS c L tp c.postHook r.1
  | _ => r

/-- `set_session_with_hooks_handling` -/
def dscS {σ} (c : CfgS) (L : Link σ) (k : Kind) (tp : Nat) (s : Sess) (x : StS σ) : StS σ × Ans :=
  let r1 := dscOnceS c L k tp s x
  if r1.2 = .nrc NRC_CNC ∧ c.hooks = true then
    let r2 := dscHookedS c L k tp s r1.1
    if r2.2 = .pos then r2 else if r2.2 = .silent then r2 else if r2.2.refused = true then r2 else (r2.1, r1.2)
  else r1

/-- `_recover_stack` -/
def recoverStackS {σ} (c : CfgS) (L : Link σ) (tp : Nat) : List Sess → StS σ → StS σ × Bool
  | [], x => (x, true)
  | s :: rest, x =>
    let r := dscS c L .recover tp s x
    if r.2 = .pos then recoverStackS c L tp rest r.1 else (r.1, false)

/-- `_wait_for_ecu_endless_loop` under `wait_for(timeout)`: sleep 0.5 s, ping (`max_retry=0`, 0.5 s), until one is
    answered (an NRC is an answer; a refused reply is a `UDSException` like the missing one: the loop goes on) or the
    budget is used up -/
def waitS {σ} (L : Link σ) (tp : Nat) : Nat → StS σ → StS σ
  | 0, x => x
  | n + 1, x =>
    let r := xmit L PING_TIMEOUT_MS .ping tp 0 .ping { x with idle := x.idle + 500 }
    if r.2.ans = .silent ∨ r.2.ans.refused = true then waitS L tp n r.1 else r.1

/-- `ecu_reset(level)`; accepted: the client's state is reset, then `wait_for_ecu`; negative: nothing; unanswered:
    `reconnect()` (nothing on the wire); a reply the client refuses: `IllegalResponse` leaves the reset block and `main` -/
def doResetS {σ} (c : CfgS) (L : Link σ) (tp lvl : Nat) (x : StS σ) : StS σ :=
  let r := request c L .reset tp lvl (.reset lvl) x
  match r.2 with
  | .pos => waitS L tp c.pingBudget { r.1 with client := 1 }
  | .illegal _ => { r.1 with crashed := true }
  | _ => r.1

def prepareS {σ} (c : CfgS) (L : Link σ) (stack : List Sess) (acc : StS σ × Bool) : StS σ × Bool :=
  match wantsReset c.toCfg with
  | some l =>
    if (request c L .reset (top stack) l (.reset l) acc.1).2.refused = true then (doResetS c L (top stack) l acc.1, false)
    else recoverStackS c L (top stack) stack (doResetS c L (top stack) l acc.1)
  | none => if acc.2 = true then recoverStackS c L (top stack) stack acc.1 else (acc.1, true)

def classifyS {σ} (c : CfgS) (stack : List Sess) (s : Sess) (r : StS σ × Ans) : StS σ × Bool :=
  match r.2 with
  | .silent => (r.1, false)
  | .illegal _ => (r.1, true)
  | .nrc code =>
    if code = NRC_SFNS then (r.1, false)
    else ({ r.1 with neg := r.1.neg ++ [(s, stack, code)] }, false)
  | .pos =>
    let st := if c.thorough = true ∨ s ∉ stack then { r.1 with found := r.1.found ++ [stack ++ [s]] } else r.1
    ({ st with pos := st.pos ++ [(s, stack)] }, true)

def probeOneS {σ} (c : CfgS) (L : Link σ) (stack : List Sess) (acc : StS σ × Bool) (s : Sess) : StS σ × Bool :=
  if acc.1.aborted = true then acc else
  if s ∈ c.skip then acc else
  let a2 := prepareS c L stack acc
  if a2.2 = false then ({ a2.1 with aborted := true }, false) else
  classifyS c stack s (dscS c L .probe (top stack) s a2.1)

def processStackS {σ} (c : CfgS) (L : Link σ) (x : StS σ) (stack : List Sess) : StS σ :=
  if x.aborted = true then x else
  if c.thorough = false ∧ top stack ∈ x.searched then x else
  (sessions.foldl (probeOneS c L stack) ({ x with searched := x.searched ++ [top stack] }, true)).1

def levelS {σ} (c : CfgS) (L : Link σ) (x : StS σ) : StS σ :=
  x.found.foldl (processStackS c L) { x with found := [] }

def scanLoopS {σ} (c : CfgS) (L : Link σ) : Nat → StS σ → StS σ
  | 0, x => x
  | n + 1, x => if x.found.isEmpty then x else scanLoopS c L n (levelS c L x)

def initS {σ} (e : σ) : StS σ := { ecu := e, found := [[1]] }

/-- the scan against the link `L` whose ECU starts in state `e` -/
def scanS {σ} (c : CfgS) (L : Link σ) (e : σ) : StS σ := scanLoopS c L c.depth (initS e)

/-! ### ECU families -/

/-- the graph ECU of `SessionScan.Ecu` as a stateful oracle.  State: session, "the pre hook's conditions are
    established" (`armed`, for which target once a `10 u` has met them), pings still to be left unanswered (boot phase). -/
structure GSt where
  cur : Sess := 1
  armed : Bool := false
  armedFor : Option Nat := none
  booting : Nat := 0
  deriving DecidableEq, Repr

def graphOracle (c : Cfg) (E : Ecu) : Oracle GSt :=
  { sessionOf := (·.cur)
    step := fun s _ w =>
      match w with
      | .dsc u =>
        let armed := s.armed && (s.armedFor == none || s.armedFor == some u)
        let a := if armed = true then hookedAns c E s.cur u else E.g s.cur u
        let keep := armed && (a == .silent || a == .nrc NRC_BUSY)   -- a retransmission meets the same conditions
        let s1 := { s with armed := keep, armedFor := if keep = true then some u else none }
        match a with
        | .pos => ({ s1 with cur := u }, { fin := a })
        | .illegal true => ({ s1 with cur := u }, { fin := a })
        | _ => (s1, { fin := a })
      | .reset _ =>
        match E.rst s.cur with
        | .pos => ({ cur := 1, booting := E.boot s.cur }, { fin := .pos })
        | .illegal true => ({ cur := 1 }, { fin := .illegal true })
        | a => ({ s with armed := false, armedFor := none }, { fin := a })
      | .ping =>
        match s.booting with
        | 0 => (s, { fin := .pos })
        | n + 1 => ({ s with booting := n }, { fin := .silent })
      | .hook code =>
        if code ∈ c.preHook then ({ s with armed := true, armedFor := none }, { fin := .nrc 0x11 })
        else (s, { fin := .nrc 0x11 }) }

/-- S3 server timer on top of a session graph: outside the default session the ECU falls back to it when more than
    `s3Ms` passed since the previous request (`s3Ms = 0`: no such timer), or when `maxReqs` requests other than
    TesterPresent arrived since the session was entered / the last TesterPresent (`maxReqs = 0`: no such limit).
    State: session, requests counted. -/
structure S3Cfg where
  s3Ms : Nat := 0
  maxReqs : Nat := 0

def s3Oracle (E : Ecu) (t : S3Cfg) : Oracle (Sess × Nat) :=
  { sessionOf := (·.1)
    step := fun s idle w =>
      let expired := s.1 ≠ 1 ∧ ((t.s3Ms ≠ 0 ∧ idle > t.s3Ms) ∨ (t.maxReqs ≠ 0 ∧ w ≠ .ping ∧ s.2 ≥ t.maxReqs))
      let cur := if expired then 1 else s.1
      let n := if expired then 0 else s.2
      match w with
      | .dsc u =>
        match E.g cur u with
        | .pos => ((u, 0), { fin := .pos })
        | .illegal true => ((u, 0), { fin := .illegal true })
        | a => ((cur, n + 1), { fin := a })
      | .reset _ =>
        match E.rst cur with
        | .pos => ((1, 0), { fin := .pos })
        | .illegal true => ((1, 0), { fin := .illegal true })
        | a => ((cur, n + 1), { fin := a })
      | .ping => ((cur, 0), { fin := .pos })
      | .hook _ => ((cur, n + 1), { fin := .nrc 0x11 }) }

/-- security access in front of some transitions: `locked p u` edges are refused with securityAccessDenied (0x33) as
    long as the ECU is locked - and the scan never sends a SecurityAccess request, so it stays locked.
    State: session, unlocked. -/
def lockedOracle (E : Ecu) (locked : Sess → Sess → Bool) : Oracle (Sess × Bool) :=
  { sessionOf := (·.1)
    step := fun s _ w =>
      match w with
      | .dsc u =>
        if locked s.1 u = true ∧ s.2 = false then (s, { fin := .nrc 0x33 })
        else match E.g s.1 u with
          | .pos => ((u, s.2), { fin := .pos })
          | .illegal true => ((u, s.2), { fin := .illegal true })
          | a => (s, { fin := a })
      | .reset _ =>
        match E.rst s.1 with
        | .pos => ((1, false), { fin := .pos })
        | .illegal true => ((1, false), { fin := .illegal true })
        | a => (s, { fin := a })
      | .ping => (s, { fin := .pos })
      | .hook _ => (s, { fin := .nrc 0x11 }) }

/-- the graph a locked ECU shows to a tester that never unlocks it -/
def lockedGraph (E : Ecu) (locked : Sess → Sess → Bool) : Ecu :=
  { g := fun p u => if locked p u = true then .nrc 0x33 else E.g p u, rst := E.rst }

/-- an ECU that announces its answers with ResponsePending frames: `pend e w` frames before the final reply -/
def withPending {σ} (O : Oracle σ) (pend : σ → Wire → Nat) : Oracle σ :=
  { O with step := fun s i w => ((O.step s i w).1, { (O.step s i w).2 with pend := pend s w }) }

/-- an ECU on which a session change (or any other positive answer) that is announced with ResponsePending frames takes
    its time: `gap s w` ms of silence between the last pending frame and the positive reply.  The pending loop of
    `request_unsafe` reads with a 0.5 s timeout and gives up after `PENDING_GIVEUP_MS` (40 reads) of consecutive silence: a
    reply that comes before that is received like one that comes at once; from then on the transmission counts as
    unanswered after a ResponsePending (`slow`). -/
def withSlowPending {σ} (O : Oracle σ) (pend : σ → Wire → Nat) (gap : σ → Wire → Nat) : Oracle σ :=
  { O with step := fun s i w =>
      ((O.step s i w).1,
        if pend s w ≠ 0 ∧ (O.step s i w).2.fin = .pos ∧ PENDING_GIVEUP_MS ≤ gap s w then { pend := pend s w, fin := .silent }
        else { (O.step s i w).2 with pend := pend s w }) }

/-- an ECU with sporadic faults: a script of faults (`some a`: answer `a` - nothing, busyRepeatRequest, or a reply the
    client refuses - instead of handling the request; `none`: handle it) consumed one entry per request; after the script
    every request is handled.  A faulted request does not reach the application (state unchanged) - except
    `some (.illegal true)`: the application handles the request (and may switch session) and the reply is garbled.
    Pings are not garbled (the time `wait_for_ecu` spends on a refused ping reply differs from a missing one). -/
def withFaults {σ} (O : Oracle σ) : Oracle (σ × List (Option Ans)) :=
  { sessionOf := fun s => O.sessionOf s.1
    step := fun s i w =>
      match s.2 with
      | some (.illegal sw) :: rest =>
        if w = .ping then let r := O.step s.1 i w; ((r.1, rest), r.2)
        else if sw = true then (((O.step s.1 i w).1, rest), { fin := .illegal true })
        else ((s.1, rest), { fin := .illegal false })
      | some a :: rest => ((s.1, rest), { fin := a })
      | none :: rest => let r := O.step s.1 i w; ((r.1, rest), r.2)
      | [] => let r := O.step s.1 i w; ((r.1, []), r.2) }

end Gallia.SessionScan
