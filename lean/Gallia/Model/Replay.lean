import Gallia.Lib.Bytes
/-
  C12 — recording a history into the scan database (client side, `ECU._request` + `ECU.update_state`) and
  replaying it with `DBUDSServer.respond_after_default` + `UDSServer.update_state`.

  The model follows the code.  What a reply means for the tracked state is decided by the class the dynamic
  response parser gives it; only four classes matter and they are recognised by `classify` (validated against the
  real parser by the correspondence harness on every recorded reply).
-/
namespace Gallia.Replay
open Gallia

structure St where
  session : Nat := 1
  sec : Option Int := none          -- `security_access_level` (`type - 1`, so -1 after a `67 00` reply)
deriving DecidableEq, Repr

def St.default : St := {}

inductive Kind
  | dsc (t : Nat)      -- DiagnosticSessionControlResponse, session type
  | sa (t : Nat)       -- SecurityAccessResponse, access type
  | reset              -- ECUResetResponse
  | f186 (s : Nat)     -- ReadDataByIdentifierResponse for 0xF186 (active session), decoded value
  | other
deriving DecidableEq, Repr

/-- the class `UDSResponse.parse_dynamic` gives the reply, as far as `update_state` can tell.  The length and
    sub-function gates of the four classes are part of it: a reply that fails them does not parse, the client keeps it as a
    raw response (`MalformedResponse`), the replaying server falls back to a raw response too - and neither changes
    its state.  (`Proofs/Lemmas/ReplayServe.lean` proves that this is what C02's decoder `decodeResp` says, and
    `Proofs/Lemmas/ReplayRec.lean` that it is C11's `DbLog.classify`.) -/
def classify (resp : Bytes) : Kind :=
  match resp with
  | 0x50 :: t :: _ => if t.toNat ≤ 0x7F then .dsc t.toNat else .other
  | 0x67 :: t :: _ => if t.toNat ≤ 0x7F then .sa t.toNat else .other
  | [0x51, t] => if t.toNat ≤ 0x7F then .reset else .other
  | [0x51, t, _] => if t.toNat ≤ 0x7F then .reset else .other
  | 0x62 :: 0xF1 :: 0x86 :: d :: ds => .f186 (fromBE (d :: ds))
  | _ => .other

/-- `UDSServer.update_state` (the replaying side) -/
def serverUpdate (st : St) (resp : Bytes) : St :=
  match classify resp with
  | .dsc t => { session := t, sec := none }
  | .sa t => if t % 2 = 0 then { st with sec := some ((t : Int) - 1) } else st
  | .reset => St.default
  | _ => st

/-- the replaying server's next state: reply bytes drive `update_state`; a NULL reply resets the state -/
def srvNext (st : St) (resp : Option Bytes) : St :=
  match resp with
  | some b => serverUpdate st b
  | none => St.default

/-- `ECU.update_state` (the recording side); an unanswered request leaves the client's view unchanged -/
def clientUpdate (st : St) (resp : Option Bytes) : St :=
  match resp with
  | none => st
  | some r =>
    match classify r with
    | .dsc t => { session := t, sec := none }
    | .f186 s => if st.session ≠ s then { session := s, sec := none } else st
    | .sa t => if t % 2 = 0 then { st with sec := some ((t : Int) - 1) } else st
    | .reset => St.default
    | .other => st

/-- a `scan_result` row as the replay query sees it -/
structure Row where
  id : Nat
  selected : Bool          -- does the run of this row match the ECU name / properties selector?
  state : St
  req : Bytes
  resp : Option Bytes
deriving Repr

/-- one exchange of the recorded history -/
structure Exch where
  req : Bytes
  resp : Option Bytes
deriving Repr

/-- client states before each exchange -/
def clientStates : St → List Exch → List St
  | _, [] => []
  | st, x :: xs => st :: clientStates (clientUpdate st x.resp) xs

/-- the rows the recorder writes for a history: increasing ids starting at `id0`, the client's pre-state -/
def record (id0 : Nat) (st : St) : List Exch → List Row
  | [] => []
  | x :: xs => ⟨id0, true, st, x.req, x.resp⟩ :: record (id0 + 1) (clientUpdate st x.resp) xs

/-- row with the smallest id among those satisfying `p` -/
def minRow (p : Row → Bool) : List Row → Option Row
  | [] => none
  | r :: rs =>
    match minRow p rs with
    | none => if p r then some r else none
    | some m => if p r && r.id < m.id then some r else some m

structure Srv where
  st : St := {}
  last : Option Nat := none    -- `last_response` (-1 = none)
deriving DecidableEq, Repr

def matchesQ (st : St) (req : Bytes) (r : Row) : Bool :=
  r.selected && r.state == st && r.req == req

/-- `r.id > last_response` (`last_response` starts at -1) -/
def afterLast (last : Option Nat) (id : Nat) : Bool :=
  match last with | none => true | some l => decide (l < id)

/-- `r.id <= last_response` -/
def uptoLast (last : Option Nat) (id : Nat) : Bool :=
  match last with | none => false | some l => decide (id ≤ l)

/-- `DBUDSServer.respond_after_default` followed by `UDSServer.update_state` (all default behaviours off) -/
def replayStep (rows : List Row) (s : Srv) (req : Bytes) : Srv × Option Bytes :=
  let after := minRow (fun r => matchesQ s.st req r && afterLast s.last r.id) rows
  let pick := match after with
    | some r => some r
    | none => minRow (fun r => matchesQ s.st req r && uptoLast s.last r.id) rows
  match pick with
  | none => (s, none)
  | some r =>
    ({ st := srvNext s.st r.resp, last := some r.id }, r.resp)

def replayAll (rows : List Row) : Srv → List Bytes → List (Option Bytes)
  | _, [] => []
  | s, q :: qs => let (s', r) := replayStep rows s q; r :: replayAll rows s' qs

/-- server states before each exchange when it gives the recorded replies -/
def serverStates : St → List Exch → List St
  | _, [] => []
  | st, x :: xs =>
    st :: serverStates (srvNext st x.resp) xs

/-- the presupposition of C12: along the history both sides derive the same state -/
def Agree (h : List Exch) : Prop := clientStates St.default h = serverStates St.default h

instance (h : List Exch) : Decidable (Agree h) := by unfold Agree; infer_instance

end Gallia.Replay

/-! ### the selector of `DBUDSServer` (ECU name and / or properties), made explicit

`selected` of a `Row` is what the WHERE clause of `respond_after_default` decides from the run a row belongs to:
`e.name = ?` over the join `scan_run -> address -> ecu`, and `json_extract(s.properties_pre, '$.key') = ?` (or `IS NULL`)
for every requested property. -/
namespace Gallia.Replay

/-- a JSON value as `json_extract` hands it to the comparison: SQL NULL (absent key or JSON null), an integer, a text,
    or anything else by its JSON text -/
inductive JVal
  | null
  | num (n : Int)
  | str (s : String)
  | json (text : String)
deriving DecidableEq, Repr

/-- what the database knows about the run a row was recorded in -/
structure RunInfo where
  ecuName : Option String               -- `ecu.name` reached through `scan_run.address -> address.ecu`; none: no ECU assigned
  props : List (String × JVal)          -- top-level keys of `scan_run.properties_pre`
deriving DecidableEq, Repr

/-- `DBUDSServer(db_path, ecu, properties)` -/
structure Selector where
  ecu : Option String
  props : Option (List (String × JVal))
deriving DecidableEq, Repr

/-- `json_extract(properties_pre, '$.k')`: SQL NULL when the key is absent -/
def RunInfo.extract (ri : RunInfo) (k : String) : JVal :=
  match ri.props.find? (fun kv => kv.1 == k) with
  | some kv => kv.2
  | none => .null

/-- one `json_extract(...) = ?` / `IS NULL` conjunct; `x = NULL` is never true in SQL -/
def propMatches (ri : RunInfo) (kv : String × JVal) : Bool :=
  match kv.2 with
  | .null => ri.extract kv.1 == .null
  | v => ri.extract kv.1 == v

/-- the run-level part of the WHERE clause -/
def selects (sel : Selector) (ri : RunInfo) : Bool :=
  (match sel.ecu with
    | none => true
    | some n => ri.ecuName == some n) &&
  (match sel.props with
    | none => true
    | some ps => ps.all (propMatches ri))

/-! ### the two property columns of `scan_run` and the `DBHandler` calls that write them

`insert_scan_run` leaves `properties_pre` and `properties_post` NULL; `insert_scan_run_properties_pre` writes the first,
`complete_scan_run` the second (and nothing else).  `UDSScanner.setup` tolerates a failing / skipped write of the
pre-properties, so a completed run may have `properties_pre IS NULL`.  `json_extract(NULL, '$.k')` is SQL NULL for every key:
the WHERE clause sees such a run like one whose property object has no keys. -/

/-- `scan_run` as far as the selector is concerned: the ECU the address is assigned to and the two JSON columns (none: SQL NULL) -/
structure RunCols where
  ecuName : Option String
  pre : Option (List (String × JVal)) := none
  post : Option (List (String × JVal)) := none
deriving DecidableEq, Repr

/-- the `DBHandler` calls on an inserted scan run -/
inductive RunCall
  | insertPre (p : List (String × JVal))     -- `insert_scan_run_properties_pre`
  | complete (p : List (String × JVal))      -- `complete_scan_run`
deriving DecidableEq, Repr

def RunCols.apply (rc : RunCols) : RunCall → RunCols
  | .insertPre p => { rc with pre := some p }
  | .complete p => { rc with post := some p }

/-- `insert_scan_run` followed by the given calls -/
def RunCols.after (name : Option String) (calls : List RunCall) : RunCols := calls.foldl RunCols.apply ⟨name, none, none⟩

/-- what the WHERE clause of `respond_after_default` can see of a run: only `properties_pre`; NULL extracts to NULL for every key -/
def RunCols.info (rc : RunCols) : RunInfo := ⟨rc.ecuName, rc.pre.getD []⟩

/-! ### the `state` column: JSON of `ECUState.__dict__`, matched key by key

`ECU._request` logs `json.dumps(self.state.__dict__)`: for the plain `ECUState` the keys `session` and
`security_access_level`, for an OEM subclass whatever further attributes it keeps.  `DBUDSServer.respond_after_default`
does not compare the column as a whole: for every key of *its own* `self.state.__dict__` it adds
`json_extract(r.state, '$.key') = ?` - or `... IS NULL` when its value is `None`.  So a key only the row has is ignored, and
a key only the server has matches exactly when the server's value is `None`. -/

/-- top-level keys of a JSON object, in document order (`json.dumps` of a dict never repeats a key) -/
abbrev JObj := List (String × JVal)

/-- `json_extract(obj, '$.k')`: SQL NULL when the key is absent or holds JSON null -/
def jget (o : JObj) (k : String) : JVal :=
  match o.find? (fun kv => kv.1 == k) with
  | some kv => kv.2
  | none => .null

/-- one `json_extract(r.state, '$.k') = ?` / `IS NULL` conjunct -/
def keyMatches (row : JObj) (kv : String × JVal) : Bool :=
  match kv.2 with
  | .null => jget row kv.1 == .null
  | v => jget row kv.1 == v

/-- the state part of the WHERE clause: one conjunct per key of the *server's* state -/
def stateMatch (srv row : JObj) : Bool := srv.all (keyMatches row)

/-- `ECUState().__dict__` (key order as the attributes are assigned in `__init__`; regenerated: `Gen.C12Server.stateKeys`) -/
def St.toJson (st : St) : JObj :=
  [("session", .num st.session),
   ("security_access_level", match st.sec with | none => .null | some l => .num l)]

/-- the `ECUState` a logged state object stands for, as far as a server in a plain `ECUState` can tell: `session` must be a
    non-negative integer, `security_access_level` an integer, null or absent; further keys do not matter -/
def decodeSt (row : JObj) : Option St :=
  match jget row "session" with
  | .num n =>
    if 0 ≤ n then
      match jget row "security_access_level" with
      | .null => some ⟨n.toNat, none⟩
      | .num l => some ⟨n.toNat, some l⟩
      | _ => none
    else none
  | _ => none

/-- a `scan_result` row together with its run -/
structure DbRow where
  id : Nat
  run : RunInfo
  state : JObj             -- top-level keys of the `state` column
  req : Bytes
  resp : Option Bytes
deriving DecidableEq, Repr

/-- the row as a server in a plain `ECUState` sees it (`state_match_keywise`: matching key by key against the server's
    two keys is equality with the decoded state; a state object that does not decode matches no server state) -/
def DbRow.view (sel : Selector) (r : DbRow) : Row :=
  match decodeSt r.state with
  | some st => ⟨r.id, selects sel r.run, st, r.req, r.resp⟩
  | none => ⟨r.id, false, St.default, r.req, r.resp⟩

/-- the replaying server started with selector `sel` on database `db` -/
def replayDb (sel : Selector) (db : List DbRow) (reqs : List Bytes) : List (Option Bytes) :=
  replayAll (db.map (DbRow.view sel)) {} reqs

/-- what the recorder writes for run `ri` -/
def recordDb (ri : RunInfo) (id0 : Nat) (st : St) : List Exch → List DbRow
  | [] => []
  | x :: xs => ⟨id0, ri, st.toJson, x.req, x.resp⟩ :: recordDb ri (id0 + 1) (clientUpdate st x.resp) xs

/-- what an OEM subclass of `ECU` writes whose state class keeps further attributes: every exchange comes with the extra
    keys logged with it (they follow the two standard keys: `super().__init__()` runs first) -/
def recordDbX (ri : RunInfo) (id0 : Nat) (st : St) : List (Exch × JObj) → List DbRow
  | [] => []
  | x :: xs => ⟨id0, ri, st.toJson ++ x.2, x.1.req, x.1.resp⟩ :: recordDbX ri (id0 + 1) (clientUpdate st x.1.resp) xs

/-- final client state after a history -/
def clientFinal : St → List Exch → St
  | st, [] => st
  | st, x :: xs => clientFinal (clientUpdate st x.resp) xs

end Gallia.Replay
