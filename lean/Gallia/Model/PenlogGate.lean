/-
  C17 — the level gates between a logging call and the log file (writer side of `gallia.log`).

  A run configures logging with `setup_logging(level, ..., logger_name)` (the console level: `get_log_level(verbose)`),
  then `add_zst_log_handler("gallia", path, file_log_level)` (`get_file_log_level(config)`: DEBUG, TRACE with
  `--trace-log`).  A record logged on a logger passes
    1. `Logger.isEnabledFor`: `manager.disable < levelno` and `getEffectiveLevel() <= levelno`, where the effective
       level is the first level other than NOTSET (0) on the chain logger, parent, ..., and `setup_logging` sets the
       level of its logger to the catch-all 1 *whatever the console level is*;
    2. the `QueueHandler` (level NOTSET) and the `QueueListener(respect_handler_level=True)` in front of the
       `_ZstdFileHandler`, whose level is the file level.
  The console handler has its own level and its own queue: it does not take part.
  Core Lean only (linked into the driver).
-/
namespace Gallia.Penlog

/-- `Logger.getEffectiveLevel`: the first level other than NOTSET on the chain logger, parent, ..., root -/
def effectiveLevel : List Nat → Nat
  | [] => 0
  | l :: rest => if l = 0 then effectiveLevel rest else l

/-- the level `setup_logging(level, ...)` gives its logger: the catch-all 1, whatever the console level -/
def setupLoggerLevel (_console : Nat) : Nat := 1

/-- `gallia.utils.get_log_level(verbose)` -/
def consoleLevelOf (verbose : Nat) : Nat := if verbose = 1 then 10 else if verbose = 2 then 5 else 20

/-- `gallia.utils.get_file_log_level(args)`: `trace_log` where the attribute exists, otherwise `verbose >= 2` -/
def fileLevelOf (traceLog : Option Bool) (verbose : Option Nat) : Nat :=
  match traceLog, verbose with
  | some t, _ => if t then 5 else 10
  | none, some v => if 2 ≤ v then 5 else 10
  | none, none => 10

/-- the levels on the chain of a logger `depth` generations below the one `setup_logging` configured
    (`get_logger` leaves new loggers at NOTSET) -/
def chainOf (console depth : Nat) : List Nat := List.replicate depth 0 ++ [setupLoggerLevel console]

/-- does a record of level `lv`, logged `depth` loggers below the configured one, reach the file -/
def reachesFile (console fileLv depth lv : Nat) : Bool :=
  decide (0 < lv) && decide (effectiveLevel (chainOf console depth) ≤ lv) && decide (fileLv ≤ lv)

/-- the logged records `(depth, level)` that are written to the file, in order -/
def fileRecords (console fileLv : Nat) (logged : List (Nat × Nat)) : List (Nat × Nat) :=
  logged.filter (fun r => reachesFile console fileLv r.1 r.2)

/-- per logged record: is it written to the file (what the driver prints; `fileRecords` keeps the flagged ones) -/
def fileFlags (console fileLv : Nat) (logged : List (Nat × Nat)) : List Bool :=
  logged.map (fun r => reachesFile console fileLv r.1 r.2)

end Gallia.Penlog
