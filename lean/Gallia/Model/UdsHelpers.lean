import Gallia.Model.UdsMatch
/-
  C03 — the helper functions of `services/uds/helpers.py` the scanners use to interpret replies:

      suggests_service_not_supported(x)        x a response object or a bare response code
      suggests_sub_function_not_supported(x)
      suggests_identifier_not_supported(x)     all three: `_suggests_not_supported(x, [codes])`
      raise_for_error(response)                raises the UnexpectedNegativeResponse subclass registered for the code of a
                                               NegativeResponse (ValueError when it carries no trigger_request), returns otherwise
      raise_for_mismatch(request, response)    raises RequestResponseMismatch unless `response.matches(request)`

  The code lists are proved equal to the lists regenerated from the AST of helpers.py; the exception table is a parameter
  (the theorems instantiate it with the table regenerated from the live `_CONCRETE_EXCEPTIONS`).
  Core Lean only (linked into the `c03` driver).
-/
namespace Gallia.UdsHelpers
open Gallia Gallia.UdsReq Gallia.UdsResp Gallia.UdsMatch

/-- serviceNotSupported, serviceNotSupportedInActiveSession -/
def serviceCodes : List Nat := [0x11, 0x7F]
/-- … + subFunctionNotSupported, subFunctionNotSupportedInActiveSession -/
def subFunctionCodes : List Nat := [0x11, 0x7F, 0x12, 0x7E]
/-- … + requestOutOfRange -/
def identifierCodes : List Nat := [0x11, 0x7F, 0x12, 0x7E, 0x31]

/-- the argument of a `suggests_*` helper: `UDSResponse | UDSErrorCodes` -/
inductive Arg
  | resp (x : Resp)
  | code (c : Nat)
deriving Repr

/-- `_suggests_not_supported(arg, codes)` -/
def suggests (codes : List Nat) : Arg → Bool
  | .resp (.neg _ nrc) => codes.contains nrc.toNat
  | .resp _ => false
  | .code c => codes.contains c

def suggestsService := suggests serviceCodes
def suggestsSubFunction := suggests subFunctionCodes
def suggestsIdentifier := suggests identifierCodes

/-- how `raise_for_error` ends -/
inductive Raise
  | returns                              -- not a negative response
  | valueError                           -- negative response without trigger_request
  | keyError                             -- no class registered for the code (never for a decoded reply: `raise_for_error_exact`)
  | raises (cls : String) (code : Nat)   -- the registered class and its RESPONSE_CODE
deriving DecidableEq, Repr

/-- `raise_for_error(x)` where `x.trigger_request = trigger`, over the NRC -> exception-class table `tbl` -/
def raiseForError (tbl : List (Nat × String × Nat)) (trigger : Option Req) : Resp → Raise
  | .neg _ nrc =>
    match trigger with
    | none => .valueError
    | some _ =>
      match tbl.find? (fun e => e.1 == nrc.toNat) with
      | some e => .raises e.2.1 e.2.2
      | none => .keyError
  | _ => .returns

/-- `raise_for_mismatch(q, x)` raises -/
def raisesForMismatch (q : Req) (x : Resp) : Bool := !«matches» x q

end Gallia.UdsHelpers
