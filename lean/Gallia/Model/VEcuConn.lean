import Gallia.Model.VEcuHist
import Gallia.Model.Lines
/-
  C14 - one whole connection to the virtual ECU, end to end.

  Server side: `TCPUDSServerTransport.handle_client` (src/gallia/services/uds/server.py)

      while True:
          try:
              line = await reader.readline()
              if not line.endswith(b"\n"): break                       # EOF (possibly in the middle of a line)
              tcp_request = line.decode("ascii").strip()               # UnicodeDecodeError
              uds_request_raw = unhexlify(tcp_request)                 # binascii.Error (odd length, foreign character)
              uds_response_raw, response_time = await self.handle_request(uds_request_raw)   # whatever respond raises
              response_times.append(response_time)
              if uds_response_raw is not None:
                  writer.write(hexlify(uds_response_raw) + b"\n")
                  await writer.drain()
          except Exception: ...; break
      ... sum(response_times) / len(response_times) ...               # ZeroDivisionError when nothing was served

  composed with the concrete virtual ECU (`VEcu.vecuHandleSE`: inactivity rule, `parse_dynamic`, rule chain, typed
  handlers, `update_state`, suppression) on one side and with the client's line layer (`LinesTransportMixin.write /
  read` = C19's `Lines.enc` / `Lines.readLine`) followed by the client's acceptance test (`helpers.parse_pdu` = C03's
  `parsePdu` through `VEcu.clientVerdict`) on the other.

  Core Lean only (linked into the `c14` driver).
-/
namespace Gallia.VEcuConn
open Gallia Gallia.Server Gallia.VEcu Gallia.Lines

/-- the things that end the connection loop - the ones the code names -/
inductive EndCause
  /-- `readline()` returned bytes that do not end in a newline: the peer closed (`break`) -/
  | eof
  /-- `line.decode("ascii")` or `unhexlify` raised (`UnicodeDecodeError`, `binascii.Error`): `except Exception: break` -/
  | badLine
  /-- `handle_request` raised: `except Exception: break` -/
  | raised (c : Crash)
  /-- `readline()` raised `ValueError` ("Separator is found, but chunk is longer than limit"): the newline came after
      more than `limit` bytes of the `StreamReader`: `except Exception: break` -/
  | tooLong
deriving DecidableEq, Repr

/-- the loop of one `handle_client` call -/
structure Conn where
  /-- server state and `last_time_active` -/
  ts : TState
  /-- `none`: the loop is at `await reader.readline()`, still serving -/
  ended : Option EndCause := none
  /-- `len(response_times)` -/
  served : Nat := 0
  /-- the `limit` of the connection's `StreamReader` (what `run()` passes to `asyncio.start_server`; default 2 ** 16) -/
  limit : Nat := 65536
deriving DecidableEq, Repr

def Conn.alive (c : Conn) : Bool := c.ended.isNone

/-- a new connection to a server whose transport was created at `t0` -/
def Conn.opened (t0 : Nat) (limit : Nat := 65536) : Conn := { ts := ⟨SrvState.init, t0⟩, limit := limit }

/-- `if uds_response_raw is not None: writer.write(hexlify(uds_response_raw) + b"\n")` -/
def lineOf : Option Server.Resp → Bytes
  | some x => enc x.pdu
  | none => []

/-- one pass of the loop over a complete line `l ++ "\n"` (`l`: what precedes the newline), with the two clock reads of
    `handle_request` and the random decisions of the handler call; returns the loop and what was written -/
def serveLine (m : Model) (c : Conn) (l : Bytes) (start stop : Nat) (o : Orc) : Conn × Bytes :=
  if !c.alive then (c, []) else
  if l.length > c.limit then ({ c with ended := some .tooLong }, []) else
  match decodeLine l with
  | .msg b =>
    match vecuHandleSE allOn m c.ts ⟨start, stop, b, o⟩ with
    | (ts', .ok _ reply) =>
      ({ c with ts := ts', served := c.served + 1 }, lineOf reply)
    | (ts', .crash cr) => ({ c with ts := ts', ended := some (.raised cr) }, [])
  | _ => ({ c with ended := some .badLine }, [])

/-- `readline()` returns at end of stream (with or without an unterminated tail) -/
def serveEof (c : Conn) : Conn := if c.alive then { c with ended := some .eof } else c

/-- the statement after the loop divides by `len(response_times)` -/
def Conn.epilogueRaises (c : Conn) : Bool := c.served == 0

/-- what reaches the server's `readline()` -/
inductive Event
  | line (l : Bytes) (start stop : Nat) (orc : Orc)
  | eof (tail : Bytes)

def stepConn (m : Model) (c : Conn) : Event → Conn × Bytes
  | .line l s t o => serveLine m c l s t o
  | .eof _ => (serveEof c, [])

/-- a whole event history: the loop afterwards and everything written -/
def runConn (m : Model) (c : Conn) : List Event → Conn × Bytes
  | [] => (c, [])
  | e :: rest =>
    let (c', w) := stepConn m c e
    let (c'', w') := runConn m c' rest
    (c'', w ++ w')

/-- what an event does to a serving loop: `none` = it keeps serving -/
def Event.endCause (limit : Nat) : Event → Option EndCause
  | .eof _ => some .eof
  | .line l _ _ _ =>
    if l.length > limit then some .tooLong else
    match decodeLine l with
    | .msg [] => some (.raised .index)     -- an empty (or all-whitespace) line: `request.service_id` of `b""`
    | .msg _ => none
    | _ => some .badLine

/-! ### the client on the other end -/

/-- what `client.request` ends with -/
inductive CRes
  | accepted (y : UdsResp.Resp)     -- `parse_pdu` returned the response object
  | mismatch                        -- RequestResponseMismatch
  | malformed                       -- MalformedResponse
  | timeout                         -- no complete line: `asyncio.wait_for(readline(), timeout)` expires, nothing consumed
  | closed                          -- end of stream
  | badLine                         -- a line that is not hex text
deriving DecidableEq, Repr

/-- `LinesTransportMixin.read` on a reader holding `rbuf` (peer still connected), then `helpers.parse_pdu` against
    the request that was sent -/
def clientRead (rbuf : Bytes) (request : Bytes) : CRes × Bytes :=
  match readLine rbuf false with
  | (.msg reply, rest) =>
    (match clientVerdict reply request with
     | .accepted y => .accepted y
     | .mismatch => .mismatch
     | .malformed => .malformed, rest)
  | (.pending, rest) => (.timeout, rest)
  | (.eos, rest) => (.closed, rest)
  | (.bad, rest) => (.badLine, rest)

/-- both ends and the two byte streams between them -/
structure Sys where
  conn : Conn
  /-- sent by the client, not yet consumed by the server's `readline()` -/
  sbuf : Bytes := []
  /-- written by the server, not yet consumed by the client's `readline()` -/
  rbuf : Bytes := []
deriving DecidableEq, Repr

def Sys.opened (t0 : Nat) (limit : Nat := 65536) : Sys := { conn := Conn.opened t0 limit }

/-- the server consumes one complete line of its stream, if there is one -/
def serverPump (m : Model) (c : Conn) (sbuf : Bytes) (start stop : Nat) (o : Orc) : Conn × Bytes × Bytes :=
  match cutLine sbuf with
  | none => (c, [], sbuf)
  | some (l, rest) =>
    let (c', w) := serveLine m c l start stop o
    (c', w, rest)

/-- `client.request(bytes)`: `write` = `hexlify(bytes) + "\n"` into the server's stream, the server's loop runs,
    `read` + `parse_pdu` on what came back -/
def exchange (m : Model) (s : Sys) (q : CItem) : Sys × CRes :=
  let (c', w, srest) := serverPump m s.conn (s.sbuf ++ enc q.bytes) q.start q.stop q.orc
  let (r, rrest) := clientRead (s.rbuf ++ w) q.bytes
  (⟨c', srest, rrest⟩, r)

def runExchanges (m : Model) (s : Sys) : List CItem → Sys × List CRes
  | [] => (s, [])
  | q :: rest =>
    let (s', r) := exchange m s q
    let (s'', rs) := runExchanges m s' rest
    (s'', r :: rs)

/-- the reply `handle_request` returns for `q` on connection `c` -/
def serverReply (m : Model) (c : Conn) (q : CItem) : Option (Option Server.Resp) :=
  match (vecuHandleSE allOn m c.ts q).2 with
  | .ok _ reply => some reply
  | .crash _ => none

/-- lower-case hex digit (what `hexlify` emits) -/
def isLowerHex (c : UInt8) : Bool := (48 ≤ c.toNat && c.toNat ≤ 57) || (97 ≤ c.toNat && c.toNat ≤ 102)

end Gallia.VEcuConn
