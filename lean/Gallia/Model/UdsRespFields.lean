import Gallia.Model.UdsResp
/-
  C02 — the leaves fields of EVERY response class, as one table.

    * `Pos`       — how one attribute leaf of a parsed response object is located in the received bytes (the rule language
                    of `gen/c02_fields.py`, which probes the live classes with marker PDUs on every run);
    * `layoutOf`  — the table class → [(attribute leaf, Pos)], one row list per registry entry; `fieldRows` is proved equal
                    to the regenerated `Gen.C02Fields.fieldTable` in `Proofs/C02.lean`;
    * `evalPos`   — the ISO position slice a rule stands for;
    * `fieldsAt`  — class name → bytes → field valuation, driven by the table only (it never looks at `decodeResp`);
    * `leaves`   — the attribute leaves of a decoded object (`Resp`), independent of the table.
  `every_field_at_its_position` (Proofs/C02.lean): for every byte string `decodeResp` accepts as class `c`,
  `fieldsAt c b = leaves r`.

  Leaf names: `a` a scalar attribute, `a#` the length of a list / tuple / fixed-size dict, `a[i]` its items,
  `a.key[i]` / `a.val[i]` the entries of a fixed-size dict, `a{}` a dict whose entries follow the length of the PDU.
-/
namespace Gallia.UdsResp
open Gallia

inductive Pos
  | int (off w : Nat)          -- big-endian integer of bytes off .. off+w-1
  | enum (off w : Nat)         -- the same, leaves as an IntEnum member
  | optint (off w : Nat)       -- the same, `None` exactly when the PDU ends before `off`
  | rest (off : Nat)           -- all bytes from `off`
  | intLo (off : Nat)          -- big-endian integer at `off`, width = low nibble of byte 1
  | intHi (off : Nat)          -- big-endian integer at `off`, width = high nibble of byte 1
  | intHiAfterLo (off : Nat)   -- big-endian integer at `off + low nibble of byte 1`, width = high nibble of byte 1
  | recs (off w : Nat)         -- records (w-byte key, 1-byte value) from `off` to the end
  | len (n : Nat)              -- a container of exactly n items
deriving DecidableEq, Repr

inductive FVal
  | int (n : Nat) | none | bytes (b : Bytes) | recs (l : List (Nat × Nat))
deriving DecidableEq, Repr

/-- the row the translator emits for a rule: (how, offset, width) -/
def Pos.row : Pos → String × Nat × Nat
  | .int o w => ("int", o, w) | .enum o w => ("enum", o, w) | .optint o w => ("optint", o, w)
  | .rest o => ("rest", o, 0) | .intLo o => ("intLo", o, 0) | .intHi o => ("intHi", o, 0)
  | .intHiAfterLo o => ("intHiAfterLo", o, 0) | .recs o w => ("recs", o, w) | .len n => ("len", n, 0)

def slice (b : Bytes) (off w : Nat) : Bytes := (b.drop off).take w

/-- byte 1 (the format byte of the memory / transfer services) -/
def nib (b : Bytes) : Nat := (b.getD 1 0).toNat

def recsFuel (w : Nat) : Nat → Bytes → List (Nat × Nat)
  | 0, _ => []
  | f + 1, b =>
    if b.length < w + 1 then [] else (fromBE (b.take w), (b.getD w 0).toNat) :: recsFuel w f (b.drop (w + 1))

/-- consecutive (w-byte big-endian key, 1-byte value) records -/
def recsAt (w : Nat) (b : Bytes) : List (Nat × Nat) := recsFuel w b.length b

/-- the ISO position slice a rule stands for -/
def evalPos (b : Bytes) : Pos → FVal
  | .int o w => .int (fromBE (slice b o w))
  | .enum o w => .int (fromBE (slice b o w))
  | .optint o w => if b.length ≤ o then .none else .int (fromBE (slice b o w))
  | .rest o => .bytes (b.drop o)
  | .intLo o => .int (fromBE (slice b o (nib b % 16)))
  | .intHi o => .int (fromBE (slice b o (nib b / 16)))
  | .intHiAfterLo o => .int (fromBE (((b.drop o).drop (nib b % 16)).take (nib b / 16)))
  | .recs o w => .recs (recsAt w (b.drop o))
  | .len n => .int n

/-- the table: attribute leaves of every class (sorted by leaf name, as the translator emits them) -/
def layoutOf (e : Entry) : List (String × Pos) :=
  match e.kind with
  | .neg => [("request_service_id", .int 1 1), ("response_code", .enum 2 1)]
  | .dsc => [("diagnostic_session_type", .int 1 1), ("session_parameter_record", .rest 2), ("sub_function", .int 1 1)]
  | .ecuReset => [("power_down_time", .optint 2 1), ("reset_type", .int 1 1), ("sub_function", .int 1 1)]
  | .secAccess => [("security_access_type", .int 1 1), ("security_seed", .rest 2), ("sub_function", .int 1 1)]
  | .commCtrl => [("control_type", .int 1 1), ("sub_function", .int 1 1)]
  | .testerPresent => [("sub_function", .int 1 1)]
  | .ctrlDTC => [("dtc_setting_type", .int 1 1), ("sub_function", .int 1 1)]
  | .rdbi => [("data_identifiers#", .len 1), ("data_identifiers[0]", .int 1 2), ("data_records#", .len 1),
      ("data_records[0]", .rest 3)]
  | .rmba => [("data_record", .rest 1)]
  | .dddi =>
    -- the identifier is optional only where the class's minimal length admits a PDU without it
    [("dynamically_defined_data_identifier", if e.minLen ≤ 2 then .optint 2 2 else .int 2 2), ("sub_function", .enum 1 1)]
  | .wdbi => [("data_identifier", .int 1 2)]
  | .wmba => [("address_and_length_format_identifier", .int 1 1), ("memory_address", .intLo 2), ("memory_size", .intHiAfterLo 2)]
  | .clearDTC => []
  | .dtcCount => [("dtc_count", .int 4 2), ("dtc_format_identifier", .enum 3 1), ("dtc_status_availability_mask", .int 2 1),
      ("sub_function", .enum 1 1)]
  | .dtcList => [("dtc_and_status_record{}", .recs 3 3), ("dtc_status_availability_mask", .int 2 1), ("sub_function", .enum 1 1)]
  | .dtcExt => [("dtc_and_status_record#", .len 2), ("dtc_and_status_record[0]", .int 2 3), ("dtc_and_status_record[1]", .int 5 1),
      ("dtc_ext_data_records#", .len 1), ("dtc_ext_data_records.key[0]", .int 6 1), ("dtc_ext_data_records.val[0]", .rest 7),
      ("sub_function", .enum 1 1)]
  | .iocbi => [("control_status_record", .rest 3), ("data_identifier", .int 1 2)]
  | .routine => [("routine_control_type", .enum 1 1), ("routine_identifier", .int 2 2), ("routine_status_record", .rest 4),
      ("sub_function", .enum 1 1)]
  | .upDownload => [("length_format_identifier", .int 1 1), ("max_number_of_block_length", .intHi 2)]
  | .transferData => [("block_sequence_counter", .int 1 1), ("transfer_response_parameter_record", .rest 2)]
  | .transferExit => [("transfer_response_parameter_record", .rest 1)]

/-- the table in the shape the translator emits it -/
def fieldRows : List (String × List (String × String × Nat × Nat)) :=
  registry.map fun e => (e.cls, (layoutOf e).map fun p => (p.1, p.2.row))

/-- field valuation of the received bytes under one entry's rows -/
def fieldsOf (e : Entry) (b : Bytes) : List (String × FVal) := (layoutOf e).map fun p => (p.1, evalPos b p.2)

/-- class → bytes → field valuation (ISO position slices), driven by the table -/
def fieldsAt (cls : String) (b : Bytes) : Option (List (String × FVal)) :=
  (registry.find? (fun e => e.cls == cls)).map fun e => fieldsOf e b

def optU8 : Option UInt8 → FVal
  | none => .none
  | some p => .int p.toNat

def optNat : Option Nat → FVal
  | none => .none
  | some p => .int p

/-- the attribute leaves of a decoded object (what gallia's typed response exposes), named as in the code -/
def leaves : Resp → List (String × FVal)
  | .neg sid nrc => [("request_service_id", .int sid.toNat), ("response_code", .int nrc.toNat)]
  | .dsc ty rec => [("diagnostic_session_type", .int ty.toNat), ("session_parameter_record", .bytes rec),
      ("sub_function", .int ty.toNat)]
  | .ecuReset ty pdt => [("power_down_time", optU8 pdt), ("reset_type", .int ty.toNat), ("sub_function", .int ty.toNat)]
  | .secAccess ty seed => [("security_access_type", .int ty.toNat), ("security_seed", .bytes seed), ("sub_function", .int ty.toNat)]
  | .commCtrl ty => [("control_type", .int ty.toNat), ("sub_function", .int ty.toNat)]
  | .testerPresent => [("sub_function", .int 0)]
  | .ctrlDTC ty => [("dtc_setting_type", .int ty.toNat), ("sub_function", .int ty.toNat)]
  | .rdbi did rec => [("data_identifiers#", .int 1), ("data_identifiers[0]", .int did), ("data_records#", .int 1),
      ("data_records[0]", .bytes rec)]
  | .rmba rec => [("data_record", .bytes rec)]
  | .dddi sub did => [("dynamically_defined_data_identifier", optNat did), ("sub_function", .int sub.toNat)]
  | .wdbi did => [("data_identifier", .int did)]
  | .wmba alfid addr size => [("address_and_length_format_identifier", .int alfid.toNat), ("memory_address", .int addr),
      ("memory_size", .int size)]
  | .clearDTC => []
  | .dtcCount sub mask fmt count => [("dtc_count", .int count), ("dtc_format_identifier", .int fmt.toNat),
      ("dtc_status_availability_mask", .int mask.toNat), ("sub_function", .int sub.toNat)]
  | .dtcList sub mask recs => [("dtc_and_status_record{}", .recs (recs.map fun p => (p.1, p.2.toNat))),
      ("dtc_status_availability_mask", .int mask.toNat), ("sub_function", .int sub.toNat)]
  | .dtcExt dtc status recnum data => [("dtc_and_status_record#", .int 2), ("dtc_and_status_record[0]", .int dtc),
      ("dtc_and_status_record[1]", .int status.toNat), ("dtc_ext_data_records#", .int 1),
      ("dtc_ext_data_records.key[0]", .int recnum.toNat), ("dtc_ext_data_records.val[0]", .bytes data), ("sub_function", .int 6)]
  | .iocbi did rec => [("control_status_record", .bytes rec), ("data_identifier", .int did)]
  | .routine sub rid rec => [("routine_control_type", .int sub.toNat), ("routine_identifier", .int rid),
      ("routine_status_record", .bytes rec), ("sub_function", .int sub.toNat)]
  | .upDownload _ lfid maxLen => [("length_format_identifier", .int lfid.toNat), ("max_number_of_block_length", .int maxLen)]
  | .transferData ctr rec => [("block_sequence_counter", .int ctr.toNat), ("transfer_response_parameter_record", .bytes rec)]
  | .transferExit rec => [("transfer_response_parameter_record", .bytes rec)]
  | .rawPos _ => []

/-! ### the class-level entry points: `<Response>.from_pdu` and `<PositiveResponse>.parse_static`

  `from_pdu` on a class = that class's `_check_pdu` (length gate, response service id, sub-function gates) and then its
  `_from_pdu` - what the typed helpers of the client and `parse_static` callers run, without the registry dispatch. -/

/-- `Cls.from_pdu(b)` for the registry class `e` -/
def fromPduE (e : Entry) (b : Bytes) : Except Reject Resp :=
  match lenGate e b with
  | .error r => .error r
  | .ok () =>
    match b with
    | [] => .error .empty
    | s :: _ =>
      if s.toNat ≠ e.rsid then .error .format          -- "Service ID mismatch" / "Not a negative response"
      else match subGate e b with
        | .error r => .error r
        | .ok () => parseKind e.kind b

/-- `from_pdu` by class name (`none`: not a class of the registry) -/
def fromPdu (cls : String) (b : Bytes) : Option (Except Reject Resp) :=
  (registry.find? (fun e => e.cls == cls)).map fun e => fromPduE e b

/-- the registry row of `NegativeResponse` -/
def negEntry : Entry := ⟨"NegativeResponse", .neg, 0x7F, false, none, false, 3, some 3⟩

/-- `Cls.parse_static(b)`: a first byte 7F goes to `NegativeResponse.from_pdu`, everything else to `Cls.from_pdu` -/
def parseStaticE (e : Entry) (b : Bytes) : Except Reject Resp :=
  match b with
  | [] => .error .empty
  | s :: _ => if s = 0x7F then fromPduE negEntry b else fromPduE e b

def parseStatic (cls : String) (b : Bytes) : Option (Except Reject Resp) :=
  (registry.find? (fun e => e.cls == cls)).map fun e => parseStaticE e b

end Gallia.UdsResp
