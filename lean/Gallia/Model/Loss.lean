import Gallia.Lib.Bytes
import Gallia.Lib.Framing
import Gallia.Model.Lines
import Gallia.Model.Doip
import Gallia.Model.Hsfz
import Gallia.Model.Client
/-
  C08 — connection loss on the four stream transports, composed with the UDS client's retry / reconnect loop.

  A *scenario* (`Scn`) says what the peer of connection #0 still delivers in answer to the first request (`pre`, an
  arbitrary byte string: any cut point of any reply stream), how the connection then ends (`Cut`: the peer closes,
  resets, or just goes silent), when (`delta` ms after the request reached the peer; `none` = while the connection was
  idle, before the request), and for how long the peer then refuses new connections (`restart`).

  The transports differ in a handful of places only, captured by `Proto` (what the reader side queues from the bytes
  received, how a write finds its acknowledgement and a read its message - these are the C19 / C06 / C07 models:
  `Lines.readLine`, `Doip.classify` + `DoipFifo.findSplit`, `Hsfz.items` + `Hsfz.scan`) and by `Kind`:

    lines : write never waits; read = `readline()`: buffered complete lines are handed out also after EOF, then `b""`
            (`eos`); after a reset `readline()` raises at once (the exception is tested before the buffer).
    doip  : write waits for the ACK (2 s); the reader task closes the connection when the stream ends, a closed
            connection refuses every new read / write (`_is_closed` is tested before the queue) and - repaired - wakes a
            consumer that is blocked on the queue.
    hsfz  : write waits for the ACK (`ack_timeout`); when the stream ends the reader task leaves an end-of-stream marker
            behind what is queued (repaired): queued frames are still handed out, then `BrokenPipeError`; `_closed` is
            only set by `close()` (no ACK in time, error control word).

  Time is virtual milliseconds.  Core Lean only (linked into the `c08` driver).
-/
namespace Gallia.Loss
open Gallia Gallia.Framing

inductive Cut
  | eof | reset | silence
deriving DecidableEq, Repr

inductive Kind
  | lines | doip | hsfz
deriving DecidableEq, Repr

/-- what a consumer finds in the queue -/
inductive Take (Q α : Type)
  | hit (x : α) (q : Q)           -- the awaited item; queue afterwards
  | miss (q : Q)                  -- not there: the consumer blocks; `q` = queue once the wait is given up
  | err (closes : Bool) (q : Q)   -- an item that ends the wait with a ConnectionError (negative ack, error control word)
  | bad (q : Q)                   -- a complete line that is not hex text (binascii.Error; lines only)

structure Proto (Q : Type) where
  kind : Kind
  ackTime : Nat                        -- 0 for the line transports
  parse : Bytes → Q                    -- what the reader side makes of the bytes received on a fresh connection
  takeAck : Bytes → Q → Take Q Unit    -- `_read_ack(request)`
  takeData : Q → Take Q Bytes          -- `read()`
  payloads : Q → List Bytes            -- specification side: payloads of the completely received messages

/-- result of a pending transport operation -/
inductive PRes
  | data (d : Bytes)   -- read() returned a message
  | wrote              -- write() returned
  | timeout            -- the caller's TimeoutError
  | connErr            -- ConnectionError (BrokenPipeError, ConnectionResetError, …)
  | eos                -- read() returned b"" (explicit end-of-stream; lines)
  | badLine            -- binascii.Error for a complete, malformed line
  | badFd              -- OSError(EBADFD): HSFZ read() on a connection closed by close()
  | blocked            -- never returns
deriving DecidableEq, Repr

structure Scn where
  pre : Bytes
  cut : Cut
  delta : Option Nat
  restart : Nat
deriving Repr

/-- connection #0 -/
structure Conn (Q : Type) where
  q : Q
  fresh : Bool      -- the peer has not seen a request yet (nothing of `pre` delivered, event not scheduled)
  ended : Bool      -- the stream has ended (EOF / reset seen by the reader side)
  closed : Bool     -- `_is_closed` / `_closed`
  te : Nat          -- time of the loss event (meaningful once not fresh, or when lost while idle)

variable {Q : Type}

/-- the stream ends: DoIP's reader task closes the connection -/
def Conn.finishEnd (P : Proto Q) (c : Conn Q) : Conn Q :=
  { c with ended := true, closed := c.closed || P.kind == .doip }

/-- connection #0 right after `connect()`; `lostAt` = the connection was lost at that time while idle -/
def Conn.init (P : Proto Q) (sc : Scn) (lostAt : Nat) : Conn Q :=
  let c : Conn Q := { q := P.parse [], fresh := true, ended := false, closed := false, te := lostAt }
  if sc.delta.isNone && sc.cut != .silence then c.finishEnd P else c

/-- the first request reaches the peer: `pre` is delivered and the event is scheduled -/
def arm (P : Proto Q) (sc : Scn) (c : Conn Q) (now : Nat) : Conn Q :=
  if c.ended || sc.delta.isNone then { c with fresh := false }
  else { c with fresh := false, q := P.parse sc.pre, te := now + sc.delta.getD 0 }

/-- an operation that starts after the event finds the stream ended -/
def sync (P : Proto Q) (sc : Scn) (c : Conn Q) (now : Nat) : Conn Q :=
  if !c.fresh && !c.ended && sc.cut != .silence && sc.delta.isSome && c.te < now then c.finishEnd P else c

/-- what a read that meets the end of the stream gives -/
def endRes (P : Proto Q) (sc : Scn) : PRes :=
  if P.kind == .lines && sc.cut == .eof then .eos else .connErr

/-- is an event still to come that wakes a blocked consumer -/
def willEnd (sc : Scn) (c : Conn Q) : Bool := !c.fresh && !c.ended && sc.cut != .silence && sc.delta.isSome

/-- `transport.write(req, tmo)` on connection #0 at time `now` -/
def opWrite (P : Proto Q) (sc : Scn) (c : Conn Q) (now : Nat) (req : Bytes) (tmo : Option Nat) : PRes × Nat × Conn Q :=
  let c := if c.fresh then arm P sc c now else sync P sc c now
  if c.closed then (.connErr, now, c)                              -- closed writer: drain() raises
  else if c.ended && sc.cut == .reset then (.connErr, now, c)      -- drain() raises the reader's exception
  else if P.kind == .lines then (.wrote, now, c)
  else
    match P.takeAck req c.q with
    | .hit _ q => (.wrote, now, { c with q })
    | .err cl q => (.connErr, now, { c with q, closed := c.closed || cl })
    | .bad q => (.connErr, now, { c with q })
    | .miss q =>
      let c := { c with q }
      if c.ended then (.connErr, now, c)                           -- end-of-stream marker
      else
        let dl := match tmo with | some t => min t P.ackTime | none => P.ackTime
        if willEnd sc c && c.te < now + dl then (.connErr, max c.te now, c.finishEnd P)   -- woken by the marker
        else match tmo with
          | some t => if t < P.ackTime then (.timeout, now + t, c)
                      else (.connErr, now + P.ackTime, { c with closed := true })        -- no ack: close()
          | none => (.connErr, now + P.ackTime, { c with closed := true })

/-- `transport.read(tmo)` on connection #0 at time `now` -/
def opRead (P : Proto Q) (sc : Scn) (c : Conn Q) (now : Nat) (tmo : Option Nat) : PRes × Nat × Conn Q :=
  let c := sync P sc c now
  if c.closed then ((if P.kind == .hsfz then .badFd else .connErr), now, c)
  else if c.ended && sc.cut == .reset && P.kind == .lines then (.connErr, now, c)
  else
    match P.takeData c.q with
    | .hit d q => (.data d, now, { c with q })
    | .err cl q => (.connErr, now, { c with q, closed := c.closed || cl })
    | .bad q => (.badLine, now, { c with q })
    | .miss q =>
      let c := { c with q }
      if c.ended then (endRes P sc, now, c)
      else if willEnd sc c && (match tmo with | some t => decide (c.te < now + t) | none => true)
        then (endRes P sc, max c.te now, c.finishEnd P)
      else match tmo with
        | some t => (.timeout, now + t, c)
        | none => (.blocked, now, c)

/-- `transport.request_unsafe(req, tmo)`: write, then read with the same timeout -/
def opRequest (P : Proto Q) (sc : Scn) (c : Conn Q) (now : Nat) (req : Bytes) (tmo : Option Nat) : PRes × Nat × Conn Q :=
  match opWrite P sc c now req tmo with
  | (.wrote, t, c1) => opRead P sc c1 t tmo
  | r => r

/-! ### the world: connection #0, the listener, healthy connections after the restart -/

structure World (Q : Type) where
  c0 : Conn Q
  cur : Nat                  -- index of the connection the transport holds (0 = the cut one)
  inbox : List Bytes         -- replies of the healthy connection not yet read
  conns : Nat                -- connections accepted so far
  lostAt : Option Nat        -- time of the loss event once known
  now : Nat
  tclosed : Bool             -- transport-level `close()` was called on the transport currently held
  sent : List (Nat × Nat)    -- (connection index, time) of every request transmission

/-- the listener: up before the event and again `restart` ms after it -/
def accepts (sc : Scn) (w : World Q) (t : Nat) : Bool :=
  match w.lostAt with
  | none => true
  | some l => decide (t < l) || decide (l + sc.restart ≤ t)

/-- the reply of healthy connection `idx` -/
abbrev Reply := Nat → Bytes

def World.init (P : Proto Q) (sc : Scn) (lostAt : Nat) : World Q :=
  { c0 := Conn.init P sc lostAt, cur := 0, inbox := [], conns := 1,
    lostAt := if sc.delta.isNone then some lostAt else none, now := 0, tclosed := false, sent := [] }

/-- `transport.request_unsafe` in the world -/
def wRequest (P : Proto Q) (sc : Scn) (rp : Reply) (w : World Q) (req : Bytes) (tmo : Option Nat) : PRes × World Q :=
  let w := { w with sent := w.sent ++ [(w.cur, w.now)] }
  if w.cur = 0 then
    let fresh := w.c0.fresh
    let r := opRequest P sc w.c0 w.now req tmo
    let lostAt := if fresh && w.lostAt.isNone then some (w.now + sc.delta.getD 0) else w.lostAt
    (r.1, { w with c0 := r.2.2, now := r.2.1, lostAt })
  else
    -- healthy: acknowledged and answered at once
    match w.inbox ++ [rp w.cur] with
    | d :: rest => (.data d, { w with inbox := rest })
    | [] => (.connErr, w)

/-- `transport.read(tmo)` in the world -/
def wRead (P : Proto Q) (sc : Scn) (w : World Q) (tmo : Option Nat) : PRes × World Q :=
  if w.cur = 0 then
    let r := opRead P sc w.c0 w.now tmo
    (r.1, { w with c0 := r.2.2, now := r.2.1 })
  else
    match w.inbox with
    | d :: rest => (.data d, { w with inbox := rest })
    | [] => match tmo with
      | some t => (.timeout, { w with now := w.now + t })
      | none => (.blocked, w)

inductive Rc (Q : Type)
  | ok (w : World Q)
  | refused (w : World Q)    -- ConnectionRefusedError leaves `reconnect()`
  | timedOut (w : World Q)   -- TimeoutError of the 10 s reconnect window (DoIP)

/-- `asyncio.sleep(0.1)` between two connection attempts of `BaseTransport.reconnect` -/
def pollStep : Nat := 100

/-- DoIP: one attempt every 100 ms -/
def poll (sc : Scn) (w : World Q) : Nat → Nat → Option Nat
  | t, 0 => if accepts sc w t then some t else none
  | t, n+1 => if accepts sc w t then some t else poll sc w (t + pollStep) n

/-- `DoIPTransport.reconnect`: `10 if timeout is None` -/
def doipWindow : Nat := 10000

/-- `transport.reconnect()`: close, then connect once (lines, HSFZ) or every 100 ms for 10 s (DoIP) -/
def wReconnect (P : Proto Q) (sc : Scn) (w : World Q) : Rc Q :=
  let fresh (t : Nat) : World Q := { w with cur := w.conns, conns := w.conns + 1, inbox := [], now := t, tclosed := false,
                                            c0 := { w.c0 with closed := true } }
  if P.kind == .doip then
    match poll sc w w.now (doipWindow / pollStep - 1) with
    | some t => .ok (fresh t)
    | none => .timedOut { w with now := w.now + doipWindow, tclosed := true, c0 := { w.c0 with closed := true } }
  else if accepts sc w w.now then .ok (fresh w.now)
  else .refused { w with tclosed := true, c0 := { w.c0 with closed := true } }

/-- `transport.close()`: never raises (repaired: also not after a reset), idempotent -/
def wClose (w : World Q) : World Q :=
  { w with tclosed := true, c0 := if w.cur = 0 then { w.c0 with closed := true } else w.c0 }

/-! ### the UDS client on top (`UDSClient.request_unsafe`, same shape as `Client.attempts`) -/

open Gallia.Client (Ev Limits)

inductive Out
  | reply (d : Bytes)
  | missing (cause : Bool)
  | illegal (d : Bytes)
  | stuck
  | rcRefused              -- the ConnectionError of a failed reconnect leaves request()
  | rcTimeout              -- the TimeoutError of the reconnect window leaves request()
  | blocked                -- never returns
  | other (r : PRes)       -- an exception outside the property's vocabulary leaves request()
deriving DecidableEq, Repr

structure CCfg where
  maxRetry : Nat
  tmo : Option Nat      -- effective request timeout
  lim : Limits
deriving Repr

def CCfg.toClient (c : CCfg) (lat : Nat) : Client.Cfg :=
  { maxRetry := c.maxRetry, timeout := c.tmo.getD 0, lat, lim := c.lim }

def maxNT (c : CCfg) : Nat := Client.maxNT (c.toClient 0)
def wait (c : CCfg) (i : Nat) : Nat := c.lim.retryWait * c.lim.base ^ i

inductive PRes2 (Q : Type)
  | done (o : Out) (w : World Q)
  | silence (w : World Q)
  | lost (w : World Q)

/-- the `while resp is pending` loop -/
def pendLoop (P : Proto Q) (sc : Scn) (cls : Bytes → Ev) (c : CCfg) (w : World Q) (np nt : Nat) : PRes2 Q :=
  match wRead P sc w (some c.lim.waiting) with
  | (.timeout, w1) =>
    if h : maxNT c ≤ nt + 1 then .silence w1 else pendLoop P sc cls c w1 np (nt + 1)
  | (.connErr, w1) | (.eos, w1) => .lost w1
  | (.data d, w1) =>
    match cls d with
    | .pending => if h : c.lim.maxPending ≤ np + 1 then .done .stuck w1 else pendLoop P sc cls c w1 (np + 1) 0
    | .mismatch | .malformed => .done (.illegal d) w1
    | _ => .done (.reply d) w1
  | (.blocked, w1) => .done .blocked w1
  | (r, w1) => .done (.other r) w1
termination_by (c.lim.maxPending - np, maxNT c - nt)
decreasing_by
  · simp_wf; right; omega
  · simp_wf; left; omega

/-- after a lost connection in attempt `i`: backoff and reconnect when a retry is left -/
def afterLoss (P : Proto Q) (sc : Scn) (c : CCfg) (i : Nat) (w : World Q) : Rc Q :=
  if i < c.maxRetry then wReconnect P sc { w with now := w.now + wait c i } else .ok w

inductive Step (Q : Type)
  | fin (o : Out) (w : World Q)                 -- request() returns / raises
  | next (w : World Q) (last : Out)             -- `continue` with the next attempt

def Step.ofRc : Rc Q → Step Q
  | .ok w => .next w (.missing true)
  | .refused w => .fin .rcRefused w
  | .timedOut w => .fin .rcTimeout w

/-- backoff sleep after a retry-worthy fault that needs no reconnect -/
def backoff (c : CCfg) (i : Nat) (w : World Q) : World Q :=
  if i < c.maxRetry then { w with now := w.now + wait c i } else w

/-- the body of `for i in range(max_retry + 1)` -/
def attemptStep (P : Proto Q) (sc : Scn) (rp : Reply) (cls : Bytes → Ev) (c : CCfg) (req : Bytes)
    (w : World Q) (i : Nat) (last : Out) : Step Q :=
  match wRequest P sc rp w req c.tmo with
  | (.timeout, w1) => .next (backoff c i w1) (.missing false)
  | (.connErr, w1) | (.eos, w1) => Step.ofRc (afterLoss P sc c i w1)
  | (.data d, w1) =>
    match cls d with
    | .busy => if c.maxRetry ≤ i then .fin (.reply d) w1 else .next (backoff c i w1) last
    | .mismatch | .malformed => .fin (.illegal d) w1
    | .pending =>
      match pendLoop P sc cls c w1 1 0 with
      | .done o w2 => .fin o w2
      | .silence w2 => .next w2 (.missing false)
      | .lost w2 => Step.ofRc (afterLoss P sc c i w2)
    | _ => .fin (.reply d) w1
  | (.blocked, w1) => .fin .blocked w1
  | (r, w1) => .fin (.other r) w1

def attempts (P : Proto Q) (sc : Scn) (rp : Reply) (cls : Bytes → Ev) (c : CCfg) (req : Bytes)
    (w : World Q) (i : Nat) (last : Out) : Out × World Q :=
  if _h : c.maxRetry < i then (last, w)
  else
    match attemptStep P sc rp cls c req w i last with
    | .fin o w1 => (o, w1)
    | .next w1 l => attempts P sc rp cls c req w1 (i + 1) l
termination_by c.maxRetry + 1 - i
decreasing_by omega

/-- one `UDSClient.request()` -/
def lossRun (P : Proto Q) (sc : Scn) (rp : Reply) (cls : Bytes → Ev) (c : CCfg) (req : Bytes) (w : World Q) : Out × World Q :=
  attempts P sc rp cls c req w 0 (.missing false)

/-! ### the three protocols -/

/-- the messages of the newline-terminated lines of a buffer that decode (`fuel` > number of lines) -/
def linePayloads : Nat → Bytes → List Bytes
  | 0, _ => []
  | fuel+1, buf =>
    match Lines.cutLine buf with
    | none => []
    | some (l, rest) =>
      (match Lines.decodeLine l with | .msg m => [m] | _ => []) ++ linePayloads fuel rest

/-- tcp-lines / unix-lines: the queue is the StreamReader buffer; C19's `readLine` cuts and decodes one line -/
def linesProto : Proto Bytes where
  kind := .lines
  ackTime := 0
  parse := id
  takeAck := fun _ q => .hit () q
  takeData := fun buf =>
    match Lines.readLine buf false with
    | (.msg m, rest) => .hit m rest
    | (.bad, rest) => .bad rest
    | (_, rest) => .miss rest
  payloads := fun buf => linePayloads (buf.length + 1) buf

/-- the frames the DoIP reader task queues from a byte string (C06 `cut` / `classify`) -/
def doipQueue (pre : Bytes) : List Doip.Frame :=
  ((parseAll Doip.doipCutter pre).1.map Doip.classify).filterMap fun | .q f => some f | _ => none

def doipProto (cfg : Doip.Cfg) : Proto (List Doip.Frame) where
  kind := .doip
  ackTime := Doip.ackTimeoutMs
  parse := doipQueue
  takeAck := fun req q =>
    match DoipFifo.findSplit (Doip.ackMatch cfg req) q with
    | none => .miss q
    | some (pre, .ackNeg _ _ code _, post) =>
      if code = Doip.nackTargetUnreachable then .hit () (DoipFifo.requeueFront pre post)
      else .err false (DoipFifo.requeueFront pre post)
    | some (pre, _, post) => .hit () (DoipFifo.requeueFront pre post)
  takeData := fun q =>
    match DoipFifo.findSplit (Doip.isDiagFor cfg) q with
    | none => .miss q
    | some (pre, f, post) => .hit f.userData (DoipFifo.requeueFront pre post)
  payloads := fun q => (q.filter (Doip.isDiagFor cfg)).map Doip.Frame.userData

/-- the items the HSFZ reader task queues from a byte string (C07 `cutWire` / `dispatch`) -/
def hsfzQueue (pre : Bytes) : List Hsfz.Item := Hsfz.items (parseAll Hsfz.hsfzCutter pre).1

def hsfzProto (cfg : Hsfz.Cfg) : Proto (List Hsfz.Item) where
  kind := .hsfz
  ackTime := cfg.ackTimeout
  parse := hsfzQueue
  takeAck := fun req q =>
    match Hsfz.scan (Hsfz.ackMatches cfg req) [] q with
    | .more sk => .miss sk
    | .hit _ rest sk => .hit () (sk ++ rest)
    | .err _ rest sk => .err true (sk ++ rest)
  takeData := fun q =>
    match Hsfz.scan (Hsfz.dataMatches cfg) [] q with
    | .more _ => .miss []
    | .hit x rest sk => .hit x.payload (rest ++ sk)
    | .err _ rest _ => .err true rest
  payloads := fun q => Hsfz.dataOf cfg q

end Gallia.Loss
