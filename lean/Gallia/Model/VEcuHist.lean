import Gallia.Model.VEcu
/-
  C13 / C14 - whole request histories of the virtual ECU with the two clock reads of
  `UDSServerTransport.handle_request` (`start = time()` before the inactivity test, `end = time()` after the answer,
  `last_time_active = end`), the trace of a history (what each request was answered in which state), and the
  *specification* of the session / security state over a history as "the last event that has an effect decides".

  Core Lean only (linked into the `c13` and `c14` drivers).
-/
namespace Gallia.Server
open Gallia

/-- `UDSServerTransport.handle_request`: `start` is read first and compared with `last_time_active` (strictly more than
    ten seconds: state reset), `stop` is read after `respond` returned and stored. An exception leaves the (possibly
    reset) state and `last_time_active` as they are. -/
def handleSE (b : Behavior) (m : Model) (h : Handler) (ts : TState) (start stop : Nat) (r : Req) : TState × Outcome :=
  let st0 := if start - ts.lastActive > idleLimit then ts.st.reset else ts.st
  match respond b m h st0 r with
  | .ok st' reply => (⟨st', stop⟩, .ok st' reply)
  | .crash c => (⟨st0, ts.lastActive⟩, .crash c)

/-- one request of a history: the two clock reads, the handler of that call (its random decisions), the request -/
structure HItem where
  start : Nat
  stop : Nat
  h : Handler
  req : Req

def runH (b : Behavior) (m : Model) (ts : TState) : List HItem → TState
  | [] => ts
  | i :: rest => runH b m (handleSE b m i.h ts i.start i.stop i.req).1 rest

/-- what happened at one request -/
structure Step where
  /-- the inactivity rule fired before the request was looked at -/
  idle : Bool
  /-- the state the request was answered in -/
  pre : SrvState
  item : HItem
  /-- answer of `respond_without_state_change` (before `update_state` and suppression) -/
  ans : Pre

def stepOf (b : Behavior) (m : Model) (ts : TState) (i : HItem) : Step :=
  let idle := decide (i.start - ts.lastActive > idleLimit)
  let st0 := if idle then ts.st.reset else ts.st
  ⟨idle, st0, i, respondNoState b m i.h st0 i.req⟩

def traceH (b : Behavior) (m : Model) (ts : TState) : List HItem → List Step
  | [] => []
  | i :: rest => stepOf b m ts i :: traceH b m (handleSE b m i.h ts i.start i.stop i.req).1 rest

/-! ### specification: events and their effects -/

/-- the events that can touch the state: the inactivity rule, an answer (sent or suppressed) -/
inductive Ev
  | idle
  | ans (x : Resp)
deriving DecidableEq, Repr

def Step.events (s : Step) : List Ev :=
  (if s.idle then [Ev.idle] else []) ++ (match s.ans with | .resp x => [Ev.ans x] | _ => [])

/-- the last event with an effect decides; without one the initial value stays -/
def lastEff {α : Type} (eff : Ev → Option α) (init : α) (evs : List Ev) : α :=
  (evs.reverse.findSome? eff).getD init

/-- session: a positive DiagnosticSessionControl reply activates its session; a positive ECUReset reply and the
    inactivity rule return to the default session; nothing else -/
def sessEff : Ev → Option Sess
  | .idle => some 1
  | .ans (.dsc t _) => some t
  | .ans (.reset _) => some 1
  | _ => none

/-- security level: set by a positive SecurityAccess reply of even type `t` (sendKey) to `t - 1`; cleared by a positive
    DiagnosticSessionControl reply, a positive ECUReset reply, the inactivity rule; nothing else -/
def levelEff : Ev → Option (Option Int)
  | .idle => some none
  | .ans (.dsc ..) => some none
  | .ans (.reset _) => some none
  | .ans (.sa t _) => if t % 2 = 0 then some (some ((t : Int) - 1)) else none
  | _ => none

/-- pending seed: a positive SecurityAccess reply becomes the pending one (a seed request replaces the pending seed; a
    positive key reply leaves its own seedless reply); TesterPresent keeps it; every other answer - a rejected key,
    any other positive or negative reply - and the inactivity rule clear it -/
def seedEff : Ev → Option (Option (Nat × Bytes))
  | .idle => some none
  | .ans .tp => none
  | .ans (.sa t s) => some (some (t, s))
  | .ans _ => some none

def specState (init : SrvState) (evs : List Ev) : SrvState :=
  ⟨lastEff sessEff init.session evs, lastEff levelEff init.level evs, lastEff seedEff init.lastSA evs⟩

end Gallia.Server

namespace Gallia.VEcu
open Gallia Gallia.Server

/-- one request of a history of the concrete virtual ECU: clock reads, request bytes, the oracle of the handler call -/
structure CItem where
  start : Nat
  stop : Nat
  bytes : Bytes
  orc : Orc

def CItem.toH (c : CItem) : HItem := ⟨c.start, c.stop, vecuHandler c.orc, mkReq c.bytes⟩

/-- `UDSServerTransport.handle_request` of the concrete server under behaviour `b` -/
def vecuHandleSE (b : Behavior) (m : Model) (ts : TState) (c : CItem) : TState × Outcome :=
  handleSE b m (vecuHandler c.orc) ts c.start c.stop (mkReq c.bytes)

def vecuRunSE (b : Behavior) (m : Model) (ts : TState) (hist : List CItem) : TState :=
  runH b m ts (hist.map CItem.toH)

def vecuTrace (b : Behavior) (m : Model) (ts : TState) (hist : List CItem) : List Step :=
  traceH b m ts (hist.map CItem.toH)

/-- length of what goes on the wire -/
def replyLen (x : Server.Resp) : Nat := x.pdu.length

end Gallia.VEcu
