import Gallia.Model.Loss
/-
  C08 — whole executions.  `Model/Loss.lean` covers ONE exchange on connection #0 and healthy connections afterwards;
  here the peer is a *script*: an arbitrary list of events

    client calls : `request d tmo` (UDSClient.request with max_retry = n), `close`, `reconnect`
    peer events  : `deliver bytes` (any bytes, i.e. any cut point of any frame, on the connection the transport holds),
                   `cut eof | reset | silence`, `up` / `down` (the listener accepts / refuses new connections),
                   `serve (some bytes)` (from now on every request written to a live connection is answered at once with
                   these bytes), `ra on/off` (DoIP: the routing activation request of a new connection is answered / lost),
                   `advance ms`

  The list is one global time line.  A client call starts when its event is reached; while it waits (for an
  acknowledgement, a reply, the end of a backoff sleep, the next poll of the reconnect window) it consumes the peer
  events that follow, in order, `advance` moving the clock; the peer events left over when it returns happen while the
  client is idle.  A wait that meets the next client event (or the end of the list) before it is satisfied sees silence
  until its deadline (one client task).  A deadline that falls inside an `advance` splits it.

  The per-operation rules of the three transports are those of `Model/Loss.lean` (`opWrite` / `opRead`), restated over a
  connection whose queue grows by `push` as bytes arrive (the C19 / C06 / C07 framing models cut the frames).
  Connection set-up is part of the model: a refused TCP connect, DoIP routing activation that is not answered (2 s
  `RoutingActivationResponseTimeout`, then the next poll of the 10 s window), the listener coming back during the window.

  Core Lean only (linked into the `c08` driver).
-/
namespace Gallia.LossSys
open Gallia Gallia.Framing Gallia.Loss
open Gallia.Client (Ev Limits)

structure SProto (Q : Type) extends Proto Q where
  /-- queue and buffered incomplete tail after more bytes arrived; `true` = the reader task died on them (DoIP: a frame
      that does not unpack) -/
  push : Q → Bytes → Bytes → Q × Bytes × Bool

inductive PEv
  | deliver (b : Bytes)
  | cut (k : Cut)
  | up | down
  | serve (b : Option Bytes)
  | ra (on : Bool)
  | advance (ms : Nat)
deriving Repr

inductive SEv
  | peer (e : PEv)
  | request (d : Bytes) (tmo : Option Nat)
  | close
  | reconnect
  | read (tmo : Option Nat)      -- `transport.read(tmo)` (drains a backlog of unconsumed frames)
deriving Repr

/-- the connection the transport holds -/
structure PConn (Q : Type) where
  idx : Nat
  q : Q
  rem : Bytes
  ended : Option Cut
  closed : Bool

structure Sys (Q : Type) where
  now : Nat
  up : Bool
  serve : Option Bytes
  raOn : Bool
  conn : PConn Q
  nconn : Nat                        -- connections accepted so far
  wire : List (Nat × Nat × Bytes)    -- (connection index, time, request) of every request written
  refusals : Nat                     -- connection attempts refused so far
  ties : Nat                         -- deadlines that fell exactly on the time of a peer event (order not modelled)

variable {Q : Type}

def PConn.live (c : PConn Q) : Bool := !c.closed && c.ended.isNone
def PConn.streamEnded (c : PConn Q) : Bool := c.ended == some .eof || c.ended == some .reset

def PConn.fresh (P : SProto Q) (idx : Nat) : PConn Q :=
  { idx, q := P.parse [], rem := [], ended := none, closed := false }

def Sys.init (P : SProto Q) : Sys Q :=
  { now := 0, up := true, serve := none, raOn := true, conn := PConn.fresh P 0, nconn := 1, wire := [], refusals := 0, ties := 0 }

def PConn.feed (P : SProto Q) (c : PConn Q) (b : Bytes) : PConn Q :=
  let r := P.push c.q c.rem b
  { c with q := r.1, rem := r.2.1, closed := c.closed || r.2.2, ended := if r.2.2 then some .eof else c.ended }

def applyPeer (P : SProto Q) (s : Sys Q) : PEv → Sys Q
  | .deliver b => if s.conn.live then { s with conn := s.conn.feed P b } else s
  | .cut k =>
    if s.conn.live then
      { s with conn := { s.conn with ended := some k, closed := k != .silence && P.kind == .doip } }
    else s
  | .up => { s with up := true }
  | .down => { s with up := false }
  | .serve b => { s with serve := b }
  | .ra on => { s with raOn := on }
  | .advance ms => { s with now := s.now + ms }

inductive Wake
  | ready | timeout | never
deriving DecidableEq, Repr

/-- block until `ready` holds or the deadline passes, consuming the peer events that follow -/
def await (P : SProto Q) (ready : Sys Q → Bool) (dl : Option Nat) (s : Sys Q) : List SEv → Wake × Sys Q × List SEv
  | [] =>
    if ready s then (.ready, s, [])
    else match dl with
      | some t => (.timeout, { s with now := max s.now t }, [])
      | none => (.never, s, [])
  | e :: es =>
    if ready s then (.ready, s, e :: es)
    else match e with
      | .peer (.advance ms) =>
        (match dl with
          | some t =>
            if t ≤ s.now + ms then
              (.timeout, { s with now := max s.now t, ties := if t = s.now + ms then s.ties + 1 else s.ties },
               .peer (.advance (s.now + ms - max s.now t)) :: es)
            else await P ready dl { s with now := s.now + ms } es
          | none => await P ready dl { s with now := s.now + ms } es)
      | .peer pe => await P ready dl (applyPeer P s pe) es
      | _ =>
        (match dl with
          | some t => (.timeout, { s with now := max s.now t }, e :: es)
          | none => (.never, s, e :: es))

/-- `asyncio.sleep(ms)` -/
def sleep (P : SProto Q) (ms : Nat) (s : Sys Q) (es : List SEv) : Sys Q × List SEv :=
  (await P (fun _ => false) (some (s.now + ms)) s es).2

inductive Try (Q : Type)
  | done (r : PRes) (c : PConn Q)
  | wait (c : PConn Q)

/-- the part of `write()` after the bytes went out, without waiting -/
def tryAck (P : SProto Q) (req : Bytes) (c : PConn Q) : Try Q :=
  if c.closed then .done .connErr c
  else if c.ended == some .reset then .done .connErr c
  else if P.kind == .lines then .done .wrote c
  else
    match P.takeAck req c.q with
    | .hit _ q => .done .wrote { c with q }
    | .err cl q => .done .connErr { c with q, closed := c.closed || cl }
    | .bad q => .done .connErr { c with q }
    | .miss q => if c.ended == some .eof then .done .connErr { c with q } else .wait { c with q }

def endOf (P : SProto Q) (c : PConn Q) : PRes :=
  if P.kind == .lines && c.ended == some .eof then .eos else .connErr

/-- `read()` without waiting -/
def tryRead (P : SProto Q) (c : PConn Q) : Try Q :=
  if c.closed then .done (if P.kind == .hsfz then .badFd else .connErr) c
  else if c.ended == some .reset && P.kind == .lines then .done .connErr c
  else
    match P.takeData c.q with
    | .hit d q => .done (.data d) { c with q }
    | .err cl q => .done .connErr { c with q, closed := c.closed || cl }
    | .bad q => .done .badLine { c with q }
    | .miss q => if c.streamEnded then .done (endOf P c) { c with q } else .wait { c with q }

def ackReady (P : SProto Q) (req : Bytes) (s : Sys Q) : Bool :=
  match tryAck P req s.conn with | .wait _ => false | .done .. => true

def readReady (P : SProto Q) (s : Sys Q) : Bool :=
  match tryRead P s.conn with | .wait _ => false | .done .. => true

/-- the request goes out on the connection held; a serving peer answers a live connection at once -/
def putWire (P : SProto Q) (s : Sys Q) (req : Bytes) : Sys Q :=
  let s := { s with wire := s.wire ++ [(s.conn.idx, s.now, req)] }
  match s.serve with
  | some b => if s.conn.live then { s with conn := s.conn.feed P b } else s
  | none => s

def closeConn (s : Sys Q) : Sys Q := { s with conn := { s.conn with closed := true } }

/-- `transport.write(req, tmo)` -/
def opWrite (P : SProto Q) (s : Sys Q) (es : List SEv) (req : Bytes) (tmo : Option Nat) : PRes × Sys Q × List SEv :=
  let s := putWire P s req
  match tryAck P req s.conn with
  | .done r c => (r, { s with conn := c }, es)
  | .wait c =>
    let s := { s with conn := c }
    let dl := s.now + (match tmo with | some t => min t P.ackTime | none => P.ackTime)
    match await P (ackReady P req) (some dl) s es with
    | (.ready, s1, es1) =>
      (match tryAck P req s1.conn with
        | .done r c => (r, { s1 with conn := c }, es1)
        | .wait c => (.connErr, { s1 with conn := c }, es1))
    | (_, s1, es1) =>
      (match tmo with
        | some t => if t < P.ackTime then (.timeout, s1, es1) else (.connErr, closeConn s1, es1)   -- no ack: close()
        | none => (.connErr, closeConn s1, es1))

/-- `transport.read(tmo)` -/
def opRead (P : SProto Q) (s : Sys Q) (es : List SEv) (tmo : Option Nat) : PRes × Sys Q × List SEv :=
  match tryRead P s.conn with
  | .done r c => (r, { s with conn := c }, es)
  | .wait _ =>
    -- the items the waiting read has skipped come back when it finds its message; they are gone when it is cancelled
    match await P (readReady P) (tmo.map (s.now + ·)) s es with
    | (.ready, s1, es1) =>
      (match tryRead P s1.conn with
        | .done r c => (r, { s1 with conn := c }, es1)
        | .wait c => (.connErr, { s1 with conn := c }, es1))
    | (.timeout, s1, es1) =>
      -- what arrived during the wait and did not match was looked at (HSFZ: and dropped) by the waiting read
      (match tryRead P s1.conn with
        | .wait c => (.timeout, { s1 with conn := c }, es1)
        | .done .. => (.timeout, s1, es1))
    | (.never, s1, es1) => (.blocked, s1, es1)

/-- `transport.request_unsafe` -/
def opRequest (P : SProto Q) (s : Sys Q) (es : List SEv) (req : Bytes) (tmo : Option Nat) : PRes × Sys Q × List SEv :=
  match opWrite P s es req tmo with
  | (.wrote, s1, es1) => opRead P s1 es1 tmo
  | r => r

/-! ### connection set-up -/

inductive RcRes
  | ok | refused | timedOut
deriving DecidableEq, Repr

def accept (P : SProto Q) (s : Sys Q) : Sys Q :=
  { s with conn := PConn.fresh P s.nconn, nconn := s.nconn + 1 }

def refuse (s : Sys Q) : Sys Q := { s with refusals := s.refusals + 1 }

/-- DoIP `reconnect(10)`: one attempt every 100 ms until the window ends; an attempt whose routing activation is not
    answered costs `RoutingActivationResponseTimeout` -/
def doipPoll (P : SProto Q) (wend : Nat) : Nat → Sys Q → List SEv → RcRes × Sys Q × List SEv
  | 0, s, es => (.timedOut, s, es)
  | fuel+1, s, es =>
    if wend ≤ s.now then (.timedOut, s, es)
    else if s.up then
      let old := s.conn
      let s := accept P s
      if s.raOn then (.ok, s, es)
      else
        -- the routing activation request is not answered: the new connection is given up, the transport keeps the old one
        let r := await P (fun x => x.conn.closed || x.conn.streamEnded) (some (min (s.now + Doip.raTimeoutMs) wend)) s es
        let s1 := { r.2.1 with conn := old }
        if wend ≤ s1.now then (.timedOut, s1, r.2.2)
        else
          let r2 := await P (fun _ => false) (some (min (s1.now + pollStep) wend)) s1 r.2.2
          doipPoll P wend fuel r2.2.1 r2.2.2
    else
      let r2 := await P (fun _ => false) (some (min (s.now + pollStep) wend)) (refuse s) es
      doipPoll P wend fuel r2.2.1 r2.2.2

/-- `transport.reconnect()`: close, then connect once (lines, HSFZ) or poll for 10 s (DoIP) -/
def reconnect (P : SProto Q) (s : Sys Q) (es : List SEv) : RcRes × Sys Q × List SEv :=
  let s := closeConn s
  if P.kind == .doip then doipPoll P (s.now + doipWindow) (doipWindow / pollStep + 1) s es
  else if s.up then (.ok, accept P s, es)
  else (.refused, refuse s, es)

/-! ### the UDS client (`UDSClient.request_unsafe`) -/

structure CCfg where
  maxRetry : Nat
  lim : Limits
deriving Repr

def maxNT (lim : Limits) (tmo : Option Nat) : Nat := Client.maxNT { maxRetry := 0, timeout := tmo.getD 0, lat := 0, lim }
def waitMs (lim : Limits) (i : Nat) : Nat := lim.retryWait * lim.base ^ i

inductive PRes2 (Q : Type)
  | done (o : Out) (s : Sys Q) (es : List SEv)
  | silence (s : Sys Q) (es : List SEv)
  | lost (s : Sys Q) (es : List SEv)

/-- the `while resp is pending` loop -/
def pendLoop (P : SProto Q) (cls : Bytes → Ev) (lim : Limits) (mnt : Nat) (s : Sys Q) (es : List SEv) (np nt : Nat) : PRes2 Q :=
  match opRead P s es (some lim.waiting) with
  | (.timeout, s1, es1) =>
    if h : mnt ≤ nt + 1 then .silence s1 es1 else pendLoop P cls lim mnt s1 es1 np (nt + 1)
  | (.connErr, s1, es1) | (.eos, s1, es1) => .lost s1 es1
  | (.data [], s1, es1) => .lost s1 es1        -- `if raw_resp == b"": raise BrokenPipeError`
  | (.data d, s1, es1) =>
    match cls d with
    | .pending => if h : lim.maxPending ≤ np + 1 then .done .stuck s1 es1 else pendLoop P cls lim mnt s1 es1 (np + 1) 0
    | .mismatch | .malformed => .done (.illegal d) s1 es1
    | _ => .done (.reply d) s1 es1
  | (.blocked, s1, es1) => .done .blocked s1 es1
  | (r, s1, es1) => .done (.other r) s1 es1
termination_by (lim.maxPending - np, mnt - nt)
decreasing_by
  · simp_wf; right; omega
  · simp_wf; left; omega

inductive Step (Q : Type)
  | fin (o : Out) (s : Sys Q) (es : List SEv)
  | next (s : Sys Q) (es : List SEv) (last : Out)

/-- after a lost connection in attempt `i` (`retry` = a retry is left): backoff, then reconnect -/
def afterLoss (P : SProto Q) (lim : Limits) (retry : Bool) (i : Nat) (s : Sys Q) (es : List SEv) : Step Q :=
  if retry then
    let r := sleep P (waitMs lim i) s es
    match reconnect P r.1 r.2 with
    | (.ok, s2, es2) => .next s2 es2 (.missing true)
    | (.refused, s2, es2) => .fin .rcRefused s2 es2
    | (.timedOut, s2, es2) => .fin .rcTimeout s2 es2
  else .next s es (.missing true)

def backoff (P : SProto Q) (lim : Limits) (retry : Bool) (i : Nat) (s : Sys Q) (es : List SEv) : Sys Q × List SEv :=
  if retry then sleep P (waitMs lim i) s es else (s, es)

/-- the body of `for i in range(max_retry + 1)`; `retry` = `i < max_retry` -/
def attemptStep (P : SProto Q) (cls : Bytes → Ev) (lim : Limits) (req : Bytes) (tmo : Option Nat) (retry : Bool) (i : Nat)
    (s : Sys Q) (es : List SEv) (last : Out) : Step Q :=
  match opRequest P s es req tmo with
  | (.timeout, s1, es1) => let r := backoff P lim retry i s1 es1; .next r.1 r.2 (.missing false)
  | (.connErr, s1, es1) | (.eos, s1, es1) => afterLoss P lim retry i s1 es1
  | (.data [], s1, es1) => afterLoss P lim retry i s1 es1      -- `if raw_resp == b"": raise BrokenPipeError`
  | (.data d, s1, es1) =>
    (match cls d with
    | .busy => if retry then (let r := backoff P lim retry i s1 es1; .next r.1 r.2 last) else .fin (.reply d) s1 es1
    | .mismatch | .malformed => .fin (.illegal d) s1 es1
    | .pending =>
      (match pendLoop P cls lim (maxNT lim tmo) s1 es1 1 0 with
      | .done o s2 es2 => .fin o s2 es2
      | .silence s2 es2 => .next s2 es2 (.missing false)
      | .lost s2 es2 => afterLoss P lim retry i s2 es2)
    | _ => .fin (.reply d) s1 es1)
  | (.blocked, s1, es1) => .fin .blocked s1 es1
  | (r, s1, es1) => .fin (.other r) s1 es1

/-- attempts `i, i+1, …` with `k` retries left after attempt `i` -/
def attempts (P : SProto Q) (cls : Bytes → Ev) (lim : Limits) (req : Bytes) (tmo : Option Nat) :
    Nat → Nat → Sys Q → List SEv → Out → Out × Sys Q × List SEv
  | 0, i, s, es, last =>
    (match attemptStep P cls lim req tmo false i s es last with
    | .fin o s1 es1 => (o, s1, es1)
    | .next s1 es1 l => (l, s1, es1))
  | k+1, i, s, es, last =>
    (match attemptStep P cls lim req tmo true i s es last with
    | .fin o s1 es1 => (o, s1, es1)
    | .next s1 es1 l => attempts P cls lim req tmo k (i + 1) s1 es1 l)

/-- one `UDSClient.request()` with `max_retry = c.maxRetry` -/
def request (P : SProto Q) (cls : Bytes → Ev) (c : CCfg) (req : Bytes) (tmo : Option Nat) (s : Sys Q) (es : List SEv) :
    Out × Sys Q × List SEv :=
  attempts P cls c.lim req tmo c.maxRetry 0 s es (.missing false)

/-! ### whole executions -/

inductive Obs
  | req (o : Out) (tmo : Option Nat) (t0 t1 : Nat) (nconn : Nat)
  | closed (t : Nat)
  | rc (r : RcRes) (t0 t1 : Nat) (nconn : Nat)
  | rd (r : PRes) (tmo : Option Nat) (t0 t1 : Nat)
deriving Repr

/-- run an event list (`fuel` ≥ its length; a client call never lengthens the list) -/
def run (P : SProto Q) (cls : Bytes → Ev) (c : CCfg) : Nat → Sys Q → List SEv → List Obs → Sys Q × List Obs
  | 0, s, _, obs => (s, obs)
  | _, s, [], obs => (s, obs)
  | fuel+1, s, e :: es, obs =>
    match e with
    | .peer pe => run P cls c fuel (applyPeer P s pe) es obs
    | .close => run P cls c fuel (closeConn s) es (obs ++ [.closed s.now])
    | .reconnect =>
      let r := reconnect P s es
      run P cls c fuel r.2.1 r.2.2 (obs ++ [.rc r.1 s.now r.2.1.now r.2.1.nconn])
    | .read tmo =>
      let r := opRead P s es tmo
      let obs := obs ++ [.rd r.1 tmo s.now r.2.1.now]
      if r.1 = .blocked then (r.2.1, obs)
      else run P cls c fuel r.2.1 r.2.2 obs
    | .request d tmo =>
      let r := request P cls c d tmo s es
      let obs := obs ++ [.req r.1 tmo s.now r.2.1.now r.2.1.nconn]
      if r.1 = .blocked then (r.2.1, obs)      -- the only client task never returns
      else run P cls c fuel r.2.1 r.2.2 obs

/-! ### the three protocols -/

def linesS : SProto Bytes :=
  { linesProto with push := fun q _ b => (q ++ b, [], false) }

def doipS (cfg : Doip.Cfg) : SProto (List Doip.Frame) :=
  { doipProto cfg with
    push := fun q rem b =>
      let r := parseAll Doip.doipCutter (rem ++ b)
      let its := r.1.map Doip.classify
      let good := its.takeWhile (fun i => !i.isFatal)
      (q ++ good.filterMap (fun | .q f => some f | _ => none), r.2, its.any Doip.Item.isFatal) }

def hsfzS (cfg : Hsfz.Cfg) : SProto (List Hsfz.Item) :=
  { hsfzProto cfg with
    push := fun q rem b =>
      let r := parseAll Hsfz.hsfzCutter (rem ++ b)
      (q ++ Hsfz.items r.1, r.2, false) }

end Gallia.LossSys
