/-
  C16 — `RandomUDSServer.randomize` (src/gallia/services/uds/server.py) as a pure function of its arguments and of
  the answers of the random number generator.

  Every `rng.random() < p` of the code is the next element of a draw stream (`Oracles.draw i k`: position `i` of the
  stream, `k` names the threshold the code compares with at that call site, so that the executable wrapper can turn
  recorded floats into Booleans exactly as the code does); `rng.choice(available_sessions)` is the next element of
  `Oracles.choice`; the order in which the `for session in level_sessions` loop walks the *set* `level_sessions` is
  `Oracles.order level` (CPython's iteration order of a set of small ints is a function of the operations performed
  on it, it is recorded from the running code; the theorems hold for every order).

  The order in which draws are consumed is the code's, so a recorded draw trace replays.

  `randomize` (end of this file) is the same function with the set order no longer an oracle: `level_sessions` and
  `next_level_sessions` are `PySet`s (Model/PySet.lean, CPython's set for small ints), built by the very operations
  of the code (`{default_session}`, `set()`, `.update(list)`, `next_level_sessions - set(available_sessions)`) and
  iterated in table order.  `randomize` is a function of (arguments, draw stream, choice oracle) alone; it is an
  instance of `randomizeCore` (Proofs/Lemmas/RandomizePy.lean), so every theorem for all oracles applies to it.
  Core Lean only (linked into the `c16` driver).
-/
import Gallia.Model.PySet
namespace Gallia.Randomize

/-! ### tables read from the service registry / the enums (agreement with `Gen.C16Tables` is a proof obligation) -/

structure Tables where
  /-- ids with `_is_sub_function_service(id)` -/
  subFn : List Nat
  tp : Nat
  dsc : Nat
  sa : Nat
  rc : Nat
  dtc : Nat
  /-- `[sf.value for sf in RoutineControlSubFuncs]` -/
  routine : List Nat
  /-- `ReadDTCInformationSubFuncs.reportDTCByStatusMask` -/
  dtcSub : Nat
  /-- `range(1, 0x7E, 2)` -/
  saRange : List Nat
  /-- `range(1, 0x80, 1)` -/
  subRange : List Nat
deriving DecidableEq, Repr

def isoTables : Tables where
  subFn := [0x10, 0x11, 0x19, 0x27, 0x28, 0x2C, 0x31, 0x3E, 0x85]
  tp := 0x3E
  dsc := 0x10
  sa := 0x27
  rc := 0x31
  dtc := 0x19
  routine := [1, 2, 3]
  dtcSub := 2
  saRange := (List.range 63).map (fun k => 2 * k + 1)
  subRange := (List.range 127).map (· + 1)

/-- `session_transitions = [set() for _ in range(0x7F)]` -/
def nSessions : Nat := 0x7F
def defaultSession : Nat := 1

structure Params where
  mandatorySessions : List Nat
  optionalSessions : List Nat
  mandatoryServices : List Nat
  optionalServices : List Nat
deriving DecidableEq, Repr

/-- call sites of `rng.random() < …` -/
inductive Thr
  /-- `p_session / len(level_sessions) / 2 ** (level + 0.5)` -/
  | trans (n level : Nat)
  /-- `p_service` -/
  | service
  /-- `p_sub_function / 2` (SecurityAccess) -/
  | sa
  /-- `p_sub_function` -/
  | sub
deriving DecidableEq, Repr

structure Oracles where
  draw : Nat → Thr → Bool
  /-- index chosen by the k-th `rng.choice(available_sessions)` (taken modulo the length) -/
  choice : Nat → Nat
  /-- iteration order of `level_sessions` at a level (elements outside the level set are ignored) -/
  order : Nat → List Nat

/-! ### small sets of ints as strictly increasing lists (so `sorted(set)` is the list itself) -/

def sinsert (x : Nat) : List Nat → List Nat
  | [] => [x]
  | y :: ys => if x < y then x :: y :: ys else if x = y then y :: ys else y :: sinsert x ys

/-- `set.update(xs)` -/
def sunion (l : List Nat) (xs : List Nat) : List Nat := xs.foldl (fun acc x => sinsert x acc) l

theorem mem_sinsert {x y : Nat} {l : List Nat} : y ∈ sinsert x l ↔ y = x ∨ y ∈ l := by
  induction l with
  | nil => simp [sinsert]
  | cons z zs ih =>
    unfold sinsert
    split
    · simp
    · split
      · subst_vars; simp
      · simp [ih]; grind

theorem mem_sunion {y : Nat} {l xs : List Nat} : y ∈ sunion l xs ↔ y ∈ l ∨ y ∈ xs := by
  unfold sunion
  induction xs generalizing l with
  | nil => simp
  | cons x xs ih => simp [ih, mem_sinsert]; grind

theorem sinsert_ne_nil (x : Nat) (l : List Nat) : sinsert x l ≠ [] := by
  cases l with
  | nil => simp [sinsert]
  | cons y ys =>
    unfold sinsert
    split
    · simp
    · split <;> simp

/-- `session_transitions`: index ↦ set, as an association list (newest entry first; a missing index is the empty
    set). Indices ≥ `nSessions` do not exist in the code (IndexError); the well-formedness precondition of the
    theorems keeps every session id below it. -/
structure Trans where
  entries : List (Nat × List Nat)

def Trans.get (t : Trans) (s : Nat) : List Nat := (t.entries.lookup s).getD []

instance : CoeFun Trans (fun _ => Nat → List Nat) := ⟨Trans.get⟩

def Trans.empty : Trans := ⟨[]⟩

@[simp] theorem Trans.empty_apply (x : Nat) : Trans.empty x = [] := rfl

def upd (t : Trans) (s : Nat) (v : List Nat) : Trans := ⟨(s, v) :: t.entries⟩

theorem upd_apply (t : Trans) (s x : Nat) (v : List Nat) : upd t s v x = if x = s then v else t x := by
  show ((((s, v) :: t.entries).lookup x).getD []) = _
  rw [List.lookup_cons]
  by_cases h : x = s
  · subst h; simp
  · have : (x == s) = false := by simp [h]
    simp [this, h, Trans.get]

@[simp] theorem upd_same (t : Trans) (s : Nat) (v : List Nat) : upd t s v s = v := by simp [upd_apply]
theorem upd_other (t : Trans) {s x : Nat} (v : List Nat) (h : x ≠ s) : upd t s v x = t x := by simp [upd_apply, h]

/-- `session_transitions[s].update(xs)` -/
def addAll (t : Trans) (s : Nat) (xs : List Nat) : Trans := upd t s (sunion (t s) xs)
/-- `session_transitions[s].add(x)` -/
def add1 (t : Trans) (s : Nat) (x : Nat) : Trans := upd t s (sinsert x (t s))

theorem mem_addAll {t : Trans} {s x y : Nat} {xs : List Nat} :
    y ∈ addAll t s xs x ↔ y ∈ t x ∨ (x = s ∧ y ∈ xs) := by
  unfold addAll
  rw [upd_apply]
  split
  · subst_vars; simp [mem_sunion]
  · simp [*]

theorem mem_add1 {t : Trans} {s x y z : Nat} :
    y ∈ add1 t s z x ↔ y ∈ t x ∨ (x = s ∧ y = z) := by
  unfold add1
  rw [upd_apply]
  split
  · subst_vars; simp [mem_sinsert]; grind
  · simp [*]

/-- `[x for x in xs if rng.random() < p]`, the draws taken from position `i` on -/
def drawFilter (d : Nat → Thr → Bool) (k : Thr) (i : Nat) : List Nat → List Nat
  | [] => []
  | x :: xs => if d i k then x :: drawFilter d k (i + 1) xs else drawFilter d k (i + 1) xs

theorem mem_of_mem_drawFilter {d k i x} {xs : List Nat} (h : x ∈ drawFilter d k i xs) : x ∈ xs := by
  induction xs generalizing i with
  | nil => simp [drawFilter] at h
  | cons y ys ih =>
    unfold drawFilter at h
    split at h
    · rcases List.mem_cons.1 h with h | h
      · simp [h]
      · exact List.mem_cons_of_mem _ (ih h)
    · exact List.mem_cons_of_mem _ (ih h)

/-! ### phase 1: the level loop -/

/-- body of `for session in level_sessions:` ; state = (session_transitions, next_level_sessions, draw position) -/
def levelStep (comb : List Nat) (d : Nat → Thr → Bool) (k : Thr) :
    Trans × List Nat × Nat → Nat → Trans × List Nat × Nat
  | (t, nxt, i), s =>
    let tr := drawFilter d k i comb
    (addAll t s tr, sunion nxt tr, i + comb.length)

/-- `for session in next_level_sessions: session_transitions[session].add(default_session)` -/
def addDefault (t : Trans) (nxt : List Nat) : Trans := nxt.foldl (fun t s => add1 t s defaultSession) t

/-- one pass of the `while` body: (session_transitions, next_level_sessions, draw position) -/
def levelBody (comb : List Nat) (o : Oracles) (t : Trans) (lvl : List Nat) (level i : Nat) :
    Trans × List Nat × Nat :=
  let srcs := (o.order level).filter (fun s => lvl.contains s)
  let r := srcs.foldl (levelStep comb o.draw (.trans lvl.length level)) (t, [], i)
  (addDefault r.1 r.2.1, r.2.1, r.2.2)

/-- `next_level_sessions - set(available_sessions)` with `available_sessions` taken before the pass.
    (`s < nSessions` is implied in the code: a larger id has raised IndexError before.) -/
def nextLevel (t : Trans) (nxt : List Nat) : List Nat :=
  nxt.filter (fun s => decide (s < nSessions) && (t s).isEmpty)

/-- number of sessions that are not yet available -/
def emptyCount (t : Trans) : Nat := (List.range nSessions).countP (fun s => (t s).isEmpty)

theorem levelStep_fold_mono (comb d k) (srcs : List Nat) (st : Trans × List Nat × Nat) {x y : Nat}
    (h : y ∈ st.1 x) : y ∈ (srcs.foldl (levelStep comb d k) st).1 x := by
  induction srcs generalizing st with
  | nil => simpa using h
  | cons s ss ih =>
    simp only [List.foldl_cons]
    apply ih
    obtain ⟨t, nxt, i⟩ := st
    simp only [levelStep]
    exact mem_addAll.2 (Or.inl h)

theorem addDefault_mono (t : Trans) (nxt : List Nat) {x y : Nat} (h : y ∈ t x) : y ∈ addDefault t nxt x := by
  unfold addDefault
  induction nxt generalizing t with
  | nil => simpa using h
  | cons s ss ih => simp only [List.foldl_cons]; exact ih _ (mem_add1.2 (Or.inl h))

theorem addDefault_mem (t : Trans) (nxt : List Nat) {s : Nat} (h : s ∈ nxt) :
    defaultSession ∈ addDefault t nxt s := by
  unfold addDefault
  induction nxt generalizing t with
  | nil => simp at h
  | cons a ss ih =>
    simp only [List.foldl_cons]
    rcases List.mem_cons.1 h with h | h
    · subst h
      exact addDefault_mono _ ss (mem_add1.2 (Or.inr ⟨rfl, rfl⟩))
    · exact ih _ h

theorem countP_lt_of_imp {p q : Nat → Bool} {l : List Nat} (himp : ∀ x ∈ l, q x = true → p x = true)
    {a : Nat} (ha : a ∈ l) (hp : p a = true) (hq : q a = false) : l.countP q < l.countP p := by
  induction l with
  | nil => simp at ha
  | cons b bs ih =>
    have himp' : ∀ x ∈ bs, q x = true → p x = true := fun x hx => himp x (List.mem_cons_of_mem _ hx)
    have hle : bs.countP q ≤ bs.countP p := List.countP_mono_left himp'
    rcases List.mem_cons.1 ha with h | h
    · subst h
      simp [hp, hq]; omega
    · have := ih himp' h
      have hb := himp b (List.mem_cons_self)
      simp only [List.countP_cons]
      cases hqb : q b
      · simp; omega
      · simp [hb hqb]; omega

theorem levelBody_mono (comb o t lvl level i) {x y : Nat} (h : y ∈ t x) :
    y ∈ (levelBody comb o t lvl level i).1 x := by
  unfold levelBody
  exact addDefault_mono _ _ (levelStep_fold_mono _ _ _ _ _ h)

theorem levelBody_decreases (comb o t lvl level i)
    (h : nextLevel t (levelBody comb o t lvl level i).2.1 ≠ []) :
    emptyCount (levelBody comb o t lvl level i).1 < emptyCount t := by
  obtain ⟨s, hs⟩ := List.exists_mem_of_ne_nil _ h
  simp only [nextLevel, List.mem_filter, Bool.and_eq_true, decide_eq_true_eq] at hs
  obtain ⟨hnxt, hlt, hempty⟩ := hs
  unfold emptyCount
  apply countP_lt_of_imp (a := s)
  · intro x _ hx
    cases htx : t x with
    | nil => rfl
    | cons y ys =>
      have : y ∈ (levelBody comb o t lvl level i).1 x := levelBody_mono _ _ _ _ _ _ (by simp [htx])
      cases hb : (levelBody comb o t lvl level i).1 x with
      | nil => simp [hb] at this
      | cons _ _ => simp [hb] at hx
  · exact List.mem_range.2 hlt
  · exact hempty
  · have : defaultSession ∈ (levelBody comb o t lvl level i).1 s := by
      unfold levelBody at hnxt ⊢
      exact addDefault_mem _ _ hnxt
    cases hb : (levelBody comb o t lvl level i).1 s with
    | nil => simp [hb] at this
    | cons _ _ => rfl

/-- the `while len(level_sessions) > 0` loop (entered with a non-empty level set);
    result = (session_transitions, draw position, number of levels) -/
def levels (comb : List Nat) (o : Oracles) (t : Trans) (lvl : List Nat) (level i : Nat) : Trans × Nat × Nat :=
  let b := levelBody comb o t lvl level i
  if h : nextLevel t b.2.1 = [] then (b.1, b.2.2, level + 1)
  else levels comb o b.1 (nextLevel t b.2.1) (level + 1) b.2.2
termination_by emptyCount t
decreasing_by exact levelBody_decreases comb o t lvl level i h

/-! ### phase 2: mandatory sessions that were not drawn are attached to an available session -/

def available (t : Trans) : List Nat := (List.range nSessions).filter (fun s => !(t s).isEmpty)

/-- state = (session_transitions, number of `rng.choice` calls so far) -/
def mandStep (o : Oracles) : Trans × Nat → Nat → Trans × Nat
  | (t, c), s =>
    if (t s).isEmpty then
      let av := available t
      let src := av.getD (o.choice c % av.length) defaultSession
      (upd (add1 t src s) s [defaultSession], c + 1)
    else (t, c)

/-! ### phase 3: services and sub-functions per available session -/

abbrev SvcMap := List (Nat × Option (List Nat))
abbrev Model := List (Nat × SvcMap)

/-- `d[k] = v` on an insertion-ordered dict -/
def dictSet (m : SvcMap) (k : Nat) (v : Option (List Nat)) : SvcMap :=
  match m with
  | [] => [(k, v)]
  | (k', v') :: rest => if k' = k then (k', v) :: rest else (k', v') :: dictSet rest k v

/-- the `if self._is_sub_function_service(...)` ladder; returns the value and the new draw position -/
def subFns (tb : Tables) (d : Nat → Thr → Bool) (i : Nat) (trans : List Nat) (svc : Nat) :
    Option (List Nat) × Nat :=
  if tb.subFn.contains svc then
    if svc = tb.tp then (some [0], i)
    else if svc = tb.dsc then (some trans, i)
    else if svc = tb.sa then
      (some ((drawFilter d .sa i tb.saRange).flatMap (fun sf => [sf, sf + 1])), i + tb.saRange.length)
    else if svc = tb.rc then (some tb.routine, i)
    else if svc = tb.dtc then (some [tb.dtcSub], i)
    else (some (drawFilter d .sub i tb.subRange), i + tb.subRange.length)
  else (none, i)

def svcStep (tb : Tables) (d : Nat → Thr → Bool) (trans : List Nat) : SvcMap × Nat → Nat → SvcMap × Nat
  | (m, i), svc => let r := subFns tb d i trans svc; (dictSet m svc r.1, r.2)

def sessionStep (tb : Tables) (p : Params) (d : Nat → Thr → Bool) (t : Trans) : Model × Nat → Nat → Model × Nat
  | (m, i), s =>
    if (t s).isEmpty then (m, i)
    else
      let opt := drawFilter d .service i p.optionalServices
      let r := (p.mandatoryServices ++ opt).foldl (svcStep tb d (t s)) ([], i + p.optionalServices.length)
      (m ++ [(s, r.1)], r.2)

structure Result where
  model : Model
  /-- number of `rng.random()` calls -/
  draws : Nat
  /-- number of `rng.choice()` calls -/
  choices : Nat
  /-- number of passes of the level loop -/
  levels : Nat
deriving Repr

def initTrans : Trans := upd Trans.empty defaultSession [defaultSession]

/-- `session_transitions` at the end of phase 2, with the counters -/
def transitions (p : Params) (o : Oracles) : Trans × Nat × Nat × Nat :=
  let comb := p.mandatorySessions ++ p.optionalSessions
  let l := levels comb o initTrans [defaultSession] 0 0
  let m := p.mandatorySessions.foldl (mandStep o) (l.1, 0)
  (m.1, l.2.1, m.2, l.2.2)

def randomizeGen (tb : Tables) (p : Params) (o : Oracles) : Result :=
  let tr := transitions p o
  let r := (List.range nSessions).foldl (sessionStep tb p o.draw tr.1) ([], tr.2.1)
  { model := r.1, draws := r.2, choices := tr.2.2.1, levels := tr.2.2.2 }

/-- the function of DESIGN section 7: Boolean stream, choice oracle (and the set iteration order) -/
def randomizeCore (p : Params) (draws : Nat → Bool) (choice : Nat → Nat) (order : Nat → List Nat) : Model :=
  (randomizeGen isoTables p { draw := fun i _ => draws i, choice := choice, order := order }).model

/-! ### the same with CPython's set order computed instead of given

  Sets of `randomize` and what is observed of each:
    * `level_sessions`       : `{default_session}`, later `next_level_sessions - set(available_sessions)`; `len`, iterated
                               (the iteration order decides which draws belong to which source session)  -> `PySet`
    * `next_level_sessions`  : `set()`, `.update(transitions)` (a list), iterated (each step adds `default_session` to a
                               different `session_transitions[session]`: commutative), left operand of `-` -> `PySet`
    * `set(available_sessions)` : built from an ascending list, right operand of `-` (membership, `len`) -> `PySet`
    * `session_transitions[i]`  : `set()`, `{default_session}`, `.update(list)`, `.add`, `len`, `sorted(...)`; never
                               iterated unsorted -> order-free, kept as the strictly increasing list (`Trans`)
-/

open Gallia.PySet (PySet)

/-- body of `for session in level_sessions:` with `next_level_sessions` a CPython set -/
def levelStepPy (comb : List Nat) (d : Nat → Thr → Bool) (k : Thr) :
    Trans × PySet × Nat → Nat → Trans × PySet × Nat
  | (t, nxt, i), s =>
    let tr := drawFilter d k i comb
    (addAll t s tr, PySet.update nxt tr, i + comb.length)

/-- one pass of the `while` body; `len(level_sessions)` is `used`, the `for` loops walk the tables -/
def levelBodyPy (comb : List Nat) (d : Nat → Thr → Bool) (t : Trans) (lvl : PySet) (level i : Nat) :
    Trans × PySet × Nat :=
  let r := (PySet.toList lvl).foldl (levelStepPy comb d (.trans lvl.used level)) (t, PySet.empty, i)
  (addDefault r.1 (PySet.toList r.2.1), r.2.1, r.2.2)

/-- `next_level_sessions - set(available_sessions)` with `available_sessions` taken before the pass -/
def nextLevelPy (t : Trans) (nxt : PySet) : PySet :=
  PySet.difference nxt (PySet.ofList (available t))

/-- the `while len(level_sessions) > 0` loop, at most `fuel` passes (every pass but the last makes a session
    available, so `nSessions + 1` passes are never exhausted: `levelsPy_eq_levels`); also returns the iteration
    order of every level -/
def levelsPy (comb : List Nat) (d : Nat → Thr → Bool) :
    Nat → Trans → PySet → Nat → Nat → Trans × Nat × Nat × List (List Nat)
  | 0, t, _, level, i => (t, i, level, [])
  | fuel + 1, t, lvl, level, i =>
    let b := levelBodyPy comb d t lvl level i
    let nl := nextLevelPy t b.2.1
    if nl.used = 0 then (b.1, b.2.2, level + 1, [PySet.toList lvl])
    else
      let r := levelsPy comb d fuel b.1 nl (level + 1) b.2.2
      (r.1, r.2.1, r.2.2.1, PySet.toList lvl :: r.2.2.2)

structure ResultPy where
  model : Model
  draws : Nat
  choices : Nat
  levels : Nat
  /-- iteration order of `level_sessions` in every pass -/
  orders : List (List Nat)
deriving Repr

def noOrder (draw : Nat → Thr → Bool) (choice : Nat → Nat) : Oracles := ⟨draw, choice, fun _ => []⟩

def randomizePyGen (tb : Tables) (p : Params) (draw : Nat → Thr → Bool) (choice : Nat → Nat) : ResultPy :=
  let comb := p.mandatorySessions ++ p.optionalSessions
  let l := levelsPy comb draw (nSessions + 1) initTrans (PySet.ofList [defaultSession]) 0 0
  let m := p.mandatorySessions.foldl (mandStep (noOrder draw choice)) (l.1, 0)
  let r := (List.range nSessions).foldl (sessionStep tb p draw m.1) ([], l.2.1)
  { model := r.1, draws := r.2, choices := m.2, levels := l.2.2.1, orders := l.2.2.2 }

/-- `RandomUDSServer.randomize` as a function of the arguments, the Boolean draw stream and the choice oracle -
    nothing else -/
def randomize (p : Params) (draws : Nat → Bool) (choice : Nat → Nat) : Model :=
  (randomizePyGen isoTables p (fun i _ => draws i) choice).model

/-- the set iteration orders `randomize` goes through, as an order oracle for `randomizeCore` -/
def pyOrder (p : Params) (draws : Nat → Bool) (choice : Nat → Nat) : Nat → List Nat :=
  fun level => (randomizePyGen isoTables p (fun i _ => draws i) choice).orders.getD level []

/-- `RandomnessParameters.optional_services` default:
    `list(set(UDSIsoServices) - set(mandatory_services + [UDSIsoServices.NegativeResponse]))`
    (`all` = the enum in definition order; members hash like ints) -/
def defaultOptionalServices (all mandatory : List Nat) (negativeResponse : Nat) : List Nat :=
  PySet.toList (PySet.difference (PySet.ofList all) (PySet.ofList (mandatory ++ [negativeResponse])))

/-! ### executable well-formedness predicate (evaluated on the *implementation's* model by the harness) -/

def lookupSess (m : Model) (s : Nat) : Option SvcMap := (m.find? (fun e => e.1 == s)).map (·.2)
def lookupSvc (sm : SvcMap) (k : Nat) : Option (Option (List Nat)) := (sm.find? (fun e => e.1 == k)).map (·.2)

/-- DiagnosticSessionControl sub-functions of a session (`[]` when the service is missing) -/
def dscOf (tb : Tables) (m : Model) (s : Nat) : List Nat :=
  match lookupSess m s with
  | some sm => match lookupSvc sm tb.dsc with
    | some (some l) => l
    | _ => []
  | none => []

def offeredB (m : Model) (s : Nat) : Bool := (lookupSess m s).isSome

/-- breadth-first closure under "DSC sub-function of an offered session", `fuel` rounds -/
def reachFrom (tb : Tables) (m : Model) : Nat → List Nat → List Nat
  | 0, seen => seen
  | fuel + 1, seen =>
    let new := (seen.flatMap (dscOf tb m)).filter (fun s => offeredB m s && !seen.contains s)
    if new.isEmpty then seen else reachFrom tb m fuel (seen ++ sunion [] new)

structure WfReport where
  mandatorySessions : Bool
  mandatoryServices : Bool
  defaultPresent : Bool
  reachable : Bool
  returns : Bool
  dscAreSessions : Bool
deriving Repr, DecidableEq

def wfReport (tb : Tables) (p : Params) (m : Model) : WfReport :=
  let sessions := m.map (·.1)
  let reach := reachFrom tb m m.length [defaultSession]
  { mandatorySessions := p.mandatorySessions.all (offeredB m)
    mandatoryServices := m.all (fun e => p.mandatoryServices.all (fun k => (lookupSvc e.2 k).isSome))
    defaultPresent := offeredB m defaultSession
    reachable := offeredB m defaultSession && sessions.all (fun s => reach.contains s)
    returns := sessions.all (fun s => (dscOf tb m s).contains defaultSession)
    dscAreSessions := sessions.all (fun s => (dscOf tb m s).all (offeredB m)) }

end Gallia.Randomize
