import Gallia.Lib.Bytes
/-
  C10 — service scan (`ServicesScanner`) and identifier scan (`ScanIdentifiers`).

  The scanners talk to the ECU only through complete client exchanges (`ECU.send_raw`, `set_session`,
  `read_session`, `ecu_reset`, `ping`); an exchange is modelled by its outcome class as the scanner sees it:

    pos pdu   a positive response (the PDU is kept because `read_session` decodes it)
    neg c     a negative response with code `c`
    timeout   `MissingResponse` (a `TimeoutError`) after the client's retries
    illegal   `MalformedResponse` / `RequestResponseMismatch` (an `IllegalResponse`)

  The model follows the code (`commands/scan/uds/services.py`, `identifiers.py`, `ECU.check_and_set_session`,
  `ECU.set_session`, `ECU.leave_session`), loops as structural recursion, exceptions that the scanner does not
  catch as the result `raised`.  Configuration domain: `--reset` not given, no database, no power supply,
  session ids and identifiers within the ranges the request constructors accept.
-/
namespace Gallia.Scans
open Gallia

inductive Ans
  | pos (pdu : Bytes)
  | neg (code : Nat)
  | timeout
  | illegal
deriving DecidableEq, Repr

def Ans.isPos : Ans → Bool
  | .pos _ => true
  | _ => false

/-- an ECU as the scanner sees it: one exchange = one step -/
structure Ecu (σ : Type) where
  step : σ → Bytes → σ × Ans

/-! NRC constants (checked against the live `UDSErrorCodes` by the generated agreement theorem) -/
def SNS : Nat := 0x11        -- serviceNotSupported
def SFNS : Nat := 0x12       -- subFunctionNotSupported
def IMLOIF : Nat := 0x13     -- incorrectMessageLengthOrInvalidFormat
def ROOR : Nat := 0x31       -- requestOutOfRange
def SFNSIAS : Nat := 0x7E    -- subFunctionNotSupportedInActiveSession
def SNSIAS : Nat := 0x7F     -- serviceNotSupportedInActiveSession

def serviceNotSupportedCodes : List Nat := [SNS, SNSIAS]
def identifierNotSupportedCodes : List Nat := [SNS, SNSIAS, SFNS, SFNSIAS, ROOR]

/-- probe payload lengths of the service scan, in the order they are tried -/
def probeLengths : List Nat := [1, 2, 3, 5]

def b (n : Nat) : UInt8 := UInt8.ofNat n

def probePdu (sid len : Nat) : Bytes := b sid :: List.replicate len 0

/-- `Ranges2D`: per outer key either `none` (= everything) or a list of inner ids -/
abbrev Skip := List (Nat × Option (List Nat))

def Skip.find (sk : Skip) (k : Nat) : Option (Option (List Nat)) := (sk.find? (·.1 == k)).map (·.2)

/-- `session in skip and (skip[session] is None or id in skip[session])` -/
def skipped (sk : Skip) (session : Option Nat) (id : Nat) : Bool :=
  match session with
  | none => false
  | some s =>
    match sk.find s with
    | none => false
    | some none => true
    | some (some ids) => ids.contains id

/-- `[s for s in sessions if s not in skip or skip[s] is not None]` -/
def activeSessions (sk : Skip) (sessions : List Nat) : List Nat :=
  sessions.filter fun s => match sk.find s with | some none => false | _ => true

/-- result of a sub-computation that may end in an exception the scanner does not catch -/
inductive R (α : Type)
  | ok (a : α)
  | raised (why : String)
deriving Repr

variable {σ : Type}

/-! ### ECU helper calls -/

def dscPdu (s : Nat) : Bytes := [0x10, b s]
def readSessionPdu : Bytes := [0x22, 0xF1, 0x86]

inductive SessRead
  | is (s : Nat)         -- positive reply, decoded session
  | skipCheck            -- negative "identifier not supported"-like reply or timeout: the check is skipped
  | raise (why : String) -- other negative reply or illegal response: exception propagates
deriving Repr

/-- `ECU.read_session` as used by `check_and_set_session` (with its exception handling) -/
def readSession (e : Ecu σ) (s : σ) : σ × SessRead :=
  let (s', a) := e.step s readSessionPdu
  match a with
  | .pos pdu => (s', .is (fromBE (pdu.drop 3)))
  | .neg c => (s', if identifierNotSupportedCodes.contains c then .skipCheck else .raise "UnexpectedNegativeResponse")
  | .timeout => (s', .skipCheck)
  | .illegal => (s', .raise "IllegalResponse")

/-- the retry loop of `check_and_set_session`: set the session, read it back -/
def checkRetry (e : Ecu σ) (expected : Nat) : Nat → σ → σ × R Bool
  | 0, s => (s, .ok false)
  | n+1, s =>
    let (s1, a) := e.step s (dscPdu expected)
    match a with
    | .timeout => (s1, .raised "MissingResponse")
    | .illegal => (s1, .raised "IllegalResponse")
    | _ =>
      let (s2, r) := readSession e s1
      match r with
      | .is cur => if cur = expected then (s2, .ok true) else checkRetry e expected n s2
      | .skipCheck => (s2, .ok true)
      | .raise w => (s2, .raised w)

/-- `ECU.check_and_set_session(expected, retries)` -/
def checkAndSetSession (e : Ecu σ) (expected retries : Nat) (s : σ) : σ × R Bool :=
  let (s1, r) := readSession e s
  match r with
  | .is cur => if cur = expected then (s1, .ok true) else checkRetry e expected (retries + 1) s1
  | .skipCheck => (s1, .ok true)
  | .raise w => (s1, .raised w)

/-! ### service scan -/

structure SvcCfg where
  sessions : Option (List Nat)
  checkSession : Bool
  scanResponseIds : Bool
  skip : Skip

/-- the inner `for length_payload in [1, 2, 3, 5]` loop for one service id:
    (what is recorded for the sid, clean flag, state afterwards) -/
def probeLens (e : Ecu σ) (sid : Nat) : List Nat → σ → Option Ans × Bool × σ
  | [], s => (none, true, s)
  | l :: ls, s =>
    let (s', a) := e.step s (probePdu sid l)
    match a with
    | .timeout => probeLens e sid ls s'
    | .illegal => let (r, _, s'') := probeLens e sid ls s'; (r, false, s'')
    | .neg c =>
      if serviceNotSupportedCodes.contains c then (none, true, s')
      else if c = IMLOIF then probeLens e sid ls s'
      else (some a, true, s')
    | .pos _ => (some a, true, s')

/-- is `sid` probed at all in `session` under this configuration? -/
def sidSelected (cfg : SvcCfg) (session : Option Nat) (sid : Nat) : Bool :=
  !(sid &&& 0x40 != 0 && !cfg.scanResponseIds) && !skipped cfg.skip session sid

structure ScanOut (σ : Type) where
  found : List (Nat × Ans)   -- (sid, recorded response), ascending sid
  clean : Bool
  state : σ

/-- `perform_scan(session)` over the given service ids (the code iterates 0x00..0xFF) -/
def performScanFrom (e : Ecu σ) (cfg : SvcCfg) (session : Option Nat) : List Nat → σ → R (ScanOut σ)
  | [], s => .ok ⟨[], true, s⟩
  | sid :: rest, s =>
    if !sidSelected cfg session sid then performScanFrom e cfg session rest s
    else
      let pre : σ × R Bool :=
        match session with
        | some sess => if cfg.checkSession then checkAndSetSession e sess 3 s else (s, .ok true)
        | none => (s, .ok true)
      match pre with
      | (s0, .raised w) => let _ := s0; .raised w
      | (s0, .ok false) => .ok ⟨[], false, s0⟩      -- abort the scan of this session
      | (s0, .ok true) =>
        let (r, c, s1) := probeLens e sid probeLengths s0
        match performScanFrom e cfg session rest s1 with
        | .raised w => .raised w
        | .ok out =>
          .ok ⟨(match r with | some a => [(sid, a)] | none => []) ++ out.found, c && out.clean, out.state⟩

def allSids : List Nat := List.range 256

def performScan (e : Ecu σ) (cfg : SvcCfg) (session : Option Nat) (s : σ) : R (ScanOut σ) :=
  performScanFrom e cfg session allSids s

structure SvcResult (σ : Type) where
  result : List (Nat × Nat)   -- `self.result`: (session key, sid)
  clean : Bool                -- exit status 0 iff clean
  state : σ

/-- the `for session in sessions` loop of `ServicesScanner.main` -/
def svcSessions (e : Ecu σ) (cfg : SvcCfg) : List Nat → σ → R (SvcResult σ)
  | [], s => .ok ⟨[], true, s⟩
  | sess :: rest, s =>
    let (s1, a) := e.step s (dscPdu sess)
    match a with
    | .pos _ =>
      match performScan e cfg (some sess) s1 with
      | .raised w => .raised w
      | .ok out =>
        match svcSessions e cfg rest out.state with
        | .raised w => .raised w
        | .ok r => .ok ⟨out.found.map (fun p => (sess, p.1)) ++ r.result, out.clean && r.clean, r.state⟩
    | _ =>
      -- negative reply, MissingResponse or IllegalResponse: session skipped, run marked unclean
      match svcSessions e cfg rest s1 with
      | .raised w => .raised w
      | .ok r => .ok ⟨r.result, false, r.state⟩

/-- `ServicesScanner.main` -/
def serviceScan (e : Ecu σ) (cfg : SvcCfg) (s : σ) : R (SvcResult σ) :=
  match cfg.sessions with
  | none =>
    match performScan e cfg none s with
    | .raised w => .raised w
    | .ok out => .ok ⟨out.found.map (fun p => (0, p.1)), out.clean, out.state⟩
  | some sessions => svcSessions e cfg (activeSessions cfg.skip sessions) s

/-! ### identifier scan -/

structure IdCfg where
  sessions : Option (List Nat)
  start : Nat
  stop : Nat                  -- `end`, inclusive
  payload : Bytes
  service : Nat               -- 0x22, 0x27, 0x2E, 0x31 (any other id takes the default layout)
  checkSession : Option Nat   -- every n-th identifier
  skip : Skip
  skipNotSupported : Bool

def routineSubFuncs : List Nat := [1, 2, 3]

def subFunctions (cfg : IdCfg) : List Nat := if cfg.service = 0x31 then routineSubFuncs else [0]

/-- `end` after the SecurityAccess clamp -/
def effectiveEnd (cfg : IdCfg) : Nat := if cfg.service = 0x27 ∧ cfg.stop > 0x7F then 0x7F else cfg.stop

/-- the request for one (identifier, sub-function) -/
def idPdu (cfg : IdCfg) (did sf : Nat) : Bytes :=
  (if cfg.service = 0x27 then [b cfg.service, b did]
   else if cfg.service = 0x31 then [b cfg.service, b sf, b (did / 256), b (did % 256)]
   else [b cfg.service, b (did / 256), b (did % 256)]) ++ cfg.payload

/-- `product(range(start, end + 1), sub_functions)` -/
def idPairs (cfg : IdCfg) : List (Nat × Nat) :=
  ((List.range (effectiveEnd cfg + 1 - cfg.start)).map (· + cfg.start)).flatMap
    fun did => (subFunctions cfg).map fun sf => (did, sf)

structure IdCount where
  positive : Nat := 0
  abnormal : Nat := 0
  timeouts : Nat := 0
deriving DecidableEq, Repr

structure IdOut (σ : Type) where
  counts : IdCount
  completed : Bool    -- `perform_scan` returned True
  state : σ

def IdCount.addPos (c : IdCount) : IdCount := { c with positive := c.positive + 1 }
def IdCount.addAbn (c : IdCount) : IdCount := { c with abnormal := c.abnormal + 1 }
def IdCount.addTo (c : IdCount) : IdCount := { c with timeouts := c.timeouts + 1 }

/-- the main loop of `ScanIdentifiers.perform_scan` over the given (identifier, sub-function) pairs -/
def idLoop (e : Ecu σ) (cfg : IdCfg) (session : Option Nat) : List (Nat × Nat) → IdCount → σ → R (IdOut σ)
  | [], c, s => .ok ⟨c, true, s⟩
  | (did, sf) :: rest, c, s =>
    if skipped cfg.skip session did then idLoop e cfg session rest c s
    else
      let pre : σ × R Bool :=
        match session, cfg.checkSession with
        | some sess, some n => if n ≠ 0 ∧ did % n = 0 then checkAndSetSession e sess 3 s else (s, .ok true)
        | _, _ => (s, .ok true)
      match pre with
      | (_, .raised w) => .raised w
      | (s0, .ok false) => .ok ⟨c, false, s0⟩
      | (s0, .ok true) =>
        let (s1, a) := e.step s0 (idPdu cfg did sf)
        match a with
        | .timeout => idLoop e cfg session rest c.addTo s1
        | .illegal => idLoop e cfg session rest c s1
        | .pos _ => idLoop e cfg session rest c.addPos s1
        | .neg code =>
          if serviceNotSupportedCodes.contains code then
            if cfg.skipNotSupported then .ok ⟨c, true, s1⟩ else idLoop e cfg session rest c s1
          else if code = ROOR ∨ code = SFNS then idLoop e cfg session rest c s1
          else idLoop e cfg session rest c.addAbn s1

def idPerformScan (e : Ecu σ) (cfg : IdCfg) (session : Option Nat) (s : σ) : R (IdOut σ) :=
  idLoop e cfg session (idPairs cfg) {} s

/-- `_wait_for_ecu_endless_loop` bounded by the 10 s timeout: a ping every second of virtual time
    (0.5 s sleep + 0.5 s ping timeout), at most `fuel` pings; a positive or negative reply ends the wait -/
def waitForEcu (e : Ecu σ) : Nat → σ → σ
  | 0, s => s
  | n+1, s =>
    let (s', a) := e.step s [0x3E, 0x00]
    match a with
    | .pos _ | .neg _ => s'
    | _ => waitForEcu e n s'

def waitFuel : Nat := 10

/-- `ECU.leave_session` without power supply: reset, wait, back to the default session -/
def leaveSession (e : Ecu σ) (s : σ) : σ × R Unit :=
  let (s1, a) := e.step s [0x11, 0x01]
  match a with
  | .timeout => (s1, .raised "MissingResponse")
  | .illegal => (s1, .raised "IllegalResponse")
  | _ =>
    let s2 := waitForEcu e waitFuel s1
    let (s3, a3) := e.step s2 (dscPdu 1)
    match a3 with
    | .timeout => (s3, .raised "MissingResponse")
    | .illegal => (s3, .raised "IllegalResponse")
    | _ => (s3, .ok ())

structure IdResult (σ : Type) where
  perSession : List (Nat × IdCount)   -- (session key, counters) for every session whose scan completed (the counters are logged)
  clean : Bool
  state : σ

/-- the `for session in sessions` loop of `ScanIdentifiers.main`.  Note the short circuit in
    `clean_returns = clean_returns and await self.perform_scan(session)`: once a session scan was aborted,
    later sessions are entered and left but no longer scanned. -/
def idSessions (e : Ecu σ) (cfg : IdCfg) : List Nat → Bool → σ → R (IdResult σ)
  | [], clean, s => .ok ⟨[], clean, s⟩
  | sess :: rest, clean, s =>
    let (s1, a) := e.step s (dscPdu sess)
    match a with
    | .timeout => .raised "MissingResponse"
    | .illegal => .raised "IllegalResponse"
    | .neg _ => idSessions e cfg rest clean s1
    | .pos _ =>
      let scanned : R (Option IdCount × Bool × σ) :=
        if clean then
          match idPerformScan e cfg (some sess) s1 with
          | .raised w => .raised w
          | .ok out => .ok (if out.completed then some out.counts else none, out.completed, out.state)
        else .ok (none, false, s1)
      match scanned with
      | .raised w => .raised w
      | .ok (cnt, clean', s2) =>
        match leaveSession e s2 with
        | (_, .raised w) => .raised w
        | (s3, .ok ()) =>
          match idSessions e cfg rest clean' s3 with
          | .raised w => .raised w
          | .ok r => .ok ⟨(match cnt with | some c => [(sess, c)] | none => []) ++ r.perSession, r.clean, r.state⟩

/-- `ScanIdentifiers.main` -/
def identScan (e : Ecu σ) (cfg : IdCfg) (s : σ) : R (IdResult σ) :=
  match cfg.sessions with
  | none =>
    match idPerformScan e cfg none s with
    | .raised w => .raised w
    | .ok out => .ok ⟨[(0, out.counts)], out.completed, out.state⟩
  | some sessions => idSessions e cfg (activeSessions cfg.skip sessions) true s

/-! ### scripted ECU used by the driver: answers are taken from a list in order, requests are logged -/

structure Scripted where
  answers : List Ans
  log : List Bytes := []   -- requests seen, newest first

def scriptedEcu : Ecu Scripted where
  step s pdu :=
    match s.answers with
    | [] => ({ s with log := pdu :: s.log }, .timeout)
    | a :: rest => ({ answers := rest, log := pdu :: s.log }, a)

end Gallia.Scans
