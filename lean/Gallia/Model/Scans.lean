import Gallia.Lib.Bytes
/-
  C10 — service scan (`ServicesScanner`) and identifier scan (`ScanIdentifiers`).

  Two layers.

  **Exchange layer.**  The scanners talk to the ECU only through complete client exchanges (`ECU.send_raw`,
  `set_session`, `read_session`, `ecu_reset`, `ping`); an exchange is modelled by its outcome as the scanner sees it:

    pos pdu   a positive response (the PDU is kept because `read_session` decodes it)
    neg c     a negative response with code `c`
    timeout   `MissingResponse` (a `TimeoutError`) after the client's retries
    illegal   `MalformedResponse` / `RequestResponseMismatch` (an `IllegalResponse`)
    stuck     `RuntimeError('ECU appears to be stuck in ResponsePending loop')`

  The model follows the code (`commands/scan/uds/services.py`, `identifiers.py`, `ECU.check_and_set_session`,
  `ECU.set_session` with its `set_session_pre` / `set_session_post` hooks, `ECU.leave_session`, `ECU.wait_for_ecu`,
  the `--reset` path of the service scan), loops as structural recursion, exceptions that the scanner does not catch
  as the result `raised`; the ECU state is threaded through every function and survives a `raised` result, so the
  requests of a run that dies are part of what is modelled.

  **Wire layer** (end of the file).  `UDSClient.request_unsafe` over an ECU that answers every single transmission with
  a number of ResponsePending frames followed by a final message: the retry loop (`max_retry`, busyRepeatRequest), the
  ResponsePending loop (`MAX_N_PENDING`), as the function `clientEcu` that turns a wire-level ECU into an
  exchange-level one.

  Configuration domain: no database, no power supply, session ids / reset levels below 0x80, identifiers within 16 bit,
  session lists without repetition.
-/
namespace Gallia.Scans
open Gallia

inductive Ans
  | pos (pdu : Bytes)
  | neg (code : Nat)
  | timeout
  | illegal
  | stuck
deriving DecidableEq, Repr

def Ans.isPos : Ans → Bool
  | .pos _ => true
  | _ => false

/-- the exception an exchange ends with when the call site does not handle it -/
def Ans.exn : Ans → Option String
  | .timeout => some "MissingResponse"
  | .illegal => some "IllegalResponse"
  | .stuck => some "RuntimeError"
  | _ => none

/-- an ECU as the scanner sees it: one exchange = one step -/
structure Ecu (σ : Type) where
  step : σ → Bytes → σ × Ans

/-! NRC constants (checked against the live `UDSErrorCodes` by the generated agreement theorem) -/
def SNS : Nat := 0x11        -- serviceNotSupported
def SFNS : Nat := 0x12       -- subFunctionNotSupported
def IMLOIF : Nat := 0x13     -- incorrectMessageLengthOrInvalidFormat
def BRR : Nat := 0x21        -- busyRepeatRequest
def ROOR : Nat := 0x31       -- requestOutOfRange
def RCRRP : Nat := 0x78      -- requestCorrectlyReceivedResponsePending
def SFNSIAS : Nat := 0x7E    -- subFunctionNotSupportedInActiveSession
def SNSIAS : Nat := 0x7F     -- serviceNotSupportedInActiveSession

def serviceNotSupportedCodes : List Nat := [SNS, SNSIAS]
def identifierNotSupportedCodes : List Nat := [SNS, SNSIAS, SFNS, SFNSIAS, ROOR]

/-- probe payload lengths of the service scan, in the order they are tried -/
def probeLengths : List Nat := [1, 2, 3, 5]

def b (n : Nat) : UInt8 := UInt8.ofNat n

def probePdu (sid len : Nat) : Bytes := b sid :: List.replicate len 0

/-- `Ranges2D`: per outer key either `none` (= everything) or a list of inner ids -/
abbrev Skip := List (Nat × Option (List Nat))

def Skip.find (sk : Skip) (k : Nat) : Option (Option (List Nat)) := (sk.find? (·.1 == k)).map (·.2)

/-- `session in skip and (skip[session] is None or id in skip[session])` -/
def skipped (sk : Skip) (session : Option Nat) (id : Nat) : Bool :=
  match session with
  | none => false
  | some s =>
    match sk.find s with
    | none => false
    | some none => true
    | some (some ids) => ids.contains id

/-- `[s for s in sessions if s not in skip or skip[s] is not None]` -/
def activeSessions (sk : Skip) (sessions : List Nat) : List Nat :=
  sessions.filter fun s => match sk.find s with | some none => false | _ => true

/-- result of a sub-computation that may end in an exception the scanner does not catch -/
inductive R (α : Type)
  | ok (a : α)
  | raised (why : String)
deriving Repr

variable {σ : Type}

/-! ### ECU helper calls -/

def dscPdu (s : Nat) : Bytes := [0x10, b s]
def readSessionPdu : Bytes := [0x22, 0xF1, 0x86]
def resetPdu (level : Nat) : Bytes := [0x11, b level]
def pingPdu : Bytes := [0x3E, 0x00]

/-- `ECU.set_session_pre` / `ECU.set_session_post` of an OEM subclass: the requests the hook sends for a session
    level (`send_raw`, reply ignored, client exceptions propagate).  The base class sends nothing. -/
structure Hooks where
  pre : Nat → List Bytes := fun _ => []
  post : Nat → List Bytes := fun _ => []

/-- one hook: its requests in order; an exchange that ends in an exception ends the hook with that exception -/
def runHook (e : Ecu σ) : List Bytes → σ → σ × R Unit
  | [], s => (s, .ok ())
  | p :: ps, s =>
    match (e.step s p).2.exn with
    | some w => ((e.step s p).1, .raised w)
    | none => runHook e ps (e.step s p).1

/-- `ECU.set_session(level)` without database: pre hook, `10 level`, post hook after a positive reply;
    returns the (positive or negative) reply -/
def setSession (e : Ecu σ) (h : Hooks) (level : Nat) (s : σ) : σ × R Ans :=
  match runHook e (h.pre level) s with
  | (s0, .raised w) => (s0, .raised w)
  | (s0, .ok ()) =>
    match e.step s0 (dscPdu level) with
    | (s1, .pos p) =>
      match runHook e (h.post level) s1 with
      | (s2, .raised w) => (s2, .raised w)
      | (s2, .ok ()) => (s2, .ok (.pos p))
    | (s1, .neg c) => (s1, .ok (.neg c))
    | (s1, .timeout) => (s1, .raised "MissingResponse")
    | (s1, .illegal) => (s1, .raised "IllegalResponse")
    | (s1, .stuck) => (s1, .raised "RuntimeError")

inductive SessRead
  | is (s : Nat)         -- positive reply, decoded session
  | skipCheck            -- negative "identifier not supported"-like reply or timeout: the check is skipped
  | raise (why : String) -- other negative reply, illegal response, pending loop: exception propagates
deriving Repr

/-- `ECU.read_session` as used by `check_and_set_session` (with its exception handling) -/
def readSession (e : Ecu σ) (s : σ) : σ × SessRead :=
  match e.step s readSessionPdu with
  | (s', .pos pdu) => (s', .is (fromBE (pdu.drop 3)))
  | (s', .neg c) => (s', if identifierNotSupportedCodes.contains c then .skipCheck else .raise "UnexpectedNegativeResponse")
  | (s', .timeout) => (s', .skipCheck)
  | (s', .illegal) => (s', .raise "IllegalResponse")
  | (s', .stuck) => (s', .raise "RuntimeError")

/-- the retry loop of `check_and_set_session`: set the session (a negative reply is only logged), read it back -/
def checkRetry (e : Ecu σ) (h : Hooks) (expected : Nat) : Nat → σ → σ × R Bool
  | 0, s => (s, .ok false)
  | n+1, s =>
    match setSession e h expected s with
    | (s1, .raised w) => (s1, .raised w)
    | (s1, .ok _) =>
      match readSession e s1 with
      | (s2, .is cur) => if cur = expected then (s2, .ok true) else checkRetry e h expected n s2
      | (s2, .skipCheck) => (s2, .ok true)
      | (s2, .raise w) => (s2, .raised w)

/-- `ECU.check_and_set_session(expected, retries)` -/
def checkAndSetSession (e : Ecu σ) (h : Hooks) (expected retries : Nat) (s : σ) : σ × R Bool :=
  match readSession e s with
  | (s1, .is cur) => if cur = expected then (s1, .ok true) else checkRetry e h expected (retries + 1) s1
  | (s1, .skipCheck) => (s1, .ok true)
  | (s1, .raise w) => (s1, .raised w)

/-- `wait_for_ecu(timeout=10)`: `_wait_for_ecu_endless_loop(0.5)` under `asyncio.wait_for`.  Time is counted in half
    seconds: every round sleeps 0.5 s, then pings with a 0.5 s timeout and `max_retry=0`; a positive or negative reply
    ends the wait, an illegal reply costs no time, silence costs the 0.5 s.  When the budget runs out during the sleep
    or during the read, `wait_for` cancels the loop (`False`, which the callers ignore).  A ping that is answered with
    120 ResponsePending frames raises `RuntimeError`, which is not a `UDSException` and leaves `wait_for_ecu`. -/
def waitForEcu (e : Ecu σ) : Nat → σ → σ × R Bool
  | 0, s => (s, .ok false)
  | 1, s => (s, .ok false)
  | n+2, s =>
    match e.step s pingPdu with
    | (s', .pos _) => (s', .ok true)
    | (s', .neg _) => (s', .ok true)
    | (s', .illegal) => waitForEcu e (n+1) s'
    | (s', .timeout) => waitForEcu e n s'
    | (s', .stuck) => (s', .raised "RuntimeError")

/-- the 10 s of `wait_for_ecu` in half seconds -/
def waitBudget : Nat := 20

/-- `retries` of `check_and_set_session` as both scanners call it (default of the method / `retries=3`) -/
def checkRetries : Nat := 3

/-! ### service scan -/

structure SvcCfg where
  sessions : Option (List Nat)
  checkSession : Bool
  scanResponseIds : Bool
  skip : Skip
  reset : Option Nat := none
  hooks : Hooks := {}

/-- the inner `for length_payload in [1, 2, 3, 5]` loop for one service id:
    (what is recorded for the sid, clean flag); `RuntimeError` is not caught -/
def probeLens (e : Ecu σ) (sid : Nat) : List Nat → σ → σ × R (Option Ans × Bool)
  | [], s => (s, .ok (none, true))
  | l :: ls, s =>
    match e.step s (probePdu sid l) with
    | (s', .timeout) => probeLens e sid ls s'
    | (s', .illegal) =>
      match probeLens e sid ls s' with
      | (s'', .ok (r, _)) => (s'', .ok (r, false))
      | (s'', .raised w) => (s'', .raised w)
    | (s', .stuck) => (s', .raised "RuntimeError")
    | (s', .neg c) =>
      if serviceNotSupportedCodes.contains c then (s', .ok (none, true))
      else if c = IMLOIF then probeLens e sid ls s'
      else (s', .ok (some (.neg c), true))
    | (s', .pos p) => (s', .ok (some (.pos p), true))

/-- is `sid` probed at all in `session` under this configuration? -/
def sidSelected (cfg : SvcCfg) (session : Option Nat) (sid : Nat) : Bool :=
  !(sid &&& 0x40 != 0 && !cfg.scanResponseIds) && !skipped cfg.skip session sid

structure ScanOut where
  found : List (Nat × Ans)   -- (sid, recorded response), ascending sid
  clean : Bool
  abortedAt : Option Nat     -- the service id at which a failed session check ended the scan of the session
deriving Repr

/-- `if session is not None and self.config.check_session: await self.ecu.check_and_set_session(session)` -/
def sessionCheck (e : Ecu σ) (cfg : SvcCfg) (session : Option Nat) (s : σ) : σ × R Bool :=
  match session with
  | some sess => if cfg.checkSession then checkAndSetSession e cfg.hooks sess checkRetries s else (s, .ok true)
  | none => (s, .ok true)

/-- `perform_scan(session)` over the given service ids (the code iterates 0x00..0xFF) -/
def performScanFrom (e : Ecu σ) (cfg : SvcCfg) (session : Option Nat) : List Nat → σ → σ × R ScanOut
  | [], s => (s, .ok ⟨[], true, none⟩)
  | sid :: rest, s =>
    if !sidSelected cfg session sid then performScanFrom e cfg session rest s
    else
      match sessionCheck e cfg session s with
      | (s0, .raised w) => (s0, .raised w)
      | (s0, .ok false) => (s0, .ok ⟨[], false, some sid⟩)      -- abort the scan of this session
      | (s0, .ok true) =>
        match probeLens e sid probeLengths s0 with
        | (s1, .raised w) => (s1, .raised w)
        | (s1, .ok (r, c)) =>
          match performScanFrom e cfg session rest s1 with
          | (s2, .raised w) => (s2, .raised w)
          | (s2, .ok out) =>
            (s2, .ok ⟨(match r with | some a => [(sid, a)] | none => []) ++ out.found, c && out.clean, out.abortedAt⟩)

def allSids : List Nat := List.range 256

def performScan (e : Ecu σ) (cfg : SvcCfg) (session : Option Nat) (s : σ) : σ × R ScanOut :=
  performScanFrom e cfg session allSids s

/-- the `--reset` block of `ServicesScanner.main`: `ecu_reset(level)`; negative reply: continue; positive reply:
    `wait_for_ecu()`; `TimeoutError`: `reconnect()` (nothing on the wire); other exceptions are not caught -/
def resetAfter (e : Ecu σ) (level : Option Nat) (s : σ) : σ × R Unit :=
  match level with
  | none => (s, .ok ())
  | some l =>
    match e.step s (resetPdu l) with
    | (s1, .neg _) => (s1, .ok ())
    | (s1, .timeout) => (s1, .ok ())
    | (s1, .illegal) => (s1, .raised "IllegalResponse")
    | (s1, .stuck) => (s1, .raised "RuntimeError")
    | (s1, .pos _) =>
      match waitForEcu e waitBudget s1 with
      | (s2, .raised w) => (s2, .raised w)
      | (s2, .ok _) => (s2, .ok ())

structure SvcResult where
  result : List (Nat × Nat)   -- `self.result`: (session key, sid)
  clean : Bool                -- exit status 0 iff clean
  aborted : List (Nat × Nat)  -- (session, service id) of every failed session check
deriving Repr

/-- the `for session in sessions` loop of `ServicesScanner.main` -/
def svcSessions (e : Ecu σ) (cfg : SvcCfg) : List Nat → σ → σ × R SvcResult
  | [], s => (s, .ok ⟨[], true, []⟩)
  | sess :: rest, s =>
    match setSession e cfg.hooks sess s with
    | (s1, .ok (.pos _)) =>
      match performScan e cfg (some sess) s1 with
      | (s2, .raised w) => (s2, .raised w)
      | (s2, .ok out) =>
        match resetAfter e cfg.reset s2 with
        | (s3, .raised w) => (s3, .raised w)
        | (s3, .ok ()) =>
          match svcSessions e cfg rest s3 with
          | (s4, .raised w) => (s4, .raised w)
          | (s4, .ok r) =>
            (s4, .ok ⟨out.found.map (fun p => (sess, p.1)) ++ r.result, out.clean && r.clean,
                      (match out.abortedAt with | some sid => [(sess, sid)] | none => []) ++ r.aborted⟩)
    | (s1, _) =>
      -- negative reply, or `UDSException` / `RuntimeError` out of `set_session`: session skipped, run marked unclean
      match svcSessions e cfg rest s1 with
      | (s4, .raised w) => (s4, .raised w)
      | (s4, .ok r) => (s4, .ok ⟨r.result, false, r.aborted⟩)

/-- `ServicesScanner.main` -/
def serviceScan (e : Ecu σ) (cfg : SvcCfg) (s : σ) : σ × R SvcResult :=
  match cfg.sessions with
  | none =>
    match performScan e cfg none s with
    | (s1, .raised w) => (s1, .raised w)
    | (s1, .ok out) => (s1, .ok ⟨out.found.map (fun p => (0, p.1)), out.clean, []⟩)
  | some sessions => svcSessions e cfg (activeSessions cfg.skip sessions) s

/-! ### identifier scan -/

structure IdCfg where
  sessions : Option (List Nat)
  start : Nat
  stop : Nat                  -- `end`, inclusive
  payload : Bytes
  service : Nat               -- 0x22, 0x27, 0x2E, 0x31 (any other id takes the default layout)
  checkSession : Option Nat   -- every n-th identifier
  skip : Skip
  skipNotSupported : Bool
  hooks : Hooks := {}

def routineSubFuncs : List Nat := [1, 2, 3]

def subFunctions (cfg : IdCfg) : List Nat := if cfg.service = 0x31 then routineSubFuncs else [0]

/-- `end` after the SecurityAccess clamp -/
def effectiveEnd (cfg : IdCfg) : Nat := if cfg.service = 0x27 ∧ cfg.stop > 0x7F then 0x7F else cfg.stop

/-- the request for one (identifier, sub-function) -/
def idPdu (cfg : IdCfg) (did sf : Nat) : Bytes :=
  (if cfg.service = 0x27 then [b cfg.service, b did]
   else if cfg.service = 0x31 then [b cfg.service, b sf, b (did / 256), b (did % 256)]
   else [b cfg.service, b (did / 256), b (did % 256)]) ++ cfg.payload

/-- `product(range(start, end + 1), sub_functions)` -/
def idPairs (cfg : IdCfg) : List (Nat × Nat) :=
  ((List.range (effectiveEnd cfg + 1 - cfg.start)).map (· + cfg.start)).flatMap
    fun did => (subFunctions cfg).map fun sf => (did, sf)

structure IdCount where
  positive : Nat := 0
  abnormal : Nat := 0
  timeouts : Nat := 0
deriving DecidableEq, Repr

structure IdOut where
  counts : IdCount
  completed : Bool    -- `perform_scan` returned True
deriving Repr

def IdCount.addPos (c : IdCount) : IdCount := { c with positive := c.positive + 1 }
def IdCount.addAbn (c : IdCount) : IdCount := { c with abnormal := c.abnormal + 1 }
def IdCount.addTo (c : IdCount) : IdCount := { c with timeouts := c.timeouts + 1 }

/-- the session check of the identifier scan: every `n`-th identifier -/
def idSessionCheck (e : Ecu σ) (cfg : IdCfg) (session : Option Nat) (did : Nat) (s : σ) : σ × R Bool :=
  match session, cfg.checkSession with
  | some sess, some n => if n ≠ 0 ∧ did % n = 0 then checkAndSetSession e cfg.hooks sess checkRetries s else (s, .ok true)
  | _, _ => (s, .ok true)

/-- the main loop of `ScanIdentifiers.perform_scan` over the given (identifier, sub-function) pairs -/
def idLoop (e : Ecu σ) (cfg : IdCfg) (session : Option Nat) : List (Nat × Nat) → IdCount → σ → σ × R IdOut
  | [], c, s => (s, .ok ⟨c, true⟩)
  | (did, sf) :: rest, c, s =>
    if skipped cfg.skip session did then idLoop e cfg session rest c s
    else
      match idSessionCheck e cfg session did s with
      | (s0, .raised w) => (s0, .raised w)
      | (s0, .ok false) => (s0, .ok ⟨c, false⟩)
      | (s0, .ok true) =>
        match e.step s0 (idPdu cfg did sf) with
        | (s1, .timeout) => idLoop e cfg session rest c.addTo s1
        | (s1, .illegal) => idLoop e cfg session rest c s1
        | (s1, .stuck) => (s1, .raised "RuntimeError")
        | (s1, .pos _) => idLoop e cfg session rest c.addPos s1
        | (s1, .neg code) =>
          if serviceNotSupportedCodes.contains code then
            if cfg.skipNotSupported then (s1, .ok ⟨c, true⟩) else idLoop e cfg session rest c s1
          else if code = ROOR ∨ code = SFNS then idLoop e cfg session rest c s1
          else idLoop e cfg session rest c.addAbn s1

def idPerformScan (e : Ecu σ) (cfg : IdCfg) (session : Option Nat) (s : σ) : σ × R IdOut :=
  idLoop e cfg session (idPairs cfg) {} s

/-- `ECU.leave_session` without power supply: reset, wait, back to the default session -/
def leaveSession (e : Ecu σ) (h : Hooks) (s : σ) : σ × R Unit :=
  match e.step s (resetPdu 1) with
  | (s1, .timeout) => (s1, .raised "MissingResponse")
  | (s1, .illegal) => (s1, .raised "IllegalResponse")
  | (s1, .stuck) => (s1, .raised "RuntimeError")
  | (s1, _) =>
    match waitForEcu e waitBudget s1 with
    | (s2, .raised w) => (s2, .raised w)
    | (s2, .ok _) =>
      match setSession e h 1 s2 with
      | (s3, .raised w) => (s3, .raised w)
      | (s3, .ok _) => (s3, .ok ())

structure IdResult where
  perSession : List (Nat × IdCount)   -- (session key, counters) for every session whose scan completed (the counters are logged)
  clean : Bool
deriving Repr

/-- the `for session in sessions` loop of `ScanIdentifiers.main`.  Note the short circuit in
    `clean_returns = clean_returns and await self.perform_scan(session)`: once a session scan was aborted,
    later sessions are entered and left but no longer scanned. -/
def idSessions (e : Ecu σ) (cfg : IdCfg) : List Nat → Bool → σ → σ × R IdResult
  | [], clean, s => (s, .ok ⟨[], clean⟩)
  | sess :: rest, clean, s =>
    match setSession e cfg.hooks sess s with
    | (s1, .raised w) => (s1, .raised w)
    | (s1, .ok (.pos _)) =>
      let scanned : σ × R (Option IdCount × Bool) :=
        if clean then
          match idPerformScan e cfg (some sess) s1 with
          | (s2, .raised w) => (s2, .raised w)
          | (s2, .ok out) => (s2, .ok (if out.completed then some out.counts else none, out.completed))
        else (s1, .ok (none, false))
      match scanned with
      | (s2, .raised w) => (s2, .raised w)
      | (s2, .ok (cnt, clean')) =>
        match leaveSession e cfg.hooks s2 with
        | (s3, .raised w) => (s3, .raised w)
        | (s3, .ok ()) =>
          match idSessions e cfg rest clean' s3 with
          | (s4, .raised w) => (s4, .raised w)
          | (s4, .ok r) => (s4, .ok ⟨(match cnt with | some c => [(sess, c)] | none => []) ++ r.perSession, r.clean⟩)
    | (s1, .ok _) => idSessions e cfg rest clean s1

/-- `ScanIdentifiers.main` -/
def identScan (e : Ecu σ) (cfg : IdCfg) (s : σ) : σ × R IdResult :=
  match cfg.sessions with
  | none =>
    match idPerformScan e cfg none s with
    | (s1, .raised w) => (s1, .raised w)
    | (s1, .ok out) => (s1, .ok ⟨[(0, out.counts)], out.completed⟩)
  | some sessions => idSessions e cfg (activeSessions cfg.skip sessions) true s

/-! ### wire layer: `UDSClient.request_unsafe` -/

/-- the final message of one transmission as the client classifies it -/
inductive WMsg
  | pos (pdu : Bytes)
  | neg (code : Nat)      -- any code but ResponsePending
  | silent                -- nothing (more) arrives
  | garbage               -- a reply that `parse_pdu` refuses
deriving DecidableEq, Repr

/-- what the ECU sends in answer to one transmission of a request: `pendings` ResponsePending frames, then `final` -/
structure WAns where
  pendings : Nat
  final : WMsg
deriving DecidableEq, Repr

/-- an ECU on the wire: one transmission = one step -/
structure WireEcu (σ : Type) where
  wstep : σ → Bytes → σ × WAns

/-- `MAX_N_PENDING` -/
def maxPending : Nat := 120

/-- the `for i in range(max_retry + 1)` loop of `request_unsafe`, `n` transmissions left:
    * `MAX_N_PENDING` ResponsePending frames in a row: `RuntimeError`;
    * silence (directly, or after ResponsePending frames): next transmission, `MissingResponse` after the last;
    * busyRepeatRequest as the first message: next transmission, returned after the last; after ResponsePending frames
      it is returned like any other negative response;
    * a reply that does not parse raises immediately. -/
def exchangeLoop (w : WireEcu σ) (pdu : Bytes) : Nat → σ → σ × Ans
  | 0, s => (s, .timeout)
  | n+1, s =>
    if maxPending ≤ (w.wstep s pdu).2.pendings then ((w.wstep s pdu).1, .stuck)
    else
      match (w.wstep s pdu).2.final with
      | .pos p => ((w.wstep s pdu).1, .pos p)
      | .garbage => ((w.wstep s pdu).1, .illegal)
      | .silent => if n = 0 then ((w.wstep s pdu).1, .timeout) else exchangeLoop w pdu n (w.wstep s pdu).1
      | .neg c =>
        if c = BRR ∧ (w.wstep s pdu).2.pendings = 0 ∧ n ≠ 0 then exchangeLoop w pdu n (w.wstep s pdu).1
        else ((w.wstep s pdu).1, .neg c)

/-- the exchange-level ECU that the real client makes out of a wire-level one; `retry pdu` is the `max_retry` in
    force for the call site that sends `pdu` -/
def clientEcu (w : WireEcu σ) (retry : Bytes → Nat) : Ecu σ where
  step s pdu := exchangeLoop w pdu (retry pdu + 1) s

/-- `max_retry` per call site of the service scan (`self.ecu.max_retry = 0`; `read_session` asks for 3) -/
def svcRetry (pdu : Bytes) : Nat := if pdu = readSessionPdu then 3 else 0

/-- `max_retry` per call site of the identifier scan: probes and `read_session` ask for 3, the ping of `wait_for_ecu`
    for 0, session changes, the reset and hook requests use the client's default -/
def idRetry (dflt : Nat) (dfltPdus : List Bytes) (pdu : Bytes) : Nat :=
  if pdu = pingPdu then 0
  else if pdu.length = 2 ∧ (pdu.head? = some 0x10 ∨ pdu = resetPdu 1) then dflt
  else if dfltPdus.contains pdu then dflt
  else 3

/-! ### scripted wire ECU used by the driver: answers are taken from a list in order, transmissions are logged -/

structure Scripted where
  answers : List WAns
  log : List Bytes := []   -- transmissions seen, newest first

def scriptedEcu : WireEcu Scripted where
  wstep s pdu :=
    match s.answers with
    | [] => ({ s with log := pdu :: s.log }, ⟨0, .silent⟩)
    | a :: rest => ({ answers := rest, log := pdu :: s.log }, a)

end Gallia.Scans
