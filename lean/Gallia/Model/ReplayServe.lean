import Gallia.Model.Replay
import Gallia.Model.UdsReq
import Gallia.Model.UdsResp
/-
  C12 — the replaying server as a whole: `UDSServerTransport.handle_request` -> `UDSServer.respond` ->
  `DBUDSServer.respond_after_default` -> `UDSServer.update_state`, over the database as it is on disk (rows with their runs
  and their JSON state objects), with the parse / re-serialise steps the bytes go through:

      request  = UDSRequest.parse_dynamic(request_pdu)              -- C01's decoder; the lookup key is `request.pdu`
      if now - last_time_active > 10: state.reset()                 -- the cursor `last_response` is *not* reset
      respond_without_state_change: seven default rules, each behind its switch of `Behavior`; then
          respond_after_default: the two queries; `last_response = row.id`;
              reply NULL  -> state.reset(), None
              else        -> UDSResponse.parse_dynamic(unhexlify(reply))        -- C02's decoder
                             (recorded bytes that do not parse - a `MalformedResponse` row - fall back to a raw response)
          then `default_response_if_none` behind its switch
      update_state(request, response) ; `default_response_if_suppress` behind its switch ; `response.pdu`

  `DBUDSServer.Behavior` switches all nine rules off (table regenerated from the live class, `Gen.C12Server`).  The default
  rules themselves are C13's subject; here they are parameters (`Defaults`), and `Proofs/C12.lean` shows that with the
  generated switch table they are never consulted.
-/
namespace Gallia.Replay
open Gallia

/-- the nine switches of `UDSServer.Behavior` -/
structure Behavior where
  sns : Bool
  missingSub : Bool
  sfns : Bool
  format : Bool
  sessChange : Bool
  sessRead : Bool
  testerPresent : Bool
  none_ : Bool
  suppress : Bool
deriving DecidableEq, Repr

/-- `DBUDSServer.Behavior()` -/
def Behavior.db : Behavior := ⟨false, false, false, false, false, false, false, false, false⟩

/-- field names and values in declaration order (compared with `Gen.C12Server.dbBehaviorFields`) -/
def Behavior.fields (b : Behavior) : List (String × Bool) :=
  [("default_response_if_service_not_supported", b.sns),
   ("default_response_if_missing_sub_function", b.missingSub),
   ("default_response_if_sub_function_not_supported", b.sfns),
   ("default_response_if_incorrect_format", b.format),
   ("default_response_if_session_change", b.sessChange),
   ("default_response_if_session_read", b.sessRead),
   ("default_response_if_tester_present", b.testerPresent),
   ("default_response_if_none", b.none_),
   ("default_response_if_suppress", b.suppress)]

/-- (switch, method) of every `if` of `respond_without_state_change`, in source order (compared with `Gen.C12Server.chain`) -/
def chainNames : List (String × String) :=
  [("default_response_if_service_not_supported", "default_response_if_service_not_supported"),
   ("default_response_if_missing_sub_function", "default_response_if_missing_sub_function"),
   ("default_response_if_sub_function_not_supported", "default_response_if_sub_function_not_supported"),
   ("default_response_if_incorrect_format", "default_response_if_incorrect_format"),
   ("default_response_if_session_change", "default_response_if_session_change"),
   ("default_response_if_session_read", "default_response_if_session_read"),
   ("default_response_if_tester_present", "default_response_if_tester_present"),
   ("", "respond_after_default"),
   ("default_response_if_none", "default_response_if_none")]

/-- the two query tails of `respond_after_default` (compared with `Gen.C12Server.queryTails`) -/
def queryTails : List String := [" AND r.id > ? ORDER BY r.id LIMIT 1 ", " AND r.id <= ? ORDER BY r.id LIMIT 1 "]

/-- seconds of inactivity after which `handle_request` resets the state (compared with `Gen.C12Server.idleLimit`) -/
def idleLimitMs : Nat := 10000

/-- the response object `respond_after_default` hands to `respond` -/
inductive Reply
  | typed (r : UdsResp.Resp)     -- `UDSResponse.parse_dynamic` succeeded (typed class, negative response, or its own raw fallback)
  | raw (b : Bytes)              -- the recorded bytes do not parse: `RawPositiveResponse` / `RawNegativeResponse` of the bytes
deriving DecidableEq, Repr

/-- `parse_dynamic(unhexlify(response_pdu))` with the raw fallback -/
def parseRecorded (b : Bytes) : Reply :=
  match UdsResp.decodeResp b with
  | .ok r => .typed r
  | .error _ => .raw b

/-- `response.pdu` -/
def Reply.pdu : Reply → Bytes
  | .typed r => UdsResp.encodeResp r
  | .raw b => b

/-- the `isinstance` tests of `update_state` on the response object (`f186`: the client's extra rule) -/
def Reply.kind : Reply → Kind
  | .typed (.dsc ty _) => .dsc ty.toNat
  | .typed (.secAccess ty _) => .sa ty.toNat
  | .typed (.ecuReset _ _) => .reset
  | .typed (.rdbi did rec) => if did = 0xF186 then .f186 (fromBE rec) else .other
  | _ => .other

/-- `UDSServer.update_state` on the response object -/
def serverUpdateK (st : St) : Kind → St
  | .dsc t => { session := t, sec := none }
  | .sa t => if t % 2 = 0 then { st with sec := some ((t : Int) - 1) } else st
  | .reset => St.default
  | _ => st

/-- the `default_response_if_*` methods of `UDSServer` as functions of the state and the request (C13 models them) -/
structure Defaults where
  rule : Nat → St → Bytes → Option Reply    -- the seven rules tried before `respond_after_default`, by position
  ifNone : Bytes → Reply                     -- `default_response_if_none`
  suppressed : Bytes → Reply → Bool          -- `default_response_if_suppress` returns `None`

/-- `if self.behavior.X and (response := self.X(request)) is not None: return response`, seven times -/
def preChain (b : Behavior) (d : Defaults) (st : St) (req : Bytes) : Option Reply :=
  let go : List (Bool × Nat) → Option Reply := fun l =>
    l.findSome? fun sw => if sw.1 then d.rule sw.2 st req else none
  go [(b.sns, 0), (b.missingSub, 1), (b.sfns, 2), (b.format, 3), (b.sessChange, 4), (b.sessRead, 5), (b.testerPresent, 6)]

/-- row with the smallest id among those satisfying `p` (`ORDER BY r.id LIMIT 1`) -/
def minDbRow (p : DbRow → Bool) : List DbRow → Option DbRow
  | [] => none
  | r :: rs =>
    match minDbRow p rs with
    | none => if p r then some r else none
    | some m => if p r && r.id < m.id then some r else some m

/-- the WHERE clause without the id bound: selector (run level), state key by key (`xs`: further keys of the server's state
    object, empty for the plain `ECUState` every `DBUDSServer` has), request bytes -/
def matchesDb (sel : Selector) (xs : JObj) (st : St) (key : Bytes) (r : DbRow) : Bool :=
  selects sel r.run && stateMatch (st.toJson ++ xs) r.state && r.req == key

/-- the two queries -/
def lookupDb (sel : Selector) (xs : JObj) (db : List DbRow) (s : Srv) (key : Bytes) : Option DbRow :=
  match minDbRow (fun r => matchesDb sel xs s.st key r && afterLast s.last r.id) db with
  | some r => some r
  | none => minDbRow (fun r => matchesDb sel xs s.st key r && uptoLast s.last r.id) db

/-- what the caller of `handle_request` gets -/
inductive Out
  | silence
  | reply (b : Bytes)
  | raised                 -- an exception leaves `handle_request` (the TCP transport then drops the connection)
deriving DecidableEq, Repr

/-- `update_state`, the suppress rule, `response.pdu` -/
def finishResp (b : Behavior) (d : Defaults) (s : Srv) (key : Bytes) (r : Reply) : Srv × Out :=
  ({ s with st := serverUpdateK s.st r.kind }, if b.suppress && d.suppressed key r then .silence else .reply r.pdu)

/-- `request.pdu` of `UDSRequest.parse_dynamic(request_pdu)`: the bytes the row is looked up by (and, on the recording side,
    the bytes `ECU._request` stores: it re-parses the request the same way) -/
def reqKey (q : Bytes) : Bytes := UdsReq.encode (UdsReq.decode q)

/-- `UDSServerTransport.handle_request` for a `DBUDSServer`; `gapMs`: time since the previous request was answered -/
def serveStep (b : Behavior) (d : Defaults) (sel : Selector) (xs : JObj) (db : List DbRow) (s : Srv)
    (gapMs : Nat) (q : Bytes) : Srv × Out :=
  let s0 : Srv := if gapMs > idleLimitMs then { s with st := St.default } else s
  let key := reqKey q
  match preChain b d s0.st key with
  | some r => finishResp b d s0 key r
  | none =>
    match lookupDb sel xs db s0 key with
    | none => if b.none_ then finishResp b d s0 key (d.ifNone key) else (s0, .silence)
    | some row =>
      let s1 : Srv := { s0 with last := some row.id }
      match row.resp with
      | none =>
        let s2 : Srv := { s1 with st := St.default }
        if b.none_ then finishResp b d s2 key (d.ifNone key) else (s2, .silence)
      | some bytes => finishResp b d s1 key (parseRecorded bytes)

def serveAll (b : Behavior) (d : Defaults) (sel : Selector) (xs : JObj) (db : List DbRow) :
    Srv → List (Nat × Bytes) → List Out
  | _, [] => []
  | s, (gap, q) :: qs =>
    let (s', o) := serveStep b d sel xs db s gap q
    o :: serveAll b d sel xs db s' qs

/-- default rules that are never meant to be consulted (the driver runs `Behavior.db`) -/
def Defaults.unused : Defaults := ⟨fun _ _ _ => none, fun q => .raw (0x7F :: q.take 1 ++ [0x10]), fun _ _ => false⟩

/-- a `DBUDSServer(db, ecu, properties)` started on `db`, fed `(gap, request)` pairs -/
def serveDb (sel : Selector) (db : List DbRow) (reqs : List (Nat × Bytes)) : List Out :=
  serveAll Behavior.db Defaults.unused sel [] db {} reqs

/-! #### before the repair (`fix:` commit in known_findings.jsonl)

`respond_after_default` called `parse_dynamic` without a fallback: a recorded reply that does not parse (the recorder keeps
the raw bytes of a malformed reply together with the `MalformedResponse`) raised `ValueError` out of `handle_request` -
after the cursor had been moved.  Kept for the witness in `Proofs/C12.lean`. -/
def serveStepLegacy (sel : Selector) (db : List DbRow) (s : Srv) (q : Bytes) : Srv × Out :=
  match lookupDb sel [] db s (reqKey q) with
  | none => (s, .silence)
  | some row =>
    let s1 : Srv := { s with last := some row.id }
    match row.resp with
    | none => ({ s1 with st := St.default }, .silence)
    | some bytes =>
      match UdsResp.decodeResp bytes with
      | .ok r => ({ s1 with st := serverUpdateK s1.st (Reply.typed r).kind }, .reply (UdsResp.encodeResp r))
      | .error _ => (s1, .raised)

end Gallia.Replay
