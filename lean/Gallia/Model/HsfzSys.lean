import Gallia.Model.Hsfz
/-
  C07 — one HSFZ connection as a small-step system over *whole executions*, from before `HSFZTransport.connect`
  to after `HSFZTransport.close` (`src/gallia/transports/hsfz.py`).

  `Model/Hsfz.lean` has the pieces (framing, reader-task dispatch, the two queue consumers, timers, the end-of-stream
  marker) and a state machine for an *established* connection.  Here an execution is an arbitrary list of events:

    feed chunk        bytes arrive from the gateway (any segmentation).  Before `connect` there is no reader task: the
                      bytes wait in the stream's receive buffer (`pre`) and are parsed when the task starts
    connect           `HSFZTransport.connect(uri)`: the connection object and its reader task are created; the ack timeout
                      is the one of the URI (`cfgOfUri`: `ack_timeout` in ms, default 1000)
    write data t      the client task starts `HSFZTransport.write(data, timeout=t)`
    read t            the client task starts `HSFZTransport.read(timeout=t)`
    close             the client task calls `HSFZTransport.close()` (`_closed = True`, reader task cancelled)
    eof               the stream ends; the reader task - once it exists - ends and leaves the end-of-stream marker
    advance dt        time passes; the timers that become due fire (caller's timeout, ack timeout)

  Between two events the asyncio loop runs the reader task and the blocked consumer (`settle`); `yields` says after
  which frames the reader task suspends (`drain()` after an alive-check reply), and every theorem holds for an
  arbitrary `yields`.  `tr` records what the reader task did, in order (ghost: no transition reads it).

  One client task: `write` / `read` / `close` before `connect` have no object to be called on and leave the state
  alone; `close` while the client task is blocked in a call cannot be issued by it and leaves the state alone.
  All times are virtual milliseconds.
-/
namespace Gallia.HsfzSys
open Gallia Gallia.Framing Gallia.Hsfz

/-- `HSFZConfig.ack_timeout` default (agreement with the code: `uri_defaults_agree` in `Proofs/C07.lean`) -/
def defaultAckMs : Nat := 1000

/-- the configuration `HSFZTransport.connect` derives from the URI: `src_addr`, `dst_addr`, optional `ack_timeout` (ms) -/
def cfgOfUri (src dst : UInt8) (ack : Option Nat) : Cfg := ⟨src, dst, ack.getD defaultAckMs⟩

/-- what the reader task did -/
inductive Tr
  | rx (w : Wire)     -- `_read_frame` returned `w`
  | reply             -- `send_alive_msg`
  | ended             -- the task ended by end-of-stream and left the marker
deriving DecidableEq, Repr

structure Sys where
  core : Hsfz.Sys := {}        -- the connection (`HSFZConnection` + the pending client call)
  connected : Bool := false    -- `HSFZTransport.connect` has returned
  pre : Bytes := []            -- bytes received before the reader task exists
  peerEof : Bool := false      -- the stream ended before the reader task exists
  tr : List Tr := []
deriving Repr

/-- the trace entries for one frame -/
def trOf (w : Wire) : List Tr := if w.cw = cwAlive then [.rx w, .reply] else [.rx w]

/-- `Hsfz.settle` with the reader task's trace -/
def settle (cfg : Cfg) (yields : Wire → Bool) (s : Sys) : Sys :=
  if s.core.closed || s.core.eof then s else
  match h : cutWire s.core.buf with
  | none => { s with core := clientRun cfg s.core }
  | some (w, rest) =>
    have hlt : rest.length < s.core.buf.length := cutWire_shrinks h
    let c1 := deliver cfg { s.core with buf := rest } w
    if yields w then
      have : (clientRun cfg c1).buf.length < s.core.buf.length := by
        rw [clientRun_buf, deliver_buf]; exact hlt
      settle cfg yields { s with core := clientRun cfg c1, tr := s.tr ++ trOf w }
    else
      have : c1.buf.length < s.core.buf.length := by rw [deliver_buf]; exact hlt
      settle cfg yields { s with core := c1, tr := s.tr ++ trOf w }
termination_by s.core.buf.length

inductive Op
  | feed (chunk : Bytes)
  | connect
  | write (data : Bytes) (timeout : Option Nat)
  | read (timeout : Option Nat)
  | close
  | eof
  | advance (dt : Nat)
deriving DecidableEq, Repr

/-- bytes arrive at an established connection -/
def feedCore (cfg : Cfg) (yields : Wire → Bool) (s : Sys) (chunk : Bytes) : Sys :=
  settle cfg yields { s with core := { s.core with buf := s.core.buf ++ chunk } }

/-- the stream ends at an established connection: the reader task ends (unless it was cancelled by `close`) -/
def eofCore (cfg : Cfg) (yields : Wire → Bool) (s : Sys) : Sys :=
  { s with core := Hsfz.execOp cfg yields s.core .eof,
           tr := if s.core.closed || s.core.eof then s.tr else s.tr ++ [.ended] }

def execOp (cfg : Cfg) (yields : Wire → Bool) (s : Sys) : Op → Sys
  | .feed chunk =>
    if s.connected then feedCore cfg yields s chunk else { s with pre := s.pre ++ chunk }
  | .connect =>
    if s.connected then s else
    let s1 := feedCore cfg yields { s with connected := true, pre := [] } s.pre
    if s.peerEof then eofCore cfg yields s1 else s1
  | .write data t =>
    if s.connected then { s with core := Hsfz.execOp cfg yields s.core (.write data t) } else s
  | .read t =>
    if s.connected then { s with core := Hsfz.execOp cfg yields s.core (.read t) } else s
  | .close =>
    if s.connected && isIdle s.core.client then { s with core := { s.core with closed := true } } else s
  | .eof =>
    if s.connected then eofCore cfg yields s else { s with peerEof := true }
  | .advance dt => { s with core := Hsfz.execOp cfg yields s.core (.advance dt) }

def exec (cfg : Cfg) (yields : Wire → Bool) (s : Sys) (ops : List Op) : Sys := ops.foldl (execOp cfg yields) s

/-! ### ghost projections used by the specifications -/

/-- bytes an event adds to the stream -/
def Op.chunk : Op → Bytes
  | .feed c => c
  | _ => []

def fedBytes (ops : List Op) : Bytes := (ops.map Op.chunk).flatten

/-- the frames the reader task has handled, in order -/
def rxWires : List Tr → List Wire
  | [] => []
  | .rx w :: t => w :: rxWires t
  | _ :: t => rxWires t

/-- every alive check in the trace is followed by its reply before the next frame is handled -/
def answered : List Tr → Bool
  | [] => true
  | .rx w :: t =>
    if w.cw = cwAlive then
      match t with
      | .reply :: t' => answered t'
      | _ => false
    else answered t
  | .reply :: _ => false
  | .ended :: t => answered t

def trReplies (tr : List Tr) : Nat := tr.countP (· == .reply)

/-- the alive-check replies among the writes -/
def replies (cfg : Cfg) (out : List (Nat × Bytes)) : List (Nat × Bytes) := out.filter (fun e => e.2 == aliveReply cfg)

end Gallia.HsfzSys
