/-
  C15 — command lifecycle: `BaseCommand.entry_point`, `AsyncScript.run`, `Scanner.setup/teardown`,
  `UDSScanner.setup/teardown`, `run_hook`, flock, META.json, run_meta row, zstd log handler
  (src/gallia/command/base.py, command/uds.py, db/handler.py, log.py).

  The model follows the code statement by statement.  A run is determined by
    * `Cfg`    which resources are configured (lock file, artifacts dir, database, hooks) and the command kind,
    * `Script` what every lifecycle point does (returns, `sys.exit(n)`, raises a connection / UDS / other error,
               `KeyboardInterrupt`, cancellation of the main task; hook scripts exit zero / non-zero),
  and yields a `Final`: what the caller of `entry_point()` sees and what is left on disk.

  `Quirks` switches on the three behaviours of the pinned tree that were repaired (`fix:` commits in the repo);
  `entryPoint = entryPointQ {}` is the current code.  The quirks are kept so that the correspondence harness can
  name a regression precisely and so that `Proofs/C15.lean` can show that each repair was necessary.
-/
namespace Gallia.Lifecycle

inductive Kind | plain | scanner | uds
  deriving DecidableEq, Repr, Inhabited

/-- class of an `Exception` raised by user code, as far as `CATCHED_EXCEPTIONS` can tell them apart -/
inductive ErrClass
  | conn   -- `ConnectionError` or a subclass (BrokenPipeError, ConnectionResetError, ...)
  | uds    -- `UDSException` or a subclass (MissingResponse, ...)
  | other  -- any other `Exception` (RuntimeError, ValueError, TimeoutError, OSError, AssertionError ...)
  deriving DecidableEq, Repr, Inhabited

/-- what travels up the stack -/
inductive Exc
  | sysExit (n : Nat)   -- `sys.exit(n)`, n an int
  | sysExitOther        -- `sys.exit()` / `sys.exit("text")`: code is not an int
  | err (c : ErrClass)
  | kbd                 -- `KeyboardInterrupt` raised synchronously
  | cancelled           -- `CancelledError` delivered at an await (what `asyncio.run` does on SIGINT)
  deriving DecidableEq, Repr, Inhabited

/-- one lifecycle point of the script: `none` = returns normally -/
abbrev Ev := Option Exc

structure Cfg where
  kind : Kind := .plain
  lock : Bool := false
  art : Bool := false
  db : Bool := false
  hooks : Bool := false
  deriving DecidableEq, Repr, Inhabited

structure Script where
  preFails : Bool := false    -- pre-hook script exits non-zero
  dbFails : Bool := false     -- the database cannot be opened (not a database, unsupported schema version, ...)
  setup : Ev := none
  main : Ev := none
  tdPre : Ev := none          -- teardown code of the command before it calls `super().teardown()`
  tdPost : Ev := none         -- ... and after it
  postFails : Bool := false
  deriving DecidableEq, Repr, Inhabited

structure Quirks where
  hookUnbound : Bool := false        -- `run_hook` touches the unbound `p` when the script fails
  scannerDisconnect : Bool := false  -- `Scanner.teardown` disconnects the database itself
  cancelUnmapped : Bool := false     -- no `except` clause for `CancelledError`
  dbOpenUnguarded : Bool := false    -- `_db_insert_run_meta()` runs before the `try:`; `connect()` leaks on failure
  deriving DecidableEq, Repr, Inhabited

inductive Hook | pre | post
  deriving DecidableEq, Repr, Inhabited

inductive Act | pre | connect | setup | main | tdPre | close | tdPost | post
  deriving DecidableEq, Repr, Inhabited

/-- an observable action together with what an onlooker sees at that moment -/
structure Obs where
  act : Act
  lockHeld : Bool
  metaExists : Bool
  deriving DecidableEq, Repr, Inhabited

inductive DbRow
  | absent                               -- no database / no run_meta row
  | running (start : Nat)                -- row inserted, `end_time` and `exit_code` NULL
  | done (start stop exit : Nat)
  deriving DecidableEq, Repr, Inhabited

inductive Outcome
  | ret (n : Nat)      -- `entry_point()` returned n  (-> `sys.exit(n)` in cli/gallia.py)
  | escCancelled       -- `CancelledError` left `entry_point()` (asyncio.run turns it into KeyboardInterrupt)
  | escHook            -- the `UnboundLocalError` of `run_hook` left `entry_point()`
  | escDb              -- the database error left `entry_point()`
  deriving DecidableEq, Repr, Inhabited

structure MetaFile where
  exit : Nat
  start : Nat
  stop : Nat
  deriving DecidableEq, Repr, Inhabited

structure PostEnv where
  exitCode : Nat      -- GALLIA_EXIT_CODE
  metaExit : Nat      -- exit_code inside GALLIA_META
  metaStop : Nat      -- end_time inside GALLIA_META (logical)
  deriving DecidableEq, Repr, Inhabited

/-- the mutable world while the run proceeds; `tick` is a logical clock, one step per modelled action -/
structure St where
  tick : Nat := 1                 -- `run_meta.start_time` is taken in `__init__` at tick 0
  lockHeld : Bool := false
  logOpen : Bool := false
  dbConn : Bool := false
  dbRow : DbRow := .absent
  transportOpen : Bool := false
  metaFile : Option MetaFile := none
  endTime : Nat := 0              -- `run_meta.end_time` (0 = still the empty string)
  trace : List Obs := []
  reports : List Hook := []
  preRan : Bool := false
  postEnv : Option PostEnv := none
  deriving DecidableEq, Repr, Inhabited

structure Final where
  exit : Outcome
  metaFile : Option MetaFile
  dbRow : DbRow
  dbClosed : Bool
  logClosed : Bool
  lockReleased : Bool
  preRan : Bool
  postEnv : Option PostEnv
  reports : List Hook
  transportClosed : Bool
  trace : List Obs
  deriving DecidableEq, Repr, Inhabited

def St.step (st : St) : St := { st with tick := st.tick + 1 }

/-- an instrumented action happens -/
def St.obs (st : St) (a : Act) : St :=
  { st with trace := st.trace ++ [⟨a, st.lockHeld, st.metaFile.isSome⟩], tick := st.tick + 1 }

def Kind.isScanner : Kind → Bool
  | .plain => false
  | _ => true

/-- number of `transport.close()` calls of a complete teardown: `UDSScanner.teardown` closes `ecu.transport`,
    then `Scanner.teardown` closes `self.transport` -/
def Kind.closes : Kind → Nat
  | .plain => 0
  | .scanner => 1
  | .uds => 2

/-- `CATCHED_EXCEPTIONS` of the command class -/
def catched : Kind → List ErrClass
  | .plain => []
  | .scanner => [.conn, .uds]
  | .uds => [.conn, .uds]

def St.obsN (st : St) (a : Act) : Nat → St
  | 0 => st
  | n + 1 => (st.obs a).obsN a n

/-- framework part of `teardown` (`UDSScanner.teardown` + `Scanner.teardown`): close the transport(s);
    with the quirk, also disconnect the database without completing the row -/
def baseTeardown (q : Quirks) (k : Kind) (st : St) : St :=
  if k.isScanner then
    let st := st.obsN .close k.closes
    let st := { st with transportOpen := false }
    if q.scannerDisconnect && st.dbConn then { st.step with dbConn := false } else st
  else st

/-- `AsyncScript.run`: `setup()`; `try: main() finally: teardown()`.
    Returns the world afterwards and the exception that leaves `run()`, if any. -/
def runBody (q : Quirks) (k : Kind) (s : Script) (st : St) : St × Option Exc :=
  -- Scanner.setup: connect the transport, then the command's own setup code
  let st := if k.isScanner then { st.obs .connect with transportOpen := true } else st
  let st := st.obs .setup
  match s.setup with
  | some e => (st, some e)                     -- setup() is outside the try: no teardown
  | none =>
    let st := st.obs .main
    let st := st.obs .tdPre                    -- teardown runs whatever main did
    match s.tdPre with
    | some e => (st, some e)                   -- replaces main's exception; base teardown skipped
    | none =>
      let st := baseTeardown q k st
      let st := st.obs .tdPost
      match s.tdPost with
      | some e => (st, some e)
      | none => (st, s.main)

/-- exit code constants (agreement with `gallia.exitcodes` / `signal.SIGINT` is a theorem over `Gen.C15Exit`) -/
def OK : Nat := 0
def SOFTWARE : Nat := 70
def IOERR : Nat := 74
def SIGINT_EXIT : Nat := 130

/-- the classes an in-flight exception is an instance of, as far as the `except` ladder is concerned -/
inductive ExcType | keyboardInterrupt | systemExit | exception | cancelledError
  deriving DecidableEq, Repr, Inhabited

def Exc.type : Exc → ExcType
  | .sysExit _ => .systemExit
  | .sysExitOther => .systemExit
  | .err _ => .exception
  | .kbd => .keyboardInterrupt
  | .cancelled => .cancelledError

/-- what a clause of the ladder does -/
inductive Handler | sigint | sysexit | exception
  deriving DecidableEq, Repr, Inhabited

/-- the `except` clauses of `entry_point` in source order: (types caught, body) -/
def ladder (q : Quirks) : List (List ExcType × Handler) :=
  [ (if q.cancelUnmapped then [.keyboardInterrupt] else [.keyboardInterrupt, .cancelledError], .sigint),
    ([.systemExit], .sysexit),
    ([.exception], .exception) ]

/-- Python's `try/except`: the first clause naming a class of the exception handles it -/
def dispatch (l : List (List ExcType × Handler)) (t : ExcType) : Option Handler :=
  (l.find? fun p => decide (t ∈ p.1)).map (·.2)

def handle (k : Kind) : Handler → Exc → Nat
  | .sigint, _ => SIGINT_EXIT
  | .sysexit, .sysExit n => n
  | .sysexit, _ => SOFTWARE
  | .exception, .err c => if c ∈ catched k then IOERR else SOFTWARE
  | .exception, _ => SOFTWARE

/-- exit code chosen by the ladder and whether the exception keeps propagating (no clause matched) -/
def mapExit (q : Quirks) (k : Kind) : Option Exc → Nat × Bool
  | none => (OK, false)
  | some e =>
    match dispatch (ladder q) e.type with
    | some h => (handle k h e, false)
    | none => (OK, true)                       -- `exit_code = 0` still holds when `finally` runs

/-- `run_hook`: runs the script; reports a failure; `true` = the UnboundLocalError escapes -/
def runHook (q : Quirks) (h : Hook) (fails : Bool) (st : St) : St × Bool :=
  if fails then
    if q.hookUnbound then (st, true) else ({ st with reports := st.reports ++ [h] }, false)
  else (st, false)

def St.final (st : St) (o : Outcome) : Final :=
  { exit := o, metaFile := st.metaFile, dbRow := st.dbRow, dbClosed := !st.dbConn, logClosed := !st.logOpen,
    lockReleased := !st.lockHeld, preRan := st.preRan, postEnv := st.postEnv, reports := st.reports,
    transportClosed := !st.transportOpen, trace := st.trace }

/-- the `finally:` block of `entry_point` -/
def finish (c : Cfg) (code : Nat) (st : St) : St :=
  let stop := st.tick                                       -- run_meta.end_time
  let st := { st.step with endTime := stop }
  -- _db_finish_run_meta: only when a connection is still there
  let st := if st.dbConn then
      let row := match st.dbRow with
        | .running s => DbRow.done s st.tick code
        | r => r
      { st.step with dbRow := row, dbConn := false }
    else st
  let st := if c.art then { st.step with metaFile := some ⟨code, 0, stop⟩ } else st
  { st.step with logOpen := false }

/-- flock, artifacts directory + log handler, pre-hook; `true` = the hook's UnboundLocalError escapes -/
def prePhase (q : Quirks) (c : Cfg) (s : Script) : St × Bool :=
  let st : St := {}
  let st := if c.lock then { st.step with lockHeld := true } else st
  let st := if c.art then { st.step with logOpen := true } else st
  if c.hooks then runHook q .pre s.preFails { st.obs .pre with preRan := true } else (st, false)

/-- `_db_insert_run_meta` -/
def dbInsert (c : Cfg) (st : St) : St :=
  if c.db then { st.step with dbConn := true, dbRow := .running st.tick } else st

/-- the body of the `try:` — `_db_insert_run_meta()` then `run()`.  When the database cannot be opened,
    `DBHandler.connect` closes what it had opened and the error (an unexpected `Exception`) takes the place of the run. -/
def tryBody (q : Quirks) (c : Cfg) (s : Script) (st : St) : St × Option Exc :=
  if c.db && s.dbFails then (st.step, some (.err .other)) else runBody q c.kind s (dbInsert c st)

/-- post-hook with `GALLIA_EXIT_CODE` and `GALLIA_META` -/
def postPhase (q : Quirks) (c : Cfg) (s : Script) (code : Nat) (st : St) : St × Bool :=
  if c.hooks then
    runHook q .post s.postFails { st.obs .post with postEnv := some ⟨code, code, st.endTime⟩ }
  else (st, false)

/-- `_release_flock` -/
def unlock (c : Cfg) (st : St) : St :=
  if c.lock then { st.step with lockHeld := false } else st

def entryPointQ (q : Quirks) (c : Cfg) (s : Script) : Final :=
  let p := prePhase q c s
  if p.2 then p.1.final .escHook else           -- nothing below runs
  -- pinned behaviour: the insert is outside the try and the half-opened connection is left behind
  if q.dbOpenUnguarded && c.db && s.dbFails then ({ p.1.step with dbConn := true }).final .escDb else
  let r := tryBody q c s p.1                    -- try: _db_insert_run_meta(); exit_code = await self.run()
  let m := mapExit q c.kind r.2                 -- except ...
  let st := finish c m.1 r.1                    -- finally: ...
  if m.2 then st.final .escCancelled else       -- the exception keeps propagating
  let h := postPhase q c s m.1 st
  if h.2 then h.1.final .escHook else
  (unlock c h.1).final (.ret m.1)

/-! ### names used by the agreement theorems with the tables regenerated from the source (`Gen.C15Exit`) -/

def ExcType.pyName : ExcType → String
  | .keyboardInterrupt => "KeyboardInterrupt"
  | .systemExit => "SystemExit"
  | .exception => "Exception"
  | .cancelledError => "CancelledError"

def ExcType.genName : ExcType → String
  | .keyboardInterrupt => "keyboardInterrupt"
  | .systemExit => "systemExit"
  | .exception => "exception"
  | .cancelledError => "cancelledError"

def Handler.name : Handler → String
  | .sigint => "sigint"
  | .sysexit => "sysexit"
  | .exception => "exception"

def ErrClass.name : ErrClass → String
  | .conn => "conn"
  | .uds => "uds"
  | .other => "other"

def ladderNames (q : Quirks) : List (List String × String) :=
  (ladder q).map fun p => (p.1.map ExcType.pyName, p.2.name)

/-- the statements of `entry_point` in the order `entryPointQ` executes them -/
def modelSteps : List String :=
  ["lock", "artifacts", "log_open", "pre_hook", "exit_code=0", "try:db_insert", "try:run",
   "finally:meta.exit_code", "finally:meta.end_time", "finally:db_finish", "finally:meta_write", "finally:log_close",
   "post_hook", "unlock", "return"]

/-- `AsyncScript.run` as `runBody` reads it -/
def modelRunShape : List String :=
  ["await self.setup()", "try:await self.main()", "finally:await self.teardown()", "return exitcodes.OK"]

/-- the code as it is now -/
def entryPoint (c : Cfg) (s : Script) : Final := entryPointQ {} c s

end Gallia.Lifecycle
