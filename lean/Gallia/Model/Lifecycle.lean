/-
  C15 — command lifecycle: `BaseCommand.entry_point`, `FlockMixin`, `prepare_artifacts_dir`, `AsyncScript.run`,
  `Scanner.setup/teardown`, `UDSScanner.setup/teardown`, `run_hook`, META.json, run_meta row, zstd log handler
  (src/gallia/command/base.py, command/uds.py, db/handler.py, log.py).

  The model follows the code statement by statement.  A run is determined by
    * `World`  what the run finds outside itself: the state of the lock file (free / held by somebody else / cannot be
               opened), the run directories already below `<artifacts_base>/<command id>` and whether a new one can be
               created, the name `datetime.now()` gives the new directory,
    * `Cfg`    which resources are configured (lock file, artifacts dir, database, hooks; power supply, dumpcap,
               tester-present task, ECU properties) and the command kind,
    * `Script` what every lifecycle point does: the points of the command itself (setup, main, teardown before / after
               `super().teardown()`: returns, `sys.exit(n)`, raises a connection / UDS / other error,
               `KeyboardInterrupt`, cancellation of the main task), the framework's own steps inside `Scanner.setup`,
               `UDSScanner.setup` and their teardowns (power supply connect, dumpcap, transport connect, `ecu.connect`,
               tester-present start / stop, properties, `transport.close()`, `dumpcap.stop()`), hook scripts exiting
               zero / non-zero, the database opening or not,
  and yields a `Final`: what the caller of `entry_point()` sees and what is left on disk.

  `setup()` and `teardown()` are lists of `Step`s run by `runSteps` (the first step that raises ends the list: Python's
  sequencing of awaited statements); `runBody` is `AsyncScript.run`.

  `Quirks` switches on the behaviours of the pinned tree that were repaired (`fix:` commits in the repo) and one
  behaviour the code does not have (`mkdir(exist_ok=True)`); `entryPoint = entryPointQ {}` is the current code in a
  benign world, `entryPointW {}` the current code in any world.  The quirks are kept so that the correspondence harness
  can name a regression precisely and so that `Proofs/C15.lean` can show that each repair / each guard is necessary.
-/
namespace Gallia.Lifecycle

inductive Kind | plain | scanner | uds
  deriving DecidableEq, Repr, Inhabited

/-- class of an `Exception` raised by user code, as far as `CATCHED_EXCEPTIONS` can tell them apart -/
inductive ErrClass
  | conn   -- `ConnectionError` or a subclass (BrokenPipeError, ConnectionResetError, ConnectionRefusedError ...)
  | uds    -- `UDSException` or a subclass (MissingResponse, ...)
  | other  -- any other `Exception` (RuntimeError, ValueError, TimeoutError, OSError, AssertionError ...)
  deriving DecidableEq, Repr, Inhabited

/-- what travels up the stack -/
inductive Exc
  | sysExit (n : Nat)   -- `sys.exit(n)`, n an int
  | sysExitOther        -- `sys.exit()` / `sys.exit("text")`: code is not an int
  | err (c : ErrClass)
  | kbd                 -- `KeyboardInterrupt` raised synchronously
  | cancelled           -- `CancelledError` delivered at an await (what `asyncio.run` does on SIGINT)
  deriving DecidableEq, Repr, Inhabited

/-- one lifecycle point of the script: `none` = returns normally -/
abbrev Ev := Option Exc

structure Cfg where
  kind : Kind := .plain
  lock : Bool := false
  art : Bool := false
  db : Bool := false
  hooks : Bool := false
  power : Bool := false     -- `--power-supply` given: `PowerSupply.connect` is the first step of `Scanner.setup`
  dumpcap : Bool := false   -- `--dumpcap`; only effective together with an artifacts directory
  tp : Bool := false        -- `--tester-present`: cyclic TesterPresent task of a UDS scanner
  props : Bool := false     -- `--properties`: ECU properties are read in setup and in teardown of a UDS scanner
  deriving DecidableEq, Repr, Inhabited

/-- the dumpcap block of `Scanner.setup` -/
inductive Dumpcap
  | started      -- `Dumpcap.start` returned a process and `sync()` saw the pcap header
  | notStarted   -- `Dumpcap.start` returned None: an error is logged, the run goes on without a capture
  | missing      -- `shutil.which("dumpcap")` is None: RuntimeError
  | syncFails    -- the process was started but `sync()` timed out: TimeoutError, the process is left behind
  deriving DecidableEq, Repr, Inhabited

structure Script where
  preFails : Bool := false    -- pre-hook script exits non-zero
  dbFails : Bool := false     -- the database cannot be opened (not a database, unsupported schema version, ...)
  power : Ev := none          -- `PowerSupply.connect`                                  (Scanner.setup, if `power`)
  dumpcap : Dumpcap := .started  --                                                    (Scanner.setup, if `art` and `dumpcap`)
  connect : Ev := none        -- `load_transport(target).connect(target)`              (Scanner.setup)
  ecuConnect : Ev := none     -- `ecu.connect()`                                       (UDSScanner.setup)
  tpStart : Ev := none        -- `ecu.start_cyclic_tester_present` (raising = no task)  (UDSScanner.setup, if `tp`)
  propsPre : Ev := none       -- `ecu.properties(True)`                                (UDSScanner.setup, if `props`)
  setup : Ev := none          -- setup code of the command after `super().setup()`
  main : Ev := none
  tdPre : Ev := none          -- teardown code of the command before it calls `super().teardown()`
  propsPost : Ev := none      -- `ecu.properties(True)`                                (UDSScanner.teardown, if `props`)
  tpStop : Ev := none         -- `ecu.stop_cyclic_tester_present` (the task is gone either way) (if `tp`)
  ecuClose : Ev := none       -- `ecu.transport.close()`                               (UDSScanner.teardown)
  close : Ev := none          -- `transport.close()`                                   (Scanner.teardown)
  dcStop : Ev := none         -- `dumpcap.stop()`                                      (Scanner.teardown, if started)
  tdPost : Ev := none         -- ... and after `super().teardown()`
  postFails : Bool := false
  deriving DecidableEq, Repr, Inhabited

structure Quirks where
  hookUnbound : Bool := false        -- `run_hook` touches the unbound `p` when the script fails
  scannerDisconnect : Bool := false  -- `Scanner.teardown` disconnects the database itself
  cancelUnmapped : Bool := false     -- no `except` clause for `CancelledError`
  dbOpenUnguarded : Bool := false    -- `_db_insert_run_meta()` runs before the `try:`; `connect()` leaks on failure
  mkdirExistOk : Bool := false       -- NOT in the code, never was: `artifacts_dir.mkdir(parents=True, exist_ok=True)`
  deriving DecidableEq, Repr, Inhabited

/-- what `_open_lockfile` + `_aquire_flock` find -/
inductive LockEnv
  | free     -- nobody holds the lock
  | busy     -- another descriptor holds it: `LOCK_NB` fails, the blocking `flock` in a thread returns once it is free
  | broken   -- the lock file cannot be created / opened, or `flock` raises an OSError other than EWOULDBLOCK
  | interrupted  -- another descriptor holds it and the main task is cancelled (Ctrl-C) while the run waits
  deriving DecidableEq, Repr, Inhabited

/-- a `run-*` directory below `<artifacts_base>/<command id>`: its name (directory names sort like the time they
    render) and its META.json (`some tag`: the file exists, `tag` stands for its content - the exit code for the
    run that is modelled, anything for earlier runs) -/
structure RunDir where
  name : Nat
  metaTag : Option Nat := none
  deriving DecidableEq, Repr, Inhabited

structure World where
  lock : LockEnv := .free
  baseOk : Bool := true        -- directories can be created below `artifacts_base`
  now : Nat := 0               -- `run-{datetime.now():%Y%m%d-%H%M%S.%f}` of this run
  runs : List RunDir := []     -- what is already there
  latest : Option Nat := none  -- where the `LATEST` symlink points
  deriving DecidableEq, Repr, Inhabited

inductive Hook | pre | post
  deriving DecidableEq, Repr, Inhabited

inductive Act
  | pre | power | dumpcap | connect | ecuConnect | tpStart | propsPre | setup | main
  | tdPre | propsPost | tpStop | close | dcStop | tdPost | post
  deriving DecidableEq, Repr, Inhabited

/-- an observable action together with what an onlooker sees at that moment -/
structure Obs where
  act : Act
  lockHeld : Bool
  metaExists : Bool
  deriving DecidableEq, Repr, Inhabited

inductive DbRow
  | absent                               -- no database / no run_meta row
  | running (start : Nat)                -- row inserted, `end_time` and `exit_code` NULL
  | done (start stop exit : Nat)
  deriving DecidableEq, Repr, Inhabited

inductive Outcome
  | ret (n : Nat)      -- `entry_point()` returned n  (-> `sys.exit(n)` in cli/gallia.py)
  | escCancelled       -- `CancelledError` left `entry_point()` (asyncio.run turns it into KeyboardInterrupt)
  | escHook            -- the `UnboundLocalError` of `run_hook` left `entry_point()`
  | escDb              -- the database error left `entry_point()`
  | escArt             -- the `OSError` of `prepare_artifacts_dir` left `entry_point()` (traceback, process status 1)
  | escLockWait        -- `CancelledError` left `entry_point()` out of `_aquire_flock` (the process ends, by SIGINT, once
                       --   the blocked `flock` thread has got the lock)
  deriving DecidableEq, Repr, Inhabited

structure MetaFile where
  exit : Nat
  start : Nat
  stop : Nat
  deriving DecidableEq, Repr, Inhabited

structure PostEnv where
  exitCode : Nat      -- GALLIA_EXIT_CODE
  metaExit : Nat      -- exit_code inside GALLIA_META
  metaStop : Nat      -- end_time inside GALLIA_META (logical)
  deriving DecidableEq, Repr, Inhabited

/-- the mutable world while the run proceeds; `tick` is a logical clock, one step per modelled action -/
structure St where
  tick : Nat := 1                 -- `run_meta.start_time` is taken in `__init__` at tick 0
  lockHeld : Bool := false
  logOpen : Bool := false
  dbConn : Bool := false
  dbRow : DbRow := .absent
  transportOpen : Bool := false
  metaFile : Option MetaFile := none
  endTime : Nat := 0              -- `run_meta.end_time` (0 = still the empty string)
  trace : List Obs := []
  reports : List Hook := []
  preRan : Bool := false
  postEnv : Option PostEnv := none
  tpRunning : Bool := false       -- the cyclic TesterPresent task exists and is not done
  dcRunning : Bool := false       -- a dumpcap process started by this run is alive
  waited : Bool := false          -- "waiting for flock…"
  artDir : Option Nat := none     -- `self.artifacts_dir`
  runs : List RunDir := []        -- the run directories on disk
  latest : Option Nat := none     -- target of `LATEST`
  deriving DecidableEq, Repr, Inhabited

structure Final where
  exit : Outcome
  metaFile : Option MetaFile
  dbRow : DbRow
  dbClosed : Bool
  logClosed : Bool
  lockReleased : Bool
  preRan : Bool
  postEnv : Option PostEnv
  reports : List Hook
  transportClosed : Bool
  trace : List Obs
  tpStopped : Bool := true
  dcStopped : Bool := true
  waited : Bool := false
  artDir : Option Nat := none
  runs : List RunDir := []
  latest : Option Nat := none
  deriving DecidableEq, Repr, Inhabited

def St.step (st : St) : St := { st with tick := st.tick + 1 }

/-- an instrumented action happens -/
def St.obs (st : St) (a : Act) : St :=
  { st with trace := st.trace ++ [⟨a, st.lockHeld, st.metaFile.isSome⟩], tick := st.tick + 1 }

def Kind.isScanner : Kind → Bool
  | .plain => false
  | _ => true

def Kind.isUds : Kind → Bool
  | .uds => true
  | _ => false

/-- number of `transport.close()` calls of a complete teardown: `UDSScanner.teardown` closes `ecu.transport`,
    then `Scanner.teardown` closes `self.transport` -/
def Kind.closes : Kind → Nat
  | .plain => 0
  | .scanner => 1
  | .uds => 2

/-- `CATCHED_EXCEPTIONS` of the command class -/
def catched : Kind → List ErrClass
  | .plain => []
  | .scanner => [.conn, .uds]
  | .uds => [.conn, .uds]

/-! ### `setup()` / `teardown()` as lists of steps -/

/-- what a step does to the resources of the run besides being observed -/
inductive Fx
  | nop
  | transportOpen
  | transportClose
  | transportCloseDbDrop    -- pinned `Scanner.teardown`: close the transport, then disconnect the database
  | tpOn | tpOff
  | dcOn | dcOff
  deriving DecidableEq, Repr, Inhabited

def St.fx (st : St) : Fx → St
  | .nop => st
  | .transportOpen => { st with transportOpen := true }
  | .transportClose => { st with transportOpen := false }
  | .transportCloseDbDrop =>
    let st := { st with transportOpen := false }
    if st.dbConn then { st.step with dbConn := false } else st
  | .tpOn => { st with tpRunning := true }
  | .tpOff => { st with tpRunning := false }
  | .dcOn => { st with dcRunning := true }
  | .dcOff => { st with dcRunning := false }

/-- one awaited statement (or block) of a `setup` / `teardown` method -/
structure Step where
  act : Act
  ev : Ev := none           -- what the script makes it do
  onOk : Fx := .nop         -- effect when it returns
  always : Fx := .nop       -- effect it has even when it raises
  deriving DecidableEq, Repr, Inhabited

/-- a sequence of awaited statements: the first one that raises ends it -/
def runSteps : List Step → St → St × Option Exc
  | [], st => (st, none)
  | p :: ps, st =>
    let st := (st.obs p.act).fx p.always
    match p.ev with
    | some e => (st, some e)
    | none => runSteps ps (st.fx p.onOk)

def dumpcapStep : Dumpcap → Step
  | .started => { act := .dumpcap, onOk := .dcOn }
  | .notStarted => { act := .dumpcap }
  | .missing => { act := .dumpcap, ev := some (.err .other) }
  | .syncFails => { act := .dumpcap, ev := some (.err .other), always := .dcOn }

/-- `self.dumpcap` is set after `Scanner.setup` -/
def dumpcapActive (c : Cfg) (s : Script) : Bool :=
  c.art && c.dumpcap && (s.dumpcap == .started)

/-- `Scanner.setup`: power supply, dumpcap, transport -/
def scannerSetup (c : Cfg) (s : Script) : List Step :=
  (if c.power then [{ act := .power, ev := s.power }] else []) ++
  (if c.art && c.dumpcap then [dumpcapStep s.dumpcap] else []) ++
  [{ act := .connect, ev := s.connect, onOk := .transportOpen }]

/-- `UDSScanner.setup` after `super().setup()`: `ecu.connect()`, tester-present task, properties -/
def udsSetup (c : Cfg) (s : Script) : List Step :=
  [{ act := .ecuConnect, ev := s.ecuConnect }] ++
  (if c.tp then [{ act := .tpStart, ev := s.tpStart, onOk := .tpOn }] else []) ++
  (if c.props then [{ act := .propsPre, ev := s.propsPre }] else [])

/-- `setup()` of the command: the framework's part (`super().setup()`), then the command's own code -/
def setupSteps (c : Cfg) (s : Script) : List Step :=
  (if c.kind.isScanner then scannerSetup c s else []) ++
  (if c.kind.isUds then udsSetup c s else []) ++
  [{ act := .setup, ev := s.setup }]

/-- `UDSScanner.teardown` before `super().teardown()`: properties, tester-present task, `ecu.transport.close()` -/
def udsTeardown (c : Cfg) (s : Script) : List Step :=
  (if c.props then [{ act := .propsPost, ev := s.propsPost }] else []) ++
  (if c.tp then [{ act := .tpStop, ev := s.tpStop, always := .tpOff }] else []) ++
  [{ act := .close, ev := s.ecuClose, onOk := .transportClose }]

/-- `Scanner.teardown`: `transport.close()`, then `dumpcap.stop()` when a capture is running -/
def scannerTeardown (q : Quirks) (c : Cfg) (s : Script) : List Step :=
  [{ act := .close, ev := s.close, onOk := if q.scannerDisconnect then .transportCloseDbDrop else .transportClose }] ++
  (if dumpcapActive c s then [{ act := .dcStop, ev := s.dcStop, onOk := .dcOff }] else [])

/-- `teardown()` of the command: its own code around the framework's part (`super().teardown()`) -/
def teardownSteps (q : Quirks) (c : Cfg) (s : Script) : List Step :=
  [{ act := .tdPre, ev := s.tdPre }] ++
  (if c.kind.isUds then udsTeardown c s else []) ++
  (if c.kind.isScanner then scannerTeardown q c s else []) ++
  [{ act := .tdPost, ev := s.tdPost }]

/-- `AsyncScript.run`: `setup()`; `try: main() finally: teardown()`.
    Returns the world afterwards and the exception that leaves `run()`, if any. -/
def runBody (q : Quirks) (c : Cfg) (s : Script) (st : St) : St × Option Exc :=
  let r := runSteps (setupSteps c s) st
  match r.2 with
  | some e => (r.1, some e)                    -- setup() is outside the try: no teardown
  | none =>
    let st := r.1.obs .main
    let t := runSteps (teardownSteps q c s) st -- teardown runs whatever main did
    match t.2 with
    | some e => (t.1, some e)                  -- replaces main's exception
    | none => (t.1, s.main)

/-- exit code constants (agreement with `gallia.exitcodes` / `signal.SIGINT` is a theorem over `Gen.C15Exit`) -/
def OK : Nat := 0
def SOFTWARE : Nat := 70
def OSFILE : Nat := 72
def IOERR : Nat := 74
def SIGINT_EXIT : Nat := 130

/-- the classes an in-flight exception is an instance of, as far as the `except` ladder is concerned -/
inductive ExcType | keyboardInterrupt | systemExit | exception | cancelledError
  deriving DecidableEq, Repr, Inhabited

def Exc.type : Exc → ExcType
  | .sysExit _ => .systemExit
  | .sysExitOther => .systemExit
  | .err _ => .exception
  | .kbd => .keyboardInterrupt
  | .cancelled => .cancelledError

/-- what a clause of the ladder does -/
inductive Handler | sigint | sysexit | exception
  deriving DecidableEq, Repr, Inhabited

/-- the `except` clauses of `entry_point` in source order: (types caught, body) -/
def ladder (q : Quirks) : List (List ExcType × Handler) :=
  [ (if q.cancelUnmapped then [.keyboardInterrupt] else [.keyboardInterrupt, .cancelledError], .sigint),
    ([.systemExit], .sysexit),
    ([.exception], .exception) ]

/-- Python's `try/except`: the first clause naming a class of the exception handles it -/
def dispatch (l : List (List ExcType × Handler)) (t : ExcType) : Option Handler :=
  (l.find? fun p => decide (t ∈ p.1)).map (·.2)

def handle (k : Kind) : Handler → Exc → Nat
  | .sigint, _ => SIGINT_EXIT
  | .sysexit, .sysExit n => n
  | .sysexit, _ => SOFTWARE
  | .exception, .err c => if c ∈ catched k then IOERR else SOFTWARE
  | .exception, _ => SOFTWARE

/-- exit code chosen by the ladder and whether the exception keeps propagating (no clause matched) -/
def mapExit (q : Quirks) (k : Kind) : Option Exc → Nat × Bool
  | none => (OK, false)
  | some e =>
    match dispatch (ladder q) e.type with
    | some h => (handle k h e, false)
    | none => (OK, true)                       -- `exit_code = 0` still holds when `finally` runs

/-- `run_hook`: runs the script; reports a failure; `true` = the UnboundLocalError escapes -/
def runHook (q : Quirks) (h : Hook) (fails : Bool) (st : St) : St × Bool :=
  if fails then
    if q.hookUnbound then (st, true) else ({ st with reports := st.reports ++ [h] }, false)
  else (st, false)

def St.final (st : St) (o : Outcome) : Final :=
  { exit := o, metaFile := st.metaFile, dbRow := st.dbRow, dbClosed := !st.dbConn, logClosed := !st.logOpen,
    lockReleased := !st.lockHeld, preRan := st.preRan, postEnv := st.postEnv, reports := st.reports,
    transportClosed := !st.transportOpen, trace := st.trace, tpStopped := !st.tpRunning, dcStopped := !st.dcRunning,
    waited := st.waited, artDir := st.artDir, runs := st.runs, latest := st.latest }

/-! ### the prologue of `entry_point`: lock, artifacts directory -/

/-- what the run starts from -/
def St.init (w : World) : St := { runs := w.runs, latest := w.latest }

inductive LockRes
  | ok (st : St)            -- the lock is ours
  | failed                  -- OSError: `entry_point` logs it and returns `exitcodes.OSFILE`
  | interrupted (st : St)   -- cancelled while waiting: the `await asyncio.to_thread(flock ...)` is outside every `try`
  deriving Repr, Inhabited

/-- `_open_lockfile` + `_aquire_flock` -/
def lockPhase (w : World) (c : Cfg) (st : St) : LockRes :=
  if c.lock then
    match w.lock with
    | .broken => .failed
    | .busy => .ok { st.step with lockHeld := true, waited := true }  -- nothing else happens while it waits
    | .free => .ok { st.step with lockHeld := true }
    -- the helper thread keeps blocking in `flock` and takes the lock as soon as it is free; nothing releases it
    | .interrupted => .interrupted { st.step with lockHeld := true, waited := true }
  else .ok st

/-- the name-wise last `run-*` directory (`_add_latest_link` sorts by name) -/
def lastName : List RunDir → Option Nat
  | [] => none
  | r :: rs => match lastName rs with
    | none => some r.name
    | some m => some (max r.name m)

/-- `write_text` on `<dir n>/META.json`: creates or overwrites -/
def writeMeta (n tag : Nat) (rs : List RunDir) : List RunDir :=
  rs.map fun r => if r.name == n then { r with metaTag := some tag } else r

/-- `prepare_artifacts_dir` + `add_zst_log_handler`; `none` = the OSError of `mkdir` leaves `entry_point`.
    `mkdir(parents=True)` has no `exist_ok`: a directory of the same name makes it raise. -/
def artPhase (q : Quirks) (w : World) (c : Cfg) (st : St) : Option St :=
  if c.art then
    if !w.baseOk then none
    else if st.runs.any (·.name == w.now) then
      if q.mkdirExistOk then
        some { st.step with artDir := some w.now, latest := lastName st.runs, logOpen := true }
      else none
    else
      let runs := st.runs ++ [{ name := w.now }]
      some { st.step with artDir := some w.now, runs := runs, latest := lastName runs, logOpen := true }
  else some st

/-- the `finally:` block of `entry_point` -/
def finish (c : Cfg) (code : Nat) (st : St) : St :=
  let stop := st.tick                                       -- run_meta.end_time
  let st := { st.step with endTime := stop }
  -- _db_finish_run_meta: only when a connection is still there
  let st := if st.dbConn then
      let row := match st.dbRow with
        | .running s => DbRow.done s st.tick code
        | r => r
      { st.step with dbRow := row, dbConn := false }
    else st
  let st := if c.art then
      { st.step with metaFile := some ⟨code, 0, stop⟩,
                     runs := match st.artDir with
                       | some n => writeMeta n code st.runs
                       | none => st.runs }
    else st
  { st.step with logOpen := false }

/-- pre-hook; `true` = the hook's UnboundLocalError escapes -/
def hookPre (q : Quirks) (c : Cfg) (s : Script) (st : St) : St × Bool :=
  if c.hooks then runHook q .pre s.preFails { st.obs .pre with preRan := true } else (st, false)

/-- `_db_insert_run_meta` -/
def dbInsert (c : Cfg) (st : St) : St :=
  if c.db then { st.step with dbConn := true, dbRow := .running st.tick } else st

/-- the body of the `try:` — `_db_insert_run_meta()` then `run()`.  When the database cannot be opened,
    `DBHandler.connect` closes what it had opened and the error (an unexpected `Exception`) takes the place of the run. -/
def tryBody (q : Quirks) (c : Cfg) (s : Script) (st : St) : St × Option Exc :=
  if c.db && s.dbFails then (st.step, some (.err .other)) else runBody q c s (dbInsert c st)

/-- post-hook with `GALLIA_EXIT_CODE` and `GALLIA_META` -/
def postPhase (q : Quirks) (c : Cfg) (s : Script) (code : Nat) (st : St) : St × Bool :=
  if c.hooks then
    runHook q .post s.postFails { st.obs .post with postEnv := some ⟨code, code, st.endTime⟩ }
  else (st, false)

/-- `_release_flock` -/
def unlock (c : Cfg) (st : St) : St :=
  if c.lock then { st.step with lockHeld := false } else st

/-- `entry_point` from the pre-hook on, the lock and the artifacts directory being there -/
def fromPreHook (q : Quirks) (c : Cfg) (s : Script) (st : St) : Final :=
  let p := hookPre q c s st
  if p.2 then p.1.final .escHook else           -- nothing below runs
  -- pinned behaviour: the insert is outside the try and the half-opened connection is left behind
  if q.dbOpenUnguarded && c.db && s.dbFails then ({ p.1.step with dbConn := true }).final .escDb else
  let r := tryBody q c s p.1                    -- try: _db_insert_run_meta(); exit_code = await self.run()
  let m := mapExit q c.kind r.2                 -- except ...
  let st := finish c m.1 r.1                    -- finally: ...
  if m.2 then st.final .escCancelled else       -- the exception keeps propagating
  let h := postPhase q c s m.1 st
  if h.2 then h.1.final .escHook else
  (unlock c h.1).final (.ret m.1)

/-- `BaseCommand.entry_point` -/
def entryPointW (q : Quirks) (w : World) (c : Cfg) (s : Script) : Final :=
  match lockPhase w c (St.init w) with
  | .failed => (St.init w).final (.ret OSFILE)  -- `return exitcodes.OSFILE`: nothing else happens
  | .interrupted st => st.final .escLockWait    -- the CancelledError propagates: nothing else happens
  | .ok st =>
    match artPhase q w c st with
    | none => st.final .escArt                  -- the OSError propagates: no handler, the lock fd stays open
    | some st => fromPreHook q c s st

/-- `entry_point` where the lock is free and the artifacts base is empty and writable -/
def entryPointQ (q : Quirks) (c : Cfg) (s : Script) : Final := entryPointW q {} c s

/-! ### names used by the agreement theorems with the tables regenerated from the source (`Gen.C15Exit`) -/

def ExcType.pyName : ExcType → String
  | .keyboardInterrupt => "KeyboardInterrupt"
  | .systemExit => "SystemExit"
  | .exception => "Exception"
  | .cancelledError => "CancelledError"

def ExcType.genName : ExcType → String
  | .keyboardInterrupt => "keyboardInterrupt"
  | .systemExit => "systemExit"
  | .exception => "exception"
  | .cancelledError => "cancelledError"

def Handler.name : Handler → String
  | .sigint => "sigint"
  | .sysexit => "sysexit"
  | .exception => "exception"

def ErrClass.name : ErrClass → String
  | .conn => "conn"
  | .uds => "uds"
  | .other => "other"

def Act.name : Act → String
  | .pre => "pre" | .power => "power" | .dumpcap => "dumpcap" | .connect => "connect" | .ecuConnect => "ecuConnect"
  | .tpStart => "tpStart" | .propsPre => "propsPre" | .setup => "setup" | .main => "main" | .tdPre => "tdPre"
  | .propsPost => "propsPost" | .tpStop => "tpStop" | .close => "close" | .dcStop => "dcStop" | .tdPost => "tdPost"
  | .post => "post"

def ladderNames (q : Quirks) : List (List String × String) :=
  (ladder q).map fun p => (p.1.map ExcType.pyName, p.2.name)

/-- the statements of `entry_point` in the order `entryPointW` executes them -/
def modelSteps : List String :=
  ["lock", "artifacts", "log_open", "pre_hook", "exit_code=0", "try:db_insert", "try:run",
   "finally:meta.exit_code", "finally:meta.end_time", "finally:db_finish", "finally:meta_write", "finally:log_close",
   "post_hook", "unlock", "return"]

/-- `AsyncScript.run` as `runBody` reads it -/
def modelRunShape : List String :=
  ["await self.setup()", "try:await self.main()", "finally:await self.teardown()", "return exitcodes.OK"]

/-- everything switched on: every step of the framework's setup / teardown exists -/
def Cfg.allOn (k : Kind) : Cfg :=
  { kind := k, lock := true, art := true, db := true, hooks := true, power := true, dumpcap := true, tp := true,
    props := true }

/-- the steps of the four framework methods, by name, in the order `runSteps` performs them -/
def scannerSetupOrder : List String := (scannerSetup (.allOn .scanner) {}).map (·.act.name)
def udsSetupOrder : List String := (udsSetup (.allOn .uds) {}).map (·.act.name)
def udsTeardownOrder : List String := (udsTeardown (.allOn .uds) {}).map (·.act.name)
def scannerTeardownOrder : List String := (scannerTeardown {} (.allOn .scanner) {}).map (·.act.name)

/-- the statements of the four methods in source order: the modelled steps, and by name the statements that are not
    steps of the model (construction of the ECU object, the scan-run row whose errors are swallowed, the optional
    ECUReset and the initial ping) -/
def scannerSetupSrc : List String := scannerSetupOrder
def udsSetupSrc : List String := ["super", "ecu:new", "ecu:db", "db:scan_run", "ecu_reset", "ping"] ++ udsSetupOrder
def udsTeardownSrc : List String := udsTeardownOrder ++ ["super"]
def scannerTeardownSrc : List String := scannerTeardownOrder

/-- the `if` that guards each statement, as the step lists read it:
    `power` / `art && dumpcap` / `tp` / `props` / `dumpcapActive` -/
def modelGuards : List (String × String) :=
  [("Scanner.setup:power", "self.config.power_supply is not None"),
   ("Scanner.setup:dumpcap", "self.artifacts_dir and self.config.dumpcap"),
   ("Scanner.setup:connect", ""),
   ("UDSScanner.setup:super", ""), ("UDSScanner.setup:ecu:new", ""), ("UDSScanner.setup:ecu:db", ""),
   ("UDSScanner.setup:db:scan_run", "self.db_handler is not None"),
   ("UDSScanner.setup:ecu_reset", "self.config.ecu_reset is not None"),
   ("UDSScanner.setup:ping", "self.config.ping"),
   ("UDSScanner.setup:ecuConnect", ""),
   ("UDSScanner.setup:tpStart", "self.config.tester_present"),
   ("UDSScanner.setup:propsPre", "self.config.properties is True"),
   ("UDSScanner.teardown:propsPost", "self.config.properties is True and (not self.ecu.transport.is_closed)"),
   ("UDSScanner.teardown:tpStop", "self.config.tester_present"),
   ("UDSScanner.teardown:close", ""), ("UDSScanner.teardown:super", ""),
   ("Scanner.teardown:close", ""),
   ("Scanner.teardown:dcStop", "self.dumpcap")]

/-- `prepare_artifacts_dir` as `artPhase` reads it: name from the clock, `mkdir` (fails when the name exists), ENV dump,
    `LATEST` -/
def modelArtifactsSteps : List String :=
  ["command_dir", "run_dir_name", "artifacts_dir", "mkdir", "dump_env", "latest_link", "return"]

/-- the code as it is now, in a benign world -/
def entryPoint (c : Cfg) (s : Script) : Final := entryPointQ {} c s

end Gallia.Lifecycle
