/-
  `BaseTransport.reconnect(timeout)` (src/gallia/transports/base.py) against a target whose `connect` may fail - the
  dimension behind "a caller that fails releases the client": `UDSClient.reconnect()` / `reconnect_unsafe()` call it with
  `timeout=None` while they hold the client mutex.

      async with self.mutex:
          close()
          async with asyncio.timeout(timeout):
              while True:
                  try: return await self.connect(self.target)
                  except ConnectionError as e:
                      if timeout is None: raise e
                      await asyncio.sleep(0.1)

  `outcome k` is the result of the k-th connection attempt (an arbitrary stream: refused k times then accepted, refused
  forever, ...), `c` the duration of one attempt, times in ms.  With a deadline `T` the pending await is cancelled when
  the clock reaches `T`.  Only `ConnectionError` is retried; `TimeoutError` / other `OSError`s of `connect` propagate.
-/
namespace Gallia.TransportReconnect

inductive ConnRes | ok | refused | timedOut | osError
  deriving DecidableEq, Repr

inductive RcOut | connected | error (r : ConnRes) | deadline
  deriving DecidableEq, Repr

/-- result, number of completed connection attempts, time at which the caller gets control back -/
structure RcRun where
  out : RcOut
  attempts : Nat
  elapsed : Nat
  deriving DecidableEq, Repr

/-- the retry interval of the loop (`asyncio.sleep(0.1)`) -/
def retryMs : Nat := 100

/-- the loop under `asyncio.timeout(T)`: attempt `k` starts at time `t` -/
def rcLoop (outcome : Nat → ConnRes) (c T k t : Nat) : RcRun :=
  if t + c ≥ T then ⟨.deadline, k, T⟩
  else match outcome k with
    | .ok => ⟨.connected, k + 1, t + c⟩
    | .refused =>
      if t + c + retryMs ≥ T then ⟨.deadline, k + 1, T⟩
      else rcLoop outcome c T (k + 1) (t + c + retryMs)
    | r => ⟨.error r, k + 1, t + c⟩
termination_by T - t
decreasing_by simp only [retryMs] at *; omega

/-- `BaseTransport.reconnect(timeout)`; `none`: "only attempt to connect once" -/
def reconnect (outcome : Nat → ConnRes) (c : Nat) : Option Nat → RcRun
  | none => match outcome 0 with
    | .ok => ⟨.connected, 1, c⟩
    | r => ⟨.error r, 1, c⟩
  | some T => rcLoop outcome c T 0 0

/-- what `UDSClient.reconnect()` (holding the client mutex) sees: the transport is asked with `timeout=None` -/
def clientReconnect (outcome : Nat → ConnRes) (c : Nat) : RcRun := reconnect outcome c none

end Gallia.TransportReconnect
