import Gallia.Model.Lifecycle
/-
  C15, the database calls of the lifecycle statement by statement: `DBHandler.connect`, `insert_run_meta`,
  `complete_run_meta`, `disconnect` as lists of awaited sqlite statements (`execute` / `executescript` / `commit` of
  aiosqlite.Connection) and plain assignments, with one fault at one of the awaits:

    raise  : the statement fails (`sqlite3.OperationalError`, e.g. "database is locked"): it is not performed
    cancel : Ctrl-C while the statement is awaited: aiosqlite has queued it for the sqlite thread, it IS performed,
             `CancelledError` is delivered at the await

  around them `BaseCommand._db_insert_run_meta` (inside the `try:` of `entry_point`), the except ladder (`mapExit` of
  Model/Lifecycle.lean) and `_db_finish_run_meta` (inside the `finally:`).  Refines `dbInsert` / `finish` of
  Model/Lifecycle.lean (`Proofs/C15.lean: dbfault_none_refines`).
-/
namespace Gallia.Lifecycle.DbFault

inductive Call | connect | insert | complete | disconnect
  deriving DecidableEq, Repr, Inhabited

inductive Mode | raise | cancel
  deriving DecidableEq, Repr, Inhabited

/-- the `idx`-th awaited statement (counted from 0) of the call `call` -/
structure Fault where
  call : Call
  idx : Nat
  mode : Mode
  deriving DecidableEq, Repr, Inhabited

inductive Stmt
  | pragma      -- `await connection.execute("PRAGMA ...")`
  | schema      -- `await connection.executescript(DB_SCHEMA)`
  | version     -- `await connection.execute("SELECT version ...")`  (check_version)
  | insertRow   -- `cursor = await connection.execute("INSERT INTO run_meta ...")`
  | setMeta     -- `self.meta = cursor.lastrowid`                       (no await)
  | updateRow   -- `await connection.execute("UPDATE run_meta SET end_time ... WHERE id = self.meta")`
  | commit      -- `await connection.commit()`
  deriving DecidableEq, Repr, Inhabited

def Stmt.awaited : Stmt → Bool
  | .setMeta => false
  | _ => true

/-- statement order of the four calls (what follows the `create_task` of connect / the queue handling of disconnect has
    no statement on the connection) -/
def stmts : Call → List Stmt
  | .connect => [.pragma, .pragma, .pragma, .schema, .version]
  | .insert => [.insertRow, .setMeta, .commit]
  | .complete => [.updateRow, .commit]
  | .disconnect => [.commit]

/-- run_meta row on disk: `none` no row, `some none` row without end time / exit code, `some (some c)` completed with c -/
abbrev Row := Option (Option Nat)

structure Db where
  conn : Bool := false            -- `DBHandler.connection is not None`
  metaSet : Bool := false         -- `DBHandler.meta is not None`
  pendIns : Bool := false         -- the INSERT is part of the open transaction
  pendUpd : Option Nat := none    -- the UPDATE (with this exit code) is part of the open transaction
  row : Row := none               -- what is durable
  fired : Bool := false           -- the fault point was reached
  deriving DecidableEq, Repr, Inhabited

def Db.apply (d : Db) (code : Nat) : Stmt → Db
  | .insertRow => { d with pendIns := true }
  | .setMeta => { d with metaSet := true }
  | .updateRow => { d with pendUpd := some code }
  | .commit =>
    let r : Row := if d.pendIns then some none else d.row
    let r : Row := match d.pendUpd, r with
      | some c, some _ => some (some c)
      | _, r => r
    { d with row := r, pendIns := false, pendUpd := none }
  | _ => d

/-- the statements of one call, `f` = (index of the faulty await, mode) -/
def runStmts (f : Option (Nat × Mode)) (code : Nat) : List Stmt → Nat → Db → Db × Option Exc
  | [], _, d => (d, none)
  | s :: rest, i, d =>
    if !s.awaited then runStmts f code rest i (d.apply code s) else
    match f with
    | some (k, m) =>
      if k = i then
        match m with
        | .raise => ({ d with fired := true }, some (.err .other))
        | .cancel => ({ d.apply code s with fired := true }, some .cancelled)
      else runStmts f code rest (i + 1) (d.apply code s)
    | none => runStmts f code rest (i + 1) (d.apply code s)

def faultOf (f : Option Fault) (c : Call) : Option (Nat × Mode) :=
  match f with
  | some x => if x.call = c then some (x.idx, x.mode) else none
  | none => none

def call (f : Option Fault) (c : Call) (code : Nat) (d : Db) : Db × Option Exc :=
  runStmts (faultOf f c) code (stmts c) 0 d

/-- `connection.close()`; `connection = None`: sqlite drops what was not committed -/
def Db.close (d : Db) : Db := { d with conn := false, pendIns := false, pendUpd := none }

/-- `_db_insert_run_meta()` with a database: `connect()` closes the half-opened connection when a statement fails
    (`except BaseException`), `insert_run_meta()` lets the exception pass -/
def tryDb (f : Option Fault) : Db × Option Exc :=
  let r := call f .connect 0 { conn := true }
  match r.2 with
  | some x => (r.1.close, some x)
  | none => call f .insert 0 r.1

structure Out where
  exit : Outcome
  row : Row
  closed : Bool      -- the connection is closed
  finished : Bool    -- the `finally:` block ran to its end (META.json, log handler; then post-hook, lock release)
  fired : Bool
  deriving DecidableEq, Repr, Inhabited

/-- a run with a database: `body` is what `run()` ends with when it is reached -/
def run (k : Kind) (f : Option Fault) (body : Option Exc) : Out :=
  let t := tryDb f
  let exc := match t.2 with
    | some x => some x
    | none => body
  let m := mapExit {} k exc
  let fin (d : Db) : Out := ⟨if m.2 then .escCancelled else .ret m.1, d.row, !d.conn, true, d.fired⟩
  -- finally: _db_finish_run_meta()
  if t.1.conn then
    -- complete_run_meta() inside `try: ... except Exception ... except CancelledError`: both are logged and dropped (the
    -- statement that was awaited when Ctrl-C arrived is performed by the sqlite thread and stays in the open transaction)
    let r := if t.1.metaSet then call f .complete m.1 t.1 else (t.1, none)
    -- disconnect(): `try: commit() finally: close(); connection = None`; Exception and CancelledError are both caught
    fin (call f .disconnect m.1 r.1).1.close
  else fin t.1

/-! ### what the property demands -/

def awaits (c : Call) : Nat := ((stmts c).filter Stmt.awaited).length

def Fault.reached (f : Fault) : Bool := f.idx < awaits f.call

/-- exit codes the property allows for the run -/
def allowed (k : Kind) (f : Option Fault) (body : Option Exc) : List Nat :=
  let c := (mapExit {} k body).1
  match f with
  | none => [c]
  | some x =>
    if !x.reached then [c] else
    match x.call, x.mode with
    | .connect, .raise | .insert, .raise => [SOFTWARE]        -- an unexpected exception before `run()`
    | .connect, .cancel | .insert, .cancel => [SIGINT_EXIT]   -- Ctrl-C before `run()`
    | _, .raise => [c]                                        -- the run has ended; a failing database changes nothing
    | _, .cancel => [c, SIGINT_EXIT]                          -- Ctrl-C after the run has ended with c: either is "the" code
                                                              --   as long as everything agrees on it

/-- the database itself refuses the statement that stores the end of the run: the row cannot be demanded complete -/
def rowDemanded : Option Fault → Bool
  | some ⟨.complete, _, .raise⟩ => false
  | _ => true

def violations (k : Kind) (f : Option Fault) (body : Option Exc) (o : Out) : List String :=
  let codeOk := match o.exit with
    | .ret n => (allowed k f body).contains n
    | _ => false
  let rowOk := match o.row, o.exit with
    | none, _ => true                       -- no run entry
    | some (some c), .ret n => c == n
    | some (some c), _ => (allowed k f body).contains c
    | some none, _ => !rowDemanded f
  (if codeOk then [] else ["exit-code"]) ++ (if rowOk then [] else ["db-unfinished"]) ++
  (if o.closed then [] else ["db-left-open"]) ++ (if o.finished then [] else ["run-not-finished"])

/-! ### contention: another writer (a second gallia process that logs into the same `--db` file) holds sqlite's write lock

  `DBHandler.connect` sets `PRAGMA busy_timeout`: a statement that needs the write lock waits that long for it.  The other
  writer takes the lock (`BEGIN IMMEDIATE`) when the run enters one of its database phases and commits `hold` ms later. -/

/-- what `DBHandler.connect` documents: `PRAGMA busy_timeout = 10000` (milliseconds) -/
def BUSY_TIMEOUT_MS : Nat := 10000

inductive Phase | insert | complete | disconnect
  deriving DecidableEq, Repr, Inhabited

def Phase.call : Phase → Call
  | .insert => .insert
  | .complete => .complete
  | .disconnect => .disconnect

structure Contention where
  phase : Phase     -- the lock is taken when the run enters this call
  hold : Nat        -- ... and released this many ms later
  deriving DecidableEq, Repr, Inhabited

/-- the statement takes sqlite's write lock (the implicit `BEGIN` of the sqlite3 module is deferred: it takes nothing) -/
def Stmt.locks : Stmt → Bool
  | .insertRow | .updateRow => true
  | _ => false

/-- index (among the awaited statements) of the first statement of the list that needs the write lock -/
def firstLock : List Stmt → Nat → Option Nat
  | [], _ => none
  | s :: rest, i => if s.locks then some i else firstLock rest (if s.awaited then i + 1 else i)

/-- what contention is to the run whose connection waits `timeout` ms for a lock: nothing when the lock is released in time,
    otherwise "database is locked" (`sqlite3.OperationalError`) at the first statement of the phase that needs the lock -/
def contentionFault (timeout : Nat) (c : Contention) : Option Fault :=
  if c.hold < timeout then none else
  match firstLock (stmts c.phase.call) 0 with
  | some i => some ⟨c.phase.call, i, .raise⟩
  | none => none

/-- a run under contention, the connection's busy timeout being `timeout` ms (`fired` belongs to the injected faults) -/
def runC (timeout : Nat) (k : Kind) (c : Contention) (body : Option Exc) : Out :=
  { run k (contentionFault timeout c) body with fired := false }

/-- what the property demands of a run under contention that lasts less than the documented busy timeout: what it demands of
    the undisturbed run (the other writer goes away by itself: nothing refuses the write) -/
def violationsC (k : Kind) (c : Contention) (body : Option Exc) (o : Out) : List String :=
  if c.hold < BUSY_TIMEOUT_MS then violations k none body o else violations k (contentionFault 0 c) body o

/-- the fault point at which `entry_point()` of the tree as it is breaks the property (known_findings.jsonl) -/
def Fault.bad (f : Fault) : Bool :=
  match f.call, f.mode with
  | .insert, .cancel => f.idx == 0        -- Ctrl-C at the INSERT: the row is in the transaction, its id is never kept
  | _, _ => false

end Gallia.Lifecycle.DbFault
