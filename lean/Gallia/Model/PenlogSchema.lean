import Gallia.Model.Penlog
/-
  C17 — the record schema of the penlog writer / reader (`src/gallia/log.py`).

  `Model/Penlog.lean` works on the flat record `Rec` (the twelve JSON members as text / numbers).  This file adds
  what is on either side of it:

  * the writer side: a `LogRec` (the attributes of a `logging.LogRecord` that `_JSONFormatter.format` reads:
    name, message, level, creation time, call site, `tags` from `extra`, exception text), what
    `QueueHandler.prepare` does to it on the way to the file handler, `PenlogPriority.from_level`, the timestamp
    as `datetime.fromtimestamp(created, tz).isoformat()`, and the resulting `Rec` (`formatRec`);
  * the reader side: the JSON object of a line as a value (`JVal`, members in document order, last duplicate wins
    as in a Python `dict`), and `PenlogRecord.parse_json` on it (`readObj`): `version` check, required members,
    `datetime.fromisoformat`, `PenlogPriority(...)`, optional members defaulting to `None`; and
    `PenlogRecord.__str__` (`fmtRec`, what `hr` prints for a record);
  * aware datetimes: `isoformat` and a port of CPython 3.12's C `fromisoformat` for extended-format calendar
    dates (`parseIso`).

  Text is a list of code points (`Str`).  Core Lean only.
-/
namespace Gallia.Penlog

/-! ### datetimes -/

/-- a `datetime.datetime`; `off` is `utcoffset()` in seconds (`none` = naive) -/
structure DT where
  year : Nat
  month : Nat
  day : Nat
  hour : Nat
  minute : Nat
  second : Nat
  micro : Nat
  off : Option Int
deriving DecidableEq, Repr

def isLeap (y : Nat) : Bool := y % 4 == 0 && (y % 100 != 0 || y % 400 == 0)

def daysIn (y m : Nat) : Nat :=
  if m = 2 then (if isLeap y then 29 else 28)
  else if m = 4 ∨ m = 6 ∨ m = 9 ∨ m = 11 then 30 else 31

/-- the range checks of the `datetime` / `timezone` constructors -/
def DT.Valid (d : DT) : Prop :=
  1 ≤ d.year ∧ d.year ≤ 9999 ∧ 1 ≤ d.month ∧ d.month ≤ 12 ∧ 1 ≤ d.day ∧ d.day ≤ daysIn d.year d.month ∧
  d.hour < 24 ∧ d.minute < 60 ∧ d.second < 60 ∧ d.micro < 1000000 ∧
  (∀ o ∈ d.off, -86400 < o ∧ o < 86400)

instance (d : DT) : Decidable d.Valid := by unfold DT.Valid; infer_instance

def pad2 (n : Nat) : Str := [48 + n / 10 % 10, 48 + n % 10]
def pad3 (n : Nat) : Str := [48 + n / 100 % 10, 48 + n / 10 % 10, 48 + n % 10]
def pad4 (n : Nat) : Str := [48 + n / 1000 % 10, 48 + n / 100 % 10, 48 + n / 10 % 10, 48 + n % 10]
def pad6 (n : Nat) : Str :=
  [48 + n / 100000 % 10, 48 + n / 10000 % 10, 48 + n / 1000 % 10, 48 + n / 100 % 10, 48 + n / 10 % 10, 48 + n % 10]

/-- `_format_offset`: `±HH:MM`, with `:SS` only when the offset has seconds -/
def offStr : Option Int → Str
  | none => []
  | some o =>
    let a := o.natAbs
    (if o < 0 then 45 else 43) :: (pad2 (a / 3600) ++ (58 :: (pad2 (a / 60 % 60) ++
      (if a % 60 = 0 then [] else 58 :: pad2 (a % 60)))))

/-- `datetime.isoformat()`: `YYYY-MM-DDTHH:MM:SS[.ffffff][±HH:MM[:SS]]` (the fraction only when non-zero) -/
def isoformat (d : DT) : Str :=
  pad4 d.year ++ (45 :: (pad2 d.month ++ (45 :: (pad2 d.day ++ (84 :: (pad2 d.hour ++ (58 :: (pad2 d.minute ++
    (58 :: (pad2 d.second ++ ((if d.micro = 0 then [] else 46 :: pad6 d.micro) ++ offStr d.off)))))))))))

/-! #### `datetime.fromisoformat` (CPython 3.12 `_datetimemodule.c`), extended-format calendar dates -/

inductive IsoRes
  | ok (d : DT)
  | bad          -- ValueError
  | unmodelled   -- basic-format and week dates, fractional UTC offsets: outside this model
deriving DecidableEq, Repr

/-- `parse_digits(p, &v, 2)` -/
def twoDigits : Str → Option (Nat × Str)
  | a :: b :: r => if isDigit a && isDigit b then some ((a - 48) * 10 + (b - 48), r) else none
  | _ => none

/-- `parse_digits(p, &v, 4)` -/
def fourDigits : Str → Option (Nat × Str)
  | a :: b :: c :: d :: r =>
    if isDigit a && isDigit b && isDigit c && isDigit d then
      some ((a - 48) * 1000 + (b - 48) * 100 + (c - 48) * 10 + (d - 48), r)
    else none
  | _ => none

/-- the fraction: up to six digits are read (scaled to microseconds), further digits are skipped;
    result: microseconds and whether anything but digits is left -/
def fracPart (t : Str) (next : Option Nat) : Option (Nat × Bool) :=
  let k := min t.length 6
  let ds := t.take k
  if ds.all isDigit then
    let us := digitsVal ds * 10 ^ (6 - k)
    let rest := (t.drop k).dropWhile isDigit
    some (us, !rest.isEmpty || next.isSome)
  else none

/-- `parse_hh_mm_ss_ff` on the characters `t` (up to the time-zone character or the end), `next` = the character
    that follows `t` (`none` at the end of the string).  Result: hour, minute, second, microsecond and whether
    the C function returns 1 ("not the end of the string"). `vals` collects the fields parsed so far. -/
def hmsLoop : Nat → Bool → List Nat → Str → Option Nat → Option (List Nat × Nat × Bool)
  | 0, _, _, _, _ => none
  | fuel + 1, hasSep, vals, t, next =>
    match twoDigits t with
    | none => none
    | some (v, t1) =>
      let vals := vals ++ [v]
      let i := vals.length - 1     -- index of the field just parsed
      match t1 with
      | [] => some (vals, 0, next.isSome)
      | [_] => some (vals, 0, true)
      | c :: rest =>
        let hasSep := if i = 0 then c == 58 else hasSep
        if hasSep && c == 58 then
          if i < 2 then hmsLoop fuel hasSep vals rest next
          else (fracPart rest next).map (fun p => (vals, p.1, p.2))
        else if c == 46 || c == 44 then (fracPart rest next).map (fun p => (vals, p.1, p.2))
        else if !hasSep then
          if i < 2 then hmsLoop fuel hasSep vals (c :: rest) next
          else (fracPart (c :: rest) next).map (fun p => (vals, p.1, p.2))
        else none

structure HMS where
  h : Nat
  m : Nat
  s : Nat
  us : Nat
  trail : Bool
deriving DecidableEq, Repr

def hhmmssff (t : Str) (next : Option Nat) : Option HMS :=
  (hmsLoop 3 true [] t next).map (fun r =>
    { h := r.1.getD 0 0, m := r.1.getD 1 0, s := r.1.getD 2 0, us := r.2.1, trail := r.2.2 })

def isTzChar (c : Nat) : Bool := c == 90 || c == 43 || c == 45

def mkDT (y mo d : Nat) (t : HMS) (off : Option Int) : IsoRes :=
  let dt : DT := { year := y, month := mo, day := d, hour := t.h, minute := t.m, second := t.s, micro := t.us, off := off }
  if dt.Valid then .ok dt else .bad

/-- `parse_isoformat_time` + the constructor checks -/
def parseIsoTime (y mo d : Nat) (tstr : Str) : IsoRes :=
  let portion := tstr.takeWhile (fun c => !isTzChar c)
  let tzpart := tstr.dropWhile (fun c => !isTzChar c)
  match hhmmssff portion tzpart.head? with
  | none => .bad
  | some t =>
    match tzpart with
    | [] => if t.trail then .bad else mkDT y mo d t none
    | c :: r =>
      if c = 90 then (if r = [] then mkDT y mo d t (some 0) else .bad)
      else
        match hhmmssff r none with
        | none => .bad
        | some z =>
          if z.trail then .bad
          else if z.us ≠ 0 then .unmodelled
          else
            let secs : Int := (z.h * 3600 + z.m * 60 + z.s : Nat)
            mkDT y mo d t (some (if c = 45 then -secs else secs))

/-- `datetime.fromisoformat(s)` -/
def parseIso (s : Str) : IsoRes :=
  if s.length < 7 then .bad
  else if s.getD 4 0 ≠ 45 ∨ s.getD 5 0 = 87 then .unmodelled
  else
    match fourDigits s with
    | none => .bad
    | some (y, s1) =>
      match s1 with
      | 45 :: s2 =>
        match twoDigits s2 with
        | none => .bad
        | some (mo, s3) =>
          match s3 with
          | 45 :: s4 =>
            match twoDigits s4 with
            | none => .bad
            | some (d, s5) =>
              match s5 with
              | [] => mkDT y mo d { h := 0, m := 0, s := 0, us := 0, trail := false } none
              | _sep :: tstr => parseIsoTime y mo d tstr
          | _ => .bad
      | _ => .bad

/-! ### the writer side: `logging.LogRecord` -> `Rec` -/

/-- what `_JSONFormatter.format` reads from a `logging.LogRecord` -/
structure LogRec where
  name : Str
  msg : Str                      -- `record.getMessage()`
  levelno : Nat
  levelname : Str
  created : DT                   -- `datetime.fromtimestamp(record.created, tz=tz)`
  pathname : Str
  lineno : Nat
  funcName : Str
  tags : Option (List Str)       -- `record.__dict__["tags"]` (from `extra`), absent or `None` = `none`
  excText : Option Str           -- `formatException(record.exc_info)` when `exc_info` is set
  stackInfo : Option Str := none -- `record.stack_info` (`stack_info=True`): the formatted stack
deriving DecidableEq, Repr

def endsWithNL : Str → Bool
  | [] => false
  | [c] => c == 10
  | _ :: t => endsWithNL t

/-- `s + "\n" + extra` unless `s` already ends with a newline; nothing is appended for an absent or empty `extra` -/
def appendBlock (s : Str) : Option Str → Str
  | none => s
  | some e => if e.isEmpty then s else s ++ ((if endsWithNL s then [] else [10]) ++ e)

/-- `QueueHandler.prepare`: the exception text and the stack are merged into the message (`logging.Formatter.format`)
    and `exc_info` / `stack_info` are cleared, so the file handler sees a record without exception -/
def queuePrepare (r : LogRec) : LogRec :=
  { r with msg := appendBlock (appendBlock r.msg r.excText) r.stackInfo, excText := none, stackInfo := none }

/-- `_JSONFormatter.format` field by field; `none` = `PenlogPriority.from_level` raises `ValueError` -/
def formatRec (host : Str) (r : LogRec) : Option Rec :=
  (fromLevel r.levelno).map (fun p =>
    { module := r.name, host := host, data := r.msg, datetime := isoformat r.created, prio := p, tags := r.tags,
      line := r.pathname ++ (58 :: natDec r.lineno), stacktrace := r.excText, levelNo := r.levelno,
      levelName := r.levelname, funcName := r.funcName })

/-- the line `_ZstdFileHandler.emit` writes for a record that went through the queue -/
def emitLine (pfx : Bool) (host : Str) (r : LogRec) : Option Bs :=
  (formatRec host (queuePrepare r)).map (writeLine pfx)

/-! ### JSON values -/

/-- a JSON value as far as the reader looks into it: integral floats (`2.0`) compare equal to ints in Python,
    arrays of strings are what `tags` holds; everything else (other floats, nested arrays, objects) is opaque -/
inductive JVal
  | null
  | bool (b : Bool)
  | int (i : Int)
  | flt (i : Int)          -- the float `i.0`
  | str (s : Str)
  | strs (l : List Str)    -- an array of strings (`[]` included)
  | other (k : Nat)        -- any other value, never interpreted
deriving DecidableEq, Repr

/-- the value as a Python number (`True == 1`, `2.0 == 2`) -/
def JVal.num? : JVal → Option Int
  | .int i => some i
  | .flt i => some i
  | .bool b => some (if b then 1 else 0)
  | _ => none

abbrev JObj := List (Str × JVal)

/-- `dict(pairs)[k]`: the last member with that name -/
def jget (o : JObj) (k : Str) : Option JVal :=
  (o.reverse.find? (fun kv => kv.1 == k)).map (·.2)

def kVersion : Str := [118, 101, 114, 115, 105, 111, 110]
def kModuleK : Str := [109, 111, 100, 117, 108, 101]
def kHostK : Str := [104, 111, 115, 116]
def kDataK : Str := [100, 97, 116, 97]
def kDatetimeK : Str := [100, 97, 116, 101, 116, 105, 109, 101]
def kPriorityK : Str := [112, 114, 105, 111, 114, 105, 116, 121]
def kTagsK : Str := [116, 97, 103, 115]
def kLineK : Str := [108, 105, 110, 101]
def kStackK : Str := [115, 116, 97, 99, 107, 116, 114, 97, 99, 101]
def kLevelNoK : Str := [95, 112, 121, 116, 104, 111, 110, 95, 108, 101, 118, 101, 108, 95, 110, 111]
def kLevelNameK : Str := [95, 112, 121, 116, 104, 111, 110, 95, 108, 101, 118, 101, 108, 95, 110, 97, 109, 101]
def kFuncNameK : Str := [95, 112, 121, 116, 104, 111, 110, 95, 102, 117, 110, 99, 95, 110, 97, 109, 101]

/-- members `parse_json` requires (`record[k]`) -/
def requiredKeys : List Str := [kVersion, kModuleK, kHostK, kDataK, kDatetimeK, kPriorityK]
/-- members `parse_json` reads when present (`record[k] if k in record else None`) -/
def optionalKeys : List Str := [kTagsK, kLineK, kStackK, kLevelNoK, kLevelNameK, kFuncNameK]
def knownKeys : List Str := requiredKeys ++ optionalKeys

/-- the object `json.loads` returns for the line written for `r` (`dataclasses.asdict(_PenlogRecordV2)`) -/
def recObj (r : Rec) : JObj :=
  [(kModuleK, .str r.module), (kHostK, .str r.host), (kDataK, .str r.data), (kDatetimeK, .str r.datetime),
   (kPriorityK, .int r.prio), (kVersion, .int 2),
   (kTagsK, match r.tags with | none => .null | some l => .strs l),
   (kLineK, .str r.line),
   (kStackK, match r.stacktrace with | none => .null | some s => .str s),
   (kLevelNoK, .int r.levelNo), (kLevelNameK, .str r.levelName), (kFuncNameK, .str r.funcName)]

/-! ### the reader side: `PenlogRecord.parse_json` on the object -/

/-- exception classes the reader and `hr` can end with -/
inductive Err
  | unicode        -- UnicodeDecodeError (`data.decode()`)
  | json           -- json.JSONDecodeError (invalid JSON, wrong `version`): `hr` exits with 65
  | key            -- KeyError (required member missing)
  | value          -- ValueError (bad priority / datetime / prefix, negative `islice` stop)
  | type           -- TypeError (not an object, `datetime` not a string, ...)
  | index          -- IndexError (record index out of range)
  | zstd           -- zstandard.ZstdError
  | gzip           -- gzip.BadGzipFile / EOFError while decompressing
  | unmodelled     -- input outside the model (never produced by the tie)
deriving DecidableEq, Repr

/-- a `PenlogRecord`: uninterpreted members are kept as JSON values (`.null` = `None`) -/
structure PRec where
  module : JVal
  host : JVal
  data : JVal
  datetime : DT
  priority : Nat
  tags : JVal
  line : JVal
  stacktrace : JVal
  levelNo : JVal
  levelName : JVal
  funcName : JVal
deriving DecidableEq, Repr

def jreq (o : JObj) (k : Str) : Except Err JVal :=
  match jget o k with
  | some v => .ok v
  | none => .error .key

def jopt (o : JObj) (k : Str) : JVal := (jget o k).getD .null

/-- `PenlogRecord.parse_json` after `json.loads`, in the order the code evaluates things -/
def readObj (o : JObj) : Except Err PRec := do
  let v ← jreq o kVersion
  if v.num? ≠ some 2 then throw .json
  let module ← jreq o kModuleK
  let host ← jreq o kHostK
  let data ← jreq o kDataK
  let dtv ← jreq o kDatetimeK
  let datetime ← match dtv with
    | .str s => match parseIso s with
      | .ok d => pure d
      | .bad => throw .value
      | .unmodelled => throw .unmodelled
    | _ => throw .type
  let pv ← jreq o kPriorityK
  let priority ← match pv.num? with
    | some i => if 0 ≤ i ∧ i ≤ 8 then pure i.toNat else throw .value
    | none => throw .value
  pure { module, host, data, datetime, priority, tags := jopt o kTagsK, line := jopt o kLineK,
         stacktrace := jopt o kStackK, levelNo := jopt o kLevelNoK, levelName := jopt o kLevelNameK,
         funcName := jopt o kFuncNameK }

/-! ### what `hr` prints for a record: `PenlogRecord.__str__` / `_format_record` (no colours) -/

def monthAbbr (m : Nat) : Str :=
  [[74, 97, 110], [70, 101, 98], [77, 97, 114], [65, 112, 114], [77, 97, 121], [74, 117, 110],
   [74, 117, 108], [65, 117, 103], [83, 101, 112], [79, 99, 116], [78, 111, 118], [68, 101, 99]].getD (m - 1) []

/-- `dt.strftime("%b %d %H:%M:%S.%f")[:-3]` (C locale) -/
def stamp (d : DT) : Str :=
  monthAbbr d.month ++ (32 :: (pad2 d.day ++ (32 :: (pad2 d.hour ++ (58 :: (pad2 d.minute ++ (58 :: (pad2 d.second ++
    (46 :: pad3 (d.micro / 1000))))))))))

/-- `", ".join(l)` -/
def joinComma : List Str → Str
  | [] => []
  | [s] => s
  | s :: t => s ++ (44 :: 32 :: joinComma t)

/-- the ` [tag, tag]` part -/
def tagsPart : JVal → Except Err Str
  | .null => .ok []
  | .strs [] => .ok []
  | .strs l => .ok (32 :: 91 :: (joinComma l ++ [93]))
  | .str [] => .ok []
  | .str s => .ok (32 :: 91 :: (joinComma (s.map (fun c => [c])) ++ [93]))    -- a string is a sequence of characters
  | .other _ => .error .unmodelled   -- a nested array, an object (its keys would be joined), a float
  | _ => .error .type          -- `len()` of a number / bool

def strOf : JVal → Except Err Str
  | .str s => .ok s
  | _ => .error .type          -- `str + non-str`

/-- `str(record)` -/
def fmtRec (r : PRec) : Except Err Str := do
  -- `levelno = _python_level_no if not None else priority.to_level()` is evaluated first
  if r.levelNo = .null ∧ (toLevel r.priority).isNone then throw .value
  let name ← strOf r.module
  let tags ← tagsPart r.tags
  let data ← strOf r.data
  let tail ← match r.stacktrace with
    | .null => pure []
    | v => (strOf v).map (fun s => 10 :: s)
  pure (stamp r.datetime ++ (32 :: (name ++ (tags ++ (58 :: 32 :: (data ++ (10 :: tail)))))))

/-- the record `hr` shows for a logged record (what `record_roundtrip` promises) -/
def expectRead (host : Str) (r : LogRec) (p : Nat) : PRec :=
  { module := .str r.name, host := .str host, data := .str r.msg, datetime := r.created, priority := p,
    tags := match r.tags with | none => .null | some l => .strs l,
    line := .str (r.pathname ++ (58 :: natDec r.lineno)),
    stacktrace := match r.excText with | none => .null | some s => .str s,
    levelNo := .int r.levelno, levelName := .str r.levelname, funcName := .str r.funcName }

end Gallia.Penlog
