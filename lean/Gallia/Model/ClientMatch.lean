import Gallia.Model.ClientIO
import Gallia.Model.UdsMatch
/-
  C03 x C04 — where the client APPLIES the matcher.  `UDSClient.request_unsafe` calls `parse_pdu(raw_resp, request)` for
  the first reply of every attempt AND for every frame read in the ResponsePending loop; the C04 client model
  (`Model/ClientIO.lean`) abstracts each read into an event of the alphabet `Client.Ev`.  Here that abstraction is
  DEFINED from the bytes:

      raw_resp = await transport.request_unsafe(...) / self._read(...)     w.rd k : Rd   (timeout / ConnectionError / bytes)
      if raw_resp == b"": raise BrokenPipeError                            []                      -> .empty
      resp = parse_pdu(raw_resp, request)                                  parsePdu b r
          raises RequestResponseMismatch                                     .mismatch             -> .mismatch
          raises MalformedResponse                                           .malformed            -> .malformed
      isinstance(resp, NegativeResponse) and resp.response_code ==
          busyRepeatRequest                                                  .accepted (.neg _ 21) -> .busy
          requestCorrectlyReceivedResponsePending                            .accepted (.neg _ 78) -> .pending
      any other accepted negative response                                                         -> .negFinal
      any accepted positive response                                                               -> .posFinal

  and `request c r w` is `UDSClient.request(r, config)` over a byte-level world `w` (what every write / read / reconnect
  does): the C04 loop run on the classified script, its outcome mapped back to what the caller gets — the decoded reply
  of read #k carrying `trigger_request = r` (`parse_pdu` binds it just before returning), the mismatch / malformed error of
  read #k, MissingResponse, the stuck error, a reconnect failure.
  Core Lean only (linked into the `c03` driver).
-/
namespace Gallia.ClientMatch
open Gallia Gallia.UdsReq Gallia.UdsResp Gallia.UdsMatch Gallia.Client Gallia.ClientIO

/-- what the k-th `transport.read()` of a request does, at byte level -/
inductive Rd
  | timeout              -- raises TimeoutError
  | connErr              -- raises ConnectionError
  | data (b : Bytes)     -- returns `b` (`[]`: end of stream)
deriving DecidableEq, Repr, Inhabited

/-- the two response codes the client loop looks at -/
def nrcBusy : UInt8 := 0x21
def nrcPending : UInt8 := 0x78

/-- the tests the loop applies to an accepted response -/
def classifyResp : Resp → Ev
  | .neg _ nrc => if nrc = nrcBusy then .busy else if nrc = nrcPending then .pending else .negFinal
  | _ => .posFinal

/-- the event of the C04 alphabet a frame `b` is for the outstanding request `r` -/
def classifyRead (r : Req) (b : Bytes) : Ev :=
  match b with
  | [] => .empty
  | _ :: _ =>
    match parsePdu b r with
    | .accepted x => classifyResp x
    | .mismatch => .mismatch
    | .malformed => .malformed

def classifyRd (r : Req) : Rd → Ev
  | .timeout => .timeout
  | .connErr => .connErr
  | .data b => classifyRead r b

/-- a byte-level world: what the j-th write, the k-th read and the m-th reconnect of a request do -/
structure World where
  wr : Nat → WEv
  rd : Nat → Rd
  rc : Nat → RcEv

/-- the C04 event script the client sees in world `w` while `r` is outstanding -/
def World.script (w : World) (r : Req) : Script := ⟨w.wr, fun k => classifyRd r (w.rd k), w.rc⟩

/-- the frames `fs` arrive one per read, silence afterwards; writes and reconnects succeed -/
def World.ofFrames (fs : List Bytes) : World :=
  ⟨fun _ => .ok, fun k => match fs[k]? with | some b => .data b | none => .timeout, fun _ => .ok⟩

/-- which IllegalResponse -/
inductive Refusal
  | mismatch     -- RequestResponseMismatch
  | malformed    -- MalformedResponse
deriving DecidableEq, Repr

/-- what `UDSClient.request()` hands to its caller -/
inductive Result
  | returned (k : Nat) (x : Resp) (trigger : Req)   -- the decoded reply of read #k; `x.trigger_request = trigger`
  | refused (k : Nat) (why : Refusal)               -- RequestResponseMismatch / MalformedResponse raised for read #k
  | missing (cause : Bool)                          -- MissingResponse
  | stuck                                           -- RuntimeError (ResponsePending loop)
  | connEscaped (k : Nat)
  | reconnectFailed (m : Nat) (e : RcFault)
  | internal                                        -- outcome and frame do not fit (never: `request_never_internal`)
deriving DecidableEq, Repr

/-- `helpers.parse_pdu` with its bookkeeping: `response.trigger_request = request; return response` -/
def parsePduBound (b : Bytes) (r : Req) : Except Refusal (Resp × Req) :=
  match parsePdu b r with
  | .accepted x => .ok (x, r)
  | .mismatch => .error .mismatch
  | .malformed => .error .malformed

def resultOf (r : Req) (w : World) : OutX → Result
  | .base (.reply k) =>
    match w.rd k with
    | .data b => (match parsePduBound b r with | .ok (x, q) => .returned k x q | .error _ => .internal)
    | _ => .internal
  | .base (.illegal k) =>
    match w.rd k with
    | .data b => (match parsePduBound b r with | .error e => .refused k e | .ok _ => .internal)
    | _ => .internal
  | .base (.missing c) => .missing c
  | .base .stuck => .stuck
  | .base (.connEscaped k) => .connEscaped k
  | .reconnectFailed m e => .reconnectFailed m e

/-- `UDSClient.request(r, config)` in world `w` -/
def request (c : CfgX) (r : Req) (w : World) : Result := resultOf r w (requestX c (w.script r)).out

/-- number of `transport.read()` calls of that request -/
def reads (c : CfgX) (r : Req) (w : World) : Nat := (runX c (w.script r)).reads

/-- number of `transport.write()` calls -/
def writes (c : CfgX) (r : Req) (w : World) : Nat := (runX c (w.script r)).writes

end Gallia.ClientMatch
