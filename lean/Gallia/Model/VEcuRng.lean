import Gallia.Model.Randomize

/-! # C16: the per-request RNG discipline of `RandomUDSServer` (services/uds/server.py)

Every request handler reachable from `RandomUDSServer.respond_after_default` draws its random content from private
`RNG` objects (`class RNG(random.Random)`), each seeded with a *string*:

    def stateful_rng(self, *args):
        return RNG(str(self.seed) + "|" + str(self.state.session) + "|".join(str(arg) for arg in args))

(no separator between the session and the first argument - modelled as written), `RNG.add_seeds(x)` re-seeds the same
object with `"|".join([old text, str(x)])`, and `RNG()` without arguments (security-access seeds only) is seeded from the
operating system.  The Mersenne Twister itself is not modelled: `World.rngOf : String → DrawStream` is THE stream of
a seed text; a stream answers a method call given all the calls made on the object so far (the number of generator words
a call consumes depends on its kind).  What is modelled is which text seeds which object (server seed, session, request
content - and nothing else), which calls each handler makes on it, and how the answer is built from the results.

`World.fresh` is the stream of an unseeded `RNG()`; `World.ambient` stands for everything else a Python process could draw
from (the global `random` module, the clock, `os.urandom`, `id()`, `hash()` of a str): the handlers get it and - theorem
`global_random_irrelevant` - never look at it; the regenerated table `Gen/C16Handlers.lean` ties that to the source.
-/

namespace Gallia.VEcuRng

/-! ### `str(bytes)` of CPython -/

def hexDigit (n : Nat) : Char := "0123456789abcdef".toList.getD n '0'

/-- one byte inside `repr(bytes)` with the given quote character -/
def byteRepr (quote : Nat) (b : Nat) : String :=
  if b == quote || b == 92 then "\\" ++ String.singleton (Char.ofNat b)
  else if b == 9 then "\\t"
  else if b == 10 then "\\n"
  else if b == 13 then "\\r"
  else if b < 32 || b ≥ 127 then "\\x" ++ String.singleton (hexDigit (b / 16)) ++ String.singleton (hexDigit (b % 16))
  else String.singleton (Char.ofNat b)

/-- `repr(bytes(bs))`: single quotes unless the value contains `'` and no `"` -/
def pyBytesRepr (bs : List Nat) : String :=
  let q : Nat := if bs.contains 39 && !bs.contains 34 then 34 else 39
  "b" ++ String.singleton (Char.ofNat q) ++ String.join (bs.map (byteRepr q)) ++ String.singleton (Char.ofNat q)

/-- the text `stateful_rng(*args)` seeds its `RNG` with; `args` are the `str()` of the arguments -/
def seedText (seed : Int) (session : Nat) (args : List String) : String :=
  toString seed ++ "|" ++ toString session ++ "|".intercalate args

/-- `rng.add_seeds(x)`: `"|".join([text, str(x)])` -/
def addSeed (text : String) (x : String) : String := text ++ "|" ++ x

/-! ### draw streams -/

/-- a method call on an `RNG` object -/
inductive Call
  /-- `random()` (through `random_bool`) -/
  | random
  /-- `randint(lo, hi)` -/
  | randint (lo hi : Nat)
  /-- `expovariate(1 / mean)` -/
  | expo (mean : Nat)
deriving DecidableEq, Repr

/-- the result of the last call of the list, given all calls made on the object so far.  `random` / `expo`: the IEEE-754
    bit pattern of the returned float; `randint`: the integer -/
abbrev DrawStream := List Call → Nat

structure World where
  /-- `random.Random` seeded with a str -/
  rngOf : String → DrawStream
  /-- `RNG()`: seeded from the operating system, different in every process and at every call -/
  fresh : DrawStream
  /-- anything else a process could draw from -/
  ambient : DrawStream

/-- an `RNG` object: the text it was seeded with (`none` = unseeded), its stream, the calls made so far -/
structure Rng where
  text : Option String
  stream : DrawStream
  calls : List Call := []

def Rng.draw (r : Rng) (c : Call) : Nat × Rng :=
  let cs := r.calls ++ [c]
  (r.stream cs, { r with calls := cs })

def drawMany (c : Call) : Nat → Rng → List Nat × Rng
  | 0, r => ([], r)
  | n + 1, r =>
    let (v, r1) := r.draw c
    let (vs, r2) := drawMany c n r1
    (v :: vs, r2)

def floatOfBits (b : Nat) : Float := Float.ofBits b.toUInt64

/-- `random_bool(p)`: `self.random() <= p_true` -/
def randomBool (bits : Nat) (p : Float) : Bool := floatOfBits bits <= p

/-- `int(self.expovariate(..) + 0.5)` (the variate is non-negative) -/
def expoLen (bits : Nat) : Nat := (floatOfBits bits + 0.5).toUInt64.toNat

/-- `random_payload(min_len)`: `max(min_len, int(expovariate(1/8) + 0.5))` bytes, each `randint(0, 255)` -/
def randomPayload (r : Rng) (minLen : Nat) : List Nat × Rng :=
  let (e, r1) := r.draw (.expo 8)
  drawMany (.randint 0 255) (max minLen (expoLen e)) r1

/-! ### server, state, requests, replies -/

/-- the handler-relevant part of `RandomnessParameters` -/
structure HParams where
  pIdentifier : Float
  pFormat : Float
  pDtcMask : Float

structure Cfg where
  seed : Int
  hp : HParams

/-- `RNGEcuState` as far as the handlers and `update_state` read it (`security_access_level` is written, never read) -/
structure State where
  session : Nat := 1
  /-- `last_sa_response`: (security_access_type, security_seed) -/
  lastSA : Option (Nat × List Nat) := none
deriving DecidableEq, Repr

/-- a parsed request, with the fields the handlers read (`pdu` where the raw bytes enter a seed text) -/
inductive Request
  | ecuReset (pdu : List Nat) (resetType : Nat)
  | requestSeed (saType : Nat)
  | sendKey (saType : Nat) (key : List Nat)
  | routineControl (pdu : List Nat) (rid subFn : Nat)
  | readDataById (pdu : List Nat) (did : Nat)
  | writeDataById (pdu : List Nat) (did : Nat)
  | ioControl (pdu : List Nat) (did : Nat)
  | clearDTC (group : Nat)
  | reportDTCByStatusMask (mask : Nat)
  /-- any other ReadDTCInformation request -/
  | readDTCOther
  /-- a request no handler of `respond_after_default` takes -/
  | other (sid : Nat)
deriving DecidableEq, Repr

inductive Reply
  | neg (sid nrc : Nat)
  | ecuReset (resetType : Nat) (powerDownTime : Option Nat)
  /-- positive RequestSeed answer: the only reply with deliberately fresh content -/
  | saSeed (saType : Nat) (seed : List Nat)
  | saKey (saType : Nat)
  | routine (subFn rid : Nat) (payload : List Nat)
  | rdbi (did : Nat) (payload : List Nat)
  | wdbi (did : Nat)
  | ioctl (did : Nat) (payload : List Nat)
  | clearDTC
  | dtcs (mask : Nat) (records : List (Nat × Nat))
  /-- replies of the default chain of `UDSServer` (C13): session change, tester present, anything else by its bytes -/
  | dsc (session : Nat)
  | testerPresent
  | chain (pdu : List Nat)
deriving DecidableEq, Repr

/-- service ids and response codes used by the handlers (checked against the enums in `Gen/C16Handlers.lean`) -/
def sidEcuReset : Nat := 0x11
def sidSecurityAccess : Nat := 0x27
def sidRoutineControl : Nat := 0x31
def sidRdbi : Nat := 0x22
def sidWdbi : Nat := 0x2E
def sidIoctl : Nat := 0x2F
def sidClearDTC : Nat := 0x14
def sidReadDTC : Nat := 0x19
def nrcRequestOutOfRange : Nat := 0x31
def nrcSubFunctionNotSupported : Nat := 0x12
def nrcIncorrectFormat : Nat := 0x13
def nrcRequestSequenceError : Nat := 0x24
def nrcInvalidKey : Nat := 0x35
def nrcGeneralReject : Nat := 0x10
def rapidPowerShutDown : Nat := 4

/-- one seeding of an `RNG` object and the calls made until the next seeding -/
abbrev Segment := Option String × List Call

structure Out where
  reply : Option Reply
  st : State
  /-- every RNG seeding of the handler call, in order, with the calls made on it -/
  trace : List Segment

def mkRng (w : World) (text : String) : Rng := ⟨some text, w.rngOf text, []⟩
def Rng.seg (r : Rng) : Segment := (r.text, r.calls)

/-- `self.stateful_rng(*args)` -/
def stateful (c : Cfg) (w : World) (sess : Nat) (args : List String) : Rng := mkRng w (seedText c.seed sess args)

/-- Python `dict[k] = v`: a present key keeps its position -/
def dictSet (d : List (Nat × Nat)) (k v : Nat) : List (Nat × Nat) :=
  if d.any (fun e => e.1 == k) then d.map (fun e => if e.1 == k then (k, v) else e) else d ++ [(k, v)]

/-- the body of the DTC loop: `record[rng.randint(0, 256**3 - 1)] = rng.randint(0, 255) & mask` - Python evaluates the
    right-hand side first -/
def dtcLoop (mask : Nat) : Nat → Rng → List (Nat × Nat) → List (Nat × Nat) × Rng
  | 0, r, d => (d, r)
  | n + 1, r, d =>
    let (v, r1) := r.draw (.randint 0 255)
    let (k, r2) := r1.draw (.randint 0 (256 ^ 3 - 1))
    dtcLoop mask n r2 (dictSet d k (v &&& mask))

/-! ### the handlers (`_ambient` is handed to every one of them; none uses it) -/

def ecuReset (c : Cfg) (w : World) (sess : Nat) (pdu : List Nat) (rt : Nat) : Option Reply × List Segment :=
  let r := stateful c w sess [pyBytesRepr pdu]
  if rt == rapidPowerShutDown then
    let (v, r1) := r.draw (.randint 0 255)
    ⟨some (.ecuReset rt (some v)), [r1.seg]⟩
  else ⟨some (.ecuReset rt none), [r.seg]⟩

def requestSeed (w : World) (t : Nat) : Option Reply × List Segment :=
  let (pl, r) := randomPayload ⟨none, w.fresh, []⟩ 0
  ⟨some (.saSeed t pl), [r.seg]⟩

def sendKey (st : State) (t : Nat) (key : List Nat) : Out :=
  match st.lastSA with
  | none => ⟨some (.neg sidSecurityAccess nrcRequestSequenceError), st, []⟩
  | some (t0, sd) =>
    if t != t0 + 1 then ⟨some (.neg sidSecurityAccess nrcRequestSequenceError), st, []⟩
    else
      let st1 := { st with lastSA := none }
      if key == sd then ⟨some (.saKey t), st1, []⟩ else ⟨some (.neg sidSecurityAccess nrcInvalidKey), st1, []⟩

def routineControl (c : Cfg) (w : World) (sess : Nat) (pdu : List Nat) (rid sf : Nat) : Option Reply × List Segment :=
  let r := stateful c w sess [toString sidRoutineControl, toString rid]
  let (v, r1) := r.draw .random
  if !randomBool v c.hp.pIdentifier then ⟨some (.neg sidRoutineControl nrcRequestOutOfRange), [r1.seg]⟩
  else
    let r2 := mkRng w (addSeed (seedText c.seed sess [toString sidRoutineControl, toString rid]) (toString sf))
    let (v2, r3) := r2.draw .random
    if !randomBool v2 (2 / 3) then ⟨some (.neg sidRoutineControl nrcSubFunctionNotSupported), [r1.seg, r3.seg]⟩
    else
      let r4 := stateful c w sess [pyBytesRepr pdu]
      let (v3, r5) := r4.draw .random
      if !randomBool v3 c.hp.pFormat then
        ⟨some (.neg sidRoutineControl nrcIncorrectFormat), [r1.seg, r3.seg, r5.seg]⟩
      else
        let (pl, r6) := randomPayload r5 0
        ⟨some (.routine sf rid pl), [r1.seg, r3.seg, r6.seg]⟩

def readDataById (c : Cfg) (w : World) (sess : Nat) (pdu : List Nat) (did : Nat) : Option Reply × List Segment :=
  let r := stateful c w sess [pyBytesRepr pdu]
  let (v, r1) := r.draw .random
  if !randomBool v c.hp.pIdentifier then ⟨some (.neg sidRdbi nrcRequestOutOfRange), [r1.seg]⟩
  else
    let (pl, r2) := randomPayload r1 1
    ⟨some (.rdbi did pl), [r2.seg]⟩

/-- shared shape of write_data_by_identifier / input_output_control_by_identifier -/
def idThenFormat (c : Cfg) (w : World) (sess : Nat) (sid : Nat) (pdu : List Nat) (did : Nat)
    (pos : Rng → Reply × Rng) : Option Reply × List Segment :=
  let r := stateful c w sess [toString sid, toString did]
  let (v, r1) := r.draw .random
  if !randomBool v c.hp.pIdentifier then ⟨some (.neg sid nrcRequestOutOfRange), [r1.seg]⟩
  else
    let r2 := stateful c w sess [pyBytesRepr pdu]
    let (v2, r3) := r2.draw .random
    if !randomBool v2 c.hp.pFormat then ⟨some (.neg sid nrcIncorrectFormat), [r1.seg, r3.seg]⟩
    else
      let (rep, r4) := pos r3
      ⟨some rep, [r1.seg, r4.seg]⟩

def writeDataById (c : Cfg) (w : World) (sess : Nat) (pdu : List Nat) (did : Nat) : Option Reply × List Segment :=
  idThenFormat c w sess sidWdbi pdu did (fun r => (.wdbi did, r))

def ioControl (c : Cfg) (w : World) (sess : Nat) (pdu : List Nat) (did : Nat) : Option Reply × List Segment :=
  idThenFormat c w sess sidIoctl pdu did (fun r => let (pl, r1) := randomPayload r 1; (.ioctl did pl, r1))

def clearDTC (c : Cfg) (w : World) (sess : Nat) (group : Nat) : Option Reply × List Segment :=
  let r := stateful c w sess [toString sidClearDTC, toString group]
  let (v, r1) := r.draw .random
  if !randomBool v c.hp.pDtcMask then ⟨some (.neg sidClearDTC nrcRequestOutOfRange), [r1.seg]⟩
  else ⟨some .clearDTC, [r1.seg]⟩

def reportDTCByStatusMask (c : Cfg) (w : World) (sess : Nat) (mask : Nat) : Option Reply × List Segment :=
  let r0 := stateful c w sess []
  let (avail, r0a) := r0.draw (.randint 0 255)
  let r := stateful c w sess [toString sidReadDTC, toString mask]
  let (e, r1) := r.draw (.expo 50)
  let (recs, r2) := dtcLoop avail (expoLen e) r1 []
  ⟨some (.dtcs avail recs), [r0a.seg, r2.seg]⟩

/-- the handlers that do not touch the state: they see the session (through `stateful_rng`) and the request -/
def handler (c : Cfg) (w : World) (sess : Nat) : Request → Option Reply × List Segment
  | .ecuReset pdu rt => ecuReset c w sess pdu rt
  | .requestSeed t => requestSeed w t
  | .sendKey _ _ => (none, [])
  | .routineControl pdu rid sf => routineControl c w sess pdu rid sf
  | .readDataById pdu did => readDataById c w sess pdu did
  | .writeDataById pdu did => writeDataById c w sess pdu did
  | .ioControl pdu did => ioControl c w sess pdu did
  | .clearDTC g => clearDTC c w sess g
  | .reportDTCByStatusMask m => reportDTCByStatusMask c w sess m
  | .readDTCOther => (some (.neg sidReadDTC nrcSubFunctionNotSupported), [])
  | .other _ => (none, [])

/-- the seed texts a handler call can use, in order: a function of server seed, session and request alone -/
def plannedTexts (c : Cfg) (sess : Nat) : Request → List (Option String)
  | .ecuReset pdu _ => [some (seedText c.seed sess [pyBytesRepr pdu])]
  | .requestSeed _ => [none]
  | .sendKey .. => []
  | .routineControl pdu rid sf =>
    [some (seedText c.seed sess [toString sidRoutineControl, toString rid]),
     some (addSeed (seedText c.seed sess [toString sidRoutineControl, toString rid]) (toString sf)),
     some (seedText c.seed sess [pyBytesRepr pdu])]
  | .readDataById pdu _ => [some (seedText c.seed sess [pyBytesRepr pdu])]
  | .writeDataById pdu did => [some (seedText c.seed sess [toString sidWdbi, toString did]), some (seedText c.seed sess [pyBytesRepr pdu])]
  | .ioControl pdu did => [some (seedText c.seed sess [toString sidIoctl, toString did]), some (seedText c.seed sess [pyBytesRepr pdu])]
  | .clearDTC g => [some (seedText c.seed sess [toString sidClearDTC, toString g])]
  | .reportDTCByStatusMask m => [some (seedText c.seed sess []), some (seedText c.seed sess [toString sidReadDTC, toString m])]
  | .readDTCOther => []
  | .other _ => []

/-- `RandomUDSServer.respond_after_default` -/
def respondAfterDefault (c : Cfg) (w : World) (st : State) : Request → Out
  | .sendKey t key => sendKey st t key
  | req => let (r, tr) := handler c w st.session req; ⟨r, st, tr⟩

/-- the names of the handlers, as `respond_after_default` dispatches -/
def handlerName : Request → String
  | .ecuReset .. => "ecu_reset"
  | .requestSeed .. => "security_access"
  | .sendKey .. => "security_access"
  | .routineControl .. => "routine_control"
  | .readDataById .. => "read_data_by_identifier"
  | .writeDataById .. => "write_data_by_identifier"
  | .ioControl .. => "input_output_control_by_identifier"
  | .clearDTC .. => "clear_diagnostic_information"
  | .reportDTCByStatusMask .. => "read_dtc_information"
  | .readDTCOther => "read_dtc_information"
  | .other _ => "-"

/-! ### what the source shows (compared with the tables regenerated from the AST on every run, `Gen/C16Handlers.lean`)

The model above was written against exactly this code; a handler that creates another RNG object, seeds one from other
expressions, reads another global name (`random`, `time`, `os`, `id`, `hash`, ...) or another attribute of the server,
or a changed `stateful_rng` / `RNG` breaks the obligation `handler_rng_sources_agree` (and the harness names the handler). -/

/-- the handlers `respond_after_default` dispatches to -/
def declaredHandlers : List String := ["ecu_reset", "security_access", "routine_control", "read_data_by_identifier", "write_data_by_identifier", "input_output_control_by_identifier", "clear_diagnostic_information", "read_dtc_information"]
/-- per handler: every expression that creates or re-seeds an RNG object, in source order -/
def declaredSources : List (String × List String) := [
  ("ecu_reset", ["self.stateful_rng(request.pdu)"]),
  ("security_access", ["RNG()"]),
  ("routine_control", ["self.stateful_rng(request.service_id, request.routine_identifier)", "rng.add_seeds(request.sub_function)", "self.stateful_rng(request.pdu)"]),
  ("read_data_by_identifier", ["self.stateful_rng(request.pdu)"]),
  ("write_data_by_identifier", ["self.stateful_rng(request.service_id, request.data_identifier)", "self.stateful_rng(request.pdu)"]),
  ("input_output_control_by_identifier", ["self.stateful_rng(request.service_id, request.data_identifier)", "self.stateful_rng(request.pdu)"]),
  ("clear_diagnostic_information", ["self.stateful_rng(request.service_id, request.group_of_dtc)"]),
  ("read_dtc_information", ["self.stateful_rng()", "self.stateful_rng(request.service_id, request.dtc_status_mask)"])]
/-- per handler: every global name / attribute of `self` it reads -/
def declaredFreeNames : List (String × List String) := [
  ("ecu_reset", ["EcuResetSubFuncs", "self.stateful_rng", "service"]),
  ("security_access", ["AssertionError", "RNG", "UDSErrorCodes", "isinstance", "self.state", "service"]),
  ("routine_control", ["UDSErrorCodes", "self.randomness_parameters", "self.stateful_rng", "service"]),
  ("read_data_by_identifier", ["UDSErrorCodes", "self.randomness_parameters", "self.stateful_rng", "service"]),
  ("write_data_by_identifier", ["UDSErrorCodes", "self.randomness_parameters", "self.stateful_rng", "service"]),
  ("input_output_control_by_identifier", ["UDSErrorCodes", "self.randomness_parameters", "self.stateful_rng", "service"]),
  ("clear_diagnostic_information", ["UDSErrorCodes", "self.randomness_parameters", "self.stateful_rng", "service"]),
  ("read_dtc_information", ["UDSErrorCodes", "UDSIsoServices", "int", "isinstance", "range", "self.stateful_rng", "service"])]
/-- per handler: the methods called on its RNG objects, in source order -/
def declaredDrawCalls : List (String × List String) := [
  ("ecu_reset", ["randint"]),
  ("security_access", ["random_payload"]),
  ("routine_control", ["random_bool", "random_bool", "random_bool", "random_payload"]),
  ("read_data_by_identifier", ["random_bool", "random_payload"]),
  ("write_data_by_identifier", ["random_bool", "random_bool"]),
  ("input_output_control_by_identifier", ["random_bool", "random_bool", "random_payload"]),
  ("clear_diagnostic_information", ["random_bool"]),
  ("read_dtc_information", ["randint", "expovariate", "randint", "randint"])]
/-- the seeding code itself, and what the dispatcher / `update_state` / the state object read -/
def declaredTexts : List (String × String) := [
  ("stateful_rng", "def stateful_rng(self, *args: Any) -> RNG: return RNG(str(self.seed) + '|' + str(self.state.session) + '|'.join((str(arg) for arg in args)))"),
  ("RNG.__init__", "def __init__(self, *args: Any): super().__init__() self.seeds: list[Any] = [] self.set_seeds(*args)"),
  ("RNG.set_seeds", "def set_seeds(self, *args: Any) -> None: self.seeds = list(args) if len(self.seeds) == 0: self.seed() else: self.seed('|'.join((str(seed) for seed in self.seeds)))"),
  ("RNG.add_seeds", "def add_seeds(self, *args: Any) -> None: self.set_seeds(*self.seeds, *args)"),
  ("RNG.random_bool", "def random_bool(self, p_true: float) -> bool: return self.random() <= p_true"),
  ("RNG.random_payload", "def random_payload(self, min_len: int=0, max_len: int | None=None) -> bytes: byte_length = max(min_len, int(self.expovariate(1 / 8) + 0.5)) if max_len is not None: byte_length = min(max_len, byte_length) return bytes((self.randint(0, 255) for _ in range(byte_length)))"),
  ("free:RandomUDSServer.respond_after_default", "UDSIsoServices,isinstance,self.clear_diagnostic_information,self.ecu_reset,self.input_output_control_by_identifier,self.read_data_by_identifier,self.read_dtc_information,self.routine_control,self.security_access,self.write_data_by_identifier,service"),
  ("free:RandomUDSServer.update_state", "isinstance,self.state,service,super"),
  ("free:UDSServer.update_state", "isinstance,self.state,service"),
  ("free:RNGEcuState.__init__", "self.last_sa_response,service,super"),
  ("free:RNGEcuState.reset", "self.last_sa_response,super"),
  ("RNGEcuState.members", "__init__,reset"),
  ("RNG.bases", "random.Random"),
  ("RNG.members", "__init__,add_seeds,random_bool,random_payload,set_seeds")]
def declaredSids : List Nat :=
  [sidEcuReset, sidSecurityAccess, sidRoutineControl, sidRdbi, sidWdbi, sidIoctl, sidClearDTC, sidReadDTC]
def declaredNrcs : List Nat :=
  [nrcRequestOutOfRange, nrcSubFunctionNotSupported, nrcIncorrectFormat, nrcRequestSequenceError, nrcInvalidKey, nrcGeneralReject]

/-! ### one request, a history -/

def isSA : Reply → Option (Nat × List Nat)
  | .saSeed t sd => some (t, sd)
  | .saKey t => some (t, [])
  | _ => none

/-- `UDSServer.update_state` + `RandomUDSServer.update_state` on the parts of the state that are read -/
def updateState (st : State) (r : Reply) : State :=
  let st1 : State := match r with
    | .dsc s => { session := s, lastSA := none }
    | .ecuReset .. => { session := 1, lastSA := none }
    | _ => st
  match r with
  | .testerPresent => st1
  | _ => { st1 with lastSA := isSA r }

/-- `UDSServer.respond` of a `RandomUDSServer`.  `chain` is the default-response chain of `UDSServer` in front of the
    handlers (C13 / C14 model it): a function of the offered services, the session and the request.  `services` is the
    model `randomize` built. -/
structure Server where
  cfg : Cfg
  services : Randomize.Model
  chain : Randomize.Model → Nat → Request → Option Reply

/-- `default_response_if_none`: a request no handler answers gets generalReject -/
def finalReply (req : Request) : Option Reply → Reply
  | some r => r
  | none => .neg (match req with | .other sid => sid | _ => 0) nrcGeneralReject

def respond (s : Server) (w : World) (st : State) (req : Request) : Reply × State × List Segment :=
  match s.chain s.services st.session req with
  | some r => (r, updateState st r, [])
  | none =>
    let o := respondAfterDefault s.cfg w st req
    let r := finalReply req o.reply
    (r, updateState o.st r, o.trace)

/-- the answer with the deliberately fresh content masked (`67 <odd> *` in the transcripts) -/
def mask : Reply → Reply
  | .saSeed t _ => .saSeed t []
  | r => r

/-- per-request worlds: the seeded oracle is one function for the whole run (Mersenne Twister is a function of the
    seed text), `fresh` and `ambient` may be anything at every request -/
structure Env where
  rngOf : String → DrawStream
  fresh : Nat → DrawStream
  ambient : Nat → DrawStream

def Env.at (e : Env) (i : Nat) : World := ⟨e.rngOf, e.fresh i, e.ambient i⟩

/-- the masked answers to a request history from state `st`, request numbers from `i` -/
def runFrom (s : Server) (e : Env) : Nat → State → List Request → List Reply × State
  | _, st, [] => ([], st)
  | i, st, req :: rest =>
    let (a, st1, _) := respond s (e.at i) st req
    let (as, st2) := runFrom s e (i + 1) st1 rest
    (mask a :: as, st2)

/-- a freshly started virtual ECU (default session, nothing pending) answering a history -/
def run (s : Server) (e : Env) (h : List Request) : List Reply × State := runFrom s e 0 {} h

/-- the virtual ECU of a seed: model from `randomize` over the streams of `random.Random(str(seed))`, handlers over
    the same seed -/
def serverOf (seed : Int) (p : Randomize.Params) (hp : HParams)
    (modelDraws : String → Nat → Bool) (modelChoice : String → Nat → Nat)
    (chain : Randomize.Model → Nat → Request → Option Reply) : Server :=
  ⟨⟨seed, hp⟩, Randomize.randomize p (modelDraws (toString seed)) (modelChoice (toString seed)), chain⟩

/-- which part of the history a request's answer can depend on -/
inductive Dep
  /-- server seed, session, request: nothing else (every handler seeded through `stateful_rng`) -/
  | sessionOnly
  /-- additionally the pending security-access answer (SendKey) -/
  | pendingSeed
  /-- deliberately fresh (RequestSeed) -/
  | fresh
deriving DecidableEq, Repr

def depOf : Request → Dep
  | .sendKey .. => .pendingSeed
  | .requestSeed .. => .fresh
  | _ => .sessionOnly

end Gallia.VEcuRng
